#!/bin/sh
# Build the framework from files on disk only (offline).
set -e
cd "$(dirname "$0")"
export CARGO_NET_OFFLINE=true
python3 tools/extract.py
python3 tools/rs2lean.py > /dev/null
(cd lean/Engeom && lake build Engeom driver $(ls Engeom/Props/*.lean | sed 's/\.lean$//; s/\//./g'))
(cd harness && cargo build --release --offline)
