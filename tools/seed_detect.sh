#!/bin/sh
# usage: seed_detect.sh <PROP> <seed-dir>  — applies the seeded patch to /repo, runs the quick check, reverts.
P=$1; D=$2
cd /repo || exit 2
git diff --quiet || { echo "/repo dirty"; exit 2; }
git apply "$D/patch.diff" || { echo "patch does not apply"; exit 3; }
cd /verif && ./check $P --tier quick > "$D/check_output.txt" 2>&1
rc=$?
cd /repo && git checkout -- . 
echo "rc=$rc"; grep -c "^VIOLATION" "$D/check_output.txt"; tail -1 "$D/check_output.txt" | cut -c1-250
