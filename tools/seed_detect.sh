#!/bin/sh
# usage: seed_detect.sh <PROP> <seed-dir>  — applies the seeded patch to /repo, runs the quick check, reverts.
# The evidence file and the replays of the property are put back afterwards: evidence committed in /verif must
# come from the unchanged tree.
P=$1; D=$2
cd /repo || exit 2
git diff --quiet || { echo "/repo dirty"; exit 2; }
git apply "$D/patch.diff" || { echo "patch does not apply"; exit 3; }
cp /verif/evidence/$P.json /tmp/evidence_$P.bak 2>/dev/null
cd /verif && ./check $P --tier quick > "$D/check_output.txt" 2>&1
rc=$?
for f in /verif/replays/$P-1-0.json /verif/replays/$P-1-tie.json /verif/replays/$P-1-build.json; do [ -f $f ] && { cp $f "$D/replay_example.json"; break; }; done
cp /tmp/evidence_$P.bak /verif/evidence/$P.json 2>/dev/null
cd /repo && git checkout -- . 
# the files regenerated from the source are tracked: bring them back to the unchanged tree
(cd /verif && python3 tools/extract.py > /dev/null 2>&1; python3 tools/rs2lean.py > /dev/null 2>&1)
echo "rc=$rc"; grep -c "^VIOLATION" "$D/check_output.txt"; tail -1 "$D/check_output.txt" | cut -c1-250
