#!/bin/sh
# runs inside a `vp run --with-repo` snapshot: applies every seeded change that still applies to the repo
# snapshot, runs the quick check of its property (or of the property named by meta.json
# "reported_by_check"), reverts; prints one line per seed.
sed -i "s|path = \"/repo\"|path = \"$VP_RUN_REPO\"|" harness/Cargo.toml
export VERIF_REPO=$VP_RUN_REPO
./setup.sh > setup.log 2>&1 || { echo SETUP-FAILED; tail -20 setup.log; exit 1; }
for d in seeded/*/; do
  s=$(basename $d); p=${s%-*}
  git -C $VP_RUN_REPO apply --check $PWD/$d/patch.diff 2>/dev/null || { echo "$s does-not-apply"; continue; }
  git -C $VP_RUN_REPO apply $PWD/$d/patch.diff
  # the check that is expected to report the change: the seed's own property unless meta.json names another
  # property anchoring the same file ("reported_by_check")
  q=$(python3 -c "import json,sys; print(json.load(open('$d/meta.json')).get('reported_by_check','$p'))" 2>/dev/null || echo $p)
  ./check $q --tier quick > out.log 2>&1; rc=$?
  git -C $VP_RUN_REPO checkout -- .
  echo "$s rc=$rc $(grep -c '^VIOLATION' out.log) $(grep '^VIOLATION' out.log | head -1 | grep -c no-failing-input-found)nf | $(tail -1 out.log | cut -c1-160)"
done
echo ALL-DONE
