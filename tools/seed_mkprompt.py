#!/usr/bin/env python3
"""usage: seed_mkprompt.py <PROP> <worktree> [avoid text]  — prints the sub-agent prompt (property text only)."""
import json, os, sys
root = os.path.dirname(os.path.dirname(os.path.abspath(__file__)))
pid, wt = sys.argv[1], sys.argv[2]
avoid = sys.argv[3] if len(sys.argv) > 3 else ""
for l in open(os.path.join(root, "properties.jsonl")):
    d = json.loads(l)
    if d["id"] == pid:
        break
t = open(os.path.join(root, "tools", "seed_prompt.md")).read()
if avoid:
    avoid = "\nAn earlier, different exercise already used this site, so choose another one: " + avoid + "\n"
print(t.replace("{WT}", wt).replace("{ID}", pid).replace("{TITLE}", d["title"]).replace("{STATEMENT}", d["statement"]).replace("{AVOID}", avoid))
