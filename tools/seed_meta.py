#!/usr/bin/env python3
"""usage: seed_meta.py <seed-id> <change> <needs> <detection> [strengthened]  — writes seeded/<id>/meta.json"""
import json, os, re, sys
root = os.path.dirname(os.path.dirname(os.path.abspath(__file__)))
sid, change, needs, detection = sys.argv[1:5]
d = os.path.join(root, "seeded", sid)
ver = json.load(open(os.path.join(d, "verify.json")))
out = open(os.path.join(d, "check_output.txt")).read()
viol = [l for l in out.splitlines() if l.startswith("VIOLATION")]
meta = {
    "property": sid.split("-")[0],
    "source": "independent sub-agent given only the property text and a scratch worktree",
    "change": change,
    "needs_to_manifest": needs,
    "confirmed": {"existing_suite_with_change": ver["suite_with_change"], "demo_with_change": ver["demo_with_change"],
                  "demo_without_change": ver["demo_without_change"], "note": "re-run by tools/seed_verify.sh in the scratch worktree"},
    "detected_by_quick_check": bool(viol),
    "detection": detection,
    "violation_lines": viol[:5],
    "ran": ["tools/seed_process.sh (seed_verify.sh in the worktree)", "tools/seed_detect.sh (git apply to /repo, ./check quick, git checkout -- .)"],
}
if len(sys.argv) > 5:
    meta["check_strengthened"] = sys.argv[5]
json.dump(meta, open(os.path.join(d, "meta.json"), "w"), indent=1)
print(sid, "detected" if viol else "MISSED")
