#!/bin/sh
# runs inside a `vp run --with-repo` snapshot: build against the repo snapshot, then the mutation sweep
sed -i "s|path = \"/repo\"|path = \"$VP_RUN_REPO\"|" harness/Cargo.toml
export VERIF_REPO=$VP_RUN_REPO
./setup.sh > setup.log 2>&1 || { echo SETUP-FAILED; tail -20 setup.log; exit 1; }
python3 tools/mutate.py "${1:-1}" "${2:-6}" $3 $4 $5 $6 $7 $8 $9
