#!/bin/sh
# runs inside a vp-run snapshot: build everything against the repo snapshot, then sweep
sed -i "s|path = \"/repo\"|path = \"$VP_RUN_REPO\"|" harness/Cargo.toml
export VERIF_REPO=$VP_RUN_REPO
./setup.sh > setup.log 2>&1 || { echo SETUP-FAILED; tail -20 setup.log; exit 1; }
for sd in 5 6 7 8 9 10 11 12; do
  for p in C01 C02 C03 C04 C05 C06 C07 C08 C09 C10 C11 C12 C13 C14 C15 C16 C17 C18 C19 C20; do
    ./check $p --tier quick --seed $sd > out.log 2>&1; rc=$?
    if [ $rc -ne 0 ]; then echo "seed $sd $p rc=$rc"; grep VIOLATION out.log | head -3; cp replays/$p-$sd-0.json keep_$p-$sd.json 2>/dev/null; fi
  done
  echo "seed $sd done"
done
for p in C01 C02 C03 C04 C05 C06 C07 C08 C09 C10 C11 C12 C13 C14 C15 C16 C17 C18 C19 C20; do
  /usr/bin/time -f "$p thorough %es" ./check $p --tier thorough > out.log 2>&1; rc=$?
  tail -1 out.log | cut -c1-200
  if [ $rc -ne 0 ]; then echo "THOROUGH $p rc=$rc"; grep VIOLATION out.log | head -3; cp replays/$p-1-0.json keepT_$p.json 2>/dev/null; fi
done
echo ALL-DONE
