#!/bin/sh
# usage: seed_process.sh <PROP> <N>   — verify the seeded change left in /tmp/wt_<PROP> and store it as seeded/<PROP>-<N>/
P=$1; N=$2; W=/tmp/wt_$P; D=/verif/seeded/$P-$N
[ -f "$W/_seed/demo.rs" ] || { echo "no demo in $W/_seed"; exit 2; }
rm -f "$W/tests/demo_seed.rs"
/verif/tools/seed_verify.sh $P $W > /tmp/seed_verify_$P.log 2>&1
mkdir -p $D
(cd $W && git diff -- src) > $D/patch.diff
cp $W/_seed/demo.rs $D/demo.rs
cp $W/_seed/notes.md $D/notes.md 2>/dev/null
cp $W/_seed/verify.json $D/verify.json
cat $D/verify.json
