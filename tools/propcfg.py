"""Per-property configuration of ./check (case counts, tolerances, notes for the evidence)."""

TRUSTED_BASE = [
    "Lean 4.33 kernel (thorough tier: re-checked by leanchecker)",
    "axioms allowed: propext, Classical.choice, Quot.sound (audited per theorem with #print axioms on every run)",
    "Mathlib v4.33 modules imported by Engeom/Props and Engeom/Lemmas",
    "hand-written Lean model of the Rust code, tied to /repo by the correspondence run of this check (sampled, with tolerance) and by constants/tables regenerated from the source (tools/extract.py)",
    "theorems are over exact (real / ordered-field) arithmetic; f64 rounding is not analysed, it is validated per run by evaluating the property's clauses on the implementation's results",
    "Rust harness /verif/harness (generators, oracles), comparator and tolerance table in ./check, Lean compiler + libm executing the model at Float",
]

ASSUMPTIONS = [
    "model hand-written; tie = correspondence run + regenerated constants",
    "theorems over exact arithmetic; f64 rounding not analysed",
]

HOOK_COMMITS = ["aa112f6", "48cb0fd"]
FIX_COMMITS = ["536bdea", "2163003", "086d718", "eebbb00", "ae8746e", "813750d", "4dcfce1", "affca7a", "6634824", "7638f19", "8a1300b", "fe98d51", "caf36c4", "e4b64f7", "0c686df", "48a484d", "a33ca28", "1d2c9d7", "159b1e5", "a12e15f", "efcde62", "04ea757", "0a7b67b", "2e663c7", "560e91b"]
NOT_YET = {}

CFG = {
    "C01": {
        "cases": {"quick": 1600, "thorough": 160000},
        "level_text": "Theorems (ℝ) about the generic polyline model (2-D and 3-D): cumulative lengths start at 0, are non-decreasing and end at the sum of edge lengths; at_length yields no station exactly outside [0,L]; the returned station reports length-along = l, its index/fraction reproduce its point by linear interpolation, direction unit and parallel to the edge. Model tied to the Rust by a differential run with the implementation's own vertices/lengths injected.",
        "level_note": "Trusted: Lean kernel, Mathlib, hand-written model validated by the correspondence run (binary search modelled by its contract); rounding not analysed.",
        "files": ["src/geom2/curve2.rs", "src/geom3/curve3.rs"],
        "tol": {"*": 1e-9},
    },
    "C02": {
        "cases": {"quick": 320, "thorough": 32000},
        "level_text": "Theorems (every ordered field, squared distances): the clamped projection is the closest point of a segment; the exhaustive scan returns the minimum over every point of every edge; a point of a triangle satisfying the vertex certificate is the global closest point of that triangle; cap equivalence. This proves the SPECIFICATION (exhaustive scan); parry's bounding-volume search is external and is compared with the specification on every run (long thin, nested, nearly coincident and many-element entities, ties on exact grids).",
        "level_note": "Partial: parry's pruning is compared, not proved; interior points of solid meshes are outside the property's quantifier and are not judged. Trusted: Lean kernel, Mathlib, hand-written model validated by the correspondence run; rounding not analysed.",
        "files": ["src/geom2/curve2.rs", "src/geom3/curve3.rs", "src/geom3/mesh/queries.rs", "src/geom3/mesh/measurement.rs"],
        "tol": {"*": 1e-9},
        "extra_tier": {"thorough": ["--thorough"]},
    },
    "C03": {
        "cases": {"quick": 1600, "thorough": 160000},
        "level_text": "Theorems (every ordered field, for every rotation matrix RᵀR = I) about the model of rigid motions: distances and dot products preserved, scalar projection / plane signed distance invariant, projections commute, inverse restores, composition = sequence (2-D and 3-D). Metamorphic checks of every public transform API against the model and against each other on every run.",
        "level_note": "Trusted: Lean kernel, Mathlib, hand-written model validated by the correspondence run; nalgebra Isometry arithmetic and parry closest-point are compared, not proved; rounding not analysed.",
        "files": ["src/common/surface_point.rs", "src/common/points.rs", "src/geom2.rs", "src/geom3.rs", "src/geom3/plane3.rs", "src/geom3/point_cloud.rs", "src/geom2/line2.rs", "src/metrology.rs", "src/common/convert_2d_3d.rs"],
        "tol": {"*": 1e-9, "xform.apply3": 1e-8, "xform.apply2": 1e-8, "xform.sp3": 1e-8, "xform.plane": 1e-8},
    },
    "C04": {
        "cases": {"quick": 3200, "thorough": 320000},
        "level_text": "Theorems about the model of between_lengths: ill-posed requests yield nothing (decision logic stated outright), the walk stays within its fuel bound, telescoping of length-along over one edge; reversal; control-point precedence. Model (the Rust loop ported statement by statement, incl. the operator precedence of the control variant) tied to the Rust by a differential run with vertex-exact, seam, same-edge, last-edge and tol-apart requests and nested histories.",
        "level_note": "Trusted: Lean kernel, Mathlib, hand-written model validated by the correspondence run; the 6*tol length bound of the oracle is argued in DESIGN.md, not proved; rounding not analysed.",
        "files": ["src/geom2/curve2.rs", "src/airfoil/helpers.rs"],
        "tol": {"*": 1e-9},
    },
    "C05": {
        "cases": {"quick": 1600, "thorough": 160000},
        "level_text": "Theorems (ℝ) about the position lists of the three resampling modes (first 0, last L, all inside [0,L]; max-spacing count gives spacing ≤ max; spacing mode centred with margins < spacing), the segment-distance used by Ramer-Douglas-Peucker (line-distance counter-example = pre-fix witness), RDP keeps ends and a subsequence, gap counts. Model tied to the Rust by a differential run (2-D and 3-D curves, closed rings, lengths 1e-2..1e3).",
        "level_note": "Trusted: Lean kernel, Mathlib, hand-written model validated by the correspondence run; rounding not analysed.",
        "files": ["src/geom2/curve2.rs", "src/geom3/curve3.rs", "src/common/points.rs"],
        "tol": {"*": 1e-9, "curve.resample": 1e-7},
    },
    "C06": {
        "cases": {"quick": 480, "thorough": 48000},
        "level_text": "Theorems (every ordered field) about the model: intersection_param is sound and unique and refuses exactly the near-parallel pairs; an edge hit lies on its edge; the engeom-written slab test never prunes a box the line meets (negative parameters and zero direction components included); the specification list is sorted; spanning ray iff two crossings. polyline_intersections (BVH traversal) is compared with the per-edge specification on every run; the private SIMD slab test is compared lane 0 with its scalar model through a hook.",
        "level_note": "Trusted: Lean kernel, Mathlib, hand-written model validated by the correspondence run; parry QBVH box containment assumed (node boxes contain their children); rounding not analysed.",
        "files": ["src/geom2/polyline2.rs", "src/geom2/line2.rs", "src/geom2/curve2.rs"],
        "tol": {"*": 1e-9, "ray.intersections": 1e-7, "ray.param": 1e-6},
    },
    "C07": {
        "cases": {"quick": 1600, "thorough": 80000},
        "level_text": "Theorems: the alignment problem as a state machine (set_params refreshes the moved/closest caches; residuals and jacobian only read them) keeps params and caches consistent after every sequence of solver calls, so the residual vector of the final state is, entry by entry, the mode-specific distance of the input point moved by the final transform (2-D signed normal distance; 3-D ToPoint / ToPlane); the stale-cache variant is refuted; a solver that only accepts improving trials never ends above its starting objective; the point-to-plane and point-to-point residuals are invariant when points and reference move together. The real structs are driven through the same call sequences (random ones and the solver's own recorded history) and compared with the model, whose closest-point query is the exhaustive scan of C02.",
        "level_note": "Trusted: Lean kernel, Mathlib, hand-written model validated by the correspondence run (hook: feature verif exposes the private problem structs and the solver's call trace); the Levenberg-Marquardt crate is external (its acceptance bookkeeping is modelled and checked against the recorded trace; convergence inside the basin is observed, not proved); rounding not analysed.",
        "files": ["src/geom2/align2/points_to_curve.rs", "src/geom3/align3/points_to_mesh.rs", "src/common/align.rs", "src/geom2/align2/rc_params2.rs"],
        "tol": {"*": 1e-8},
        "trusted": ["external: levenberg-marquardt 0.14 (trial/accept history recorded through the verif hook and replayed on the model), parry closest-point queries (see C02)"],
    },
    "C08": {
        "cases": {"quick": 4800, "thorough": 480000},
        "level_text": "Theorems (ℝ): the rotation-centred parameter objects reproduce the initial isometry (2-D outright; 3-D given the Euler round trip, which is proved for every Euler triple away from and exactly at gimbal lock), keep inverse and moved centre consistent after every update, and a pure-translation update translates; the Euler derivative matrices (skew matrices REGENERATED from the source) are the entrywise derivatives of Rx·Ry·Rz (HasDerivAt); the 2-D Jacobian row is the derivative of the scalar projection. Analytic Jacobians are also compared with central finite differences of the implementation's own residuals on every run.",
        "level_note": "Trusted: Lean kernel, Mathlib, hand-written model validated by the correspondence run; nalgebra quaternion/Euler conversions are compared, not proved; rounding not analysed.",
        "files": ["src/geom2/align2.rs", "src/geom2/align2/rc_params2.rs", "src/geom2/align2/jacobian.rs", "src/geom3/align3.rs", "src/geom3/align3/rotations.rs", "src/geom3/align3/jacobian.rs", "src/geom3/align3/multi_param.rs"],
        "tol": {"*": 1e-8, "param.wpr": 1e-6, "jac.row3": 1e-7},
    },
    "C09": {
        "cases": {"quick": 800, "thorough": 80000},
        "level_text": "Theorems (every ordered field): the power sums the code accumulates (loop bound REGENERATED from the source) are complete; any solution of the normal equations makes the weighted residual orthogonal to every monomial and therefore minimises the weighted sum of squares over ALL coefficient vectors; exact data satisfy the normal equations; the series best-fit line solves the degree-1 normal equations. The implementation's coefficients are substituted into the model's normal equations on every run; circle fit / RANSAC clauses are validated per result (partial).",
        "level_note": "Trusted: Lean kernel, Mathlib, hand-written model validated by the correspondence run; nalgebra try_inverse, the Levenberg-Marquardt driver and the seeded RANSAC draws are external (convergence observed, not proved); rounding not analysed.",
        "files": ["src/func1/polynomial.rs", "src/func1/common_functions.rs", "src/func1/series1.rs", "src/geom2/circle2.rs", "src/stats.rs"],
        "tol": {"*": 1e-9, "fit.poly": 1e-4, "fit.line": 1e-6},
    },
    "C10": {
        "cases": {"quick": 3200, "thorough": 160000},
        "level_text": "Theorems about the logic core: OrientedCircles (push/last/take with the front flag) keeps all spanning rays in one sense, `last` is always the most recent push and the list is the push order seen from the working end; reverse_inscribed_circles is an involution that preserves those invariants; the bisection of inscribed_from_spanning_ray halves its bracket on every pass, keeps it inside the ray and stops within tol after a proved number of passes; advance_search_along_ray tries at most six fractions; the contact points of the generated envelope sections are one radius from the camber point. The geometric guarantees (inscribed circles, monotone stations, edge points, faces, recovery of the known medial axis, invariance, termination) are decided per case by the oracle on the implementation's results for a parametric family x every edge method x orientation modes.",
        "level_note": "Partial: the searches that make up the analysis (spanning rays, closest points, curvature plateaus, circle fits, RANSAC) are numerical procedures whose success on every input is observed by the oracle, not proved; the model covers the container/bisection/stepping logic. Trusted: Lean kernel, Mathlib, hand-written model validated by the correspondence run; rounding not analysed.",
        "files": ["src/airfoil.rs", "src/airfoil/camber.rs", "src/airfoil/helpers.rs", "src/airfoil/edges.rs", "src/airfoil/orientation.rs", "src/airfoil/inscribed_circle.rs"],
        "tol": {"*": 1e-9, "airfoil.bisect": 1e-6},
        "extra_tier": {"thorough": ["--thorough"]},
        "trusted": ["external: parry closest-point / ray queries, the circle fits of C09"],
    },
    "C11": {
        "cases": {"quick": 1600, "thorough": 160000},
        "level_text": "Theorems (ℝ) about the model: circle-circle intersections lie on both circles and their number matches the configuration (none for separate / nested / concentric, finite always); tangent points lie on the circle with the tangent perpendicular to the radius for every d > r (acos), with the asin counter-example as pre-fix witness; line-circle points lie on both; the three-point circle is equidistant from its points; circle bounding box tight. Arc bounding boxes and sweep clauses validated by dense sampling. Model tied to the Rust by a differential run with exact-grid tangencies.",
        "level_note": "Trusted: Lean kernel, Mathlib, hand-written model validated by the correspondence run; arc-box containment/tightness and the sweep-sign clauses are validated, not proved (partial); rounding not analysed.",
        "files": ["src/geom2/circle2.rs", "src/geom2/aabb2.rs", "src/geom2/line2.rs", "src/geom2/angles2.rs"],
        "tol": {"*": 1e-9, "circle.cc": 1e-6, "circle.segment": 1e-6, "circle.three": 1e-7, "circle.tangent": 1e-6},
    },
    "C12": {
        "cases": {"quick": 1600, "thorough": 160000},
        "level_text": "Theorems (pure combinatorics, for every list order = every hash-iteration order) about the model: edge table lists each undirected edge once with its count; boundary walk consumes every boundary edge exactly once and never runs out of fuel; flood fill (patches, voxel clusters) yields an exact partition within a linear fuel bound; box table closed/oriented (decide over the regenerated table), cylinder winding. Model tied to the Rust by exhaustive small face lists + random meshes on every check.",
        "level_note": "Trusted: Lean kernel, hand-written model validated by the correspondence run (HashMap/HashSet modelled as lists with free order; patches modelled at face level); edge lengths compared numerically.",
        "files": ["src/geom3/mesh/edges.rs", "src/geom3/mesh/patches.rs", "src/geom3/mesh.rs", "src/raster3.rs", "src/common/indices.rs"],
        "tol": {"*": 1e-9},
        "extra_tier": {"thorough": ["--thorough"]},
        "exhaustive": {"quick": "all face lists of 1..3 oriented triangles over 4 vertices (14424 lists), each under fresh hash seeds, plus random meshes",
                       "thorough": "all face lists of 1..4 triangles over 4 vertices and 1..3 over 5 vertices, plus random meshes"},
    },
    "C13": {
        "cases": {"quick": 1600, "thorough": 80000},
        "level_text": "Theorems: chained_indices (exact model of the loop) uses every input pair exactly once as a consecutive pair of exactly one chain, for every input and with a fuel bound proved sufficient; the edge-plane crossing point lies on the plane and strictly inside the edge when the ends are on opposite sides, and commutes with rigid motions; the crossing segment of a face has both ends on the plane and on edges of that face; cutting a triangle at edge points conserves its vector area. parry's plane-mesh intersection and split are external: the section of every case is compared with the face-crossing specification (segments, total length, loop count) on every run.",
        "level_note": "Trusted: Lean kernel, Mathlib, hand-written model validated by the correspondence run; parry3d intersection_with_local_plane / local_split are external (compared with the specification per case); rounding not analysed.",
        "files": ["src/geom3/mesh/queries.rs", "src/common/indices.rs", "src/geom3/plane3.rs"],
        "tol": {"*": 1e-9, "section.mesh": 1e-8},
        "extra_tier": {"thorough": ["--thorough"]},
        "trusted": ["external: parry3d-f64 0.18 TriMesh::intersection_with_local_plane and local_split (outputs compared with the per-face crossing specification on every case)"],
    },
    "C14": {
        "cases": {"quick": 480, "thorough": 48000},
        "level_text": "Refinement theorems: the TriangleFilter model (HashSet as list, any order) refines finite-set algebra for Add/Remove/Keep over a pure per-face predicate; the MeshNearCheck memo is transparent (memoised = un-memoised, for every evaluation order), with the pre-fix memo kept as an order-dependence witness; create_from_indices is faithful. Model tied to the Rust by chains of 1-6 steps repeated under fresh hash seeds.",
        "level_note": "Trusted: Lean kernel, hand-written model validated by the correspondence run; the geometric per-vertex/per-face tests are parameters of the model (supplied by the harness from parry projection = C02's subject).",
        "files": ["src/geom3/mesh/filtering.rs", "src/common.rs"],
        "tol": {"*": 1e-9},
        "extra_tier": {"thorough": ["--thorough"]},
    },
    "C15": {
        "cases": {"quick": 800, "thorough": 80000},
        "level_text": "Theorems: the Poisson-disk sweep returns a subset in which no two kept points cover each other and every working point is covered by a kept one (for every visiting order); brute-force nearest is minimal; the partial tree's index remap returns the original index of the same point; barycentric sample weights are non-negative and sum to one; the cumulative-area pick selects face i exactly on its interval. kiddo and parry's hull are external: compared with brute force on every run (ties, duplicates, grids).",
        "level_note": "Partial: k-d tree and convex hull are compared, not proved; uniform-sampling proportionality is a statistical test (6 sigma band). Trusted: Lean kernel, Mathlib, hand-written model validated by the correspondence run.",
        "files": ["src/common/kd_tree.rs", "src/common/poisson_disk.rs", "src/geom3/mesh/sampling.rs", "src/geom2/hull.rs", "src/geom3/point_cloud.rs"],
        "tol": {"*": 1e-9},
    },
    "C16": {
        "cases": {"quick": 1600, "thorough": 160000},
        "level_text": "Theorems about the model: deviation magnitude/sign/reconstruction (ℝ), Distance value/reversal, DevSet cached-extreme invariant for every new/push history, point-cloud length invariant for every history incl. rejected operations, tolerance-map = greatest breakpoint not above x. Model tied to the Rust by a differential run on every check.",
        "level_note": "Trusted: Lean kernel, Mathlib, hand-written model validated by the correspondence run; closest point taken from the implementation (C02); rounding not analysed.",
        "files": ["src/metrology/line_profiles.rs", "src/geom3/mesh/measurement.rs", "src/metrology/dimension.rs", "src/metrology/surface_deviation.rs", "src/geom3/point_cloud.rs", "src/metrology/tolerance_map.rs", "src/common/discrete_domain.rs"],
        "tol": {"*": 1e-9},
    },
    "C17": {
        "cases": {"quick": 8000, "thorough": 800000},
        "level_text": "Theorems (every ordered field) about the model of discrete domains and series: every constructor/derivation yields sorted abscissae or an error; interpolation returns knots/blends/nothing outside; slices end exactly at the bounds. Model tied to the Rust by a differential run on every check.",
        "level_note": "Trusted: Lean kernel, Mathlib, hand-written model validated by the correspondence run (binary searches modelled by their contract); rounding not analysed.",
        "files": ["src/common/discrete_domain.rs", "src/common/vec_f64.rs", "src/func1/series1.rs"],
        "tol": {"*": 1e-9},
    },
    "C19": {
        "cases": {"quick": 3200, "thorough": 320000},
        "level_text": "Theorems (ℝ): each of the six two-vector constructors, interpreted from the recipe table regenerated from iso3.rs, yields orthonormal columns with e0×e1=e2, primary column = normalised first argument, secondary column on the second argument's side, and fails exactly when the first argument or the cross product is below the regenerated threshold (in particular for zero / parallel input); means are affine-equivariant and weight-scale invariant; under the contract assumed of the external SVD (orthonormal rows diagonalising the Gram form, checked on every run) σ²/n is the variance along each axis, to/from-basis round-trips, the contract is preserved by rigid motions and uniform weight scaling, and rank drops for coincident/collinear/planar sets; plane constructions contain their defining points, projections lie on the plane, inversion flips the sign.",
        "level_note": "Trusted: Lean kernel, Mathlib, the recipe extractor, hand-written model validated by the correspondence run; nalgebra SVD and quaternion-from-matrix are external (contract evaluated per case, not proved); rounding not analysed.",
        "files": ["src/common/svd_basis.rs", "src/geom3/iso3.rs", "src/geom3/plane3.rs", "src/common/points.rs"],
        "tol": {"*": 1e-9, "frame.make": 1e-8, "frame.xyo": 1e-8},
        "trusted": ["external: nalgebra SVD (its result is an input of the model; the assumed contract is evaluated on every case), UnitQuaternion::from_matrix (modelled as the identity on orthonormal right-handed column matrices)"],
    },
    "C18": {
        "cases": {"quick": 16000, "thorough": 1600000},
        "level_text": "Theorems (ℝ / every ordered field) about the model of the angle and interval functions: ranges, congruence mod 2π, interval set semantics; the model is tied to the Rust by a differential run (incl. bit-exact fmod) on every check.",
        "level_note": "Trusted: Lean kernel, Mathlib, hand-written model validated by the correspondence run; rounding not analysed; libm.",
        "files": ["src/common/angles.rs", "src/geom2/angles2.rs", "src/common/interval.rs"],
        "tol": {"*": 1e-9},
        "trusted": ["external: libm sin/cos/atan2 on both sides (compared with tolerance); Rust `%` vs the driver's exact fmod compared bit for bit"],
    },
}
