#!/usr/bin/env python3
"""Regenerates MANIFEST.json from tools/propcfg.py (claimed properties) — keeps it schema-valid."""
import json, os, sys
ROOT = os.path.join(os.path.dirname(os.path.abspath(__file__)), "..")
sys.path.insert(0, os.path.dirname(os.path.abspath(__file__)))
import propcfg
import rs2lean_spec
ALL = [f"C{i:02d}" for i in range(1, 21)]
checks = []
for pid in ALL:
    c = propcfg.CFG.get(pid)
    if not c or not c.get("claimed", True):
        continue
    checks.append({
        "property_id": pid,
        "quick_cmd": f"./check {pid} --tier quick",
        "thorough_cmd": f"./check {pid} --tier thorough",
        "evidence_file": f"/verif/evidence/{pid}.json",
        "replay_cmd_template": f"./check {pid} --replay {{path}}",
        "engine": "lean-proof+correspondence",
        "level_claimed": {"category": "proof", "text": c["level_text"], "design_ref": f"DESIGN.md §6 {pid}"},
        "level_note": c["level_note"],
        "technique": c.get("technique", "Lean 4 theorems about a hand-written model; model tied to the source on every run by " + (
            f"(a) a Rust-to-Lean translator (tools/rs2lean.py) whose regenerated definitions of {len(rs2lean_spec.SPEC[pid]['fns'])} function(s) are proved equal to the model (Props/{pid}T.lean) and (b) "
            if pid in rs2lean_spec.SPEC else "") + "a differential correspondence run against the Rust implementation"),
    })
na = [{"property_id": p, "reason": propcfg.NOT_YET.get(p, "check not built yet (work in progress; see DESIGN.md §7.4 for the order)")}
      for p in ALL if p not in [c["property_id"] for c in checks]]
m = {
    "version": 1,
    "setup_cmd": "./setup.sh",
    "hooks": {
        "guard": "cargo feature `verif`",
        "enable": "harness/Cargo.toml depends on engeom = { path = \"/repo\", features = [\"verif\"] }",
        "baseline_off_cmd": "cd /repo && cargo test --workspace --no-fail-fast --offline",
        "source_commits": propcfg.HOOK_COMMITS,
        "add_only": True,
    },
    "engines": [{"name": "lean-proof+correspondence", "path": "/verif/check",
                 "serves_properties": [c["property_id"] for c in checks],
                 "kind_free_text": "Lean 4.33 theorems (lean/Engeom/Engeom/Props) about a polymorphic hand-written model (Model/), executed at Float by a compiled driver and compared with the real crate by the Rust harness (harness/); constants and tables regenerated from source (tools/extract.py); scalar functions re-translated from source (tools/rs2lean.py) and proved equal to the model (Props/*T.lean)"}],
    "checks": checks,
    "notes": "See DESIGN.md. Known findings: KNOWN_FINDINGS.txt.",
    "not_applicable": na,
}
json.dump(m, open(os.path.join(ROOT, "MANIFEST.json"), "w"), indent=1)
print("claimed:", [c["property_id"] for c in checks])
