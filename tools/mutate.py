#!/usr/bin/env python3
"""Mechanical mutation sweep (complements the seeded changes written by sub-agents).

usage (inside a `vp run --with-repo` snapshot, after tools/sweep-style setup):
    tools/mutate.py <seed> <number of surviving mutants to examine> [PROP ...]

For every property the anchored source files (tools/propcfg.py "files") are mutated one token at a time
(comparison and arithmetic operators flipped, numeric literals scaled or shifted, `min`/`max`, `0`/`1`
indices, boolean connectives); a mutant that still compiles and passes the crate's own test suite is run
through the property's quick check.  Prints one line per mutant:  killed-by-tests / detected / MISSED.
Survivors need a human look: some are equivalent mutants (the property still holds).
"""
import os, random, re, subprocess, sys

ROOT = os.path.dirname(os.path.dirname(os.path.abspath(__file__)))
sys.path.insert(0, os.path.join(ROOT, "tools"))
import propcfg

REPO = os.environ.get("VP_RUN_REPO") or os.environ.get("VERIF_REPO") or "/repo"
assert REPO != "/repo", "mutants are never applied to /repo itself: run inside `vp run --with-repo`"

RULES = [
    (r"(?<![<>=!-])<=(?!=)", "<"), (r"(?<![<>=!-])<(?![=<])", "<="), (r"(?<![<>=!-])>=(?!=)", ">"), (r"(?<![<>=!-])>(?![=>])", ">="),
    (r"(?<=\s)\+(?=\s)", "-"), (r"(?<=\s)-(?=\s)", "+"), (r"(?<=\s)\*(?=\s)", "/"),
    (r"\.min\(", ".max("), (r"\.max\(", ".min("), (r"&&", "||"), (r"\|\|", "&&"),
    (r"\b0\.5\b", "0.25"), (r"\b2\.0\b", "1.0"), (r"\b1e-(\d+)\b", lambda m: f"1e-{max(1, int(m.group(1)) - 3)}"),
    (r"\[0\]", "[1]"), (r"\[1\]", "[0]"), (r"\+ 1\b", "+ 2"), (r"- 1\b", "- 2"), (r"\.abs\(\)", ""),
    (r"\bis_closed\b", "!is_closed"), (r"== 0\b", "== 1"),
]


def code_spans(src):
    """character ranges of non-test, non-comment code"""
    cut = src.find("#[cfg(test)]")
    body = src if cut < 0 else src[:cut]
    spans = []
    for m in re.finditer(r"[^\n]*\n", body):
        line = m.group()
        s = line.strip()
        if s.startswith("//") or s.startswith("#[") or s.startswith("use ") or "println!" in s or "format!" in s or ".into()" in s and '"' in s:
            continue
        code = line.split("//")[0]
        spans.append((m.start(), m.start() + len(code)))
    return spans


def candidates(src):
    out = []
    for (a, b) in code_spans(src):
        seg = src[a:b]
        for k, (pat, rep) in enumerate(RULES):
            for m in re.finditer(pat, seg):
                out.append((a + m.start(), a + m.end(), k))
    return out


def sh(cmd, cwd, timeout):
    try:
        p = subprocess.run(cmd, cwd=cwd, stdout=subprocess.PIPE, stderr=subprocess.STDOUT, text=True, timeout=timeout)
        return p.returncode, p.stdout
    except subprocess.TimeoutExpired:
        return 124, "timeout"


def main():
    seed = int(sys.argv[1]); total = int(sys.argv[2]); only = set(sys.argv[3:])
    rnd = random.Random(seed)
    # a source file is covered by every property that anchors it; a mutant is MISSED only when none of their quick
    # checks reports a violation
    owners = {}
    for pid, cfg in propcfg.CFG.items():
        for f in cfg.get("files", []):
            if os.path.exists(os.path.join(REPO, f)) and not f.endswith(("geom2.rs", "geom3.rs", "metrology.rs")):
                owners.setdefault(f, []).append(pid)
    pool = []
    for f in sorted(owners):
        if only and not (only & set(owners[f])):
            continue
        src = open(os.path.join(REPO, f)).read()
        pool += [(f, c) for c in candidates(src)]
    rnd.shuffle(pool)
    done = 0
    for (f, (a, b, k)) in pool:
        if done >= total:
            break
        path = os.path.join(REPO, f)
        src = open(path).read()
        pat, rep = RULES[k]
        new = re.sub(pat, rep, src[a:b], count=1)
        if new == src[a:b]:
            continue
        line_no = src.count("\n", 0, a) + 1
        line = src[src.rfind("\n", 0, a) + 1: src.find("\n", a)].strip()
        fn = ""
        for m in re.finditer(r"fn\s+([A-Za-z0-9_]+)", src[:a]):
            fn = m.group(1)
        open(path, "w").write(src[:a] + new + src[b:])
        try:
            rc, out = sh(["cargo", "test", "--offline", "--lib"], REPO, 1200)
            m = re.search(r"test result: (\w+)\. (\d+) passed; (\d+) failed", out)
            if rc != 0 or not m or m.group(1) != "ok":
                print(f"{f}:{line_no} {fn} [{src[a:b]} -> {new}] killed-by-tests-or-compiler", flush=True)
                continue
            done += 1
            hits = []
            for pid in owners[f]:
                rc, out = sh([os.path.join(ROOT, "check"), pid, "--tier", "quick"], ROOT, 1800)
                viol = [l for l in out.splitlines() if l.startswith("VIOLATION")]
                if viol:
                    hits.append(pid + ("(nf)" if "no-failing-input-found" in viol[0] else ""))
            tag = "detected by " + ",".join(hits) if hits else "MISSED (" + ",".join(owners[f]) + ")"
            print(f"{f}:{line_no} {fn} [{src[a:b]} -> {new}] {tag} | {line[:100]}", flush=True)
        finally:
            open(path, "w").write(src)
    print("MUTATE-DONE")


if __name__ == "__main__":
    main()
