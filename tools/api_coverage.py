#!/usr/bin/env python3
"""usage: api_coverage.py [PROP…] — for every property, the `pub fn`s of its anchor files that no harness
source mentions (by `.name(` / `::name(` / `name(`).  A survey aid for finding surface the correspondence
never drives; it decides nothing."""
import json, os, re, sys, glob
root = os.path.dirname(os.path.dirname(os.path.abspath(__file__)))
REPO = os.environ.get("VP_REPO", "/repo")
props = [json.loads(l) for l in open(os.path.join(root, "properties.jsonl"))]
harness = "\n".join(open(f).read() for f in glob.glob(os.path.join(root, "harness", "src", "*.rs")))
want = set(sys.argv[1:])
for p in props:
    if want and p["id"] not in want:
        continue
    print("==", p["id"], p["title"])
    for f in p["anchors"]["files"]:
        path = os.path.join(REPO, f)
        if not os.path.isfile(path):
            continue
        src = open(path).read()
        # stop at the test module
        cut = src.find("#[cfg(test)]")
        if cut > 0:
            src = src[:cut]
        names = sorted(set(re.findall(r"pub fn\s+([a-z_0-9]+)", src)))
        missing = [n for n in names if not re.search(r"\b" + re.escape(n) + r"\s*(?:::<[^>]*>)?\(", harness)]
        print(f"  {f}: {len(names)} pub fns, not driven: {', '.join(missing) if missing else '-'}")
