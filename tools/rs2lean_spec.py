"""Which Rust functions tools/rs2lean.py translates, per property, and how Rust names map to the model's types."""

AI = "AngleInterval α"
IV = "Interval α"

SPEC = {
    "C18": {
        "imports": ["Engeom.Model.Angles"],
        "cfg": {
            "types": {"AngleInterval": AI, "Interval": IV, "AngleDir": "AngleDir"},
            "rust_names": {AI: "AngleInterval", IV: "Interval"},
            "fields": {AI: {"start": ("start", "S"), "angle": ("angle", "S")},
                       IV: {"min": ("min", "S"), "max": ("max", "S")}},
            "variants": {"Cw": ("AngleDir.cw", "AngleDir"), "Ccw": ("AngleDir.ccw", "AngleDir")},
        },
        "fns": [
            {"file": "src/common/angles.rs", "name": "angle_signed_pi", "lean": "angle_signed_pi"},
            {"file": "src/common/angles.rs", "name": "angle_to_2pi", "lean": "angle_to_2pi"},
            {"file": "src/common/angles.rs", "name": "angle_in_direction", "lean": "angle_in_direction"},
            {"file": "src/common/angles.rs", "name": "signed_compliment_2pi", "lean": "signed_compliment_2pi"},
            {"file": "src/common/angles.rs", "impl": "AngleInterval", "name": "new", "lean": "AngleInterval_new"},
            {"file": "src/common/angles.rs", "impl": "AngleInterval", "name": "contains", "lean": "AngleInterval_contains"},
            {"file": "src/common/angles.rs", "impl": "AngleInterval", "name": "intersects", "lean": "AngleInterval_intersects"},
            {"file": "src/common/angles.rs", "impl": "AngleInterval", "name": "at_fraction", "lean": "AngleInterval_at_fraction"},
            {"file": "src/common/interval.rs", "impl": "Interval", "name": "new", "lean": "Interval_new"},
            {"file": "src/common/interval.rs", "impl": "Interval", "name": "length", "lean": "Interval_length"},
            {"file": "src/common/interval.rs", "impl": "Interval", "name": "contains", "lean": "Interval_contains"},
            {"file": "src/common/interval.rs", "impl": "Interval", "name": "contains_interval", "lean": "Interval_contains_interval"},
            {"file": "src/common/interval.rs", "impl": "Interval", "name": "overlaps", "lean": "Interval_overlaps"},
            {"file": "src/common/interval.rs", "impl": "Interval", "name": "intersection", "lean": "Interval_intersection"},
            {"file": "src/common/interval.rs", "impl": "Interval", "name": "clamp", "lean": "Interval_clamp"},
            {"file": "src/geom2/angles2.rs", "name": "signed_angle", "lean": "signed_angle"},
            {"file": "src/geom2/angles2.rs", "name": "directed_angle", "lean": "directed_angle"},
        ],
    },
    "C06": {
        "imports": ["Engeom.Model.Intersect"],
        "cfg": {},
        "fns": [
            {"file": "src/geom2/line2.rs", "name": "intersection_param", "lean": "intersection_param"},
        ],
    },
    "C19": {
        "imports": ["Engeom.Model.Frame", "Engeom.Model.Basis"],
        "cfg": {
            "types": {"Plane3": "Plane3 α", "SurfacePoint3": "SP3 α"},
            "rust_names": {"Plane3 α": "Plane3", "SP3 α": "SurfacePoint3"},
            "fields": {"Plane3 α": {"normal": ("normal", "V3"), "d": ("d", "S")},
                       "SP3 α": {"point": ("point", "V3"), "normal": ("normal", "V3")}},
            "extern": {"UnitVec3::new_normalize": ("normalize3", ["V3"], "V3")},
        },
        "fns": [
            {"file": "src/geom3/plane3.rs", "impl": "Plane3", "name": "new", "lean": "Plane3_new"},
            {"file": "src/geom3/plane3.rs", "impl": "Plane3", "name": "inverted_normal", "lean": "Plane3_inverted_normal"},
            {"file": "src/geom3/plane3.rs", "impl": "Plane3", "name": "signed_distance_to_point", "lean": "Plane3_signed_distance_to_point"},
            {"file": "src/geom3/plane3.rs", "impl": "Plane3", "name": "distance_to_point", "lean": "Plane3_distance_to_point"},
            {"file": "src/geom3/plane3.rs", "impl": "Plane3", "name": "project_point", "lean": "Plane3_project_point"},
            {"file": "src/geom3/plane3.rs", "impl": "Plane3", "name": "intersection_distance", "lean": "Plane3_intersection_distance"},
            {"file": "src/geom3/plane3.rs", "impl": "Plane3", "name": "from", "nth": 1, "lean": "Plane3_from_normal_point"},
            {"file": "src/geom3/plane3.rs", "impl": "Plane3", "name": "from", "nth": 0, "lean": "Plane3_from_three_points"},
            {"file": "src/geom3/plane3.rs", "impl": "Plane3", "name": "from", "nth": 2, "lean": "Plane3_from_surface_point"},
        ],
    },
    "C03": {
        "imports": ["Engeom.Model.Frame"],
        "cfg": {
            "types": {"SurfacePoint": "SP3 α"},
            "rust_names": {"SP3 α": "SurfacePoint"},
            "type_alias": {"Point<f64,D>": "V3", "Unit<SVector<f64,D>>": "V3", "SVector<f64,D>": "V3"},
            "fields": {"SP3 α": {"point": ("point", "V3"), "normal": ("normal", "V3")}},
        },
        "fns": [
            {"file": "src/common/surface_point.rs", "impl": "SurfacePoint", "name": "new", "lean": "SurfacePoint_new"},
            {"file": "src/common/surface_point.rs", "impl": "SurfacePoint", "name": "at_distance", "lean": "SurfacePoint_at_distance"},
            {"file": "src/common/surface_point.rs", "impl": "SurfacePoint", "name": "scalar_projection", "lean": "SurfacePoint_scalar_projection"},
            {"file": "src/common/surface_point.rs", "impl": "SurfacePoint", "name": "projection", "lean": "SurfacePoint_projection"},
            {"file": "src/common/surface_point.rs", "impl": "SurfacePoint", "name": "reversed", "lean": "SurfacePoint_reversed"},
            {"file": "src/common/surface_point.rs", "impl": "SurfacePoint", "name": "planar_distance", "lean": "SurfacePoint_planar_distance"},
            {"file": "src/common/surface_point.rs", "impl": "SurfacePoint", "name": "shift", "lean": "SurfacePoint_shift"},
        ],
    },
    "C08": {
        "imports": ["Engeom.Model.Align"],
        "cfg": {
            "types": {"SurfacePoint2": "SP2 α", "RcParams2": "RcParams2 α"},
            "rust_names": {"SP2 α": "SurfacePoint2", "RcParams2 α": "RcParams2"},
            "fields": {"SP2 α": {"point": ("point", "V2"), "normal": ("normal", "V2")}},
            "extern": {"RcParams2::current_rc": ("RcParams2.currentRc", [("st", "RcParams2 α")], "V2"),
                       "T2Storage::new": ("(fun a b c => (a, b, c))", ["S", "S", "S"], ("tup", ["S", "S", "S"]))},
            "type_alias": {"T2Storage": ("tup", ["S", "S", "S"])},
        },
        "fns": [
            {"file": "src/geom2/align2/jacobian.rs", "name": "point_surface_jacobian", "lean": "point_surface_jacobian"},
        ],
    },
    "C11": {
        "imports": ["Engeom.Model.Circle"],
        "cfg": {
            "types": {"Circle2": "Circle α", "Arc2": "Arc α", "AngleDir": "AngleDir"},
            "rust_names": {"Circle α": "Circle2", "Arc α": "Arc2"},
            "fields": {"Circle α": {"center": ("c", "V2"), "ball": ("", ("st", "CircleBall"))},
                       "CircleBall": {"radius": ("r", "S")},
                       "Arc α": {"circle": ("circle", ("st", "Circle α")), "angle0": ("angle0", "S"), "angle": ("angle", "S")}},
            "names": {"FRAC_PI_2": ("((Scalar.pi : α) / (2 : α))", "S"), "Ccw": ("AngleDir.ccw", "AngleDir"), "Cw": ("AngleDir.cw", "AngleDir")},
            "binop": {("*", ("st", "Rot2 α"), "V2"): ("Rot2.apply", "V2")},
            "extern": {"dist": ("dist2", ["V2", "V2"], "S"),
                       "Iso2::rotation": ("Rot2.ofAngle", ["S"], ("st", "Rot2 α")),
                       "Circle2::new": ("(fun x y r => (Circle.mk (V2.mk x y) r : Circle α))", ["S", "S", "S"], ("st", "Circle α")),
                       "directed_angle": ("directedAngle", ["V2", "V2", "AngleDir"], "S")},
        },
        "fns": [
            {"file": "src/geom2/circle2.rs", "impl": "Circle2", "name": "from_3_points", "lean": "Circle2_from_3_points"},
            {"file": "src/geom2/circle2.rs", "impl": "Circle2", "name": "point_at_angle", "lean": "Circle2_point_at_angle"},
            {"file": "src/geom2/circle2.rs", "impl": "Circle2", "name": "angle_of_point", "lean": "Circle2_angle_of_point"},
            {"file": "src/geom2/circle2.rs", "impl": "Circle2", "name": "distance_to", "lean": "Circle2_distance_to"},
            {"file": "src/geom2/circle2.rs", "impl": "Circle2", "name": "intersections_with", "lean": "Circle2_intersections_with"},
            {"file": "src/geom2/circle2.rs", "impl": "Circle2", "name": "tangent_points_to", "lean": "Circle2_tangent_points_to"},
            {"file": "src/geom2/circle2.rs", "impl": "Arc2", "name": "length", "lean": "Arc2_length"},
            {"file": "src/geom2/circle2.rs", "impl": "Arc2", "name": "point_at_angle", "lean": "Arc2_point_at_angle"},
            {"file": "src/geom2/circle2.rs", "impl": "Arc2", "name": "point_at_fraction", "lean": "Arc2_point_at_fraction"},
            {"file": "src/geom2/circle2.rs", "impl": "Arc2", "name": "point_at_length", "lean": "Arc2_point_at_length"},
        ],
    },
    "C20": {
        "imports": ["Engeom.Model.Flatten"],
        "cfg": {},
        "fns": [
            # the body of the per-face loop of calc_face_angles (a, b, c = the three edge lengths of the face)
            {"file": "src/geom3/mesh/conformal.rs", "name": "calc_face_angles.face", "lean": "face_angles",
             "fragment": r"fn calc_face_angles.*?let face_angles = (if a > b \+ c.*?\n        \});",
             "params": [["a", "S"], ["b", "S"], ["c", "S"]], "ret": ("tup", ["S", "S", "S"])},
        ],
    },
}
