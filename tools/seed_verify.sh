#!/bin/sh
# usage: seed_verify.sh <PROP> <worktree>   — re-verifies a seeded change in its scratch worktree:
#   full existing suite passes WITH the change; demo fails WITH and passes WITHOUT.
P=$1; W=$2
cd "$W" || exit 2
export CARGO_NET_OFFLINE=true
mkdir -p "$W/tests"; cp "$W/_seed/demo.rs" "$W/tests/demo_seed.rs" 2>/dev/null
suite=$(cargo test --offline --lib 2>&1 | grep "^test result" | head -1)
with=$(cargo test --offline --test demo_seed 2>&1 | grep "^test result" | head -1)
git diff -- src > /tmp/seedpatch_$P.diff; git checkout -- src
without=$(cargo test --offline --test demo_seed 2>&1 | grep "^test result" | head -1)
git apply /tmp/seedpatch_$P.diff
echo "{\"suite_with_change\": \"$suite\", \"demo_with_change\": \"$with\", \"demo_without_change\": \"$without\"}" > "$W/_seed/verify.json"
cat "$W/_seed/verify.json"
