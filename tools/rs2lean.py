#!/usr/bin/env python3
"""
rs2lean.py — translator from a subset of Rust (pure scalar / small-vector functions of engeom) to Lean 4.

On every run of ./check the functions listed in tools/rs2lean_spec.py are read from the /repo working
tree, parsed (tokeniser + recursive-descent parser for the subset below) and re-emitted as Lean
definitions, polymorphic in the scalar type, into lean/Engeom/Engeom/Generated/Rs<Prop>.lean.  The
`Props/<Prop>T.lean` modules then prove, for EVERY scalar type (so also for Float, the type at which the
correspondence run executes the model), that each translated definition equals the hand-written model
function the property theorems are about.  A change of one of these Rust functions therefore changes the
regenerated definition and the kernel re-checks the equality on the next run.

Subset: `let`/`let mut`, local `const`, compound assignment, `if`/`else if`/`else` as statement (the
mutated variables become the value of the conditional) or as expression, early `return` in an `if`
without `else`, `match` on field-less enum variants, `Some`/`None`, tuples, struct literals, method
calls and operators on f64 / Vector2 / Point2 / Vector3 / Point3 / UnitVec3, calls of other listed
functions.  Anything else raises Untranslatable: the function is emitted as a marker whose equality
obligation cannot be proved, i.e. the tie is reported as broken for that property only.
"""
import os
import re
import sys
from fractions import Fraction

REPO = os.environ.get("VERIF_REPO", "/repo")
HERE = os.path.dirname(os.path.abspath(__file__))
OUT = os.path.join(HERE, "..", "lean", "Engeom", "Engeom", "Generated")


class Untranslatable(Exception):
    pass


# ------------------------------------------------------------------------------------------------ lexer

TOKEN_RE = re.compile(r"""
    (?P<ws>\s+|//[^\n]*|/\*.*?\*/)
  | (?P<num>[0-9][0-9_]*(?:\.[0-9][0-9_]*)?(?:[eE][-+]?[0-9]+)?(?:_?f64|_?usize|_?u32|_?i32)?|[0-9][0-9_]*\.(?![0-9a-zA-Z_.]))
  | (?P<str>"(?:[^"\\]|\\.)*")
  | (?P<id>[A-Za-z_][A-Za-z0-9_]*)
  | (?P<life>'[a-z_]+)
  | (?P<op>::|->|=>|==|!=|<=|>=|&&|\|\||\+=|-=|\*=|/=|\.\.=|\.\.|[-+*/%<>=!&|.,;:(){}\[\]?#])
""", re.S | re.X)


def lex(s):
    out = []
    i = 0
    while i < len(s):
        m = TOKEN_RE.match(s, i)
        if not m:
            raise Untranslatable(f"cannot tokenise at {s[i:i+20]!r}")
        i = m.end()
        k = m.lastgroup
        if k == "ws":
            continue
        out.append((k, m.group()))
    out.append(("eof", ""))
    return out


# ------------------------------------------------------------------------------------------------ parser

class P:
    def __init__(self, toks):
        self.t = toks
        self.i = 0

    def peek(self, k=0):
        return self.t[self.i + k]

    def at(self, v):
        return self.t[self.i][1] == v and self.t[self.i][0] != "eof"

    def eat(self, v=None):
        tk = self.t[self.i]
        if v is not None and tk[1] != v:
            raise Untranslatable(f"expected {v!r}, found {tk[1]!r}")
        self.i += 1
        return tk

    # ---- types (kept as strings)
    def ty(self):
        parts = []
        depth = 0
        while True:
            k, v = self.peek()
            if k == "eof":
                break
            if depth == 0 and v in (",", ")", "{", "=", ";", "=>") and not (v == ")" and depth > 0):
                break
            if v in ("(", "<", "["):
                depth += 1
            if v in (")", ">", "]"):
                if depth == 0:
                    break
                depth -= 1
            if v == "->" and depth == 0:
                break
            parts.append(v)
            self.i += 1
        return "".join(parts)

    # ---- patterns: ident | mut ident | (p, p) | _
    def pat(self):
        if self.at("("):
            self.eat("(")
            ps = []
            while not self.at(")"):
                ps.append(self.pat())
                if self.at(","):
                    self.eat(",")
            self.eat(")")
            return ("ptuple", ps)
        if self.at("mut"):
            self.eat()
        if self.at("&"):
            self.eat()
        k, v = self.eat()
        if k != "id":
            raise Untranslatable(f"pattern {v!r}")
        return ("pid", v)

    def block(self):
        self.eat("{")
        stmts = []
        while not self.at("}"):
            st = self.stmt()
            if st is not None:
                stmts.append(st)
        self.eat("}")
        return stmts

    def stmt(self):
        k, v = self.peek()
        if v == "use":
            while not self.at(";"):
                self.eat()
            self.eat(";")
            return None
        if v == "assert" or v == "debug_assert":
            # assert!(...) ; — a precondition, not part of the value
            self.eat()
            self.eat("!")
            self.skip_group()
            if self.at(";"):
                self.eat(";")
            return None
        if v == "const":
            self.eat()
            name = self.eat()[1]
            self.eat(":")
            self.ty()
            self.eat("=")
            e = self.expr()
            self.eat(";")
            return ("let", ("pid", name), e)
        if v == "let":
            self.eat()
            p = self.pat()
            if self.at(":"):
                self.eat(":")
                self.ty()
            self.eat("=")
            e = self.expr()
            self.eat(";")
            return ("let", p, e)
        if v == "return":
            self.eat()
            e = None if self.at(";") else self.expr()
            if self.at(";"):
                self.eat(";")
            return ("return", e)
        if v == "for":
            self.eat()
            pat = self.pat()
            self.eat("in")
            it = self.expr(nostruct=True)
            body = self.block()
            return ("for", pat, it, body)
        if v == "while":
            self.eat()
            if self.at("let"):
                raise Untranslatable("`while let`")
            c = self.expr(nostruct=True)
            body = self.block()
            return ("while", c, body)
        if v == "continue":
            self.eat()
            if self.at(";"):
                self.eat(";")
            return ("continue",)
        if v in ("loop", "break"):
            raise Untranslatable(f"`{v}` is outside the translated subset")
        e = self.expr(stmt=True)
        if self.at(";"):
            self.eat(";")
            return ("semi", e)
        if self.at("=") or self.peek()[1] in ("+=", "-=", "*=", "/="):
            op = self.eat()[1]
            rhs = self.expr()
            self.eat(";")
            return ("assign", e, op, rhs)
        # block-like expression used as a statement (if / match) or tail expression
        if e[0] in ("if", "match", "iflet") and not self.at("}"):
            return ("semi", e)
        return ("tail", e)

    def skip_group(self):
        open_ = self.eat()[1]
        close = {"(": ")", "[": "]", "{": "}"}[open_]
        depth = 1
        while depth:
            k, v = self.eat()
            if k == "eof":
                raise Untranslatable("unbalanced group")
            if v == open_:
                depth += 1
            elif v == close:
                depth -= 1

    BIN = {"..": 0.5, "||": 1, "&&": 2, "==": 3, "!=": 3, "<": 3, ">": 3, "<=": 3, ">=": 3, "+": 5, "-": 5, "*": 6, "/": 6, "%": 6}

    def expr(self, prec=0, nostruct=False, stmt=False):
        lhs = self.unary(nostruct)
        if stmt and lhs[0] in ("if", "match", "iflet"):
            # `if … {}` at statement position is not continued by a binary operator
            return lhs
        while True:
            k, v = self.peek()
            if k == "id" and v == "as":
                self.eat()
                # the target of a cast is a plain type name here (f64, usize, i32, …)
                t = self.eat()[1]
                while self.at("::"):
                    self.eat("::")
                    t += "::" + self.eat()[1]
                lhs = ("as", lhs, t)
                continue
            p = self.BIN.get(v) if k == "op" else None
            if p is None or p <= prec:
                return lhs
            self.eat()
            rhs = self.expr(p, nostruct)
            lhs = ("bin", v, lhs, rhs)

    def unary(self, nostruct):
        k, v = self.peek()
        if v == "-":
            self.eat()
            return ("neg", self.unary(nostruct))
        if v == "!":
            self.eat()
            return ("not", self.unary(nostruct))
        if v in ("&", "*"):
            self.eat()
            if self.at("mut"):
                self.eat()
                return ("mutref", self.unary(nostruct))
            return self.unary(nostruct)
        return self.postfix(self.primary(nostruct), nostruct)

    def args(self):
        self.eat("(")
        a = []
        while not self.at(")"):
            a.append(self.expr())
            if self.at(","):
                self.eat(",")
        self.eat(")")
        return a

    def postfix(self, e, nostruct):
        while True:
            if self.at("."):
                self.eat(".")
                k, v = self.eat()
                if k == "num":
                    e = ("tfield", e, int(v))
                    continue
                if k != "id":
                    raise Untranslatable(f"postfix .{v}")
                if self.at("::"):
                    # turbofish
                    self.eat("::")
                    self.eat("<")
                    self.ty()
                    self.eat(">")
                if self.at("("):
                    e = ("mcall", e, v, self.args())
                else:
                    e = ("field", e, v)
                continue
            if self.at("?"):
                raise Untranslatable("`?` operator")
            if self.at("(") and e[0] == "path":
                e = ("call", e[1], self.args())
                continue
            if self.at("["):
                self.eat("[")
                i = self.expr()
                self.eat("]")
                e = ("index", e, i)
                continue
            return e

    def primary(self, nostruct):
        k, v = self.peek()
        if k == "num":
            self.eat()
            return ("num", v)
        if k == "str":
            self.eat()
            return ("str", v)
        if v == "(":
            self.eat("(")
            items = []
            trailing = False
            while not self.at(")"):
                items.append(self.expr())
                trailing = False
                if self.at(","):
                    self.eat(",")
                    trailing = True
            self.eat(")")
            if len(items) == 1 and not trailing:
                return ("paren", items[0])
            return ("tuple", items)
        if v == "[":
            self.eat("[")
            items = []
            while not self.at("]"):
                items.append(self.expr())
                if self.at(","):
                    self.eat(",")
            self.eat("]")
            return ("tuple", items)
        if v == "if":
            self.eat()
            if self.at("let"):
                # if let Some(p) = e { … } [else { … }]   (also Ok / Err on a search result)
                self.eat()
                ctor = self.eat()[1]
                if ctor not in ("Some", "Ok", "Err"):
                    raise Untranslatable(f"`if let {ctor}`")
                self.eat("(")
                ip = self.pat()
                self.eat(")")
                self.eat("=")
                scrut = self.expr(nostruct=True)
                th = self.block()
                el = None
                if self.at("else"):
                    self.eat()
                    if self.at("if"):
                        el = [("tail", self.primary(nostruct))]
                    else:
                        el = self.block()
                return ("iflet", ctor, ip, scrut, th, el)
            c = self.expr(nostruct=True)
            th = self.block()
            el = None
            if self.at("else"):
                self.eat()
                if self.at("if"):
                    el = [("tail", self.primary(nostruct))]
                else:
                    el = self.block()
            return ("if", c, th, el)
        if v == "match":
            self.eat()
            scrut = self.expr(nostruct=True)
            self.eat("{")
            arms = []
            while not self.at("}"):
                pat = []
                while not self.at("=>"):
                    pat.append(self.eat()[1])
                self.eat("=>")
                if self.at("{"):
                    body = ("blockexpr", self.block())
                else:
                    body = self.expr()
                if self.at(","):
                    self.eat(",")
                arms.append(("".join(pat), body))
            self.eat("}")
            return ("match", scrut, arms)
        if v == "{":
            return ("blockexpr", self.block())
        if v == "move":
            raise Untranslatable("move closure")
        if v == "||":
            raise Untranslatable("closure without parameters")
        if v == "|":
            # |p, q| expr   (closure: only as an argument of an iterator method)
            self.eat("|")
            pats = []
            while not self.at("|"):
                pats.append(self.pat())
                if self.at(":"):
                    self.eat(":")
                    self.ty()
                if self.at(","):
                    self.eat(",")
            self.eat("|")
            if self.at("{"):
                body = ("blockexpr", self.block())
            else:
                body = self.expr()
            return ("closure", pats, body)
        if k == "id":
            path = [self.eat()[1]]
            while self.at("::"):
                self.eat("::")
                if self.at("<"):
                    self.eat("<")
                    self.ty()
                    self.eat(">")
                    continue
                path.append(self.eat()[1])
            if self.at("!") and path == ["vec"]:
                self.eat("!")
                self.eat("[")
                items = []
                while not self.at("]"):
                    items.append(self.expr())
                    if self.at(","):
                        self.eat(",")
                self.eat("]")
                return ("veclit", items)
            if self.at("!"):
                raise Untranslatable(f"macro {path[-1]}!")
            if self.at("{") and not nostruct and path[-1][0].isupper():
                self.eat("{")
                fields = []
                while not self.at("}"):
                    name = self.eat()[1]
                    if self.at(":"):
                        self.eat(":")
                        val = self.expr()
                    else:
                        val = ("path", [name])
                    fields.append((name, val))
                    if self.at(","):
                        self.eat(",")
                self.eat("}")
                return ("struct", path, fields)
            return ("path", path)
        raise Untranslatable(f"unexpected token {v!r}")


def strip_attrs(src):
    return re.sub(r"#\[[^\]]*\]", "", src)


def find_fn(src, impl, name, nth=0):
    """returns (params source, return type source, body source) of `fn name` (inside `impl <impl>` when given)"""
    text = src
    base = 0
    if impl:
        ms = [mm for mm in re.finditer(r"\bimpl(?:<[^>]*>)?\s+(?:[^{;]*?\s+for\s+)?" + re.escape(impl) + r"(?:<[^>{]*>)?\s*\{", src)]
        if not ms:
            raise Untranslatable(f"impl {impl} not found")
        # search all impl blocks of that type
        cands = []
        for mm in ms:
            end = match_brace(src, mm.end() - 1)
            cands.append((mm.end(), end))
    else:
        cands = [(0, len(src))]
    found = []
    for (a, b) in cands:
        for m in re.finditer(r"\bfn\s+" + re.escape(name) + r"\s*(?:<[^>]*>)?\s*\(", src[a:b]):
            found.append(a + m.end() - 1)
    if len(found) <= nth:
        raise Untranslatable(f"fn {name} not found")
    p0 = found[nth]
    p1 = match_paren(src, p0)
    params = src[p0 + 1:p1]
    j = src.index("{", p1)
    k = src.find(";", p1)
    ret = src[p1 + 1:j].strip()
    if ret.startswith("->"):
        ret = ret[2:].strip()
    if "where" in ret:
        ret = ret.split("where")[0].strip()
    end = match_brace(src, j)
    return params, ret, src[j:end + 1]


def match_brace(s, i):
    assert s[i] == "{"
    d = 0
    k = i
    in_line = False
    while k < len(s):
        c = s[k]
        if s.startswith("//", k):
            k = s.index("\n", k)
            continue
        if c == "{":
            d += 1
        elif c == "}":
            d -= 1
            if d == 0:
                return k
        k += 1
    raise Untranslatable("unbalanced braces")


def match_paren(s, i):
    d = 0
    k = i
    while k < len(s):
        if s[k] == "(":
            d += 1
        elif s[k] == ")":
            d -= 1
            if d == 0:
                return k
        k += 1
    raise Untranslatable("unbalanced parens")


# ------------------------------------------------------------------------------------------------ lowering

# Lean-side types: "S" scalar, "V2", "V3", "B" bool, "N" nat, ("opt", t), ("tup", [t..]), ("st", name), "?"
def rust_ty(t, cfg):
    t = t.replace(" ", "").lstrip("&")
    if t.startswith("mut"):
        t = t[3:]
    if t in cfg.get("type_alias", {}):
        return cfg["type_alias"][t]
    if t in ("f64",):
        return "S"
    if t.startswith("Result<") and t.endswith(">"):
        return ("opt", rust_ty(t[7:-1], cfg))
    if t.startswith("Vec<") and t.endswith(">"):
        return ("list", rust_ty(t[4:-1], cfg))
    if t in ("bool",):
        return "B"
    if t in ("usize", "u32", "i32"):
        return "N"
    if t in ("Vector2", "Point2", "UnitVec2", "Point2<f64>", "Vector2<f64>"):
        return "V2"
    if t in ("Vector3", "Point3", "UnitVec3", "Point3<f64>", "Vector3<f64>"):
        return "V3"
    if t.startswith("Option<") and t.endswith(">"):
        return ("opt", rust_ty(t[7:-1], cfg))
    if t.startswith("(") and t.endswith(")"):
        parts = split_top(t[1:-1])
        return ("tup", [rust_ty(p, cfg) for p in parts])
    if t == "Self" and cfg.get("self_rust") in cfg.get("newtypes", {}):
        return cfg["newtypes"][cfg["self_rust"]]
    if t == "Self" and cfg.get("self_ty"):
        return ("st", cfg["self_ty"])
    if t in cfg.get("types", {}):
        return ("st", cfg["types"][t])
    raise Untranslatable(f"type {t}")


def split_top(s):
    out = []
    d = 0
    cur = ""
    for c in s:
        if c in "(<[":
            d += 1
        if c in ")>]":
            d -= 1
        if c == "," and d == 0:
            out.append(cur)
            cur = ""
        else:
            cur += c
    if cur.strip():
        out.append(cur)
    return out


def lean_ty(t):
    if t == "S":
        return "α"
    if t == "B":
        return "Bool"
    if t == "N":
        return "Nat"
    if t == "V2":
        return "V2 α"
    if t == "V3":
        return "V3 α"
    if isinstance(t, tuple) and t[0] == "opt":
        return f"Option ({lean_ty(t[1])})"
    if isinstance(t, tuple) and t[0] == "list":
        return f"List ({lean_ty(t[1])})"
    if isinstance(t, tuple) and t[0] == "tup":
        return " × ".join(f"({lean_ty(x)})" if isinstance(x, tuple) else lean_ty(x) for x in t[1])
    if isinstance(t, tuple) and t[0] == "st":
        return t[1]
    if t == "SEARCH":
        return "SearchRes"
    if t == "SET":
        return "List Nat"
    if isinstance(t, tuple) and t[0] == "fn":
        return "(" + " → ".join(lean_ty(x) for x in t[1]) + " → " + lean_ty(t[2]) + ")"
    raise Untranslatable(f"lean type {t}")


def num_lit(v):
    v = v.replace("_", "")
    for suf in ("f64", "usize", "u32", "i32"):
        if v.endswith(suf):
            v = v[:-len(suf)]
    if v.endswith("."):
        v += "0"
    return Fraction(v)


def scalar_const(fr):
    if fr.denominator == 1 and fr.numerator in (0, 1, 2):
        return f"({fr.numerator} : α)"
    if fr < 0:
        return f"(-{scalar_const(-fr)})"
    return f"(Scalar.ofRat {fr.numerator} {fr.denominator} : α)"


class Lower:
    def __init__(self, cfg, known_fns, file_consts):
        self.cfg = cfg
        self.known = known_fns      # rust name (or Type::name) -> (lean name, [param types], ret type)
        self.consts = file_consts   # NAME -> Fraction
        self.fresh = 0
        self.loop_state = []        # stack of (mutated variables, state tuple expression) of the enclosing loops
        self.pushed = {}            # accumulator -> element type seen at its last push

    # ---- expressions: returns (lean string, type)
    def ex(self, e, env, want=None):
        k = e[0]
        if k == "paren":
            s, t = self.ex(e[1], env, want)
            return f"({s})", t
        if k == "num":
            fr = num_lit(e[1])
            is_float = "." in e[1] or "e" in e[1].lower() or e[1].endswith("f64")
            if want == "N" or (not is_float and want != "S"):
                return str(fr.numerator), "N"
            return scalar_const(fr), "S"
        if k == "path":
            p = e[1]
            if len(p) == 1 and p[0] in env:
                nm, t = env[p[0]]
                return nm, t
            name = p[-1]
            if name == "PI":
                return "(Scalar.pi : α)", "S"
            if name in ("None",):
                return "none", ("opt", "?")
            if name in ("true", "false"):
                return name, "B"
            if name in self.consts:
                return scalar_const(self.consts[name]), "S"
            if name in self.cfg.get("names", {}):
                return self.cfg["names"][name]
            if name in self.cfg.get("variants", {}):
                v = self.cfg["variants"][name]
                return v[0], ("st", v[1])
            raise Untranslatable(f"unknown name {'::'.join(p)}")
        if k == "neg":
            s, t = self.ex(e[1], env, want)
            if t == "S":
                return f"(-{s})", "S"
            if t in ("V2", "V3"):
                return f"({t}.neg {s})", t
            raise Untranslatable("negation of " + str(t))
        if k == "not":
            s, t = self.ex(e[1], env, "B")
            return f"(!{s})", "B"
        if k == "as":
            s, t = self.ex(e[1], env)
            if e[2] == "f64" and t == "N":
                # exact for every index that occurs (Float.ofNat n / Float.ofNat 1 at Float)
                return f"(Scalar.ofRat {s} 1 : α)", "S"
            if e[2] == "usize" and t == "S":
                raise Untranslatable("f64 as usize")
            if e[2] in ("usize", "i32", "u32") and t == "N":
                return s, t
            if e[2] == "f64" and t == "S":
                return s, t
            raise Untranslatable(f"cast as {e[2]}")
        if k == "bin" and e[1] == "..":
            src, et = self.iter_source(e, env)
            return src, ("list", et)
        if k == "bin":
            return self.binop(e, env)
        if k == "field":
            s, t = self.ex(e[1], env)
            f = e[2]
            if t in ("V2", "V3") and f in ("x", "y", "z"):
                return f"{s}.{f}", "S"
            if t in ("V2", "V3") and f == "coords":
                return s, t
            if isinstance(t, tuple) and t[0] == "st":
                fields = self.cfg.get("fields", {}).get(t[1], {})
                if f in fields:
                    lf, ft = fields[f]
                    return (f"{s}.{lf}" if lf else s), ft
            raise Untranslatable(f"field .{f} of {t}")
        if k == "tfield":
            s, t = self.ex(e[1], env)
            if isinstance(t, tuple) and t[0] == "tup":
                n = len(t[1])
                i = e[2]
                proj = s
                # right-nested pairs
                for _ in range(i):
                    proj = f"{proj}.2"
                if i < n - 1:
                    proj = f"{proj}.1"
                return proj, t[1][i]
            raise Untranslatable("tuple field of " + str(t))
        if k == "mutref":
            return self.ex(e[1], env, want)
        if k == "index" and e[2][0] == "tuple" and len(e[2][1]) == 2 and all(q[0] == "num" for q in e[2][1]):
            # entry (i, j) of a 3 x 3 matrix held as three rows
            s, t = self.ex(e[1], env)
            if t == ("st", "Mat3 α"):
                i, j = int(e[2][1][0][1]), int(e[2][1][1][1])
                if i < 3 and j < 3:
                    return f"{s}.r{i}.{'xyz'[j]}", "S"
            raise Untranslatable(f"matrix entry of {t}")
        if k == "index":
            s, t = self.ex(e[1], env)
            i, ti = self.ex(e[2], env, "N")
            if isinstance(t, tuple) and t[0] == "list" and ti == "N":
                # in-range by the code's own invariant; the model reads lists the same way
                return f"({s}.getD {i} default)", t[1]
            raise Untranslatable(f"indexing {t} by {ti}")
        if k == "tuple":
            parts = [self.ex(x, env) for x in e[1]]
            return "(" + ", ".join(p[0] for p in parts) + ")", ("tup", [p[1] for p in parts])
        if k == "mcall":
            return self.mcall(e, env)
        if k == "call":
            return self.call(e, env)
        if k == "struct":
            return self.struct(e, env)
        if k == "if":
            return self.if_expr(e, env, want)
        if k == "iflet":
            return self.iflet_expr(e, env, want)
        if k == "match":
            return self.match_expr(e, env, want)
        if k == "blockexpr":
            return self.block(e[1], dict(env), want)
        if k == "veclit":
            parts = [self.ex(x, env) for x in e[1]]
            return "[" + ", ".join(p[0] for p in parts) + "]", ("list", parts[0][1] if parts else "?")
        raise Untranslatable(f"expression kind {k}")

    def cond(self, e, env):
        """condition position: a Prop for a plain comparison, otherwise a Bool (coerced)"""
        while e[0] == "paren":
            e = e[1]
        if e[0] == "bin" and e[1] in ("<", ">", "<=", ">=", "==", "!="):
            return self.cmp_prop(e, env)
        s, t = self.ex(e, env, "B")
        if t != "B":
            raise Untranslatable("condition is not bool")
        return s

    def cmp_prop(self, e, env):
        op = e[1]
        a, ta = self.ex(e[2], env)
        b, tb = self.ex(e[3], env, ta if ta in ("S", "N") else None)
        if ta != tb and "?" not in (ta, tb):
            # integer literal against scalar
            a, ta = self.ex(e[2], env, tb)
        if op == "<":
            return f"{a} < {b}"
        if op == ">":
            return f"{b} < {a}"
        if op == "<=":
            return f"{a} ≤ {b}"
        if op == ">=":
            return f"{b} ≤ {a}"
        if ta == "S":
            raise Untranslatable("float equality")
        if op == "==":
            return f"{a} = {b}"
        return f"{a} ≠ {b}"

    def binop(self, e, env):
        op = e[1]
        if op in ("<", ">", "<=", ">=", "==", "!="):
            return f"decide ({self.cmp_prop(e, env)})", "B"
        if op in ("&&", "||"):
            a, ta = self.ex(e[2], env, "B")
            b, tb = self.ex(e[3], env, "B")
            return f"({a} {op} {b})", "B"
        a, ta = self.ex(e[2], env)
        b, tb = self.ex(e[3], env, ta if ta in ("S", "N") else None)
        if ta == "N" and tb == "S":
            a, ta = self.ex(e[2], env, "S")
        sym = op
        if ta == "S" and tb == "S":
            if op == "%":
                return f"(Scalar.fmod {a} {b})", "S"
            return f"({a} {sym} {b})", "S"
        if ta == "N" and tb == "N" and op in "+-*/%":
            return f"({a} {sym} {b})", "N"
        if ta in ("V2", "V3") and tb == ta and op in "+-":
            return f"({ta}.{'add' if op == '+' else 'sub'} {a} {b})", ta
        if ta in ("V2", "V3") and tb == "S" and op == "*":
            return f"({ta}.smul {b} {a})", ta
        if ta == "S" and tb in ("V2", "V3") and op == "*":
            return f"({tb}.smul {a} {b})", tb
        if ta in ("V2", "V3") and tb == "S" and op == "/":
            return f"({ta}.smul ((1 : α) / {b}) {a})", ta
        for (bop, bta, btb), (fn, rt) in self.cfg.get("binop", {}).items():
            if bop == op and bta == ta and btb == tb:
                return f"({fn} {a} {b})", rt
        raise Untranslatable(f"operator {op} on {ta}, {tb}")

    def app(self, ln, pre, args, pts, env):
        out = list(pre)
        if len(args) != len(pts):
            raise Untranslatable(f"arity of {ln}")
        for a, pt in zip(args, pts):
            while a[0] == "paren":
                a = a[1]
            if isinstance(pt, tuple) and pt[0] == "tup" and a[0] == "tuple":
                for x, xt in zip(a[1], pt[1]):
                    out.append(self.ex(x, env, xt if xt in ("S", "N") else None)[0])
            else:
                out.append(self.ex(a, env, pt if pt in ("S", "N") else None)[0])
        return "(" + " ".join([ln] + out) + ")"

    SC1 = {"sqrt": "Scalar.sqrt", "sin": "Scalar.sin", "cos": "Scalar.cos", "acos": "Scalar.acos", "asin": "Scalar.asin",
           "abs": "sabs", "floor": "Scalar.floor", "ceil": "Scalar.ceil"}

    def mcall(self, e, env):
        recv, m, args = e[1], e[2], e[3]
        if m == "map" and len(args) == 1 and recv[0] == "mcall" and recv[2] in ("max_by", "min_by"):
            # enumerate().max_by(|(_, a), (_, b)| a.partial_cmp(b).unwrap()).map(|(i, _)| i): the index of the LAST
            # maximal element (Iterator::max_by) / the FIRST minimal one (Iterator::min_by), by their contracts
            inner = recv
            src = inner[1]
            if src[0] == "mcall" and src[2] == "enumerate" and len(inner[3]) == 1 and inner[3][0][0] == "closure":
                cmpc = inner[3][0]
                proj = args[0]
                def snd_name(p):
                    return p[1][1][1] if p[0] == "ptuple" and len(p[1]) == 2 and p[1][1][0] == "pid" else None
                a, b = (snd_name(cmpc[1][0]), snd_name(cmpc[1][1])) if len(cmpc[1]) == 2 else (None, None)
                body = cmpc[2]
                okc = (a and b and body[0] == "mcall" and body[2] == "unwrap" and body[1][0] == "mcall" and body[1][2] == "partial_cmp"
                       and body[1][1] == ("path", [a]) and body[1][3] == [("path", [b])])
                okp = (proj[0] == "closure" and len(proj[1]) == 1 and proj[1][0][0] == "ptuple" and len(proj[1][0][1]) == 2
                       and proj[1][0][1][0][0] == "pid" and proj[2] == ("path", [proj[1][0][1][0][1]]))
                base, bt = self.ex(src[1], env)
                if okc and okp and bt == ("list", "S"):
                    fn = "argmaxLast" if inner[2] == "max_by" else "argminFirst"
                    return f"({fn} {base})", ("opt", "N")
            raise Untranslatable("max_by / min_by in another form")
        # Type::assoc(...) handled in call; here receiver is a value
        s, t = self.ex(recv, env)
        if isinstance(t, tuple) and t[0] == "opt" and m in ("is_none", "is_some") and not args:
            return f"{s}.{'isNone' if m == 'is_none' else 'isSome'}", "B"
        if m in ("clone", "into_inner", "into", "to_owned", "as_ref"):
            if args:
                raise Untranslatable(m)
            return s, t
        if t == "N" and m in ("min", "max") and len(args) == 1:
            a, ta = self.ex(args[0], env, "N")
            return f"(Nat.{m} {s} {a})", "N"
        if t == "S":
            if m in self.SC1 and not args:
                return f"({self.SC1[m]} {s})", "S"
            if m in ("min", "max") and len(args) == 1:
                a, ta = self.ex(args[0], env, "S")
                return f"({'smin' if m == 'min' else 'smax'} {s} {a})", "S"
            if m == "atan2" and len(args) == 1:
                a, ta = self.ex(args[0], env, "S")
                return f"(Scalar.atan2 {s} {a})", "S"
            if m == "hypot" and len(args) == 1:
                a, ta = self.ex(args[0], env, "S")
                return f"(Scalar.sqrt (({s} * {s}) + ({a} * {a})))", "S"
            if m == "powi" and len(args) == 1 and args[0] == ("num", "2"):
                return f"({s} * {s})", "S"
            if m == "powi" and len(args) == 1:
                a, ta = self.ex(args[0], env, "N")
                if ta == "N":
                    return f"(spow {s} {a})", "S"
            if m == "clamp" and len(args) == 2:
                lo, _ = self.ex(args[0], env, "S")
                hi, _ = self.ex(args[1], env, "S")
                return f"(smin (smax {s} {lo}) {hi})", "S"
        if t in ("V2", "V3"):
            if m == "dot" and len(args) == 1:
                a, ta = self.ex(args[0], env)
                return f"({t}.dot {s} {a})", "S"
            if m == "cross" and len(args) == 1 and t == "V3":
                a, ta = self.ex(args[0], env)
                return f"(V3.cross {s} {a})", "V3"
            if m == "norm" and not args:
                return f"({t}.norm {s})", "S"
            if m == "norm_squared" and not args:
                return f"({t}.normSq {s})", "S"
            if m == "normalize" and not args:
                return f"({t}.normalize {s})", t
        if isinstance(t, tuple) and t[0] == "list":
            et = t[1]
            def lam(cl, ptypes, want=None):
                if cl[0] != "closure" or len(cl[1]) != len(ptypes):
                    raise Untranslatable("closure expected")
                env_c = dict(env)
                ps = [self.bind_pat(q, pt, env_c) for q, pt in zip(cl[1], ptypes)]
                b, bt = self.ex(cl[2], env_c, want)
                return "(fun " + " ".join(ps) + " => " + b + ")", bt
            if m in ("into_iter", "collect", "copied", "cloned", "values", "as_slice") and not args:
                return s, t
            if m == "map" and len(args) == 1:
                f, bt = lam(args[0], [et])
                return f"({s}.map {f})", ("list", bt)
            if m == "filter" and len(args) == 1:
                f, bt = lam(args[0], [et], "B")
                return f"({s}.filter {f})", t
            if m in ("all", "any") and len(args) == 1:
                f, bt = lam(args[0], [et], "B")
                if bt != "B":
                    raise Untranslatable("predicate is not bool")
                return f"({s}.{m} {f})", "B"
            if m == "rev" and not args:
                return f"{s}.reverse", t
            if m == "enumerate" and not args:
                return f"(enumerateL {s})", ("list", ("tup", ["N", et]))
            if m == "sum" and not args and et == "S":
                return f"({s}.foldl (fun a b => a + b) (0 : α))", "S"
            if m == "fold" and len(args) == 2:
                i0, it0 = self.ex(args[0], env, "S")
                f, bt = lam(args[1], [it0, et])
                return f"({s}.foldl {f} {i0})", it0
            if m == "windows" and len(args) == 1 and args[0] == ("num", "2"):
                return f"(windows2 {s})", ("list", ("list", et))
            if m == "binary_search_by" and len(args) == 1 and et == "S" and args[0][0] == "closure" and len(args[0][1]) == 1:
                # xs.binary_search_by(|a| a.partial_cmp(&x).unwrap()): position of x in the ascending list
                cl = args[0]
                body = cl[2]
                pname = cl[1][0][1] if cl[1][0][0] == "pid" else None
                if body[0] == "mcall" and body[2] == "unwrap" and body[1][0] == "mcall" and body[1][2] == "partial_cmp" \
                        and body[1][1] == ("path", [pname]) and len(body[1][3]) == 1:
                    x, tx = self.ex(body[1][3][0], env, "S")
                    return f"(binarySearch {s} {x})", "SEARCH"
                raise Untranslatable("binary_search_by with another comparator")
            if m == "contains" and len(args) == 1 and et == "N":
                a, ta = self.ex(args[0], env, "N")
                return f"({s}.contains {a})", "B"
            if m == "len" and not args:
                return f"{s}.length", "N"
            if m in ("iter", "to_vec") and not args:
                return s, t
            if m == "is_empty" and not args:
                return f"{s}.isEmpty", "B"
            if m == "skip" and len(args) == 1:
                a, ta = self.ex(args[0], env, "N")
                return f"({s}.drop {a})", t
            if m == "last" and not args:
                return f"{s}.getLast?", ("opt", t[1])
            if m == "first" and not args:
                return f"{s}.head?", ("opt", t[1])
            if m == "zip" and len(args) == 1:
                a, ta = self.ex(args[0], env)
                if isinstance(ta, tuple) and ta[0] == "list":
                    return f"({s}.zip {a})", ("list", ("tup", [t[1], ta[1]]))
        if t == "SET":
            if m == "contains" and len(args) == 1:
                a, ta = self.ex(args[0], env, "N")
                return f"({s}.contains {a})", "B"
            if m in ("iter", "into_iter", "copied", "cloned", "collect") and not args:
                return s, ("list", "N")
            if m == "len" and not args:
                return f"{s}.length", "N"
        if isinstance(t, tuple) and t[0] == "opt" and m == "unwrap_or" and len(args) == 1:
            a, ta = self.ex(args[0], env, t[1] if t[1] in ("S", "N") else None)
            return f"({s}.getD {a})", t[1]
        if isinstance(t, tuple) and t[0] == "opt" and m == "unwrap" and not args and self.cfg.get("unwrap_keeps_option"):
            # the model keeps the Option that the Rust code unwraps (a `None` there is the Rust panic)
            return s, t
        if isinstance(t, tuple) and t[0] == "opt" and m == "unwrap" and not args and self.cfg.get("unwrap_default"):
            # `unwrap` on an option the code's invariant makes `Some`: the model reads `default` otherwise
            return f"({s}.getD default)", t[1]
        if isinstance(t, tuple) and t[0] == "st":
            rn = self.cfg.get('rust_names', {}).get(t[1], t[1])
            ext = self.cfg.get("extern", {}).get(f"{rn}::{m}")
            if ext and f"{rn}::{m}" not in self.known:
                ln, pts, rt = ext
                return self.app(ln, [s], args, pts[1:], env), rt
            key = f"{self.cfg.get('rust_names', {}).get(t[1], t[1])}::{m}"
            if key in self.known:
                ln, pts, rt = self.known[key]
                return self.app(ln, [s], args, pts[1:], env), rt
        raise Untranslatable(f"method .{m} on {t}")

    def call(self, e, env):
        path, args = e[1], e[2]
        name = path[-1]
        if name in ("Some", "Ok") and len(path) == 1 and len(args) == 1:
            s, t = self.ex(args[0], env)
            return f"(some {s})", ("opt", t)
        if name == "Err" and len(path) == 1:
            return "none", ("opt", "?")
        if path[-2:] == ["Vec", "new"] and not args:
            return "[]", ("list", "?")
        if path[-2:] == ["Vec", "with_capacity"] and len(args) == 1:
            return "[]", ("list", "?")
        if len(path) == 2 and path[0] == "f64" and args:
            return self.mcall(("mcall", args[0], name, args[1:]), env)
        npath = [self.cfg["self_rust"] if (q == "Self" and self.cfg.get("self_rust")) else q for q in path]
        ext = self.cfg.get("extern", {}).get("::".join(npath)) or self.cfg.get("extern", {}).get("::".join(npath[-2:]))
        if ext:
            ln, pts, rt = ext
            return self.app(ln, [], args, pts, env), rt
        if len(path) >= 2 and path[-2] in ("Vector2", "Point2") and name == "new":
            a = [self.ex(x, env, "S")[0] for x in args]
            return f"(V2.mk {a[0]} {a[1]})", "V2"
        if len(path) >= 2 and path[-2] in ("Vector3", "Point3") and name == "new":
            a = [self.ex(x, env, "S")[0] for x in args]
            return f"(V3.mk {a[0]} {a[1]} {a[2]})", "V3"
        if len(path) >= 2 and path[-2] in ("Point3", "Point2", "Vector2", "Vector3") and name == "from" and len(args) == 1:
            return self.ex(args[0], env)
        key = "::".join(path[-2:]) if len(path) >= 2 else name
        if len(path) >= 2 and path[-2] == "Self" and self.cfg.get("self_rust"):
            key = f"{self.cfg['self_rust']}::{name}"
        if name == "from" and len(args) == 1:
            a0 = args[0]
            while a0[0] == "paren":
                a0 = a0[1]
            key = key + "#" + str(len(a0[1]) if a0[0] == "tuple" else 1)
        if key in self.known:
            ln, pts, rt = self.known[key]
            return self.app(ln, [], args, pts, env), rt
        if name in self.known:
            ln, pts, rt = self.known[name]
            return self.app(ln, [], args, pts, env), rt
        if len(path) == 1 and name in env and isinstance(env[name][1], tuple) and env[name][1][0] == "fn":
            nm, (_, pts, rt) = env[name]
            return self.app(nm, [], args, pts, env), rt
        raise Untranslatable(f"call of {'::'.join(path)}")

    def struct(self, e, env):
        path, fields = e[1], e[2]
        tn = path[-1]
        nt = self.cfg.get("newtypes", {}).get(tn if tn != "Self" else self.cfg.get("self_rust"))
        if nt and len(fields) == 1:
            s, t = self.ex(fields[0][1], env)
            return s, nt
        if tn == "Self":
            lt = self.cfg.get("self_ty")
        else:
            lt = self.cfg.get("types", {}).get(tn)
        if not lt:
            raise Untranslatable(f"struct literal {tn}")
        fmap = self.cfg.get("fields", {}).get(lt, {})
        parts = []
        for (f, v) in fields:
            if f not in fmap:
                raise Untranslatable(f"struct field {f}")
            s, t = self.ex(v, env, fmap[f][1] if fmap[f][1] in ("S", "N") else None)
            parts.append(f"{fmap[f][0]} := {s}")
        return "{ " + ", ".join(parts) + " }", ("st", lt)

    def if_expr(self, e, env, want):
        c = self.cond(e[1], env)
        th, tt = self.block(e[2], dict(env), want)
        if e[3] is None:
            raise Untranslatable("if expression without else")
        el, te = self.block(e[3], dict(env), want)
        t = tt if tt != ("opt", "?") else te
        return f"(if {c} then {th} else {el})", t

    def ctor_arm(self, ctor, t):
        """(lean constructor, type of its payload) for a pattern `Some(p)` / `Ok(p)` / `Err(p)` against type t"""
        if isinstance(t, tuple) and t[0] == "opt" and ctor == "Some":
            return "some", t[1]
        if t == "SEARCH" and ctor == "Ok":
            return "SearchRes.found", "N"
        if t == "SEARCH" and ctor == "Err":
            return "SearchRes.insert", "N"
        raise Untranslatable(f"pattern {ctor}(..) against {t}")

    def iflet_expr(self, e, env, want):
        _, ctor, ip, scrut, th, el = e
        s, t = self.ex(scrut, env)
        lc, pt = self.ctor_arm(ctor, t)
        env_t = dict(env)
        pv = self.bind_pat(ip, pt, env_t)
        a, ta = self.block(th, env_t, want)
        if el is None:
            raise Untranslatable("`if let` expression without else")
        b, tb = self.block(el, dict(env), want)
        rt = ta if ta != ("opt", "?") else tb
        return f"(match {s} with | {lc} {pv} => {a} | _ => {b})", rt

    def match_expr(self, e, env, want):
        s, t = self.ex(e[1], env)
        if t == "SEARCH" or (isinstance(t, tuple) and t[0] == "opt"):
            arms = []
            rt = None
            for (pat, body) in e[2]:
                m = re.fullmatch(r"(Some|Ok|Err)\((\w+)\)", pat)
                env_a = dict(env)
                if m:
                    lc, pt = self.ctor_arm(m.group(1), t)
                    pv = self.bind_pat(("pid", m.group(2)), pt, env_a)
                    lp = f"{lc} {pv}"
                elif pat == "None":
                    lp = "none"
                elif pat == "_":
                    lp = "_"
                else:
                    raise Untranslatable(f"match pattern {pat}")
                bs, bt = self.ex(body, env_a, want)
                if rt is None or rt == ("opt", "?"):
                    rt = bt
                arms.append(f"| {lp} => {bs}")
            return f"(match {s} with " + " ".join(arms) + ")", rt
        arms = []
        rt = None
        for (pat, body) in e[2]:
            lps = []
            for alt in pat.split("|"):
                pn = alt.split("::")[-1]
                var = self.cfg.get("variants", {}).get(pn)
                if pn == "_":
                    lps.append("_")
                elif var:
                    lps.append(var[0])
                else:
                    raise Untranslatable(f"match pattern {pat}")
            lp = " | ".join(lps)
            bs, bt = self.ex(body, env, want)
            rt = rt or bt
            arms.append(f"| {lp} => {bs}")
        return f"(match {s} with " + " ".join(arms) + ")", rt

    # ---- blocks
    def assigned(self, stmts, env):
        out = []
        for st in stmts:
            if st[0] == "assign" and st[1][0] == "path" and len(st[1][1]) == 1:
                v = st[1][1][0]
                if v in env and v not in out:
                    out.append(v)
            elif st[0] in ("semi", "tail") and st[1][0] == "if":
                for b in (st[1][2], st[1][3] or []):
                    inner_env = env
                    for v in self.assigned(b, inner_env):
                        if v not in out:
                            out.append(v)
            elif st[0] == "semi" and st[1][0] == "mcall" and st[1][2] == "push" and st[1][1][0] == "path":
                v = st[1][1][1][0]
                if v in env and v not in out:
                    out.append(v)
            elif st[0] == "semi" and st[1][0] == "mcall" and st[1][2] in ("dedup_by", "reverse") and st[1][1][0] == "path":
                v = st[1][1][1][0]
                if v in env and v not in out:
                    out.append(v)
            elif st[0] == "semi" and st[1][0] == "mcall" and st[1][2] in ("insert", "remove", "retain") and st[1][1][0] == "path":
                v = st[1][1][1][0]
                if v in env and env[v][1] == "SET" and v not in out:
                    out.append(v)
            elif st[0] in ("semi", "tail") and st[1][0] == "match":
                for (_, body) in st[1][2]:
                    b = body[1] if body[0] == "blockexpr" else [("semi", body)]
                    for v in self.assigned(b, env):
                        if v not in out:
                            out.append(v)
            elif st[0] == "for":
                # (a loop variable or inner `let` shadowing an outer name is not expected in this code)
                for v in self.assigned(st[3], env):
                    if v not in out:
                        out.append(v)
                if st[2][0] == "mutref" and st[2][1][0] == "path" and st[2][1][1][0] in env and st[2][1][1][0] not in out:
                    out.append(st[2][1][1][0])
            elif st[0] == "while":
                for v in self.assigned(st[2], env):
                    if v not in out:
                        out.append(v)
        # variables shadowed by a `let` inside the branch before assignment are rare in this code; ignored
        return out

    def returns(self, stmts):
        """True when every path through the statement list ends in `return` (or `continue` inside a loop body)"""
        if not stmts:
            return False
        last = stmts[-1]
        if last[0] in ("return", "continue"):
            return True
        if last[0] in ("semi", "tail") and last[1][0] == "if" and last[1][3] is not None:
            return self.returns(last[1][2]) and self.returns(last[1][3])
        return False

    def block(self, stmts, env, want=None):
        return self.seq(stmts, 0, env, want)

    def state_of(self, mv, env):
        names = [env[v][0] for v in mv]
        val = names[0] if len(mv) == 1 else "(" + ", ".join(names) + ")"
        tailst = ("tail", ("path", [mv[0]])) if len(mv) == 1 else ("tail", ("tuple", [("path", [v]) for v in mv]))
        return val, tailst

    def iter_source(self, it, env):
        """(lean list expression, element type) of the thing a `for` iterates over"""
        while it[0] == "paren":
            it = it[1]
        if it[0] == "bin" and it[1] == "..":
            a, ta = self.ex(it[2], env, "N")
            b, tb = self.ex(it[3], env, "N")
            if ta != "N" or tb != "N":
                raise Untranslatable("range over non-integers")
            if a == "0":
                return f"(List.range {b})", "N"
            return f"(List.range' {a} ({b} - {a}))", "N"
        s, t = self.ex(it, env)
        if isinstance(t, tuple) and t[0] == "list":
            return s, t[1]
        raise Untranslatable(f"iteration over {t}")

    def for_loop(self, st, stmts, i, env, want):
        _, pat, it, body = st
        # `for p in &mut xs { *p op= e; }`  ==  xs := xs.map (fun p => p op e)
        if it[0] == "mutref" and it[1][0] == "path" and len(it[1][1]) == 1 and it[1][1][0] in env and pat[0] == "pid" \
                and len(body) == 1 and body[0][0] == "assign" and body[0][1] == ("path", [pat[1]]):
            xs = it[1][1][0]
            nm, t = env[xs]
            if not (isinstance(t, tuple) and t[0] == "list"):
                raise Untranslatable("in-place update of " + str(t))
            env_b = dict(env)
            pv = self.bind_pat(pat, t[1], env_b)
            a = body[0]
            if a[2] == "=":
                e, _ = self.ex(a[3], env_b, t[1] if t[1] in ("S", "N") else None)
            else:
                e, _ = self.binop(("bin", a[2][0], a[1], a[3]), env_b)
            rest, rt = self.seq(stmts, i + 1, env, want)
            return f"(let {nm} := {nm}.map (fun {pv} => {e}); {rest})", rt
        mv = self.assigned(body, env)
        if not mv:
            raise Untranslatable("for loop without effect on locals")
        src, et = self.iter_source(it, env)
        val, tailst = self.state_of(mv, env)
        env_b = dict(env)
        pv = self.bind_pat(pat, et, env_b)
        self.loop_state.append((mv, tailst[1]))
        self.pushed = {}
        try:
            b, _ = self.block(body + [tailst], env_b)
        finally:
            self.loop_state.pop()
        env2 = dict(env)
        for v in mv:
            if env2[v][1] == ("list", "?") and v in self.pushed:
                env2[v] = (env2[v][0], ("list", self.pushed[v]))
        rest, rt = self.seq(stmts, i + 1, env2, want)
        return f"(let {val} := (List.foldl (fun {val} {pv} => {b}) {val} {src}); {rest})", rt

    def while_loop(self, st, stmts, i, env, want):
        _, c, body = st
        fuel = self.cfg.get("fuel")
        if not fuel:
            raise Untranslatable("while loop without a fuel parameter in the spec")
        mv = self.assigned(body, env)
        if not mv:
            raise Untranslatable("while loop without effect on locals")
        val, tailst = self.state_of(mv, env)
        self.loop_state.append((mv, tailst[1]))
        self.pushed = {}
        try:
            # element types of accumulators that are still unknown do not matter for the condition
            b, _ = self.block(body + [tailst], dict(env))
        finally:
            self.loop_state.pop()
        env2 = dict(env)
        for v in mv:
            if env2[v][1] == ("list", "?") and v in self.pushed:
                env2[v] = (env2[v][0], ("list", self.pushed[v]))
        cnd = self.cond(c, env2)
        rest, rt = self.seq(stmts, i + 1, env2, want)
        return f"(let {val} := (whileFuel {fuel} (fun {val} => decide ({cnd})) (fun {val} => {b}) {val}); {rest})", rt

    def bind_pat(self, p, t, env):
        if p[0] == "pid":
            env[p[1]] = (lean_ident(p[1]), t)
            return lean_ident(p[1])
        if p[0] == "ptuple":
            if not (isinstance(t, tuple) and t[0] == "tup" and len(t[1]) == len(p[1])):
                raise Untranslatable("tuple pattern against " + str(t))
            return "(" + ", ".join(self.bind_pat(q, tt, env) for q, tt in zip(p[1], t[1])) + ")"
        raise Untranslatable("pattern")

    def seq(self, stmts, i, env, want):
        if i >= len(stmts):
            raise Untranslatable("block without a value")
        st = stmts[i]
        last = i == len(stmts) - 1
        k = st[0]
        if k == "tail" and not last and st[1][0] in ("if", "match"):
            k = "semi"      # `else if` chains parsed as a nested tail
        if k == "tail":
            if not last:
                raise Untranslatable("expression in the middle of a block")
            return self.ex(st[1], env, want)
        if k == "return":
            if st[1] is None:
                raise Untranslatable("bare return")
            if self.loop_state:
                raise Untranslatable("return from inside a loop")
            return self.ex(st[1], env, want)
        if k == "continue":
            if not self.loop_state:
                raise Untranslatable("continue outside a loop")
            return self.ex(self.loop_state[-1][1], env)
        if k == "for":
            return self.for_loop(st, stmts, i, env, want)
        if k == "while":
            return self.while_loop(st, stmts, i, env, want)
        if k == "let":
            s, t = self.ex(st[2], env)
            env2 = dict(env)
            pat = self.bind_pat(st[1], t, env2)
            rest, rt = self.seq(stmts, i + 1, env2, want)
            return f"(let {pat} := {s}; {rest})", rt
        if k == "assign":
            tgt = st[1]
            if not (tgt[0] == "path" and len(tgt[1]) == 1 and tgt[1][0] in env):
                raise Untranslatable("assignment to a place that is not a local variable")
            v = tgt[1][0]
            nm, t = env[v]
            if st[2] == "=":
                s, _ = self.ex(st[3], env, t if t in ("S", "N") else None)
            else:
                s, _ = self.binop(("bin", st[2][0], tgt, st[3]), env)
            rest, rt = self.seq(stmts, i + 1, env, want)
            return f"(let {nm} := {s}; {rest})", rt
        if k == "semi":
            e = st[1]
            if e[0] == "if":
                c = self.cond(e[1], env)
                th, el = e[2], e[3]
                if el is None and self.returns(th):
                    a, ta = self.block(th, dict(env), want)
                    b, tb = self.seq(stmts, i + 1, env, want)
                    t = ta if ta != ("opt", "?") else tb
                    return f"(if {c} then {a} else {b})", t
                if el is not None and self.returns(th) and self.returns(el):
                    a, ta = self.block(th, dict(env), want)
                    b, tb = self.block(el, dict(env), want)
                    return f"(if {c} then {a} else {b})", (ta if ta != ("opt", "?") else tb)
                if el is not None and self.returns(th) and not self.returns(el):
                    # if c { return A } else { stmts } ; rest   ==  if c then A else (stmts; rest)
                    a, ta = self.block(th, dict(env), want)
                    b, tb = self.seq(el + stmts[i + 1:], 0, dict(env), want)
                    return f"(if {c} then {a} else {b})", (ta if ta != ("opt", "?") else tb)
                # mutation of outer variables
                mv = self.assigned([st], env)
                if not mv:
                    raise Untranslatable("if statement without effect on locals")
                tup = mv[0] if len(mv) == 1 else None
                names = [env[v][0] for v in mv]
                val = names[0] if len(mv) == 1 else "(" + ", ".join(names) + ")"
                tailst = ("tail", ("path", [mv[0]])) if len(mv) == 1 else ("tail", ("tuple", [("path", [v]) for v in mv]))
                a, _ = self.block(th + [tailst], dict(env))
                if el is None:
                    b = val
                else:
                    b, _ = self.block(el + [tailst], dict(env))
                rest, rt = self.seq(stmts, i + 1, env, want)
                return f"(let {val} := (if {c} then {a} else {b}); {rest})", rt
            if last and e[0] == "match":
                return self.ex(e, env, want)
            if e[0] == "match":
                # a match statement whose arms mutate locals: the mutated variables become its value
                mv = self.assigned([st], env)
                if not mv:
                    raise Untranslatable("match statement without effect on locals")
                val, tailst = self.state_of(mv, env)
                sc, tsc = self.ex(e[1], env)
                arms = []
                for (pat, body) in e[2]:
                    lps = []
                    for alt in pat.split("|"):
                        pn = alt.split("::")[-1]
                        var = self.cfg.get("variants", {}).get(pn)
                        if pn == "_":
                            lps.append("_")
                        elif var:
                            lps.append(var[0])
                        else:
                            raise Untranslatable(f"match pattern {pat}")
                    b = body[1] if body[0] == "blockexpr" else [("semi", body)]
                    bs, _ = self.block(b + [tailst], dict(env))
                    arms.append("| " + " | ".join(lps) + " => " + bs)
                rest, rt = self.seq(stmts, i + 1, env, want)
                return f"(let {val} := (match {sc} with " + " ".join(arms) + f"); {rest})", rt
            if e[0] == "mcall" and e[2] == "reverse" and not e[3] and e[1][0] == "path" and len(e[1][1]) == 1 and e[1][1][0] in env \
                    and isinstance(env[e[1][1][0]][1], tuple) and env[e[1][1][0]][1][0] == "list":
                nm, t = env[e[1][1][0]]
                rest, rt = self.seq(stmts, i + 1, env, want)
                return f"(let {nm} := {nm}.reverse; {rest})", rt
            if e[0] == "mcall" and e[2] == "dedup_by" and e[1][0] == "path" and len(e[1][1]) == 1 and e[1][1][0] in env \
                    and len(e[3]) == 1 and e[3][0][0] == "closure" and len(e[3][0][1]) == 2:
                # pts.dedup_by(|a, b| dist(a, b) <= tol): drop an element within tol of the last retained one
                v = e[1][1][0]
                nm, t = env[v]
                cl = e[3][0]
                pa, pb = cl[1]
                body = cl[2]
                ok = (body[0] == "bin" and body[1] == "<=" and body[2][0] == "call" and body[2][1][-1] == "dist"
                      and pa[0] == "pid" and pb[0] == "pid"
                      and sorted(a[1][0] if a[0] == "path" else "?" for a in body[2][2]) == sorted([pa[1], pb[1]]))
                if not (ok and isinstance(t, tuple) and t[0] == "list" and t[1] in ("V2", "V3")):
                    raise Untranslatable("dedup_by with another criterion")
                tol, tt = self.ex(body[3], env, "S")
                rest, rt = self.seq(stmts, i + 1, env, want)
                return f"(let {nm} := (dedupTolPts {tol} {nm}); {rest})", rt
            if e[0] == "mcall" and e[2] in ("insert", "remove", "retain") and e[1][0] == "path" and len(e[1][1]) == 1 \
                    and e[1][1][0] in env and env[e[1][1][0]][1] == "SET":
                v = e[1][1][0]
                nm, t = env[v]
                if e[2] == "insert":
                    a, _ = self.ex(e[3][0], env, "N")
                    upd = f"(setInsert {nm} {a})"
                elif e[2] == "remove":
                    a, _ = self.ex(e[3][0], env, "N")
                    upd = f"(setRemove {nm} {a})"
                else:
                    cl = e[3][0]
                    if cl[0] != "closure" or len(cl[1]) != 1:
                        raise Untranslatable("retain expects a closure")
                    env_c = dict(env)
                    pv = self.bind_pat(cl[1][0], "N", env_c)
                    b, bt = self.ex(cl[2], env_c, "B")
                    upd = f"({nm}.filter (fun {pv} => {b}))"
                rest, rt = self.seq(stmts, i + 1, env, want)
                return f"(let {nm} := {upd}; {rest})", rt
            if e[0] == "mcall" and e[2] == "push" and e[1][0] == "path" and len(e[1][1]) == 1 and e[1][1][0] in env:
                v = e[1][1][0]
                nm, t = env[v]
                if not (isinstance(t, tuple) and t[0] == "list"):
                    raise Untranslatable("push on " + str(t))
                a, ta = self.ex(e[3][0], env)
                env2 = dict(env)
                env2[v] = (nm, ("list", ta))
                self.pushed[v] = ta
                rest, rt = self.seq(stmts, i + 1, env2, want)
                return f"(let {nm} := {nm} ++ [{a}]; {rest})", rt
            raise Untranslatable("expression statement with side effect")
        raise Untranslatable("statement " + k)


LEAN_KEYWORDS = {"at", "end", "from", "have", "show", "then", "else", "open", "in", "do", "fun", "with", "match", "let",
                 "where", "by", "if", "section", "namespace", "structure", "class", "instance", "def", "theorem",
                 "variable", "universe", "import", "export", "private", "protected", "mutual", "deriving", "macro",
                 "syntax", "abbrev", "example", "inductive", "Type", "Prop", "Sort", "forall", "exists", "this", "self"}


def lean_ident(v):
    if v in LEAN_KEYWORDS or v.startswith("_"):
        return v.strip("_") + "'"
    return v


def file_consts(src):
    out = {}
    # comments removed first (a commented-out `const` is not a constant); of several constants with one
    # name (a test module may re-declare one) the first, i.e. the file-level one, is meant
    src = re.sub(r"//[^\n]*", "", src)
    src = re.sub(r"/\*.*?\*/", "", src, flags=re.S)
    for m in re.finditer(r"\bconst\s+([A-Z_][A-Z0-9_]*)\s*:\s*f64\s*=\s*([-0-9._eE]+(?:f64)?)\s*;", src):
        try:
            out.setdefault(m.group(1), num_lit(m.group(2)))
        except Exception:
            pass
    return out


HEADER = """/- REGENERATED by tools/rs2lean.py from the /repo working tree on every run. Do not edit.
   Each definition is the translation of the Rust function named in its doc comment. -/
import Engeom.Model.Prelude
{imports}
namespace GenRs
section
variable {{α : Type}} [Add α] [Sub α] [Mul α] [Div α] [Neg α] [LT α] [LE α]
  [DecidableLT α] [DecidableLE α] [OfNat α 0] [OfNat α 1] [OfNat α 2] [Scalar α]{extra_vars}

"""


def translate_group(pid, group, report):
    """group: dict(imports=[...], cfg=..., fns=[dict(file, impl, name, lean, self_ty, ...)])"""
    cfg = group.get("cfg", {})
    out = HEADER.format(imports="\n".join("import " + m for m in group.get("imports", [])),
                        extra_vars=(" " + group["header_extra"]) if group.get("header_extra") else "")
    known = dict(group.get("extern", {}))
    srcs = {}
    for f in group["fns"]:
        rel = f["file"]
        if rel not in srcs:
            try:
                srcs[rel] = strip_attrs(open(os.path.join(REPO, rel)).read())
            except OSError:
                srcs[rel] = ""
    # first pass: signatures (so that calls between listed functions resolve)
    sigs = {}
    for f in group["fns"]:
        key = (f["impl"] + "::" if f.get("impl") else "") + f["name"]
        fcfg = dict(cfg)
        fcfg.update(f.get("cfg", {}))
        if f.get("impl"):
            fcfg["self_ty"] = fcfg.get("types", {}).get(f["impl"], f.get("self_ty"))
            fcfg["self_rust"] = f["impl"]
        try:
            if "fragment" in f:
                m = re.search(f["fragment"], srcs[f["file"]], re.S)
                if not m:
                    raise Untranslatable("fragment pattern not found")
                plist = [(("pid", n), tuple(t) if isinstance(t, list) else t) for n, t in f["params"]]
                rt = f["ret"]
                text = m.group(1)
                for a, b in f.get("subst", []):
                    text = text.replace(a, b)
                body = "{ " + text + " " + f.get("tail", "") + " }"
                sigs[key] = (f, fcfg, plist, rt, body)
                known[key] = ("GenRs." + f["lean"], [p[1] for p in plist], rt)
                continue
            params, ret, body = find_fn(srcs[rel if False else f["file"]], f.get("impl"), f["name"], f.get("nth", 0))
            ptoks = P(lex(params))
            plist = []
            while ptoks.peek()[0] != "eof":
                if ptoks.at("&"):
                    ptoks.eat()
                if ptoks.at("mut"):
                    ptoks.eat()
                if ptoks.at("self"):
                    ptoks.eat()
                    plist.append(("self", ("st", fcfg["self_ty"])))
                else:
                    pat = ptoks.pat()
                    ptoks.eat(":")
                    t = rust_ty(ptoks.ty(), fcfg)
                    plist.append((pat, t))
                if ptoks.at(","):
                    ptoks.eat(",")
            rt = rust_ty(ret, fcfg) if ret else None
            if "ret" in f:
                rt = f["ret"]       # the model's result type where it differs (e.g. the Option kept before an `unwrap`)
            if f["name"] == "from" and plist:
                t0 = plist[0][1]
                key = key + "#" + str(len(t0[1]) if isinstance(t0, tuple) and t0[0] == "tup" else 1)
            sigs[key] = (f, fcfg, plist, rt, body)
            known[key] = ("GenRs." + f["lean"], [p[1] for p in plist], rt)
            if not f.get("impl"):
                known[f["name"]] = known[key]
        except Untranslatable as ex:
            sigs[key + "!" + f["lean"]] = (f, fcfg, None, None, str(ex))
    for key, (f, fcfg, plist, rt, body) in sigs.items():
        where = f"{f['file']} :: {key}"
        if plist is None:
            report["failed"].append(f"{where}: {body}")
            out += f"/-- UNTRANSLATABLE `{where}`: {body} -/\ndef {f['lean']} : Unit := ()\n\n"
            continue
        try:
            lw = Lower(fcfg, known, file_consts(srcs[f["file"]]))
            env = {}
            binders = []
            for (pat, t) in plist:
                if pat == "self":
                    env["self"] = ("s", t)
                    binders.append(f"(s : {lean_ty(t)})")
                elif pat[0] == "pid":
                    env[pat[1]] = (lean_ident(pat[1]), t)
                    binders.append(f"({lean_ident(pat[1])} : {lean_ty(t)})")
                else:
                    # tuple parameter: one binder per component
                    if not (isinstance(t, tuple) and t[0] == "tup" and all(q[0] == "pid" for q in pat[1])):
                        raise Untranslatable("tuple parameter")
                    for q, tt in zip(pat[1], t[1]):
                        env[q[1]] = (lean_ident(q[1]), tt)
                        binders.append(f"({lean_ident(q[1])} : {lean_ty(tt)})")
            if f.get("extra_binders"):
                binders.append(f["extra_binders"])
            stmts = P(lex(body)).block()
            s, t = lw.block(stmts, env, rt if rt in ("S", "N") else None)
            out += f"/-- `{where}` -/\ndef {f['lean']} {' '.join(binders)} : {lean_ty(rt)} :=\n  {s}\n\n"
            report["translated"].append(where)
        except Untranslatable as ex:
            report["failed"].append(f"{where}: {ex}")
            out += f"/-- UNTRANSLATABLE `{where}`: {ex} -/\ndef {f['lean']} : Unit := ()\n\n"
    out += "end\nend GenRs\n"
    return out


def run(only=None):
    sys.path.insert(0, HERE)
    import rs2lean_spec
    os.makedirs(OUT, exist_ok=True)
    report = {}
    for key, group in rs2lean_spec.SPEC.items():
        # "C05#3d" is a second group of property C05 (its own cfg / extern table), emitted as RsC05_3d.lean
        pid = key.split("#")[0]
        if only and pid != only:
            continue
        rep = {"translated": [], "failed": []}
        try:
            text = translate_group(pid, group, rep)
        except Exception as ex:  # a crash of the translator is a broken tie of that property, not of the others
            rep["failed"].append(f"translator error: {ex!r}")
            text = f"/- translator error: {ex!r} -/\n"
        path = os.path.join(OUT, f"Rs{key.replace('#', '_')}.lean")
        old = open(path).read() if os.path.exists(path) else None
        if old != text:
            with open(path, "w") as f:
                f.write(text)
        if pid in report:
            report[pid]["translated"] += rep["translated"]
            report[pid]["failed"] += rep["failed"]
        else:
            report[pid] = rep
    return report


if __name__ == "__main__":
    import json
    r = run(sys.argv[1] if len(sys.argv) > 1 else None)
    print(json.dumps(r, indent=1))
