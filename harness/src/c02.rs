//! C02 — closest-point and distance queries return the global optimum.
use crate::curves::*;
use crate::gen;
use crate::util::*;
use engeom::geom2::Curve2;
use engeom::geom3::{Curve3, Mesh, Vector3};
use engeom::{Point2, Point3};
use std::f64::consts::PI;

fn seg2(p: &Point2, a: &Point2, b: &Point2) -> f64 {
    let ab = b - a;
    let l2 = ab.norm_squared();
    let t = if l2 > 0.0 { ((p - a).dot(&ab) / l2).clamp(0.0, 1.0) } else { 0.0 };
    (p - (a + ab * t)).norm()
}
fn seg3(p: &Point3, a: &Point3, b: &Point3) -> f64 {
    let ab = b - a;
    let l2 = ab.norm_squared();
    let t = if l2 > 0.0 { ((p - a).dot(&ab) / l2).clamp(0.0, 1.0) } else { 0.0 };
    (p - (a + ab * t)).norm()
}
/// brute-force distance from p to triangle abc
fn tri_dist(p: &Point3, a: &Point3, b: &Point3, c: &Point3) -> f64 {
    let (ab, ac) = (b - a, c - a);
    let n = ab.cross(&ac);
    let mut best = seg3(p, a, b).min(seg3(p, b, c)).min(seg3(p, c, a));
    if n.norm_squared() > 0.0 {
        let ap = p - a;
        let (d00, d01, d11, d20, d21) = (ab.dot(&ab), ab.dot(&ac), ac.dot(&ac), ap.dot(&ab), ap.dot(&ac));
        let den = d00 * d11 - d01 * d01;
        let (v, w) = ((d11 * d20 - d01 * d21) / den, (d00 * d21 - d01 * d20) / den);
        if v >= 0.0 && w >= 0.0 && v + w <= 1.0 {
            let q = a + ab * v + ac * w;
            best = best.min((p - q).norm());
        }
    }
    best
}

fn big_polyline(rng: &mut Rng) -> Vec<Point2> {
    let n = match rng.below(4) {
        0 => rng.int(2, 6) as usize,
        1 => rng.int(6, 60) as usize,
        2 => rng.int(60, 600) as usize,
        _ => rng.int(600, 5000) as usize,
    };
    let mut pts = Vec::new();
    match rng.below(5) {
        0 => {
            // long thin
            for k in 0..n {
                pts.push(Point2::new(k as f64 * 0.37, 1e-3 * (k as f64).sin()));
            }
        }
        1 => {
            // nested spiral: nearly coincident strands
            for k in 0..n {
                let a = 0.21 * k as f64;
                let r = 1.0 + 0.002 * k as f64;
                pts.push(Point2::new(r * a.cos(), r * a.sin()));
            }
        }
        2 => {
            // grid staircase (exact ties between elements)
            let (mut x, mut y) = (0.0, 0.0);
            for k in 0..n {
                pts.push(Point2::new(x, y));
                if k % 2 == 0 { x += 1.0 } else { y += 1.0 }
            }
        }
        3 => {
            for k in 0..n {
                let a = 2.0 * PI * k as f64 / n as f64;
                pts.push(Point2::new(3.0 * a.cos(), 2.0 * a.sin()));
            }
            pts.push(pts[0]);
        }
        _ => {
            let (p, _) = gen::curve2_points(rng);
            pts = p;
        }
    }
    pts
}

fn curves2(rng: &mut Rng) {
    let pts = big_polyline(rng);
    // the curve's own tolerance (vertex merging, length comparisons) is not a distance floor: queries
    // nearer to the curve than it still get their true distance
    let ctol = *rng.pick(&[1e-9, 1e-9, 1e-6, 1e-4, 1e-3, 1e-2]);
    let Ok(c) = Curve2::from_points(&pts, ctol, false) else { return };
    let v_ = c.points().to_vec();
    let n = v_.len();
    let scale = 1.0 + v_.iter().map(|p| p.coords.norm()).fold(0.0, f64::max);
    let nq = if n > 1000 { 6 } else { 20 };
    let mut qs = Vec::new();
    let mut ds = Vec::new();
    let mut v = Verdict::new();
    for _ in 0..nq {
        let base = v_[rng.below(n)];
        let q = match rng.below(7) {
            6 if n >= 2 => {
                // beside the curve, nearer than the curve tolerance
                let k = rng.below(n - 1);
                let e = v_[k + 1] - v_[k];
                let nrm = engeom::Vector2::new(-e.y, e.x) / e.norm().max(1e-300);
                let h = ctol * rng.range(0.1, 0.95) * if rng.chance(0.5) { 1.0 } else { -1.0 };
                v_[k] + e * rng.range(0.05, 0.95) + nrm * h
            }
            0 => base,                                                             // on a vertex
            1 => { let k = rng.below(n - 1); v_[k] + (v_[k + 1] - v_[k]) * rng.unit() } // on the curve
            2 => Point2::new(base.x.round() + 0.5, base.y.round() + 0.5),          // equidistant on grids
            3 => Point2::new(rng.range(-1e3, 1e3), rng.range(-1e3, 1e3)),          // far outside
            _ => Point2::new(base.x + rng.gauss() * 0.3, base.y + rng.gauss() * 0.3),
        };
        let st = c.at_closest_to_point(&q);
        let d = c.dist_to_point(&q);
        let brute = v_.windows(2).map(|w| seg2(&q, &w[0], &w[1])).fold(f64::INFINITY, f64::min);
        let tol = 1e-9 * (scale + q.coords.norm());
        v.require((d - (st.point() - q).norm()).abs() <= tol, "curve2.distance_is_distance_to_reported_point", || format!("{d} vs {}", (st.point() - q).norm()));
        v.require((d - brute).abs() <= tol, "curve2.no_element_nearer", || format!("n={n} q={q:?}: reported {d} brute force {brute}"));
        let (k, f) = (st.index(), st.fraction());
        v.require(k + 1 < n && (-1e-12..=1.0 + 1e-12).contains(&f), "curve2.index_fraction_in_range", || format!("{k} {f}"));
        if k + 1 < n {
            let lerp = v_[k] + (v_[k + 1] - v_[k]) * f;
            v.require((lerp - st.point()).norm() <= tol, "curve2.index_fraction_reproduce_point", || format!("{k} {f}"));
            v.require(seg2(&st.point(), &v_[k], &v_[k + 1]) <= tol, "curve2.point_on_named_edge", || format!("{k}"));
            let e = (v_[k + 1] - v_[k]).normalize();
            v.require((st.direction().into_inner() - e).norm() <= 1e-9, "curve2.direction_of_named_edge", || format!("{k}"));
        }
        qs.push(q);
        ds.push(d);
    }
    let mut i = Tok::new();
    pts2(&mut i, &v_);
    pts2(&mut i, &qs);
    let mut o = Tok::new();
    o.flist(&ds);
    emit("closest.curve2", &i, &o, &v);
}

fn curves3(rng: &mut Rng) {
    let Some((c, _, _)) = gen::curve3(rng) else { return };
    let v_ = c.points().to_vec();
    let n = v_.len();
    let scale = 1.0 + v_.iter().map(|p| p.coords.norm()).fold(0.0, f64::max);
    let mut qs = Vec::new();
    let mut ds = Vec::new();
    let mut v = Verdict::new();
    for _ in 0..10 {
        let base = v_[rng.below(n)];
        let q = if rng.chance(0.2) && n >= 2 {
            // beside the curve, nearer than the curve's own tolerance
            let k = rng.below(n - 1);
            let e = v_[k + 1] - v_[k];
            let side = e.cross(&Vector3::new(rng.gauss(), rng.gauss(), rng.gauss()));
            let side = if side.norm() > 1e-12 { side.normalize() } else { Vector3::zeros() };
            v_[k] + e * rng.range(0.05, 0.95) + side * (c.tol() * rng.range(0.1, 0.95))
        } else if rng.chance(0.3) { base } else { base + Vector3::new(rng.gauss(), rng.gauss(), rng.gauss()) * rng.range(0.0, 2.0) };
        let st = c.at_closest_to_point(&q);
        let d = c.dist_to_point(&q);
        let brute = v_.windows(2).map(|w| seg3(&q, &w[0], &w[1])).fold(f64::INFINITY, f64::min);
        let tol = 1e-9 * (scale + q.coords.norm());
        v.require((d - (st.point() - q).norm()).abs() <= tol, "curve3.distance_is_distance_to_reported_point", || "".into());
        v.require((d - brute).abs() <= tol, "curve3.no_element_nearer", || format!("reported {d} brute force {brute}"));
        let (k, f) = (st.index(), st.fraction());
        if k + 1 < n {
            let lerp = v_[k] + (v_[k + 1] - v_[k]) * f;
            v.require((lerp - st.point()).norm() <= tol, "curve3.index_fraction_reproduce_point", || format!("{k} {f}"));
        } else {
            v.require(false, "curve3.index_in_range", || format!("{k}"));
        }
        qs.push(q);
        ds.push(d);
    }
    let mut i = Tok::new();
    pts3(&mut i, &v_);
    pts3(&mut i, &qs);
    let mut o = Tok::new();
    o.flist(&ds);
    emit("closest.curve3", &i, &o, &v);
}

fn meshes(rng: &mut Rng, thorough: bool) {
    let mesh: Mesh = match rng.below(6) {
        0 => gen::mesh(rng),
        1 => gen::sphere(rng.range(0.5, 3.0), rng.int(6, if thorough { 60 } else { 20 }) as usize, rng.int(4, if thorough { 40 } else { 12 }) as usize),
        2 => gen::torus(3.0, 0.8, rng.int(6, if thorough { 80 } else { 24 }) as usize, rng.int(4, 16) as usize),
        3 => {
            let nx = rng.int(3, if thorough { 60 } else { 16 }) as usize;
            let ny = rng.int(3, 16) as usize;
            gen::height_field(rng, nx, ny, 0.5)
        }
        4 => {
            // flat sheet on the integer grid: exact ties between faces
            let nx = rng.int(2, 6) as usize;
            gen::height_field(&mut Rng(7), nx, nx, 0.0)
        }
        _ => Mesh::create_box(rng.range(0.5, 4.0), rng.range(0.5, 4.0), rng.range(0.5, 4.0), false),
    };
    // the same parts a thousand times smaller (a millimetre-sized part modelled in metres): closest points, normals and
    // the angle filter are scale-covariant
    let sf = if rng.chance(0.3) { 1e-3 } else { 1.0 };
    let mesh = if sf == 1.0 { mesh } else { Mesh::new(mesh.vertices().iter().map(|p| Point3::from(p.coords * sf)).collect(), mesh.faces().to_vec(), false) };
    let vs = mesh.vertices().to_vec();
    let fs = mesh.faces().to_vec();
    let scale = sf * 1.0 + vs.iter().map(|p| p.coords.norm()).fold(0.0, f64::max);
    let mut qs = Vec::new();
    let mut ds = Vec::new();
    let mut v = Verdict::new();
    let nq = if fs.len() > 2000 { 4 } else { 12 };
    for _ in 0..nq {
        let f = fs[rng.below(fs.len())];
        let (a, b, c) = (vs[f[0] as usize], vs[f[1] as usize], vs[f[2] as usize]);
        let q = match rng.below(5) {
            0 => a,
            1 => Point3::from((a.coords + b.coords + c.coords) / 3.0),
            2 => Point3::new(rng.range(-50.0, 50.0) * sf, rng.range(-50.0, 50.0) * sf, rng.range(-50.0, 50.0) * sf),
            _ => a + Vector3::new(rng.gauss(), rng.gauss(), rng.gauss()) * rng.range(0.0, 1.5) * sf,
        };
        let sp = mesh.surf_closest_to(&q);
        let d = (sp.point - q).norm();
        let brute = fs.iter().map(|t| tri_dist(&q, &vs[t[0] as usize], &vs[t[1] as usize], &vs[t[2] as usize])).fold(f64::INFINITY, f64::min);
        let tol = 1e-9 * (scale + q.coords.norm());
        v.require((d - brute).abs() <= tol, "mesh.no_element_nearer", || format!("faces={} q={q:?}: reported {d} brute force {brute}", fs.len()));
        v.require((mesh.point_closest_to(&q) - sp.point).norm() <= tol, "mesh.point_closest_to_agrees", || "".into());
        // the normal reported with the closest point is the unit normal of a face the point lies on (never a
        // direction made up from the query)
        {
            let on: Vec<Vector3> = fs.iter().filter(|t| tri_dist(&sp.point, &vs[t[0] as usize], &vs[t[1] as usize], &vs[t[2] as usize]) <= tol).map(|t| (vs[t[1] as usize] - vs[t[0] as usize]).cross(&(vs[t[2] as usize] - vs[t[0] as usize]))).filter(|n| n.norm() > 0.0).map(|n| n.normalize()).collect();
            v.require(on.is_empty() || on.iter().any(|n| (n - sp.normal.into_inner()).norm() <= 1e-7), "mesh.closest_point_carries_the_normal_of_its_face", || format!("{:?} vs the faces through the point {on:?}", sp.normal));
        }
        // the reported face: point lies on it and the normal is that face's normal
        let cap = d + 1.0 * sf;
        match mesh.project_with_max_dist(&q, cap) {
            None => v.require(false, "mesh.capped_returns_when_within_cap", || format!("d={d} cap={cap}")),
            Some((prj, id, _loc)) => {
                let t = fs[id as usize];
                let (ta, tb, tc) = (vs[t[0] as usize], vs[t[1] as usize], vs[t[2] as usize]);
                v.require(tri_dist(&prj.point, &ta, &tb, &tc) <= tol, "mesh.point_on_reported_face", || format!("face {id}"));
                v.require(((prj.point - q).norm() - d).abs() <= tol, "mesh.capped_same_distance", || "".into());
                if let Some(nrm) = mesh.tri_mesh().triangle(id).normal() {
                    let want = (tb - ta).cross(&(tc - ta)).normalize();
                    v.require((nrm.into_inner() - want).norm() <= 1e-9, "mesh.normal_is_face_normal", || format!("face {id}"));
                }
            }
        }
        // distance cap: a result exactly when the true distance is within the cap
        let capv = d * rng.range(0.3, 1.7);
        if (capv - d).abs() > 1e-9 * scale {
            v.require(mesh.project_with_max_dist(&q, capv).is_some() == (d <= capv), "mesh.cap_iff_within", || format!("d={d} cap={capv}"));
        }
        // angle filter: accepted exactly when the offset is within the angle of ± the face normal
        let max_angle = rng.range(0.05, 1.5);
        if d > 1e-6 * sf {
            if let Some((prj, id, _)) = mesh.project_with_max_dist(&q, cap) {
                if let Some(nrm) = mesh.tri_mesh().triangle(id).normal() {
                    let ang = nrm.angle(&(q - prj.point));
                    let want = ang < max_angle || ang > PI - max_angle;
                    if (ang - max_angle).abs() > 1e-9 && (ang - (PI - max_angle)).abs() > 1e-9 {
                        // ties between faces with different normals can flip the verdict: only judged when the closest face is unique up to its neighbours' normals agreeing
                        let got = mesh.project_with_tol(&q, cap, max_angle, None).is_some();
                        v.require(got == want, "mesh.angle_filter_iff_within_angle", || format!("angle={ang} max={max_angle}"));
                    }
                }
            }
        }
        qs.push(q);
        ds.push(d);
    }
    // the batch form: indices_in_tol keeps exactly the points whose transformed image passes
    // project_with_tol, in ascending order - with and without a transform
    {
        let mut sorted = ds.clone();
        sorted.sort_by(|a, b| a.partial_cmp(b).unwrap());
        let cap = sorted[sorted.len() / 2] * rng.range(0.8, 1.3) + 1e-3 * sf;
        let max_angle = rng.range(0.05, 1.5);
        let t: Option<engeom::Iso3> = match rng.below(3) {
            0 => None,
            1 => Some(gen::iso3(rng, 5.0)),
            _ => Some(gen::iso3(rng, 200.0)),
        };
        // raw points: the queries seen from the other frame, so that their images are spread around the mesh
        let raw: Vec<Point3> = match &t {
            None => qs.clone(),
            Some(t) => qs.iter().map(|q| t.inverse() * q).collect(),
        };
        let got = mesh.indices_in_tol(&raw, cap, max_angle, t.as_ref());
        let want: Vec<usize> = (0..raw.len())
            .filter(|k| {
                let img = match &t {
                    None => raw[*k],
                    Some(t) => t * raw[*k],
                };
                mesh.project_with_tol(&img, cap, max_angle, None).is_some()
            })
            .collect();
        v.require(got == want, "mesh.indices_in_tol_are_the_points_that_project_within_tolerance", || format!("transform {} cap {cap} angle {max_angle}: got {got:?}, per-point projection gives {want:?}", if t.is_some() { "given" } else { "none" }));
        for k in 0..raw.len() {
            let a = mesh.project_with_tol(&raw[k], cap, max_angle, t.as_ref()).map(|r| r.1);
            let img = match &t {
                None => raw[k],
                Some(t) => t * raw[k],
            };
            let b = mesh.project_with_tol(&img, cap, max_angle, None).map(|r| r.1);
            v.require(a == b, "mesh.project_with_tol_transform_is_applied_to_the_point", || format!("point {k}: {a:?} vs {b:?}"));
        }
    }
    // (interior points of SOLID meshes are outside the property's quantifier: not judged)
    let mut i = Tok::new();
    pts3(&mut i, &vs);
    i.n(fs.len());
    for f in &fs {
        i.n(f[0] as usize).n(f[1] as usize).n(f[2] as usize);
    }
    pts3(&mut i, &qs);
    let mut o = Tok::new();
    o.flist(&ds);
    emit("closest.mesh", &i, &o, &v);
}

pub fn run(rng: &mut Rng, n: usize, thorough: bool) {
    for _ in 0..n {
        case("closest.case", "c02.library_call_panics", || curves2(rng));
        case("closest.case", "c02.library_call_panics", || curves3(rng));
        case("closest.case", "c02.library_call_panics", || meshes(rng, thorough));
    }
}
