//! C06 — line–polyline intersection search is complete and sound.
use crate::curves::*;
use crate::util::*;
use engeom::common::Intersection;
use engeom::geom2::polyline2::{farthest_point_direction_distance, max_intersection, ray_intersect_with_edge, verif_cast_ray_scalar};
use engeom::geom2::{intersection_param, Curve2, Ray2};
use engeom::{Point2, SurfacePoint2, UnitVec2, Vector2};
use std::f64::consts::PI;

fn polyline(rng: &mut Rng) -> Vec<Point2> {
    let n = match rng.below(5) {
        0 => rng.int(5, 12) as usize,
        1 | 2 => rng.int(12, 80) as usize,
        3 => rng.int(80, 600) as usize,
        _ => rng.int(600, 5000) as usize,
    };
    let mut pts = Vec::new();
    match rng.below(5) {
        0 => {
            // convex polygon, closed
            let (rx, ry) = (rng.range(1.0, 8.0), rng.range(1.0, 8.0));
            for k in 0..n {
                let a = 2.0 * PI * k as f64 / n as f64;
                pts.push(Point2::new(rx * a.cos(), ry * a.sin()));
            }
            pts.push(pts[0]);
        }
        1 => {
            // star
            for k in 0..n {
                let a = 2.0 * PI * k as f64 / n as f64;
                let r = if k % 2 == 0 { 5.0 } else { rng.range(1.0, 3.0) };
                pts.push(Point2::new(r * a.cos(), r * a.sin()));
            }
            pts.push(pts[0]);
        }
        2 => {
            // spiral (nested strands)
            for k in 0..n {
                let a = 0.3 * k as f64;
                let r = 0.5 + 0.05 * k as f64;
                pts.push(Point2::new(r * a.cos(), r * a.sin()));
            }
        }
        3 => {
            // comb, grid aligned
            let mut x = 0.0;
            for k in 0..n {
                let y = if k % 2 == 0 { 0.0 } else { (1 + k % 5) as f64 };
                pts.push(Point2::new(x, y));
                if k % 2 == 1 {
                    pts.push(Point2::new(x + 0.5, y));
                }
                x += 0.5;
            }
        }
        _ => {
            // long thin zig-zag
            for k in 0..n {
                pts.push(Point2::new(k as f64 * 0.1, if k % 2 == 0 { 0.0 } else { 0.01 } + rng.range(0.0, 0.001)));
            }
        }
    }
    pts
}

fn line(rng: &mut Rng, pts: &[Point2]) -> Ray2 {
    let n = pts.len();
    let c = pts[rng.below(n)];
    let origin = match rng.below(4) {
        0 => Point2::new(rng.range(-1.0, 1.0), rng.range(-1.0, 1.0)),
        1 => Point2::new(rng.range(-20.0, 20.0), rng.range(-20.0, 20.0)),
        2 => c,
        _ => Point2::new(c.x + rng.range(-0.5, 0.5), c.y + rng.range(-0.5, 0.5)),
    };
    // a line clipping a corner: two crossings a fraction of a micrometre to a few micrometres apart
    // (further apart than the 1e-8 merge distance), one on each edge of the corner
    if n >= 3 && rng.chance(0.12) {
        let k = 1 + rng.below(n - 2);
        let (a, b) = ((pts[k - 1] - pts[k]).normalize(), (pts[k + 1] - pts[k]).normalize());
        let bis = a + b;
        if bis.norm() > 1e-3 {
            let bis = bis.normalize();
            let u = Vector2::new(-bis.y, bis.x);
            let eps = 10f64.powf(rng.range(-7.7, -5.0));
            let origin = pts[k] + bis * eps - u * rng.range(0.5, 3.0);
            return Ray2::new(origin, u * rng.range(0.3, 2.0));
        }
    }
    let dir = match rng.below(7) {
        0 => Vector2::new(1.0, 0.0) * rng.range(0.2, 3.0),
        1 => Vector2::new(0.0, -1.0) * rng.range(0.2, 3.0),
        2 => {
            // through another vertex
            let v = pts[rng.below(n)] - origin;
            if v.norm() > 1e-6 { v } else { Vector2::new(1.0, 1.0) }
        }
        3 => {
            // nearly parallel to an edge
            let k = rng.below(n - 1);
            let e = pts[k + 1] - pts[k];
            Vector2::new(e.x + rng.range(-1e-6, 1e-6), e.y + rng.range(-1e-6, 1e-6))
        }
        _ => {
            let a = rng.range(0.0, 2.0 * PI);
            Vector2::new(a.cos(), a.sin()) * rng.range(0.1, 4.0)
        }
    };
    Ray2::new(origin, dir)
}

fn seg_dist(p: &Point2, a: &Point2, b: &Point2) -> f64 {
    let ab = b - a;
    let t = ((p - a).dot(&ab) / ab.norm_squared()).clamp(0.0, 1.0);
    (p - (a + ab * t)).norm()
}

/// serialise parry's QBVH of a polyline: `n k` + k lanes (`minx miny maxx maxy` + child), child = `l edge` or a nested node
fn dump_qbvh(t: &mut Tok, pl: &parry2d_f64::shape::Polyline) {
    use parry2d_f64::shape::SimdCompositeShape;
    let q = pl.qbvh();
    fn node(t: &mut Tok, q: &parry2d_f64::partitioning::Qbvh<u32>, k: usize) {
        let nd = &q.raw_nodes()[k];
        let mut lanes = vec![];
        for ii in 0..4 {
            let child = nd.children[ii];
            let bx = nd.simd_aabb.extract(ii);
            if nd.is_leaf() {
                if let Some(px) = q.raw_proxies().get(child as usize) {
                    lanes.push((bx, Err(px.data)));
                }
            } else if (child as usize) < q.raw_nodes().len() {
                lanes.push((bx, Ok(child as usize)));
            }
        }
        t.w("n").n(lanes.len());
        for (bx, c) in lanes {
            t.f(bx.mins.x).f(bx.mins.y).f(bx.maxs.x).f(bx.maxs.y);
            match c {
                Err(e) => {
                    t.w("l").n(e as usize);
                }
                Ok(k2) => node(t, q, k2),
            }
        }
    }
    if q.raw_nodes().is_empty() {
        t.w("n").n(0);
    } else {
        node(t, q, 0);
    }
}

fn one(rng: &mut Rng) {
    let pts = polyline(rng);
    // the same outlines a hundred to a hundred thousand times smaller (a finely sampled small feature: edges of tens of
    // nanometres to micrometres), cut by lines of ordinary direction length: |dir|·|edge| is then small although every
    // crossing is as transversal as before
    let f = if rng.chance(0.3) { *rng.pick(&[1e-2, 1e-3, 1e-4, 1e-5]) } else { 1.0 };
    let pts: Vec<Point2> = if f == 1.0 { pts } else { pts.iter().map(|p| Point2::from(p.coords * f)).collect() };
    let Ok(c) = Curve2::from_points(&pts, 1e-9 * f, false) else { return };
    let v_ = c.points().to_vec();
    let pl = parry2d_f64::shape::Polyline::new(v_.clone(), None);
    let n = v_.len();
    let scale = 1.0 + v_.iter().map(|p| p.coords.norm()).fold(0.0, f64::max);
    let nl = if n > 1000 { 2 } else { 6 };
    for _ in 0..nl {
        let ray = if f == 1.0 {
            line(rng, &v_)
        } else {
            let un: Vec<Point2> = v_.iter().map(|p| Point2::from(p.coords / f)).collect();
            let r = line(rng, &un);
            Ray2::new(Point2::from(r.origin.coords * f), r.dir)
        };
        let hits = match guarded(|| c.ray_intersections(&ray)) {
            Ok(h) => h,
            Err(e) => {
                let mut v = Verdict::new();
                v.require(false, "intersections.panics", || e.clone());
                emit_oracle_only("ray.intersections", &Tok::new(), &Tok::new(), &v);
                continue;
            }
        };
        let dn = ray.dir.norm();
        let mut v = Verdict::new();
        // sound: every reported parameter gives a point on the named edge
        for (t, e) in &hits {
            let p = ray.point_at(*t);
            v.require(*e + 1 < n && seg_dist(&p, &v_[*e], &v_[*e + 1]) <= 1e-7 * scale, "intersections.on_named_edge", || format!("t={t} edge={e}"));
        }
        // ascending without duplicates
        v.require(hits.windows(2).all(|w| w[0].0 < w[1].0 && (w[1].0 - w[0].0).abs() >= 1e-8), "intersections.ascending_no_duplicates", || format!("{:?}", hits.iter().map(|h| h.0).collect::<Vec<_>>()));
        // complete: every clear crossing of an edge is reported
        for k in 0..n - 1 {
            let e = v_[k + 1] - v_[k];
            let det = e.x * ray.dir.y - e.y * ray.dir.x;
            // (the second bound: the per-edge routine treats a raw determinant below 1e-12 as parallel whatever the
            // lengths involved; crossings within a decade of that floor are left unjudged)
            if det.abs() < 1e-6 * e.norm() * dn || det.abs() < 1e-11 {
                continue;
            }
            let dx = v_[k].x - ray.origin.x;
            let dy = v_[k].y - ray.origin.y;
            let t0 = (dy * e.x - dx * e.y) / det;
            let t1 = (dy * ray.dir.x - dx * ray.dir.y) / det;
            if t1 > 1e-6 && t1 < 1.0 - 1e-6 {
                v.require(hits.iter().any(|(t, _)| (t - t0).abs() <= 2e-8 + 1e-9 * t0.abs()), "intersections.none_missed", || format!("edge {k} crossing at t={t0}"));
            }
        }
        // equal to intersecting the line with each edge individually (same public per-edge
        // function, same sort and de-duplication): the bounding-volume search may not lose any
        {
            let mut per_edge: Vec<f64> = (0..n - 1).filter_map(|k| ray_intersect_with_edge(&pl, &ray, k)).collect();
            per_edge.sort_by(|a, b| a.partial_cmp(b).unwrap());
            per_edge.dedup_by(|a, b| (*a - *b).abs() < 1e-8);
            let got: Vec<f64> = hits.iter().map(|h| h.0).collect();
            let same = per_edge.len() == got.len() && per_edge.iter().zip(&got).all(|(a, b)| (a - b).abs() <= 2e-8);
            v.require(same, "intersections.equal_to_per_edge_scan", || format!("per-edge {per_edge:?} vs reported {got:?}"));
        }
        // derived answers
        let sr = c.try_create_spanning_ray(&ray);
        v.require(sr.is_some() == (hits.len() == 2), "spanning.exactly_when_two_crossings", || format!("{} hits", hits.len()));
        if let (Some(s), true) = (&sr, hits.len() == 2) {
            let r = s.ray();
            let (a, b) = (r.origin, r.point_at(1.0));
            v.require((a - ray.point_at(hits[0].0)).norm() <= 1e-9 * scale && (b - ray.point_at(hits[1].0)).norm() <= 1e-9 * scale, "spanning.starts_and_ends_on_curve", || "".into());
            v.require(r.dir.normalize().dot(&ray.dir.normalize()) > 1.0 - 1e-9, "spanning.keeps_direction", || "".into());
        }
        let mx = max_intersection(&pl, &ray);
        v.require(mx == hits.iter().map(|h| h.0).fold(None, |a: Option<f64>, b| Some(a.map_or(b, |x| x.max(b)))), "max_intersection.is_largest", || "".into());
        let far = farthest_point_direction_distance(&pl, &ray);
        let want = v_.iter().map(|p| ray.dir.normalize().dot(&(p - ray.origin))).fold(f64::MIN, f64::max);
        v.require((far - want).abs() <= 1e-9 * scale, "farthest.is_max_projection", || format!("{far} vs {want}"));
        let sp = SurfacePoint2::new(ray.origin, UnitVec2::new_normalize(ray.dir));
        let ts: Vec<f64> = c.intersection(&sp);
        let unit = Ray2::new(ray.origin, ray.dir.normalize());
        let direct: Vec<f64> = c.ray_intersections(&unit).iter().map(|h| h.0).collect();
        v.require(ts == direct, "surface_point_intersection.same_as_ray", || "".into());

        let mut i = Tok::new();
        pts2(&mut i, &v_);
        i.f(ray.origin.x).f(ray.origin.y).f(ray.dir.x).f(ray.dir.y);
        let mut o = Tok::new();
        o.n(hits.len());
        for h in &hits {
            o.f(h.0);
        }
        match &sr {
            None => {
                o.w("none");
            }
            Some(s) => {
                let r = s.ray();
                let b = r.point_at(1.0);
                o.w("some").f(r.origin.x).f(r.origin.y).f(b.x).f(b.y);
            }
        }
        o.optf(mx).f(far);
        if n <= 700 {
            emit("ray.intersections", &i, &o, &v);
        } else if v.s() != "ok" {
            // the input goes along with a failing verdict so that the exact-arithmetic review (DESIGN 8.11) can
            // decide a crossing through a vertex that exists or not depending on the last bit
            emit_oracle_only("ray.intersections", &i, &o, &v);
        } else {
            emit_oracle_only("ray.intersections", &Tok::new(), &o, &v);
        }
        // the traversal itself: the real bounding-volume tree of this polyline is handed to the model,
        // which checks the box invariant the completeness theorem assumes and runs its own traversal
        if n <= 300 {
            let mut i = Tok::new();
            pts2(&mut i, &v_);
            i.f(ray.origin.x).f(ray.origin.y).f(ray.dir.x).f(ray.dir.y);
            dump_qbvh(&mut i, &pl);
            let direct = engeom::geom2::polyline2::polyline_intersections(&pl, &ray);
            let mut o = Tok::new();
            o.b(true).b(true).n(direct.len());
            for h in &direct {
                o.f(h.0).n(h.1);
            }
            let mut v = Verdict::new();
            v.require(direct.len() == hits.len() && direct.iter().zip(&hits).all(|(a, b)| a.0 == b.0 && a.1 == b.1), "intersections.curve_and_polyline_agree", || "".into());
            emit("ray.bvh", &i, &o, &v);
        }
    }
}

/// "farthest projected vertex" asked of the CURVE (`Curve2::max_point_in_direction`, `max_dist_in_direction`), on open
/// outlines, exactly closed ones and outlines closed only to within the curve tolerance (the last vertex is then a
/// vertex of its own, up to one tolerance away from the first): the answer is the exhaustive maximum over the stored
/// vertices, with the index of the vertex that attains it.
fn farthest_on_curve(rng: &mut Rng) {
    let m = rng.int(3, 14) as usize;
    let (rx, ry) = (rng.range(1.0, 6.0), rng.range(1.0, 6.0));
    let a0 = rng.range(0.0, 2.0 * PI);
    let mut pts: Vec<Point2> = (0..m).map(|k| { let a = a0 + 2.0 * PI * k as f64 / m as f64; Point2::new(rx * a.cos() * rng.range(0.7, 1.0), ry * a.sin() * rng.range(0.7, 1.0)) }).collect();
    let tol = *rng.pick(&[1e-6, 1e-3, 1e-2]);
    let seam_dir = Vector2::new(rng.gauss(), rng.gauss() + 1e-3).normalize();
    match rng.below(3) {
        0 => {}
        1 => pts.push(pts[0]),
        _ => pts.push(pts[0] + seam_dir * (tol * rng.range(0.3, 0.9))),
    }
    let Ok(c) = Curve2::from_points(&pts, tol, false) else { return };
    let v_ = c.points().to_vec();
    let mut v = Verdict::new();
    for k in 0..4 {
        // towards the seam (where a nearly closed outline has two vertices a fraction of the tolerance apart), or anywhere
        let dir = if k == 0 { seam_dir * rng.range(0.2, 3.0) } else if k == 1 { (v_[0].coords.normalize() + seam_dir * 0.05) * rng.range(0.2, 3.0) } else { Vector2::new(rng.gauss(), rng.gauss() + 1e-3) };
        let best = v_.iter().map(|p| dir.dot(&p.coords)).fold(f64::MIN, f64::max);
        match c.max_point_in_direction(&dir) {
            None => v.require(false, "farthest.curve_has_a_farthest_vertex", || "".into()),
            Some((idx, p)) => {
                v.require(idx < v_.len() && v_[idx] == p, "farthest.index_names_the_returned_vertex", || format!("{idx} {p:?}"));
                v.require(dir.dot(&p.coords) >= best - 1e-12 * (1.0 + best.abs()) * dir.norm(), "farthest.curve_vertex_is_max_projection", || format!("closed={} tol={tol}: vertex {idx} projects to {}, the exhaustive maximum is {best}", c.is_closed(), dir.dot(&p.coords)));
            }
        }
        let sp = SurfacePoint2::new(Point2::new(rng.range(-3.0, 3.0), rng.range(-3.0, 3.0)), UnitVec2::new_normalize(dir));
        let want = v_.iter().map(|p| sp.scalar_projection(p)).fold(f64::MIN, f64::max);
        let got = c.max_dist_in_direction(&sp);
        v.require((got - want).abs() <= 1e-12 * (1.0 + want.abs()), "farthest.curve_distance_is_max_projection", || format!("closed={} tol={tol}: {got} vs {want}", c.is_closed()));
    }
    emit_oracle_only("ray.farthest_on_curve", &Tok::new(), &Tok::new(), &v);
}

fn params_and_slabs(rng: &mut Rng) {
    // intersection_param
    for _ in 0..4 {
        let g = |rng: &mut Rng| if rng.chance(0.4) { rng.dyadic(4, 2) } else { rng.range(-5.0, 5.0) };
        let a0 = Point2::new(g(rng), g(rng));
        let ad = Vector2::new(g(rng), g(rng));
        let b0 = Point2::new(g(rng), g(rng));
        let bd = if rng.chance(0.2) { ad * rng.range(-2.0, 2.0) } else { Vector2::new(g(rng), g(rng)) };
        let r = intersection_param(&a0, &ad, &b0, &bd);
        let mut v = Verdict::new();
        let det = bd.x * ad.y - bd.y * ad.x;
        v.require(r.is_none() == (det.abs() < 1e-12), "param.none_iff_near_parallel", || format!("det={det:e}"));
        if let Some((t0, t1)) = r {
            let (p, q) = (a0 + ad * t0, b0 + bd * t1);
            v.require((p - q).norm() <= 1e-9 * (1.0 + p.coords.norm() + t0.abs() + t1.abs()) / det.abs().min(1.0), "param.point_on_both_lines", || format!("{p:?} vs {q:?} det={det:e}"));
        }
        let mut i = Tok::new();
        i.f(a0.x).f(a0.y).f(ad.x).f(ad.y).f(b0.x).f(b0.y).f(bd.x).f(bd.y);
        let mut o = Tok::new();
        match r {
            None => {
                o.w("none");
            }
            Some((t0, t1)) => {
                o.w("some").f(t0).f(t1);
            }
        }
        if det.abs() > 1e-9 || det.abs() < 1e-13 {
            emit("ray.param", &i, &o, &v);
        } else {
            emit_oracle_only("ray.param", &i, &o, &v);
        }
    }
    // the slab test against an exact description of "the line meets the box"
    for _ in 0..8 {
        let g = |rng: &mut Rng| rng.dyadic(6, 1);
        let (x0, x1, y0, y1) = (g(rng), g(rng), g(rng), g(rng));
        let (lo, hi) = (Point2::new(x0.min(x1), y0.min(y1)), Point2::new(x0.max(x1), y0.max(y1)));
        let o = Point2::new(g(rng), g(rng));
        let d = match rng.below(5) {
            0 => Vector2::new(0.0, g(rng)),
            1 => Vector2::new(g(rng), 0.0),
            2 => Vector2::new(0.0, 0.0),
            _ => Vector2::new(g(rng), g(rng)),
        };
        let ray = Ray2::new(o, d);
        let got = verif_cast_ray_scalar(lo, hi, &ray);
        // exact: the line {o + t d} meets the box iff the box corners are not all strictly on one
        // side (d ≠ 0), or the origin is inside (d = 0); all values are dyadic so this is exact
        let meets = if d.x == 0.0 && d.y == 0.0 {
            o.x >= lo.x && o.x <= hi.x && o.y >= lo.y && o.y <= hi.y
        } else {
            let side = |p: Point2| d.x * (p.y - o.y) - d.y * (p.x - o.x);
            let s = [side(lo), side(hi), side(Point2::new(lo.x, hi.y)), side(Point2::new(hi.x, lo.y))];
            !(s.iter().all(|x| *x > 0.0) || s.iter().all(|x| *x < 0.0))
        };
        let mut v = Verdict::new();
        if meets {
            v.require(got, "slab.never_prunes_a_box_the_line_meets", || format!("{lo:?} {hi:?} {o:?} {d:?}"));
        }
        let mut i = Tok::new();
        i.f(lo.x).f(lo.y).f(hi.x).f(hi.y).f(o.x).f(o.y).f(d.x).f(d.y);
        let mut out = Tok::new();
        out.b(got);
        emit("ray.slab", &i, &out, &v);
    }
}

/// Integer-grid polylines and lines through their vertices: every coordinate is a small integer, so the
/// crossings of the line with every edge are decided here in exact integer arithmetic (i128),
/// independently of the library's per-edge function; in particular a line through a vertex — the end
/// of one edge (edge parameter exactly 1) and the start of the next (exactly 0), or the free end of an
/// open polyline — must be reported exactly once.
fn grid_vertex_lines(rng: &mut Rng) {
    let n = rng.int(3, 14) as usize;
    let mut ip: Vec<(i64, i64)> = Vec::new();
    while ip.len() < n {
        let p = (rng.int(-12, 12), rng.int(-12, 12));
        if ip.last() != Some(&p) {
            ip.push(p);
        }
    }
    if rng.chance(0.4) && ip[0] != ip[n - 1] {
        ip.push(ip[0]);
    }
    let pts: Vec<Point2> = ip.iter().map(|p| Point2::new(p.0 as f64, p.1 as f64)).collect();
    let Ok(c) = Curve2::from_points(&pts, 1e-9, false) else { return };
    if c.count() != ip.len() {
        return;
    }
    let m = ip.len();
    for _ in 0..6 {
        // through one chosen vertex (often an end of the polyline), from an integer origin
        let k = match rng.below(4) {
            0 => 0,
            1 => m - 1,
            _ => rng.below(m),
        };
        let o = (rng.int(-15, 15), rng.int(-15, 15));
        let mut d = (ip[k].0 - o.0, ip[k].1 - o.1);
        if d == (0, 0) {
            d = (rng.int(1, 4), rng.int(-4, 4));
        }
        // a positive scale that keeps the direction an exact multiple (power of two or small integer)
        let sc: f64 = *rng.pick(&[1.0, 1.0, 2.0, 0.5, 0.25, 3.0]);
        let ray = Ray2::new(Point2::new(o.0 as f64, o.1 as f64), Vector2::new(d.0 as f64 * sc, d.1 as f64 * sc));
        // exact crossings: t = ((a-o) x e) / (d x e), s = ((a-o) x d) / (d x e), 0 <= s <= 1
        let cross = |u: (i128, i128), w: (i128, i128)| u.0 * w.1 - u.1 * w.0;
        let mut exact: Vec<(i128, i128)> = Vec::new(); // t as a fraction num/den with den > 0 (for direction d, unscaled)
        for j in 0..m - 1 {
            let a = (ip[j].0 as i128, ip[j].1 as i128);
            let e = ((ip[j + 1].0 - ip[j].0) as i128, (ip[j + 1].1 - ip[j].1) as i128);
            let dd = (d.0 as i128, d.1 as i128);
            let den = cross(dd, e);
            if den == 0 {
                continue; // parallel (also collinear) edges are not reported by the per-edge specification
            }
            let ao = (a.0 - o.0 as i128, a.1 - o.1 as i128);
            let (mut tn, mut sn, mut dn) = (cross(ao, e), cross(ao, dd), den);
            if dn < 0 {
                tn = -tn;
                sn = -sn;
                dn = -dn;
            }
            if sn < 0 || sn > dn {
                continue;
            }
            if !exact.iter().any(|q| q.0 * dn == tn * q.1) {
                exact.push((tn, dn));
            }
        }
        let mut want: Vec<f64> = exact.iter().map(|q| q.0 as f64 / q.1 as f64 / sc).collect();
        want.sort_by(|a, b| a.partial_cmp(b).unwrap());
        let mut v = Verdict::new();
        match guarded(|| c.ray_intersections(&ray)) {
            Err(e) => v.require(false, "intersections.panics", || e.clone()),
            Ok(hits) => {
                let got: Vec<f64> = hits.iter().map(|h| h.0).collect();
                let same = got.len() == want.len() && got.iter().zip(&want).all(|(a, b)| (a - b).abs() <= 1e-9 * (1.0 + b.abs()));
                v.require(same, "intersections.exact_on_integer_grid", || format!("polyline {ip:?} origin {o:?} dir {d:?}*{sc}: exact {want:?} vs reported {got:?}"));
                let sr = c.try_create_spanning_ray(&ray);
                v.require(sr.is_some() == (want.len() == 2), "spanning.exactly_when_two_exact_crossings", || format!("polyline {ip:?} origin {o:?} dir {d:?}: {} exact crossings", want.len()));
            }
        }
        emit_oracle_only("ray.grid", &Tok::new(), &Tok::new(), &v);
    }
}

pub fn run(rng: &mut Rng, n: usize) {
    for _ in 0..n {
        case("ray.intersections", "c06.library_call_panics", || one(rng));
        case("ray.intersections", "c06.library_call_panics", || params_and_slabs(rng));
        case("ray.intersections", "c06.library_call_panics", || farthest_on_curve(rng));
        case("ray.intersections", "c06.library_call_panics", || grid_vertex_lines(rng));
        case("ray.intersections", "c06.library_call_panics", || grid_vertex_lines(rng));
    }
}
