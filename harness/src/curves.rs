//! token helpers shared by the curve properties (C01, C03, C04, C05)
use crate::util::*;
use engeom::geom2::Curve2;
use engeom::geom3::Curve3;
use engeom::{Point2, Point3};

pub fn pts2(t: &mut Tok, pts: &[Point2]) {
    t.n(pts.len());
    for p in pts {
        t.f(p.x).f(p.y);
    }
}
pub fn pts3(t: &mut Tok, pts: &[Point3]) {
    t.n(pts.len());
    for p in pts {
        t.f(p.x).f(p.y).f(p.z);
    }
}
/// `closed tol verts lengths` (the implementation's own state, injected into the model)
pub fn curve2_state(t: &mut Tok, c: &Curve2) {
    t.w("2").b(c.is_closed()).f(c.tol());
    pts2(t, c.points());
    t.flist(c.lengths());
}
pub fn curve3_state(t: &mut Tok, c: &Curve3) {
    t.w("3").b(false).f(c.tol());
    pts3(t, c.points());
    t.flist(c.lengths());
}
/// `verts lengths closed` (result form)
pub fn curve2_out(t: &mut Tok, c: &Curve2) {
    pts2(t, c.points());
    t.flist(c.lengths());
    t.b(c.is_closed());
}
pub fn curve3_out(t: &mut Tok, c: &Curve3) {
    pts3(t, c.points());
    t.flist(c.lengths());
    t.b(false);
}
pub fn strictly_increasing(ls: &[f64]) -> bool {
    ls.windows(2).all(|w| w[0] < w[1])
}
