//! ad-hoc probes (not part of any check)
use engeom::geom3::{Iso3, IsoExtensions3, Point3, Vector3};
use engeom::common::svd_basis::{iso3_from_basis, iso3_from_xyo};
pub fn run() {
    let o = Point3::new(0.0, 0.0, 0.0);
    let (x, y, z) = (Vector3::x(), Vector3::y(), Vector3::z());
    let t = Iso3::try_from_basis_xy(&(-x), &(-y), None).unwrap();
    println!("try_from_basis_xy(-x,-y): rot {:?}", t.rotation.to_rotation_matrix());
    let t = Iso3::try_from_basis_xy(&(-x), &(y), None).unwrap();
    println!("try_from_basis_xy(-x,y): rot {:?}", t.rotation.to_rotation_matrix());
    let t = Iso3::try_from_basis_yz(&(-y), &(z), None).unwrap();
    println!("try_from_basis_yz(-y,z): rot {:?}", t.rotation.to_rotation_matrix());
    let t = iso3_from_basis(&[-x, -y, z], &o);
    println!("iso3_from_basis(-x,-y,z): rot {:?}  maps -x to {:?}", t.rotation.to_rotation_matrix(), t * (-x));
    let t = iso3_from_xyo(&engeom::geom3::UnitVec3::new_normalize(-x), &engeom::geom3::UnitVec3::new_normalize(-y), &o);
    println!("iso3_from_xyo(-x,-y): rot {:?} maps -x to {:?}", t.rotation.to_rotation_matrix(), t * (-x));
    let h = (0.5f64).sqrt();
    let t = Iso3::try_from_basis_xy(&Vector3::new(0.0, 1.0, 0.0), &Vector3::new(1.0, 0.0, 0.0), None).unwrap();
    println!("try_from_basis_xy(y,x) (half turn about (1,1,0)): rot {:?} {}", t.rotation.to_rotation_matrix(), h);
}
