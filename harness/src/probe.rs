//! ad-hoc probes (not part of any check)
pub fn run() {
    crate::c10::probe();
}
