//! ad-hoc probes (not part of any check)
use engeom::geom3::SvdBasis3;
use engeom::Point3;
use parry3d_f64::na::{DMatrix, Matrix3};
pub fn run() {
    let raw = [-11.797795129620413, 18.575699091130165, 4.938397641037181, -8.4775246628248, 19.939612124010598, 3.7293047064013614, -7.886333244313191, 20.18246393042179, 3.514019423383568, -8.734077553039857, 19.834224375004364, 3.8227297119909793, -9.367489143555284, 19.57402920954386, 4.053389679745885, -8.576886344122588, 19.898795963566368, 3.765487754750021, -9.469444413982286, 19.53214764492529, 4.090517196421097, -10.913143498827894, 18.93909957336899, 4.616247368310277, -11.232409773085434, 18.807950187566302, 4.732509763296684, -8.905364643052058, 19.763862428058136, 3.885104754144686, -7.108438395163933, 20.502010465433194, 3.2307451614215044, -11.937926283761225, 18.518135495225376, 4.989427094838737];
    let pts: Vec<Point3> = raw.chunks(3).map(|c| Point3::new(c[0], c[1], c[2])).collect();
    let b = SvdBasis3::from_points(&pts, None);
    println!("engeom sv {:?}", b.sv);
    let mut m = DMatrix::zeros(pts.len(), 3);
    let mut g = Matrix3::zeros();
    for (i, p) in pts.iter().enumerate() {
        let v = p - b.center;
        for j in 0..3 { m[(i, j)] = v[j]; }
        g += v * v.transpose();
    }
    let e = g.symmetric_eigen();
    println!("eigen of gram: {:?} sqrt {:?}", e.eigenvalues, e.eigenvalues.map(|x: f64| x.max(0.0).sqrt()));
    println!("frobenius^2 {}", m.norm_squared());
    let s = m.clone().svd(true, true);
    println!("svd(true,true) {:?}", s.singular_values);
    let s = m.clone().svd(false, false);
    println!("svd(false,false) {:?}", s.singular_values);
    let s = m.clone().svd_unordered(false, true);
    println!("svd_unordered {:?}", s.singular_values);
    let s = m.transpose().svd(true, false);
    println!("svd of transpose {:?}", s.singular_values);
    let s = m.clone().svd(true, true);
    let rec = s.recompose().unwrap();
    println!("recompose err {:e}", (rec - m.clone()).norm());
    println!("singular_values() {:?}", m.singular_values());
}
