//! ad-hoc probes (not part of any check)
use crate::c10::Family;
use engeom::airfoil::helpers::{extract_curve_beyond_station, OrientedCircles};
use engeom::airfoil::*;
use engeom::common::BestFit;
use engeom::geom2::{Circle2, Curve2};
use engeom::Vector2;
pub fn run() {
    let fam = Family { len: 10.0, bend: -0.3, r0: 0.3310252146591124, r1: 0.1992736563632777, b: 0.8322379830345092, n_side: 80, n_cap: 30 };
    let pts = fam.outline();
    let section = Curve2::from_points(&pts, 1e-6, true).unwrap();
    let geo = AirfoilGeometry::try_analyze(&section, 1e-4, DirectionFwd::make(Vector2::new(-1.0, 0.0)), IntersectEdge::make(), IntersectEdge::make(), FaceOrient::Detect).unwrap();
    let st = geo.stations.clone();
    println!("{} stations; last centre {:?} r {}", st.len(), st[st.len() - 1].center(), st[st.len() - 1].radius());
    let oc = OrientedCircles::new(st.clone(), false);
    let station = oc.last().unwrap();
    println!("contacts {:?} {:?}", station.contact_pos, station.contact_neg);
    let end_sp = oc.end_sp().unwrap().normal;
    println!("end dir {:?}", end_sp);
    let edge = extract_curve_beyond_station(&section, station, &end_sp).unwrap();
    println!("edge curve: {} points, length {} (section {} points, length {}); first {:?} last {:?}", edge.points().len(), edge.length(), section.points().len(), section.length(), edge.points()[0], edge.points()[edge.points().len() - 1]);
    let test = Circle2::fitting_circle(edge.points(), &station.circle, BestFit::Gaussian(2.0)).unwrap();
    println!("fit centre {:?} r {}", test.center, test.r());
    let res = edge.points().iter().map(|p| test.distance_to(p).abs()).fold(0.0, f64::max);
    println!("max residual {res:e}");
}
