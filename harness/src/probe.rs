//! ad-hoc probes (not part of any check)
use crate::gen;
use crate::util::Rng;
pub fn run() {
    let mut rng = Rng::new(5);
    for _ in 0..4 {
        let m = gen::height_field(&mut rng, 5, 4, 0.6);
        let mut outs = vec![];
        for _ in 0..3 {
            let e = m.calc_edges().unwrap();
            let uv = e.boundary_first_flatten().unwrap();
            outs.push((uv, e.boundary_loops[0].clone()));
        }
        let edges: Vec<(u32, u32)> = m.faces().iter().flat_map(|f| vec![(f[0], f[1]), (f[1], f[2]), (f[2], f[0])]).collect();
        for k in 1..3 {
            let w = edges.iter().map(|(a, b)| ((outs[0].0[*a as usize] - outs[0].0[*b as usize]).norm() - (outs[k].0[*a as usize] - outs[k].0[*b as usize]).norm()).abs()).fold(0.0, f64::max);
            println!("same mesh, run 0 vs {k}: loop starts {} vs {}, worst flattened edge length difference {w:e}", outs[0].1[0], outs[k].1[0]);
        }
    }
}
