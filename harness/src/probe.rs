//! ad-hoc probes (not part of any check)
use crate::gen;
use engeom::geom3::{Plane3, UnitVec3};
pub fn run() {
    let m = gen::torus(3.0, 0.8, 7, 4);
    let v = m.vertices();
    println!("verts {} faces {}", v.len(), m.faces().len());
    // plane through vertices 0,1,2 ... try the first ring: find 3 vertices of one meridian ring
    for (a, b, c) in [(0usize, 1usize, 2usize), (0, 7, 14), (0, 4, 8)] {
        let n = (v[b] - v[a]).cross(&(v[c] - v[a]));
        if n.norm() < 1e-9 { continue; }
        let n = UnitVec3::new_normalize(n);
        let plane = Plane3::new(n, n.dot(&v[a].coords));
        let on: Vec<usize> = (0..v.len()).filter(|k| plane.signed_distance_to_point(&v[*k]).abs() < 1e-9).collect();
        println!("plane through {a},{b},{c}: on-plane vertices {on:?}");
        let cs = m.section(&plane, Some(1e-10)).unwrap();
        for cv in &cs {
            let ids: Vec<String> = cv.points().iter().map(|p| match v.iter().position(|q| (q - p).norm() < 1e-9) { Some(k) => format!("v{k}"), None => format!("({:.2},{:.2},{:.2})", p.x, p.y, p.z) }).collect();
            println!("   curve: {}", ids.join(" "));
        }
    }
    for f in m.faces().iter().take(16) { println!("face {:?}", f); }
}
