//! ad-hoc probes (not part of any check)
use engeom::common::kd_tree::{KdTree, KdTreeSearch};
use engeom::Point2;

pub fn run() {
    for (name, pts) in [
        ("grid 15x15 distinct points", (0..225).map(|k| Point2::new((k % 15) as f64 * 0.5, (k / 15) as f64 * 0.5)).collect::<Vec<Point2>>()),
        ("grid 40x40 distinct points", (0..1600).map(|k| Point2::new((k % 40) as f64 * 0.5, (k / 40) as f64 * 0.5)).collect::<Vec<Point2>>()),
        ("two copies of a 10x10 grid", (0..200).map(|k| Point2::new(((k % 100) % 10) as f64, ((k % 100) / 10) as f64)).collect::<Vec<Point2>>()),
        ("100 copies of one point + 100 distinct", (0..200).map(|k| if k < 100 { Point2::new(1.0, 1.0) } else { Point2::new(k as f64 * 0.37, (k * k) as f64 * 0.0013) }).collect::<Vec<Point2>>()),
    ] {
        let tree = KdTree::<2>::new(&pts);
        let mut bad = 0; let mut total = 0;
        for qi in 0..50 {
            let q = Point2::new((qi % 7) as f64 * 0.93 + 0.11, (qi / 7) as f64 * 0.71 + 0.07);
            let w = tree.within(&q, 1.3);
            let brute = pts.iter().filter(|p| (*p - q).norm() < 1.3).count();
            total += 1;
            if w.len() != brute || w.iter().any(|(i, d)| ((pts[*i] - q).norm() - d).abs() > 1e-12) { bad += 1; }
        }
        println!("{name}: {bad} of {total} radius queries wrong");
    }
    if let Ok(txt) = std::fs::read_to_string("/tmp/knn_pts.txt") {
        let mut it = txt.split_whitespace().map(|x| x.parse::<f64>().unwrap());
        let n = it.next().unwrap() as usize;
        let q = Point2::new(it.next().unwrap(), it.next().unwrap());
        let r = it.next().unwrap();
        let pts: Vec<Point2> = (0..n).map(|_| Point2::new(it.next().unwrap(), it.next().unwrap())).collect();
        {
            use kiddo::immutable::float::kdtree::ImmutableKdTree;
            use kiddo::SquaredEuclidean;
            let entries: Vec<[f64; 2]> = pts.iter().map(|p| [p.x, p.y]).collect();
            macro_rules! try_b { ($b:expr) => {{
                let t: ImmutableKdTree<f64, usize, 2, $b> = ImmutableKdTree::new_from_slice(&entries);
                let res = t.within::<SquaredEuclidean>(&[q.x, q.y], r * r);
                let bad = res.iter().filter(|e| (((pts[e.item] - q).norm_squared()) - e.distance).abs() > 1e-12).count();
                println!("  immutable B={}: {} results, {} mis-indexed", $b, res.len(), bad);
            }}}
            try_b!(32); try_b!(64); try_b!(128); try_b!(256);
            {
                let t: ImmutableKdTree<f64, usize, 2, 32> = ImmutableKdTree::new_from_slice(&entries);
                let res = t.within_unsorted::<SquaredEuclidean>(&[q.x, q.y], r * r);
                let bad = res.iter().filter(|e| (((pts[e.item] - q).norm_squared()) - e.distance).abs() > 1e-12).count();
                let mut idx: Vec<usize> = res.iter().map(|e| e.item).collect(); idx.sort(); idx.dedup();
                println!("  immutable B=32 within_unsorted: {} results ({} distinct), {} mis-indexed", res.len(), idx.len(), bad);
                let res = t.nearest_n::<SquaredEuclidean>(&[q.x, q.y], std::num::NonZero::new(40).unwrap());
                let bad = res.iter().filter(|e| (((pts[e.item] - q).norm_squared()) - e.distance).abs() > 1e-12).count();
                println!("  immutable B=32 nearest_n(40): {} results, {} mis-indexed", res.len(), bad);
                let res = t.nearest_n_within::<SquaredEuclidean>(&[q.x, q.y], r * r, std::num::NonZero::new(1000).unwrap(), true);
                let bad = res.iter().filter(|e| (((pts[e.item] - q).norm_squared()) - e.distance).abs() > 1e-12).count();
                println!("  immutable B=32 nearest_n_within(sorted): {} results, {} mis-indexed", res.len(), bad);
            }
            let mut mt: kiddo::float::kdtree::KdTree<f64, usize, 2, 256, u32> = kiddo::float::kdtree::KdTree::new();
            for (i, e) in entries.iter().enumerate() { mt.add(e, i); }
            let res = mt.within::<SquaredEuclidean>(&[q.x, q.y], r * r);
            let bad = res.iter().filter(|e| (((pts[e.item] - q).norm_squared()) - e.distance).abs() > 1e-12).count();
            println!("  mutable B=256: {} results, {} mis-indexed", res.len(), bad);
        }
        let tree = KdTree::<2>::new(&pts);
        let w = tree.within(&q, r);
        let brute = (0..n).filter(|i| (pts[*i] - q).norm() < r).count();
        let mut idx: Vec<usize> = w.iter().map(|e| e.0).collect(); idx.sort(); let before = idx.len(); idx.dedup();
        println!("file case: n={n} r={r} within got {} (distinct {}), brute {}", before, idx.len(), brute);
        for (i, d) in w.iter().take(400) { let t = (pts[*i] - q).norm(); if (t - d).abs() > 1e-12 || *d >= r { println!("  bad idx {i}: reported {d} true {t}"); } }
    }
    {
        // 9x9 half-unit grid, 362 points (many exact duplicates), query on the grid
        let mut s = 99u64;
        let mut r = || { s = s.wrapping_mul(6364136223846793005).wrapping_add(1442695040888963407); ((s >> 33) % 9) as f64 };
        let pts: Vec<Point2> = (0..362).map(|_| Point2::new((r() - 4.0) * 0.5, (r() - 4.0) * 0.5)).collect();
        let tree = KdTree::<2>::new(&pts);
        let q = Point2::new(0.25, 0.0);
        let w = tree.within(&q, 0.5);
        let brute = (0..362).filter(|i| (pts[*i] - q).norm() < 0.5).count();
        let bad = w.iter().filter(|(i, d)| ((pts[*i] - q).norm() - d).abs() > 1e-12 || *d >= 0.5).count();
        let mut idx: Vec<usize> = w.iter().map(|e| e.0).collect(); idx.sort(); let before = idx.len(); idx.dedup();
        println!("grid dups: within got {} (distinct {}), brute {}, bad {}", before, idx.len(), brute, bad);
        let (ni, nd) = tree.nearest_one(&q);
        println!("grid dups: nearest {:?} {} true {}", pts[ni], nd, (pts[ni]-q).norm());
    }
    // 100 distinct points on a line, query within radius
    let pts: Vec<Point2> = (0..100).map(|k| Point2::new(k as f64 * 0.1, 0.0)).collect();
    let tree = KdTree::<2>::new(&pts);
    let q = Point2::new(5.0, 0.0);
    let w = tree.within(&q, 0.35);
    println!("distinct line: within 0.35 of x=5.0 -> {:?}", w);
    // duplicates
    let pts2: Vec<Point2> = (0..100).map(|k| Point2::new((k % 5) as f64, 0.0)).collect();
    let tree2 = KdTree::<2>::new(&pts2);
    let w2 = tree2.within(&Point2::new(0.0, 0.0), 0.5);
    println!("dups: within 0.5 of origin -> {} results; sample {:?}", w2.len(), &w2[..w2.len().min(5)]);
    let n2 = tree2.nearest_one(&Point2::new(3.1, 0.0));
    println!("dups: nearest to 3.1 -> {:?} (point {:?})", n2, pts2[n2.0]);
    // random-ish distinct points
    let mut s = 12345u64;
    let mut r = || { s = s.wrapping_mul(6364136223846793005).wrapping_add(1442695040888963407); (s >> 11) as f64 / (1u64 << 53) as f64 };
    let pts3: Vec<Point2> = (0..300).map(|_| Point2::new(r() * 10.0, r() * 10.0)).collect();
    let tree3 = KdTree::<2>::new(&pts3);
    let q3 = Point2::new(5.0, 5.0);
    let mut w3: Vec<(usize, f64)> = tree3.within(&q3, 1.0);
    w3.sort_by(|a, b| a.0.cmp(&b.0));
    let brute: Vec<usize> = (0..300).filter(|i| (pts3[*i] - q3).norm() < 1.0).collect();
    println!("random: within got {} brute {}", w3.len(), brute.len());
    for (i, d) in &w3 { let t = (pts3[*i] - q3).norm(); if (t - d).abs() > 1e-12 { println!("  mismatch idx {i}: reported {d} true {t}"); } }
}
