//! ad-hoc probes (not part of any check)
use crate::util::*;
use engeom::common::AngleDir;
use engeom::geom2::hull::{ball_pivot_with_centers_2d, BallPivotEnd, BallPivotStart};
use engeom::Point2;

pub fn run() {
    if std::env::var("VH_PROBE").as_deref() == Ok("c10") {
        crate::c10::probe();
        return;
    }
    // ball pivot on scattered clouds: find a case with a point strictly inside a ball and describe it
    // (the known finding of C15: `vh PROBE 1 1` prints the first four; about one cloud in 10 000)
    let mut rng = Rng::new(12345);
    let mut found = 0;
    for case in 0..200000 {
        let n = 300;
        let big = 3.0;
        let mut pts: Vec<Point2> = Vec::new();
        while pts.len() < n {
            let p = Point2::new(rng.range(-big, big), rng.range(-big, big));
            if p.coords.norm() <= big {
                pts.push(p);
            }
        }
        let spacing = (std::f64::consts::PI * big * big / n as f64).sqrt();
        let radius = spacing * *rng.pick(&[2.5, 3.0, 4.0, 6.0]);
        let Ok(Ok((idx, centers))) = guarded(|| ball_pivot_with_centers_2d(&pts, BallPivotStart::StartOnConvex, BallPivotEnd::EndOnRepeat, AngleDir::Ccw, radius)) else { continue };
        for (j, c) in centers.iter().enumerate() {
            if j + 1 >= idx.len() {
                break;
            }
            for (k, p) in pts.iter().enumerate() {
                if (c - p).norm() < radius - 1e-7 {
                    println!("case {case}: radius {radius:.4} step {j}: working {} -> next {}, point {k} inside at {:.4}; previous {:?}, two back {:?}", idx[j], idx[j + 1], (c - p).norm(), if j >= 1 { Some(idx[j - 1]) } else { None }, if j >= 2 { Some(idx[j - 2]) } else { None });
                    println!("   working {:?} next {:?} inside {:?} prev {:?} centre {:?} prev centre {:?}", pts[idx[j]], pts[idx[j + 1]], p, if j >= 1 { Some(pts[idx[j - 1]]) } else { None }, c, if j >= 1 { Some(centers[j - 1]) } else { None });
                    found += 1;
                    break;
                }
            }
        }
        if found >= 4 {
            break;
        }
    }
}
