//! Structured generators shared by several properties.
use crate::util::Rng;
use engeom::geom2::{Curve2, Point2};
use engeom::geom3::{Iso3, Mesh, Point3, Vector3};
use std::f64::consts::PI;

/// vertex list of a 2-D curve; second component: the caller should force-close it
pub fn curve2_points(rng: &mut Rng) -> (Vec<Point2>, bool) {
    let n = match rng.below(6) {
        0 => rng.int(2, 4) as usize,
        1 | 2 => rng.int(5, 30) as usize,
        3 => rng.int(30, 200) as usize,
        _ => rng.int(3, 12) as usize,
    };
    let scale = *rng.pick(&[1e-2, 0.3, 1.0, 1.0, 7.0, 150.0]);
    match rng.below(7) {
        // random walk with very uneven steps
        0 | 1 => {
            let mut p = Point2::new(rng.range(-1.0, 1.0) * scale, rng.range(-1.0, 1.0) * scale);
            let mut pts = vec![p];
            let mut heading = rng.range(0.0, 2.0 * PI);
            for _ in 1..n {
                heading += rng.range(-1.2, 1.2);
                let step = scale * 10f64.powf(rng.range(-3.0, 0.0));
                p = Point2::new(p.x + step * heading.cos(), p.y + step * heading.sin());
                pts.push(p);
            }
            (pts, rng.chance(0.3))
        }
        // star-shaped polygon (closed)
        2 | 3 => {
            let n = n.max(3);
            let c = Point2::new(rng.range(-3.0, 3.0) * scale, rng.range(-3.0, 3.0) * scale);
            let phase = rng.range(0.0, 2.0 * PI);
            let ccw = if rng.chance(0.5) { 1.0 } else { -1.0 };
            let mut pts = Vec::new();
            for i in 0..n {
                let a = phase + ccw * 2.0 * PI * (i as f64 + rng.range(-0.3, 0.3)) / n as f64;
                let r = scale * rng.range(0.5, 1.5);
                pts.push(Point2::new(c.x + r * a.cos(), c.y + r * a.sin()));
            }
            if rng.chance(0.5) {
                pts.push(pts[0]);
                (pts, false)
            } else {
                (pts, true)
            }
        }
        // exact-grid curve: axis-parallel dyadic steps (f64 arithmetic is exact on it)
        4 => {
            let mut x = rng.int(-8, 8) as f64;
            let mut y = rng.int(-8, 8) as f64;
            let mut pts = vec![Point2::new(x, y)];
            let mut horiz = rng.chance(0.5);
            for _ in 1..n {
                let step = (rng.int(1, 16) as f64) / 4.0 * if rng.chance(0.5) { 1.0 } else { -1.0 };
                if horiz {
                    x += step;
                } else {
                    y += step;
                }
                if rng.chance(0.7) {
                    horiz = !horiz;
                }
                pts.push(Point2::new(x, y));
            }
            (pts, rng.chance(0.3))
        }
        // 3-4-5 edges: lengths are exact integers
        5 => {
            let mut p = Point2::new(rng.int(-5, 5) as f64, rng.int(-5, 5) as f64);
            let mut pts = vec![p];
            let dirs = [(3.0, 4.0), (4.0, 3.0), (-3.0, 4.0), (4.0, -3.0), (5.0, 0.0), (0.0, 5.0), (-4.0, -3.0), (6.0, 8.0)];
            for _ in 1..n {
                let d = rng.pick(&dirs);
                p = Point2::new(p.x + d.0, p.y + d.1);
                pts.push(p);
            }
            (pts, rng.chance(0.3))
        }
        // collinear runs and a self touching loop
        _ => {
            let mut pts = Vec::new();
            let mut p = Point2::new(0.0, 0.0);
            let mut dir = (1.0, 0.0);
            pts.push(p);
            for _ in 1..n {
                if rng.chance(0.3) {
                    let a = rng.range(0.0, 2.0 * PI);
                    dir = (a.cos(), a.sin());
                }
                let step = scale * rng.range(0.05, 1.0);
                p = Point2::new(p.x + dir.0 * step, p.y + dir.1 * step);
                pts.push(p);
            }
            (pts, rng.chance(0.3))
        }
    }
}

pub fn curve2(rng: &mut Rng) -> Option<(Curve2, Vec<Point2>, f64, bool)> {
    let (pts, fc) = curve2_points(rng);
    let tol = *rng.pick(&[1e-6, 1e-8, 1e-4, 1e-10]);
    Curve2::from_points(&pts, tol, fc).ok().map(|c| (c, pts, tol, fc))
}

pub fn iso3(rng: &mut Rng, tmax: f64) -> Iso3 {
    let axis = Vector3::new(rng.gauss(), rng.gauss(), rng.gauss());
    let axis = if axis.norm() < 1e-6 { Vector3::new(1.0, 0.0, 0.0) } else { axis.normalize() };
    let angle = rng.range(-PI, PI);
    Iso3::new(
        Vector3::new(rng.range(-tmax, tmax), rng.range(-tmax, tmax), rng.range(-tmax, tmax)),
        axis * angle,
    )
}

/// z = f(x,y) sheet over an nx × ny grid (open mesh)
pub fn height_field(rng: &mut Rng, nx: usize, ny: usize, amp: f64) -> Mesh {
    let mut v = Vec::new();
    let (a, b, c) = (rng.range(0.3, 2.0), rng.range(0.3, 2.0), rng.range(0.0, 6.0));
    for j in 0..ny {
        for i in 0..nx {
            let x = i as f64 + rng.range(-0.2, 0.2);
            let y = j as f64 + rng.range(-0.2, 0.2);
            v.push(Point3::new(x, y, amp * ((a * x + c).sin() + (b * y).cos())));
        }
    }
    let mut f = Vec::new();
    for j in 0..ny - 1 {
        for i in 0..nx - 1 {
            let k = (j * nx + i) as u32;
            let nxu = nx as u32;
            if rng.chance(0.5) {
                f.push([k, k + 1, k + nxu + 1]);
                f.push([k, k + nxu + 1, k + nxu]);
            } else {
                f.push([k, k + 1, k + nxu]);
                f.push([k + 1, k + nxu + 1, k + nxu]);
            }
        }
    }
    Mesh::new(v, f, false)
}

/// UV sphere / torus (closed, outward-wound)
pub fn torus(r_major: f64, r_minor: f64, nu: usize, nv: usize) -> Mesh {
    let mut v = Vec::new();
    for i in 0..nu {
        let a = 2.0 * PI * i as f64 / nu as f64;
        for j in 0..nv {
            let b = 2.0 * PI * j as f64 / nv as f64;
            let r = r_major + r_minor * b.cos();
            v.push(Point3::new(r * a.cos(), r * a.sin(), r_minor * b.sin()));
        }
    }
    let mut f = Vec::new();
    let id = |i: usize, j: usize| ((i % nu) * nv + (j % nv)) as u32;
    for i in 0..nu {
        for j in 0..nv {
            f.push([id(i, j), id(i + 1, j), id(i + 1, j + 1)]);
            f.push([id(i, j), id(i + 1, j + 1), id(i, j + 1)]);
        }
    }
    Mesh::new(v, f, false)
}

pub fn sphere(r: f64, nu: usize, nv: usize) -> Mesh {
    // nv latitude bands
    let mut v = vec![Point3::new(0.0, 0.0, r)];
    for j in 1..nv {
        let t = PI * j as f64 / nv as f64;
        for i in 0..nu {
            let a = 2.0 * PI * i as f64 / nu as f64;
            v.push(Point3::new(r * t.sin() * a.cos(), r * t.sin() * a.sin(), r * t.cos()));
        }
    }
    v.push(Point3::new(0.0, 0.0, -r));
    let south = (v.len() - 1) as u32;
    let id = |j: usize, i: usize| (1 + (j - 1) * nu + (i % nu)) as u32;
    let mut f = Vec::new();
    for i in 0..nu {
        f.push([0, id(1, i), id(1, i + 1)]);
    }
    for j in 1..nv - 1 {
        for i in 0..nu {
            f.push([id(j, i), id(j + 1, i), id(j + 1, i + 1)]);
            f.push([id(j, i), id(j + 1, i + 1), id(j, i + 1)]);
        }
    }
    for i in 0..nu {
        f.push([south, id(nv - 1, i + 1), id(nv - 1, i)]);
    }
    Mesh::new(v, f, false)
}

pub fn moved(mesh: &Mesh, iso: &Iso3) -> Mesh {
    let v: Vec<Point3> = mesh.vertices().iter().map(|p| iso * p).collect();
    Mesh::new(v, mesh.faces().to_vec(), false)
}

/// some mesh in a random pose
pub fn mesh(rng: &mut Rng) -> Mesh {
    let m = match rng.below(5) {
        0 => Mesh::create_box(rng.range(0.5, 5.0), rng.range(0.5, 5.0), rng.range(0.5, 5.0), false),
        1 => {
            let nx = rng.int(3, 9) as usize;
            let ny = rng.int(3, 9) as usize;
            { let amp = rng.range(0.0, 1.0); height_field(rng, nx, ny, amp) }
        }
        2 => torus(rng.range(2.0, 4.0), rng.range(0.3, 1.0), rng.int(5, 14) as usize, rng.int(4, 9) as usize),
        3 => sphere(rng.range(0.5, 3.0), rng.int(4, 12) as usize, rng.int(3, 8) as usize),
        _ => {
            let nx = rng.int(2, 5) as usize;
            height_field(rng, nx, 2, 0.0)
        }
    };
    let t = iso3(rng, 20.0);
    moved(&m, &t)
}

use engeom::geom3::Curve3;

pub fn curve3_points(rng: &mut Rng) -> Vec<Point3> {
    let (p2, _) = curve2_points(rng);
    let mode = rng.below(3);
    let t = iso3(rng, 10.0);
    p2.iter()
        .enumerate()
        .map(|(i, p)| {
            let z = match mode {
                0 => 0.0,
                1 => (i as f64 * 0.7).sin(),
                _ => i as f64 * 0.25,
            };
            let q = Point3::new(p.x, p.y, z);
            if mode == 0 { q } else { t * q }
        })
        .collect()
}

pub fn curve3(rng: &mut Rng) -> Option<(Curve3, Vec<Point3>, f64)> {
    let pts = curve3_points(rng);
    let tol = *rng.pick(&[1e-6, 1e-8, 1e-4, 1e-10]);
    Curve3::from_points(&pts, tol).ok().map(|c| (c, pts, tol))
}
