//! C19 — basis, frame and plane constructions are orthonormal and right-handed.
use crate::c03::{iso2_tok, iso3_tok};
use crate::gen;
use crate::util::*;
use engeom::common::svd_basis::{iso2_from_basis, iso3_from_basis, iso3_from_xyo};
use engeom::geom2::Iso2;
use engeom::geom3::{Iso3, IsoExtensions3, Plane3, SurfacePoint3, SvdBasis3, UnitVec3, Vector3};
use engeom::{Point2, Point3, SvdBasis2, Vector2};
use std::sync::mpsc;
use std::time::Duration;

/// run `f` on another thread; `None` = did not finish within the limit (the thread is abandoned)
fn with_watchdog<T: Send + 'static>(f: impl FnOnce() -> T + Send + 'static) -> Option<T> {
    let (tx, rx) = mpsc::channel();
    std::thread::spawn(move || {
        let r = f();
        let _ = tx.send(r);
    });
    rx.recv_timeout(Duration::from_secs(5)).ok()
}

fn hang(op: &str, i: &Tok, clause: &str) -> ! {
    let mut v = Verdict::new();
    v.require(false, clause, || "no result within 5 s".into());
    let mut o = Tok::new();
    o.w("timeout");
    emit_oracle_only(op, i, &o, &v);
    use std::io::Write;
    std::io::stdout().flush().ok();
    std::process::exit(0)
}

fn rvec(rng: &mut Rng) -> Vector3 {
    loop {
        let v = Vector3::new(rng.gauss(), rng.gauss(), rng.gauss());
        if v.norm() > 0.2 {
            return v;
        }
    }
}
fn dyadic_vec(rng: &mut Rng) -> Vector3 {
    loop {
        let v = Vector3::new(rng.dyadic(8, 3), rng.dyadic(8, 3), rng.dyadic(8, 3));
        if v.norm() > 0.2 {
            return v;
        }
    }
}
fn perp(v: &Vector3, rng: &mut Rng) -> Vector3 {
    loop {
        let r = rvec(rng);
        let c = v.cross(&r);
        if c.norm() > 0.1 * v.norm() {
            return c.normalize();
        }
    }
}
fn p3(rng: &mut Rng, s: f64) -> Point3 {
    Point3::new(rng.range(-s, s), rng.range(-s, s), rng.range(-s, s))
}

const KINDS: [&str; 6] = ["xy", "xz", "yz", "yx", "zx", "zy"];
/// (primary column, secondary column) of each constructor
fn slots(kind: &str) -> (usize, usize) {
    let ix = |c: u8| (c - b'x') as usize;
    let b = kind.as_bytes();
    (ix(b[0]), ix(b[1]))
}
fn call(kind: &str, a: &Vector3, b: &Vector3, o: Option<Point3>) -> Option<Iso3> {
    match kind {
        "xy" => Iso3::try_from_basis_xy(a, b, o),
        "xz" => Iso3::try_from_basis_xz(a, b, o),
        "yz" => Iso3::try_from_basis_yz(a, b, o),
        "yx" => Iso3::try_from_basis_yx(a, b, o),
        "zx" => Iso3::try_from_basis_zx(a, b, o),
        _ => Iso3::try_from_basis_zy(a, b, o),
    }
    .ok()
}

fn frames(rng: &mut Rng) {
    let kind = *rng.pick(&KINDS);
    let (pi, si) = slots(kind);
    let ti = 3 - pi - si;
    let la = *rng.pick(&[1e-6, 1e-3, 1.0, 1.0, 1.0, 50.0, 1e4]);
    let lb = *rng.pick(&[1e-6, 1e-3, 1.0, 1.0, 1.0, 50.0, 1e4]);
    let mode = rng.below(20);
    // `exact_degenerate`: zero or exactly parallel by construction (dyadic coordinates)
    let (a, b, exact_degenerate) = match mode {
        0 => (Vector3::zeros(), rvec(rng) * lb, true),
        1 => (rvec(rng) * la, Vector3::zeros(), true),
        2 | 3 => {
            let a = dyadic_vec(rng);
            let k = *rng.pick(&[1.0, -1.0, 2.0, 0.5, -4.0, 0.25]);
            (a, a * k, true)
        }
        4 | 5 | 6 => {
            let a = rvec(rng) * la;
            let k = rng.range(0.2, 3.0) * if rng.chance(0.5) { -1.0 } else { 1.0 };
            let d = *rng.pick(&[1e-2, 1e-4, 1e-6, 1e-8]);
            let b = a * k + perp(&a, rng) * (d * a.norm() * k.abs());
            (a, b, false)
        }
        7 => {
            // already orthonormal
            let a = rvec(rng).normalize();
            (a, perp(&a, rng), false)
        }
        8 | 9 => {
            // fixture flips: signed coordinate axes (the frame is a signed permutation, often a half turn)
            let e = [Vector3::x(), Vector3::y(), Vector3::z()];
            let i = rng.below(3);
            let j = (i + 1 + rng.below(2)) % 3;
            let sa = if rng.chance(0.5) { 1.0 } else { -1.0 };
            let sb = if rng.chance(0.5) { 1.0 } else { -1.0 };
            let a = e[i] * (sa * la);
            (a, e[j] * (sb * lb) + a * *rng.pick(&[0.0, 0.0, 0.5, -2.0]), false)
        }
        10 | 11 => {
            // a frame that is exactly a half turn about a generic axis u:  R = 2 u u^T - I  (symmetric)
            let u = rvec(rng).normalize();
            let r = u * u.transpose() * 2.0 - parry3d_f64::na::Matrix3::identity();
            let e = [Vector3::x(), Vector3::y(), Vector3::z()];
            let a = r * e[pi] * la;
            (a, r * e[si] * lb + a * *rng.pick(&[0.0, 0.3, -1.5]), false)
        }
        _ => (rvec(rng) * la, rvec(rng) * lb, false),
    };
    let origin = if rng.chance(0.7) { Some(p3(rng, 100.0)) } else { None };
    let res = call(kind, &a, &b, origin);
    let mut v = Verdict::new();
    let ah = if a.norm() > 0.0 { a / a.norm() } else { a };
    let bh = if b.norm() > 0.0 { b / b.norm() } else { b };
    let sin_rel = ah.cross(&bh).norm();
    let well_posed = a.norm() > 1e-7 && ah.cross(&b).norm() > 1e-8 && sin_rel > 1e-9;
    if exact_degenerate {
        v.require(res.is_none(), "frame.fails_on_parallel_or_zero", || format!("kind={kind} a={a:?} b={b:?} returned a frame"));
    }
    if well_posed {
        v.require(res.is_some(), "frame.ok_on_independent_inputs", || format!("kind={kind} a={a:?} b={b:?} failed"));
    }
    let mut o = Tok::new();
    match &res {
        None => {
            o.w("err");
        }
        Some(iso) => {
            o.w("ok");
            iso3_tok(&mut o, iso);
            let m = *iso.rotation.to_rotation_matrix().matrix();
            let finite = m.iter().all(|x| x.is_finite()) && iso.translation.vector.iter().all(|x| x.is_finite());
            v.require(finite, "frame.finite", || format!("kind={kind} a={a:?} b={b:?}"));
            if finite && !exact_degenerate {
                let tol = 1e-10 + 8e-16 / sin_rel.max(1e-300);
                let c = [m.column(0).into_owned(), m.column(1).into_owned(), m.column(2).into_owned()];
                let mut worst: f64 = 0.0;
                for i in 0..3 {
                    for j in 0..3 {
                        worst = worst.max((c[i].dot(&c[j]) - if i == j { 1.0 } else { 0.0 }).abs());
                    }
                }
                v.require(worst <= 1e-10, "frame.orthonormal", || format!("defect {worst:e}"));
                v.require((m.determinant() - 1.0).abs() <= 1e-9, "frame.right_handed", || format!("det {}", m.determinant()));
                v.require((c[0].cross(&c[1]) - c[2]).norm() <= 1e-9, "frame.right_handed_x_cross_y_is_z", || "".into());
                v.require((c[pi] - ah).norm() <= tol, "frame.primary_axis_is_normalised_first_argument", || {
                    format!("kind={kind} axis {:?} expected {:?} (tol {tol:e})", c[pi], ah)
                });
                // (rounding in the cross products is ~1e-16 / sin: below sin ~ 1e-7 the side of a nearly parallel
                // second argument is not resolved)
                v.require(sin_rel <= 1e-7 || c[si].dot(&bh) > 0.25 * sin_rel, "frame.secondary_axis_in_half_plane_of_second_argument", || {
                    format!("kind={kind} secondary·b = {} (sin {sin_rel:e})", c[si].dot(&bh))
                });
                v.require(c[ti].dot(&bh).abs() <= tol, "frame.third_axis_normal_to_both_arguments", || {
                    format!("kind={kind} third·b = {:e} tol {tol:e}", c[ti].dot(&bh))
                });
                let want = origin.map(|p| p.coords).unwrap_or(Vector3::zeros());
                v.require(iso.translation.vector == want, "frame.origin_maps_to_given_point", || format!("{:?} vs {:?}", iso.translation.vector, want));
                v.require(((iso * Point3::origin()).coords - want).norm() == 0.0, "frame.origin_maps_to_given_point", || "".into());
            }
        }
    }
    let mut i = Tok::new();
    i.w(kind).fs(a.as_slice()).fs(b.as_slice());
    match origin {
        Some(p) => {
            i.fs(p.coords.as_slice());
        }
        None => {
            i.w("-");
        }
    }
    // the model is compared where the construction is well conditioned or exactly degenerate
    if exact_degenerate || (well_posed && sin_rel > 1e-5) {
        emit("frame.make", &i, &o, &v);
    } else {
        emit_oracle_only("frame.make", &i, &o, &v);
    }
}

fn iso_checks(v: &mut Verdict, name: &str, iso: &Iso3, origin: &Point3, x: &Vector3, y: &Vector3, tol: f64) {
    let m = *iso.rotation.to_rotation_matrix().matrix();
    v.require((m.determinant() - 1.0).abs() <= 1e-9, &format!("{name}.proper_rotation"), || format!("det {}", m.determinant()));
    v.require((iso * origin).coords.norm() <= tol * (1.0 + origin.coords.norm()), &format!("{name}.origin_maps_to_zero"), || format!("{:?}", iso * origin));
    v.require((iso * x - Vector3::x()).norm() <= tol, &format!("{name}.first_vector_becomes_x"), || format!("{:?}", iso * x));
    let yy = iso * y;
    v.require(yy.y > 0.0 && yy.z.abs() <= tol, &format!("{name}.second_vector_in_upper_xy_half_plane"), || format!("{yy:?}"));
}

/// an orthonormal pair whose frame is a signed permutation of the axes or exactly a half turn about a
/// generic axis (R = 2uu^T - I): the poses of a flipped fixture
fn special_pair(rng: &mut Rng) -> (Vector3, Vector3) {
    let e = [Vector3::x(), Vector3::y(), Vector3::z()];
    if rng.chance(0.5) {
        let i = rng.below(3);
        let j = (i + 1 + rng.below(2)) % 3;
        (e[i] * if rng.chance(0.5) { 1.0 } else { -1.0 }, e[j] * if rng.chance(0.5) { 1.0 } else { -1.0 })
    } else {
        let u = rvec(rng).normalize();
        let r = u * u.transpose() * 2.0 - parry3d_f64::na::Matrix3::identity();
        ((r * e[0]).normalize(), (r * e[1]).normalize())
    }
}

fn inverse_frames(rng: &mut Rng) {
    // iso3_from_xyo
    let special = if rng.chance(0.3) { Some(special_pair(rng)) } else { None };
    let x0 = match special {
        Some((sx, _)) => UnitVec3::new_normalize(sx),
        None => UnitVec3::new_normalize(rvec(rng)),
    };
    let mode = if special.is_some() { 20 } else { rng.below(10) };
    let (y, exact_parallel) = match mode {
        0 => (x0, true),
        1 => (-x0, true),
        2 | 3 => {
            let d = *rng.pick(&[1e-2, 1e-4, 1e-6]);
            (UnitVec3::new_normalize(x0.into_inner() * if rng.chance(0.5) { 1.0 } else { -1.0 } + perp(&x0, rng) * d), false)
        }
        20 => (UnitVec3::new_normalize(special.unwrap().1 + x0.into_inner() * *rng.pick(&[0.0, 0.0, 0.4, -1.2])), false),
        _ => (UnitVec3::new_normalize(rvec(rng)), false),
    };
    let origin = p3(rng, 50.0);
    let mut i = Tok::new();
    i.fs(x0.as_slice()).fs(y.as_slice()).fs(origin.coords.as_slice());
    let r = with_watchdog(move || guarded(|| iso3_from_xyo(&x0, &y, &origin)));
    let Some(r) = r else { hang("frame.xyo", &i, "xyo.terminates_on_parallel_input") };
    let sin_rel = x0.cross(&y).norm();
    let mut v = Verdict::new();
    let mut o = Tok::new();
    match &r {
        Err(_) => {
            o.w("panic");
            v.require(sin_rel < 1e-8, "xyo.ok_on_independent_inputs", || format!("panicked with sin {sin_rel:e}"));
        }
        Ok(iso) => {
            o.w("ok");
            iso3_tok(&mut o, iso);
            v.require(!exact_parallel, "xyo.fails_on_parallel", || "returned a frame for parallel input".into());
            let finite = iso.rotation.coords.iter().all(|x| x.is_finite());
            v.require(finite, "xyo.finite", || "".into());
            if finite && !exact_parallel {
                iso_checks(&mut v, "xyo", iso, &origin, &x0, &y, 1e-10 + 8e-16 / sin_rel);
            }
        }
    }
    if exact_parallel || sin_rel > 1e-5 {
        emit("frame.xyo", &i, &o, &v);
    } else {
        emit_oracle_only("frame.xyo", &i, &o, &v);
    }

    // iso3_from_basis on an orthonormal triple (either handedness) or an arbitrary one
    let (b0, b1) = if rng.chance(0.3) {
        special_pair(rng)
    } else {
        let b0 = rvec(rng).normalize();
        (b0, perp(&b0, rng))
    };
    let flip = rng.chance(0.5);
    let b2 = b0.cross(&b1) * if flip { -1.0 } else { 1.0 };
    let scale = *rng.pick(&[1.0, 1.0, 3.0, 0.01]);
    let degenerate = rng.chance(0.1);
    let basis = if degenerate { [b0 * scale, b0 * (2.0 * scale), b2] } else { [b0 * scale, b1 * scale, b2] };
    let mut i = Tok::new();
    i.fs(basis[0].as_slice()).fs(basis[1].as_slice()).fs(origin.coords.as_slice());
    let r = with_watchdog(move || guarded(|| iso3_from_basis(&basis, &origin)));
    let Some(r) = r else { hang("frame.basis3", &i, "basis3.terminates_on_parallel_input") };
    let mut v = Verdict::new();
    let mut o = Tok::new();
    match &r {
        Err(_) => {
            o.w("panic");
            v.require(degenerate, "basis3.ok_on_orthogonal_basis", || "panicked".into());
        }
        Ok(iso) => {
            o.w("ok");
            iso3_tok(&mut o, iso);
            v.require(!degenerate, "basis3.fails_on_parallel", || "returned a frame for parallel input".into());
            if !degenerate {
                iso_checks(&mut v, "basis3", iso, &origin, &b0, &b1, 1e-9);
            }
        }
    }
    emit("frame.basis3", &i, &o, &v);

    // iso2_from_basis
    let ang = rng.range(-3.2, 3.2);
    let len = *rng.pick(&[1.0, 1.0, 5.0, 1e-3, 0.0]);
    // exact quarter and half turns as well
    let c0 = match rng.below(8) {
        0 => Vector2::new(-1.0, 0.0),
        1 => Vector2::new(0.0, -1.0),
        2 => Vector2::new(0.0, 1.0),
        _ => Vector2::new(ang.cos(), ang.sin()),
    } * len;
    let o2 = Point2::new(rng.range(-50.0, 50.0), rng.range(-50.0, 50.0));
    let r = guarded(|| iso2_from_basis(&[c0, Vector2::new(-c0.y, c0.x)], &o2));
    let mut i = Tok::new();
    i.f(c0.x).f(c0.y).f(o2.x).f(o2.y);
    let mut v = Verdict::new();
    let mut o = Tok::new();
    match &r {
        Err(_) => {
            o.w("panic");
            v.require(len == 0.0, "basis2.ok_on_nonzero_vector", || "panicked".into());
        }
        Ok(iso) => {
            o.w("ok");
            iso2_tok(&mut o, iso);
            v.require(len != 0.0, "basis2.fails_on_zero", || "returned a frame for the zero vector".into());
            if len != 0.0 {
                v.require((iso * o2).coords.norm() <= 1e-10 * (1.0 + o2.coords.norm()), "basis2.origin_maps_to_zero", || "".into());
                v.require((iso * (c0 / len) - Vector2::x()).norm() <= 1e-10, "basis2.first_vector_becomes_x", || format!("{:?}", iso * (c0 / len)));
                let up: Vector2 = iso * Vector2::new(-c0.y, c0.x);
                v.require(up.y > 0.0 && up.x.abs() <= 1e-10 * len.max(1.0), "basis2.left_normal_becomes_y", || format!("{up:?}"));
            }
        }
    }
    emit("frame.basis2", &i, &o, &v);
}

/// point sets: generic cloud, planar, collinear, coincident (true dimension returned), anisotropic
fn point_set(rng: &mut Rng, two_d: bool) -> (Vec<Point3>, usize) {
    let n = *rng.pick(&[4usize, 5, 7, 12, 40, 150]);
    let scale = *rng.pick(&[1.0, 1.0, 10.0, 0.05, 300.0]);
    let c = p3(rng, 20.0 * scale);
    let dim_max = if two_d { 2 } else { 3 };
    let dim = match rng.below(10) {
        0 => 0,
        1 | 2 => 1,
        3 | 4 => 2.min(dim_max),
        _ => dim_max,
    };
    let t = gen::iso3(rng, 0.0);
    let ax = [rng.range(0.5, 3.0), rng.range(0.5, 3.0) * *rng.pick(&[1.0, 0.3, 0.05]), rng.range(0.5, 3.0) * *rng.pick(&[1.0, 0.2, 0.01])];
    let mut pts = vec![];
    for _ in 0..n {
        let mut l = Vector3::zeros();
        for k in 0..dim {
            l[k] = ax[k] * scale * rng.gauss();
        }
        let mut p = c + if two_d { l } else { t * l };
        if two_d {
            p.z = 0.0;
            if dim == 1 {
                // a slanted line in the plane
                p = Point3::new(c.x + l.x * 0.6, c.y + l.x * 0.8, 0.0);
            } else if dim == 0 {
                p = Point3::new(c.x, c.y, 0.0);
            }
        }
        pts.push(p);
    }
    (pts, dim)
}

/// basis vectors up to sign: flip so that the largest component is positive
fn canon(b: &Vector3) -> Vector3 {
    let k = b.iamax();
    if b[k] < 0.0 {
        -b
    } else {
        *b
    }
}

struct Dec {
    basis: [Vector3; 3],
    sv: [f64; 3],
    center: Point3,
    n: usize,
    // the accessor methods of the decomposition, as the library computes them
    vars: [f64; 3],
    stdevs: [f64; 3],
    largest: Vector3,
    smallest: Vector3,
    rank_fn: Box<dyn Fn(f64) -> usize + Send>,
    vec_to_basis: Box<dyn Fn(&Vector3) -> Vector3 + Send>,
}
fn decompose(pts: &[Point3], w: Option<&[f64]>, two_d: bool) -> Dec {
    if two_d {
        let p2: Vec<Point2> = pts.iter().map(|p| Point2::new(p.x, p.y)).collect();
        let b = SvdBasis2::from_points(&p2, w);
        let (va, sd, la, sm) = (b.basis_variances(), b.basis_stdevs(), b.largest().into_inner(), b.smallest().into_inner());
        let b = std::sync::Arc::new(b);
        let (b1, b2) = (b.clone(), b.clone());
        Dec {
            basis: [Vector3::new(b.basis[0].x, b.basis[0].y, 0.0), Vector3::new(b.basis[1].x, b.basis[1].y, 0.0), Vector3::z()],
            sv: [b.sv[0], b.sv[1], 0.0],
            center: Point3::new(b.center.x, b.center.y, 0.0),
            n: b.n,
            vars: [va[0], va[1], 0.0],
            stdevs: [sd[0], sd[1], 0.0],
            largest: Vector3::new(la.x, la.y, 0.0),
            smallest: Vector3::new(sm.x, sm.y, 0.0),
            rank_fn: Box::new(move |t| b1.rank(t)),
            vec_to_basis: Box::new(move |u| { let r = b2.vec_to_basis(&Vector2::new(u.x, u.y)); Vector3::new(r.x, r.y, u.z) }),
        }
    } else {
        let b = SvdBasis3::from_points(pts, w);
        let b = std::sync::Arc::new(b);
        let (b1, b2) = (b.clone(), b.clone());
        Dec {
            basis: b.basis, sv: b.sv, center: b.center, n: b.n,
            vars: b.basis_variances(), stdevs: b.basis_stdevs(), largest: b.largest().into_inner(), smallest: b.smallest().into_inner(),
            rank_fn: Box::new(move |t| b1.rank(t)),
            vec_to_basis: Box::new(move |u| b2.vec_to_basis(u)),
        }
    }
}

fn svd_case(rng: &mut Rng) {
    let two_d = rng.chance(0.3);
    let (pts, dim) = point_set(rng, two_d);
    let n = pts.len();
    let weights: Option<Vec<f64>> = if rng.chance(0.5) {
        let hi = *rng.pick(&[1.0, 3.0, 20.0, 1e-9, 1e-13, 1e7]);
        Some((0..n).map(|_| rng.range(0.2, 1.0) * hi).collect())
    } else {
        None
    };
    let w = weights.as_deref();
    let d = decompose(&pts, w, two_d);
    let mut v = Verdict::new();
    // independent (weighted) mean, compensated with long accumulation in a different order
    let tw: f64 = w.map(|w| w.iter().rev().sum()).unwrap_or(n as f64);
    let mut mean = Vector3::zeros();
    for (k, p) in pts.iter().enumerate().rev() {
        mean += p.coords * w.map(|w| w[k]).unwrap_or(1.0);
    }
    mean /= tw;
    let extent = pts.iter().map(|p| (p.coords - mean).norm()).fold(0.0, f64::max);
    let size = mean.norm() + extent + 1e-300;
    v.require((d.center.coords - mean).norm() <= 1e-12 * size, "svd.centre_is_weighted_mean", || format!("{:?} vs {:?}", d.center, mean));
    v.require(d.n == n, "svd.n_is_point_count", || format!("{} vs {n}", d.n));
    let mut worst: f64 = 0.0;
    for i in 0..3 {
        for j in 0..3 {
            worst = worst.max((d.basis[i].dot(&d.basis[j]) - if i == j { 1.0 } else { 0.0 }).abs());
        }
    }
    v.require(worst <= 1e-10, "svd.basis_orthonormal", || format!("defect {worst:e}"));
    v.require(d.sv[0] >= d.sv[1] && d.sv[1] >= d.sv[2] && d.sv[2] >= 0.0, "svd.singular_values_non_increasing", || format!("{:?}", d.sv));
    // rows handed to the SVD per the property: w (p − c)
    let rows: Vec<Vector3> = pts.iter().enumerate().map(|(k, p)| (p.coords - mean) * w.map(|w| w[k]).unwrap_or(1.0)).collect();
    // spread of the rows, floored by the rounding noise of the centring
    let wmax = w.map(|w| w.iter().cloned().fold(0.0, f64::max)).unwrap_or(1.0);
    let spread: f64 = rows.iter().map(|r| r.norm_squared()).sum::<f64>();
    // tolerance on second moments: relative to the spread plus the rounding noise of the centring
    let total: f64 = spread + 1e9 * (1e-14 * size * wmax).powi(2) * n as f64;
    for i in 0..3 {
        let g: f64 = rows.iter().map(|r| r.dot(&d.basis[i]).powi(2)).sum();
        v.require((g - d.sv[i] * d.sv[i]).abs() <= 1e-9 * total, "svd.sigma_squared_is_spread_along_axis", || {
            format!("axis {i}: sv^2 = {:e}, spread = {g:e} (weighted={} dim={dim} n={n})", d.sv[i] * d.sv[i], w.is_some())
        });
        for j in (i + 1)..3 {
            let g: f64 = rows.iter().map(|r| r.dot(&d.basis[i]) * r.dot(&d.basis[j])).sum();
            v.require(g.abs() <= 1e-9 * total, "svd.axes_are_principal", || format!("axes {i},{j}: cross spread {g:e} of {total:e}"));
        }
    }
    if w.is_none() {
        // variance of the points along each axis (about the mean of the projections)
        for i in 0..3 {
            let proj: Vec<f64> = pts.iter().map(|p| p.coords.dot(&d.basis[i])).collect();
            let m = proj.iter().sum::<f64>() / n as f64;
            let var = proj.iter().map(|x| (x - m).powi(2)).sum::<f64>() / n as f64;
            let got = d.sv[i] * d.sv[i] / n as f64;
            v.require((var - got).abs() <= 1e-9 * total / n as f64, "svd.sigma_squared_over_n_is_variance", || format!("axis {i}: {got:e} vs {var:e}"));
        }
    }
    // rank reflects the dimension of the set
    let rank_tol = 1e-7 * (extent + size * 1e-6) * (n as f64).sqrt() * wmax;
    let rank = d.sv.iter().filter(|s| **s > rank_tol).count();
    let rank_expected = if n > 3 || dim < 3 { Some(dim) } else { None };
    if let Some(e) = rank_expected {
        // a generic cloud of n ≥ 4 (3-D) points has full rank unless it is very flat; the generator's
        // smallest axis ratio is 1e-2, far above the threshold
        v.require(rank == e, "svd.rank_reflects_dimension", || format!("rank {rank} for a {e}-dimensional set, sv {:?}, tol {rank_tol:e}", d.sv));
    }
    // the accessor methods say what the fields say
    {
        let last = if two_d { 1 } else { 2 };
        v.require((d.rank_fn)(rank_tol) == rank, "svd.rank_method_counts_singular_values_above_tol", || format!("{} vs {rank} at tol {rank_tol:e}, sv {:?}", (d.rank_fn)(rank_tol), d.sv));
        for k in 0..=last {
            // a threshold strictly between two singular values, and one above them all
            let t = if rng.chance(0.2) { d.sv[0] * 2.0 + 1.0 } else { d.sv[k] * rng.range(0.3, 0.9) };
            let want = d.sv[..=last].iter().filter(|s| **s > t).count();
            v.require((d.rank_fn)(t) == want, "svd.rank_method_counts_singular_values_above_tol", || format!("{} vs {want} at tol {t:e}, sv {:?}", (d.rank_fn)(t), d.sv));
        }
        // "tol: the largest value that a singular value can have and still be considered zero": a singular value
        // equal to the threshold is not counted
        for k in 0..=last {
            let want = d.sv[..=last].iter().filter(|s| **s > d.sv[k]).count();
            v.require((d.rank_fn)(d.sv[k]) == want, "svd.rank_method_does_not_count_a_value_equal_to_tol", || format!("{} vs {want} at tol = sv[{k}], sv {:?}", (d.rank_fn)(d.sv[k]), d.sv));
        }
        for i in 0..=last {
            let want = d.sv[i] * d.sv[i] / n as f64;
            v.require((d.vars[i] - want).abs() <= 1e-12 * want.abs(), "svd.basis_variances_are_sigma_squared_over_n", || format!("axis {i}: {:e} vs {want:e}", d.vars[i]));
            v.require((d.stdevs[i] - want.sqrt()).abs() <= 1e-12 * want.sqrt(), "svd.basis_stdevs_are_root_of_variance", || format!("axis {i}: {:e} vs {:e}", d.stdevs[i], want.sqrt()));
        }
        v.require(d.largest == d.basis[0], "svd.largest_is_the_first_axis", || format!("{:?} vs {:?}", d.largest, d.basis[0]));
        v.require(d.smallest == d.basis[last], "svd.smallest_is_the_last_axis", || format!("{:?} vs {:?}", d.smallest, d.basis[last]));
        let u = rvec(rng) * rng.range(0.1, 30.0);
        let u = if two_d { Vector3::new(u.x, u.y, 0.0) } else { u };
        let got = (d.vec_to_basis)(&u);
        for i in 0..=last {
            v.require((got[i] - d.basis[i].dot(&u)).abs() <= 1e-12 * u.norm(), "svd.vec_to_basis_projects_on_each_axis", || format!("axis {i}: {} vs {}", got[i], d.basis[i].dot(&u)));
        }
    }
    // round trip of a point
    let q = p3(rng, 30.0) + mean;
    let (qb, qr) = if two_d {
        let p2: Vec<Point2> = pts.iter().map(|p| Point2::new(p.x, p.y)).collect();
        let b = SvdBasis2::from_points(&p2, w);
        let t = b.point_to_basis(&Point2::new(q.x, q.y));
        let r = b.point_from_basis(&t);
        (Point3::new(t.x, t.y, q.z), Point3::new(r.x, r.y, q.z))
    } else {
        let b = SvdBasis3::from_points(&pts, w);
        let t = b.point_to_basis(&q);
        (t, b.point_from_basis(&t))
    };
    let q = if two_d { q } else { q };
    v.require((qr - q).norm() <= 1e-10 * (size + q.coords.norm()), "svd.to_from_basis_round_trip", || format!("{:?} vs {:?}", qr, q));
    // rigid-motion equivariance
    let t = if two_d { Iso3::new(Vector3::new(rng.range(-30.0, 30.0), rng.range(-30.0, 30.0), 0.0), Vector3::z() * rng.range(-3.0, 3.0)) } else { gen::iso3(rng, 50.0) };
    let moved: Vec<Point3> = pts.iter().map(|p| t * p).collect();
    let dm = decompose(&moved, w, two_d);
    let s0 = d.sv[0].max(total.sqrt());
    v.require((dm.center - t * d.center).norm() <= 1e-10 * (size + 100.0), "svd.equivariant_centre", || "".into());
    for i in 0..3 {
        v.require((dm.sv[i] - d.sv[i]).abs() <= 1e-9 * s0 + 1e-12 * (size + 100.0) * wmax * (n as f64).sqrt(), "svd.equivariant_singular_values", || format!("axis {i}: {} vs {}", dm.sv[i], d.sv[i]));
    }
    let gap = |i: usize| -> f64 {
        let mut g = f64::INFINITY;
        for j in 0..3 {
            if j != i {
                g = g.min((d.sv[i] * d.sv[i] - d.sv[j] * d.sv[j]).abs());
            }
        }
        g / (s0 * s0)
    };
    for i in 0..3 {
        if two_d && i == 2 {
            continue;
        }
        if gap(i) > 1e-3 {
            let want = t * d.basis[i];
            let diff = (dm.basis[i] - want).norm().min((dm.basis[i] + want).norm());
            v.require(diff <= 1e-9 / gap(i), "svd.equivariant_axes", || format!("axis {i}: {:?} vs ±{:?} (gap {:e})", dm.basis[i], want, gap(i)));
        }
    }
    // uniform weight scaling
    if let Some(w) = w {
        // "uniformly scaling ALL weights": any common factor - weights have no natural unit (kernel
        // weights of far-away points, probabilities, counts ...)
        let k = *rng.pick(&[2.0, 0.5, 7.3, 0.01, 100.0, 1e-6, 1e-12, 3e-15, 1e6, 1e9]);
        let wk: Vec<f64> = w.iter().map(|x| x * k).collect();
        let dk = decompose(&pts, Some(&wk), two_d);
        v.require((dk.center - d.center).norm() <= 1e-11 * size, "svd.weight_scaling_keeps_centre", || format!("{:?} vs {:?}", dk.center, d.center));
        for i in 0..3 {
            if two_d && i == 2 {
                continue;
            }
            v.require((dk.sv[i] - k * d.sv[i]).abs() <= k * (1e-9 * s0 + 1e-12 * size * wmax * (n as f64).sqrt()), "svd.weight_scaling_scales_singular_values", || format!("axis {i}: {} vs {}", dk.sv[i], k * d.sv[i]));
            if gap(i) > 1e-3 {
                let diff = (dk.basis[i] - d.basis[i]).norm().min((dk.basis[i] + d.basis[i]).norm());
                v.require(diff <= 1e-9 / gap(i), "svd.weight_scaling_keeps_axes", || format!("axis {i}: {:?} vs ±{:?} (k = {k})", dk.basis[i], d.basis[i]));
            }
        }
        // all weights equal: the unweighted decomposition up to the common factor
        let we = vec![k; n];
        let de = decompose(&pts, Some(&we), two_d);
        let du = decompose(&pts, None, two_d);
        v.require((de.center - du.center).norm() <= 1e-11 * size, "svd.equal_weights_match_unweighted_centre", || "".into());
        for i in 0..3 {
            v.require((de.sv[i] - k * du.sv[i]).abs() <= k * (1e-9 * du.sv[0] + 1e-12 * size * (n as f64).sqrt()), "svd.equal_weights_match_unweighted", || format!("axis {i}: {} vs {}", de.sv[i], k * du.sv[i]));
        }
    }
    // Iso3::from(&SvdBasis3): centre to the origin, first axis to x
    if !two_d {
        let b = SvdBasis3::from_points(&pts, w);
        if let Some(Ok(iso)) = with_watchdog(move || guarded(|| Iso3::from(&b))) {
            v.require((iso * d.center).coords.norm() <= 1e-9 * (size + 1.0), "svd.iso_maps_centre_to_origin", || "".into());
            v.require((iso * d.basis[0] - Vector3::x()).norm() <= 1e-9 && (iso * d.basis[1] - Vector3::y()).norm() <= 1e-9, "svd.iso_maps_axes_to_xy", || "".into());
            let m = *iso.rotation.to_rotation_matrix().matrix();
            v.require((m.determinant() - 1.0).abs() <= 1e-9, "svd.iso_is_proper_rotation", || "".into());
        } else {
            v.require(false, "svd.iso_from_basis_returns", || "Iso3::from(&SvdBasis3) panicked or hung".into());
        }
    }
    let mut i = Tok::new();
    i.n(n);
    for p in &pts {
        i.fs(p.coords.as_slice());
    }
    match w {
        None => {
            i.w("-");
        }
        Some(w) => {
            i.flist(w);
        }
    }
    for b in &d.basis {
        i.fs(b.as_slice());
    }
    i.fs(&d.sv).fs(q.coords.as_slice()).f(rank_tol);
    let mut o = Tok::new();
    o.fs(d.center.coords.as_slice()).f(0.0).f(0.0).f(0.0).b(true).fs(qb.coords.as_slice()).fs(qr.coords.as_slice()).n(rank);
    let var: Vec<f64> = if two_d {
        let p2: Vec<Point2> = pts.iter().map(|p| Point2::new(p.x, p.y)).collect();
        let b = SvdBasis2::from_points(&p2, w);
        let x = b.basis_variances();
        vec![x[0], x[1], 0.0]
    } else {
        SvdBasis3::from_points(&pts, w).basis_variances().to_vec()
    };
    o.fs(&var);
    let _ = canon;
    emit("basis.svd", &i, &o, &v);
}

fn planes(rng: &mut Rng) {
    // triangle sizes from 20 down to 3e-7 (a facet of a finely tessellated part expressed in metres):
    // the cross product of the legs scales with the square of the size
    let s: f64 = *rng.pick(&[1.0, 1.0, 20.0, 0.05, 1e-3, 1e-5, 3e-7]);
    let p1 = p3(rng, (10.0 * s).max(0.5));
    let (p2, p3_) = loop {
        let a = p1 + rvec(rng) * s;
        let b = p1 + rvec(rng) * s;
        let cr = (a - p1).cross(&(b - p1)).norm();
        // collinear triples define no plane (not in the property's domain)
        if cr > 1e-3 * (a - p1).norm() * (b - p1).norm() {
            break (a, b);
        }
    };
    let q = p1 + rvec(rng) * (3.0 * s);
    let pl = Plane3::from((&p1, &p2, &p3_));
    let size = p1.coords.norm() + 3.0 * s;
    let tol = 1e-10 * size;
    let mut v = Verdict::new();
    for (k, p) in [p1, p2, p3_].iter().enumerate() {
        v.require(pl.signed_distance_to_point(p).abs() <= tol, "plane.from_three_points_contains_them", || format!("point {k}: {:e}", pl.signed_distance_to_point(p)));
    }
    v.require((pl.normal.norm() - 1.0).abs() <= 1e-12, "plane.unit_normal", || "".into());
    v.require(pl.normal.dot(&(p2 - p1).cross(&(p3_ - p1))) > 0.0, "plane.normal_follows_right_hand_rule", || "".into());
    let pq = pl.project_point(&q);
    v.require(pl.signed_distance_to_point(&pq).abs() <= tol, "plane.projection_lies_on_plane", || "".into());
    v.require((pl.project_point(&pq) - pq).norm() <= tol, "plane.projection_idempotent", || "".into());
    v.require(((q - pq).norm() - pl.distance_to_point(&q)).abs() <= tol, "plane.projection_is_closest_point", || "".into());
    v.require((pl.project_point(&p1) - p1).norm() <= tol, "plane.points_on_plane_project_to_themselves", || "".into());
    let inv = pl.inverted_normal();
    v.require(inv.signed_distance_to_point(&q) == -pl.signed_distance_to_point(&q), "plane.inversion_flips_signed_distance", || "".into());
    let mut i = Tok::new();
    i.fs(p1.coords.as_slice()).fs(p2.coords.as_slice()).fs(p3_.coords.as_slice()).fs(q.coords.as_slice());
    let mut o = Tok::new();
    o.fs(pl.normal.as_slice()).f(pl.d).f(pl.signed_distance_to_point(&p1)).f(pl.signed_distance_to_point(&p2)).f(pl.signed_distance_to_point(&p3_));
    o.fs(pq.coords.as_slice()).f(pl.signed_distance_to_point(&pq)).f(inv.signed_distance_to_point(&q));
    emit("plane.from3", &i, &o, &v);

    // point + normal, surface point, intersection distance
    let n = UnitVec3::new_normalize(rvec(rng));
    let p = p3(rng, 10.0 * s);
    let sp = SurfacePoint3::new(p, n);
    let a = Plane3::from((&n, &p));
    let b = Plane3::from(&sp);
    let mut v = Verdict::new();
    v.require(a.signed_distance_to_point(&p).abs() <= tol, "plane.from_point_normal_contains_point", || "".into());
    v.require(b.signed_distance_to_point(&p).abs() <= tol && b.d == a.d && b.normal == a.normal, "plane.from_surface_point_contains_point", || "".into());
    let pq = a.project_point(&q);
    v.require(a.signed_distance_to_point(&pq).abs() <= tol, "plane.projection_lies_on_plane", || "".into());
    v.require((a.project_point(&p) - p).norm() <= tol, "plane.points_on_plane_project_to_themselves", || "".into());
    let ray = SurfacePoint3::new(q, UnitVec3::new_normalize(if rng.chance(0.2) { perp(&n, rng) + n.into_inner() * rng.range(-1e-5, 1e-5) } else { rvec(rng) }));
    let t = a.intersection_distance(&ray);
    if let Some(t) = t {
        let hit = ray.at_distance(t);
        v.require(a.signed_distance_to_point(&hit).abs() <= 1e-9 * (size + t.abs()), "plane.intersection_distance_hits_plane", || format!("{:e}", a.signed_distance_to_point(&hit)));
    }
    let mut i = Tok::new();
    i.fs(p.coords.as_slice()).fs(n.as_slice()).fs(q.coords.as_slice()).fs(ray.point.coords.as_slice()).fs(ray.normal.as_slice());
    let mut o = Tok::new();
    o.f(a.d).f(a.signed_distance_to_point(&p)).fs(pq.coords.as_slice()).f(a.signed_distance_to_point(&pq)).f(a.inverted_normal().signed_distance_to_point(&q)).optf(t);
    let den = a.normal.dot(&ray.normal);
    if (den - 1e-6).abs() < 1e-12 || den.abs() < 1e-4 && t.is_some() {
        emit_oracle_only("plane.fromsp", &i, &o, &v);
    } else {
        emit("plane.fromsp", &i, &o, &v);
    }
}

pub fn run(rng: &mut Rng, n: usize) {
    let mut k = 0;
    while k < n {
        match rng.below(10) {
            0..=3 => {
                case("frame.case", "c19.library_call_panics", || frames(rng));
                k += 1
            }
            4 => {
                case("frame.case", "c19.library_call_panics", || inverse_frames(rng));
                k += 3
            }
            5..=7 => {
                case("frame.case", "c19.library_call_panics", || svd_case(rng));
                k += 1
            }
            _ => {
                case("frame.case", "c19.library_call_panics", || planes(rng));
                k += 2
            }
        }
    }
}
