//! C07 — rigid alignment recovers a known displacement and reports honest residuals.
use crate::c03::{iso2_tok, iso3_tok};
use crate::gen;
use crate::util::*;
use engeom::common::DistMode;
use engeom::geom2::align2::points_to_curve;
use engeom::geom2::align2::verif::{take_trace as take_trace2, Probe2};
use engeom::geom2::{Curve2, Iso2};
use engeom::geom3::align3::points_to_mesh;
use engeom::geom3::align3::verif::{take_trace as take_trace3, Probe3};
use engeom::geom3::{Iso3, Mesh, Vector3};
use engeom::{Point2, Point3, Vector2};

// ------------------------------------------------------------------------------------------
// 2-D reference shapes: closed curves with enough features to fix x, y and the angle
// ------------------------------------------------------------------------------------------
fn shape2(rng: &mut Rng) -> (Vec<Point2>, f64, bool) {
    match rng.below(3) {
        0 => {
            // smooth asymmetric blob
            let k = rng.int(24, 60) as usize;
            let (a1, a2, a3) = (rng.range(0.15, 0.35), rng.range(0.05, 0.2), rng.range(0.03, 0.1));
            let (p2, p3) = (rng.range(0.0, 6.0), rng.range(0.0, 6.0));
            let s = *rng.pick(&[1.0, 10.0, 0.2]);
            let pts = (0..k)
                .map(|j| {
                    let t = 2.0 * std::f64::consts::PI * j as f64 / k as f64;
                    let r = s * (1.0 + a1 * t.cos() + a2 * (2.0 * t + p2).cos() + a3 * (3.0 * t + p3).sin());
                    Point2::new(r * t.cos(), r * t.sin())
                })
                .collect();
            (pts, s, true)
        }
        1 => {
            // L-shaped polygon
            let (w, h, a, b) = (rng.range(3.0, 6.0), rng.range(2.0, 4.0), rng.range(0.8, 1.8), rng.range(0.6, 1.4));
            (vec![Point2::new(0.0, 0.0), Point2::new(w, 0.0), Point2::new(w, b), Point2::new(a, b), Point2::new(a, h), Point2::new(0.0, h)], w.max(h), false)
        }
        _ => {
            // the rectangle of the repository's own test, any size
            let (w, h) = (rng.range(2.0, 6.0), rng.range(0.8, 1.9));
            (vec![Point2::new(0.0, 0.0), Point2::new(w, 0.0), Point2::new(w, h), Point2::new(0.0, h)], w, false)
        }
    }
}

fn residual_at(curve: &Curve2, t: &Iso2, p: &Point2) -> f64 {
    let m = t * p;
    curve.at_closest_to_point(&m).surface_point().scalar_projection(&m)
}

fn align2(rng: &mut Rng) {
    let (verts, size, smooth) = shape2(rng);
    let Ok(curve) = Curve2::from_points(&verts, 1e-8, true) else { return };
    let n = rng.int(12, 40) as usize;
    let len = curve.length();
    let pts: Vec<Point2> = (0..n).map(|k| curve.at_length(len * (k as f64 + rng.range(0.1, 0.9)) / n as f64).unwrap().point()).collect();
    let small = rng.chance(0.6);
    let (amax, dmax) = if small { (3.0f64.to_radians(), 0.02 * size) } else { (25.0f64.to_radians(), 0.15 * size) };
    let c = pts.iter().fold(Vector2::zeros(), |a, p| a + p.coords) / n as f64;
    let about = |ang: f64, d: Vector2| -> Iso2 { Iso2::new(c + d, 0.0) * Iso2::new(Vector2::zeros(), ang) * Iso2::new(-c, 0.0) };
    let disp = about(rng.range(-amax, amax), Vector2::new(rng.range(-dmax, dmax), rng.range(-dmax, dmax)));
    let moved: Vec<Point2> = pts.iter().map(|p| disp * p).collect();
    let initial = if rng.chance(0.5) { Iso2::identity() } else { about(rng.range(-amax, amax) * 0.3, Vector2::new(rng.range(-dmax, dmax), rng.range(-dmax, dmax)) * 0.3) };
    let _ = take_trace2();
    let res = guarded(|| points_to_curve(&moved, &curve, &initial).map_err(|e| e.to_string()));
    let trace = take_trace2();
    let mut v = Verdict::new();
    let op = "align.seq2";
    let al = match res {
        Err(e) => {
            v.require(false, "align2.panics", || e.clone());
            emit_oracle_only(op, &Tok::new(), &Tok::new(), &v);
            return;
        }
        Ok(Err(e)) => {
            // a failed alignment is allowed outside the basin only
            v.require(!(small && smooth), "align2.succeeds_inside_basin", || format!("{e}"));
            emit_oracle_only(op, &Tok::new(), &Tok::new(), &v);
            return;
        }
        Ok(Ok(a)) => a,
    };
    let t = *al.transform();
    // honest residuals: the i-th residual is the signed normal distance of the i-th moved point
    v.require(al.residuals().len() == n, "align2.one_residual_per_point", || format!("{} vs {n}", al.residuals().len()));
    let mut worst: f64 = 0.0;
    for (r, p) in al.residuals().iter().zip(&moved) {
        worst = worst.max((r - residual_at(&curve, &t, p)).abs());
    }
    v.require(worst <= 1e-12 * size, "align2.residuals_describe_returned_transform", || format!("largest difference {worst:e}"));
    let ssq = |t: &Iso2| -> f64 { moved.iter().map(|p| residual_at(&curve, t, p).powi(2)).sum() };
    let (s0, s1) = (ssq(&initial), ssq(&t));
    v.require(s1 <= s0 * (1.0 + 1e-9) + 1e-24 * size * size, "align2.sum_of_squares_not_larger_than_at_start", || format!("{s1:e} vs {s0:e}"));
    if small && smooth {
        let err = pts.iter().zip(&moved).map(|(p, m)| (t * m - p).norm()).fold(0.0, f64::max);
        v.require(err <= 1e-6 * size, "align2.recovers_displacement", || format!("largest point error {err:e} (size {size}, n {n}, solver calls {}, ssq start {s0:e} end {s1:e})", trace.len()));
    }
    // replay of the solver's own call history on the real problem struct and on the model
    let xs: Vec<[f64; 3]> = trace.iter().filter(|(o, _)| *o == 0).map(|(_, x)| [x[0], x[1], x[2]]).collect();
    let mut probe = Probe2::new(&moved, &curve, &initial);
    let mut o = Tok::new();
    iso2_tok(&mut o, &probe.transform());
    o.fs(&probe.residuals());
    let mut best = f64::INFINITY;
    for x in &xs {
        probe.set_params(*x);
        iso2_tok(&mut o, &probe.transform());
        let r = probe.residuals();
        best = best.min(r.iter().map(|q| q * q).sum());
        o.fs(&r);
    }
    if let Some(last) = xs.last() {
        let _ = last;
        let same_t = (probe.transform().to_matrix() - t.to_matrix()).norm() <= 1e-14;
        v.require(same_t, "align2.transform_is_the_last_accepted_state", || "returned transform differs from the state after the solver's last set_params".into());
        let same_r = probe.residuals().iter().zip(al.residuals()).all(|(a, b)| a == b);
        v.require(same_r, "align2.residuals_are_the_last_accepted_state", || "returned residuals differ from the state after the solver's last set_params".into());
        v.require(s1 <= best * (1.0 + 1e-9) + 1e-24 * size * size, "align2.solver_keeps_best_trial", || format!("final {s1:e}, best trial {best:e}"));
    }
    let mut i = Tok::new();
    i.n(curve.points().len());
    for p in curve.points() {
        i.f(p.x).f(p.y);
    }
    i.n(n);
    for p in &moved {
        i.f(p.x).f(p.y);
    }
    iso2_tok(&mut i, &initial);
    i.n(xs.len());
    for x in &xs {
        i.fs(x);
    }
    if xs.len() <= 60 {
        emit(op, &i, &o, &v);
    } else {
        emit_oracle_only(op, &Tok::new(), &Tok::new(), &v);
    }
}

/// arbitrary parameter sequences on the real problem struct vs the model's state machine
fn probe2(rng: &mut Rng) {
    let (verts, size, _) = shape2(rng);
    let Ok(curve) = Curve2::from_points(&verts, 1e-8, true) else { return };
    let n = rng.int(3, 15) as usize;
    let pts: Vec<Point2> = (0..n).map(|_| Point2::new(rng.range(-1.5, 1.5) * size, rng.range(-1.5, 1.5) * size)).collect();
    let initial = Iso2::new(Vector2::new(rng.range(-0.3, 0.3) * size, rng.range(-0.3, 0.3) * size), rng.range(-0.5, 0.5));
    let mut probe = Probe2::new(&pts, &curve, &initial);
    let mut v = Verdict::new();
    let mut o = Tok::new();
    let check = |probe: &Probe2, v: &mut Verdict| {
        let t = probe.transform();
        for (k, p) in pts.iter().enumerate() {
            v.require((probe.moved()[k] - t * p).norm() <= 1e-12 * size, "probe2.moved_cache_matches_params", || format!("point {k}"));
            v.require((probe.residuals()[k] - residual_at(&curve, &t, p)).abs() <= 1e-12 * size, "probe2.residuals_match_params", || format!("point {k}"));
        }
    };
    iso2_tok(&mut o, &probe.transform());
    o.fs(&probe.residuals());
    check(&probe, &mut v);
    let k = rng.int(1, 5) as usize;
    let mut xs = vec![];
    for _ in 0..k {
        let x = [rng.range(-0.3, 0.3) * size, rng.range(-0.3, 0.3) * size, rng.range(-1.0, 1.0)];
        probe.set_params(x);
        if rng.chance(0.5) {
            let _ = probe.jacobian();
        }
        check(&probe, &mut v);
        iso2_tok(&mut o, &probe.transform());
        o.fs(&probe.residuals());
        xs.push(x);
    }
    let mut i = Tok::new();
    i.n(curve.points().len());
    for p in curve.points() {
        i.f(p.x).f(p.y);
    }
    i.n(n);
    for p in &pts {
        i.f(p.x).f(p.y);
    }
    iso2_tok(&mut i, &initial);
    i.n(xs.len());
    for x in &xs {
        i.fs(x);
    }
    emit("align.seq2", &i, &o, &v);
}

// ------------------------------------------------------------------------------------------
// 3-D
// ------------------------------------------------------------------------------------------
fn shape3(rng: &mut Rng) -> (Mesh, f64, bool) {
    if rng.chance(0.5) {
        let (w, h, d) = (rng.range(4.0, 10.0), rng.range(2.0, 5.0), rng.range(1.0, 2.5));
        (Mesh::create_box(w, h, d, false), w, true)
    } else {
        let nx = rng.int(5, 8) as usize;
        let ny = rng.int(5, 8) as usize;
        (gen::height_field(rng, nx, ny, 1.2), nx as f64, false)
    }
}

fn sample3(rng: &mut Rng, mesh: &Mesh, n: usize, interior_only: bool) -> Vec<Point3> {
    let v = mesh.vertices();
    let f = mesh.faces();
    let areas: Vec<f64> = f.iter().map(|t| (v[t[1] as usize] - v[t[0] as usize]).cross(&(v[t[2] as usize] - v[t[0] as usize])).norm()).collect();
    let total: f64 = areas.iter().sum();
    let mut out = vec![];
    // the first points go face by face (every face is sampled, so that no degree of freedom of
    // the alignment is left to chance), the rest by area
    let mut forced = 0;
    while out.len() < n {
        let mut r = rng.unit() * total;
        let mut k = 0;
        while k + 1 < f.len() && r > areas[k] {
            r -= areas[k];
            k += 1;
        }
        if forced < 2 * f.len() && f.len() <= 12 {
            k = forced % f.len();
        }
        let (mut a, mut b) = (rng.unit(), rng.unit());
        if a + b > 1.0 {
            a = 1.0 - a;
            b = 1.0 - b;
        }
        if interior_only && (a < 0.08 || b < 0.08 || a + b > 0.92) {
            continue;
        }
        let t = f[k];
        forced += 1;
        out.push(v[t[0] as usize] + (v[t[1] as usize] - v[t[0] as usize]) * a + (v[t[2] as usize] - v[t[0] as usize]) * b);
    }
    out
}

fn residual3(mesh: &Mesh, t: &Iso3, p: &Point3, plane: bool) -> f64 {
    let m = t * p;
    let c = mesh.surf_closest_to(&m);
    if plane {
        c.scalar_projection(&m).abs()
    } else {
        (m - c.point).norm()
    }
}

fn mesh_tok(i: &mut Tok, mesh: &Mesh) {
    i.n(mesh.vertices().len());
    for p in mesh.vertices() {
        i.fs(p.coords.as_slice());
    }
    i.n(mesh.faces().len());
    for f in mesh.faces() {
        i.n(f[0] as usize).n(f[1] as usize).n(f[2] as usize);
    }
}

fn mode_of(plane: bool) -> DistMode {
    if plane {
        DistMode::ToPlane
    } else {
        DistMode::ToPoint
    }
}

fn align3(rng: &mut Rng) {
    let (mesh, size, is_box) = shape3(rng);
    let n = rng.int(30, 70) as usize;
    let pts = sample3(rng, &mesh, n, true);
    let plane = rng.chance(0.5);
    let small = rng.chance(0.6);
    let (amax, dmax) = if small { (2.0f64.to_radians(), 0.01 * size) } else { (15.0f64.to_radians(), 0.08 * size) };
    let c = pts.iter().fold(Vector3::zeros(), |a, p| a + p.coords) / n as f64;
    let about = |rng: &mut Rng, amax: f64, dmax: f64| -> Iso3 {
        let ax = Vector3::new(rng.gauss(), rng.gauss(), rng.gauss() + 1e-3).normalize();
        let d = Vector3::new(rng.range(-dmax, dmax), rng.range(-dmax, dmax), rng.range(-dmax, dmax));
        Iso3::new(c + d, Vector3::zeros()) * Iso3::new(Vector3::zeros(), ax * rng.range(-amax, amax)) * Iso3::new(-c, Vector3::zeros())
    };
    let disp = about(rng, amax, dmax);
    let moved: Vec<Point3> = pts.iter().map(|p| disp * p).collect();
    let initial = if rng.chance(0.5) { Iso3::identity() } else { about(rng, amax * 0.3, dmax * 0.3) };
    // "any starting guess in the basin": the part may lie in its fixture in a nominal pose far from the
    // reference frame (right-angle turns, pitch of +-90 degrees, anything), that pose being handed over as
    // the starting guess; relative to it the displacement is the same small one
    let nominal: Iso3 = {
        use std::f64::consts::FRAC_PI_2;
        let q = |ax: usize, a: f64| parry3d_f64::na::UnitQuaternion::from_axis_angle(&[Vector3::x_axis(), Vector3::y_axis(), Vector3::z_axis()][ax], a);
        let tr = Vector3::new(rng.range(-1.0, 1.0), rng.range(-1.0, 1.0), rng.range(-1.0, 1.0)) * size;
        match rng.below(7) {
            // a fixture far from the reference frame (a part on a large machine bed, coordinates in a site frame):
            // hundreds to a million part sizes away
            6 => Iso3::from_parts((tr.normalize() * size * *rng.pick(&[3e2, 3e4, 1e6])).into(), q(rng.below(3), rng.range(-3.1, 3.1))),
            0 => Iso3::from_parts(tr.into(), q(0, rng.range(-3.1, 3.1)) * q(1, if rng.chance(0.5) { FRAC_PI_2 } else { -FRAC_PI_2 }) * q(2, rng.range(-3.1, 3.1))),
            1 => Iso3::from_parts(tr.into(), q(rng.below(3), FRAC_PI_2 * rng.int(-2, 2) as f64) * q(rng.below(3), FRAC_PI_2 * rng.int(-2, 2) as f64) * q(rng.below(3), FRAC_PI_2 * rng.int(-2, 2) as f64)),
            2 => gen::iso3(rng, size),
            _ => Iso3::identity(),
        }
    };
    let moved: Vec<Point3> = moved.iter().map(|p| nominal.inverse() * p).collect();
    let initial = initial * nominal;
    // how far the measured points are from the reference frame, in part sizes: absolute tolerances grow with the
    // magnitude of the coordinates (f64 carries 16 digits)
    let reach = 1.0 + nominal.translation.vector.norm() / size;
    let far = reach > 100.0;
    let _ = take_trace3();
    let res = guarded(|| points_to_mesh(&moved, &mesh, &initial, mode_of(plane)).map_err(|e| e.to_string()));
    let trace = take_trace3();
    let mut v = Verdict::new();
    let op = "align.seq3";
    let al = match res {
        Err(e) => {
            v.require(false, "align3.panics", || e.clone());
            emit_oracle_only(op, &Tok::new(), &Tok::new(), &v);
            return;
        }
        Ok(Err(e)) => {
            v.require(!small, "align3.succeeds_inside_basin", || format!("{e} (plane={plane} box={is_box})"));
            emit_oracle_only(op, &Tok::new(), &Tok::new(), &v);
            return;
        }
        Ok(Ok(a)) => a,
    };
    let t = *al.transform();
    v.require(al.residuals().len() == n, "align3.one_residual_per_point", || format!("{} vs {n}", al.residuals().len()));
    let mut worst: f64 = 0.0;
    for (r, p) in al.residuals().iter().zip(&moved) {
        worst = worst.max((r - residual3(&mesh, &t, p, plane)).abs());
    }
    v.require(worst <= 1e-11 * size * reach, "align3.residuals_describe_returned_transform", || format!("largest difference {worst:e} (plane={plane})"));
    let ssq = |t: &Iso3| -> f64 { moved.iter().map(|p| residual3(&mesh, t, p, plane).powi(2)).sum() };
    let (s0, s1) = (ssq(&initial), ssq(&t));
    v.require(s1 <= s0 * (1.0 + 1e-9) + 1e-24 * size * size * reach * reach, "align3.sum_of_squares_not_larger_than_at_start", || format!("{s1:e} vs {s0:e}"));
    let mean = al.residuals().iter().sum::<f64>() / n as f64;
    v.require((al.avg_residual() - mean).abs() <= 1e-15 * (1.0 + mean), "align3.avg_residual_is_mean", || "".into());
    if small {
        let err = pts.iter().zip(&moved).map(|(p, m)| (t * m - p).norm()).fold(0.0, f64::max);
        v.require(err <= 1e-5 * size * (1.0 + 1e-4 * reach), "align3.recovers_displacement", || format!("largest point error {err:e} (size {size}, {reach:.1e} part sizes from the reference frame, n {n}, plane={plane}, box={is_box}, solver calls {}, ssq start {s0:e} end {s1:e})", trace.len()));
    }
    let xs: Vec<Vec<f64>> = trace.iter().filter(|(o, _)| *o == 0).map(|(_, x)| x.clone()).collect();
    let mut probe = Probe3::new(&moved, &mesh, &initial, mode_of(plane));
    let mut o = Tok::new();
    iso3_tok(&mut o, &probe.transform());
    o.fs(&probe.residuals());
    let mut best = f64::INFINITY;
    // the model replays the last few states only (the history can be long)
    let keep = 4usize;
    let start = xs.len().saturating_sub(keep);
    for (k, x) in xs.iter().enumerate() {
        probe.set_params([x[0], x[1], x[2], x[3], x[4], x[5]]);
        let r = probe.residuals();
        best = best.min(r.iter().map(|q| q * q).sum());
        if k >= start {
            iso3_tok(&mut o, &probe.transform());
            o.fs(&r);
        }
    }
    if !xs.is_empty() {
        let same_t = (probe.transform().to_matrix() - t.to_matrix()).norm() <= 1e-13;
        v.require(same_t, "align3.transform_is_the_last_accepted_state", || "returned transform differs from the state after the solver's last set_params".into());
        let same_r = probe.residuals().iter().zip(al.residuals()).all(|(a, b)| a == b);
        v.require(same_r, "align3.residuals_are_the_last_accepted_state", || "returned residuals differ from the state after the solver's last set_params".into());
        v.require(s1 <= best * (1.0 + 1e-9) + 1e-24 * size * size * reach * reach, "align3.solver_keeps_best_trial", || format!("final {s1:e}, best trial {best:e}"));
    }
    let mut i = Tok::new();
    i.b(plane);
    mesh_tok(&mut i, &mesh);
    i.n(n);
    for p in &moved {
        i.fs(p.coords.as_slice());
    }
    iso3_tok(&mut i, &initial);
    i.n(xs.len() - start);
    for x in &xs[start..] {
        i.fs(x);
    }
    if far {
        // (the model's transform chain and the implementation's differ in the order of operations: at coordinates of
        // 1e6 part sizes that is visible at the comparison tolerance; the oracle clauses above judge these cases)
        emit_oracle_only(op, &Tok::new(), &Tok::new(), &v);
    } else {
        emit(op, &i, &o, &v);
    }
}

fn probe3(rng: &mut Rng) {
    let (mesh, size, _) = shape3(rng);
    let n = rng.int(3, 12) as usize;
    let on = sample3(rng, &mesh, n, false);
    let pts: Vec<Point3> = on.iter().map(|p| p + Vector3::new(rng.gauss(), rng.gauss(), rng.gauss()) * (0.2 * size * rng.unit())).collect();
    let plane = rng.chance(0.5);
    let initial = gen::iso3(rng, 0.2 * size);
    let initial = Iso3::new(initial.translation.vector, initial.rotation.scaled_axis() * 0.2);
    let mut probe = Probe3::new(&pts, &mesh, &initial, mode_of(plane));
    let mut v = Verdict::new();
    let mut o = Tok::new();
    let check = |probe: &Probe3, v: &mut Verdict| {
        let t = probe.transform();
        for (k, p) in pts.iter().enumerate() {
            v.require((probe.moved()[k] - t * p).norm() <= 1e-11 * size, "probe3.moved_cache_matches_params", || format!("point {k}"));
            v.require((probe.residuals()[k] - residual3(&mesh, &t, p, plane)).abs() <= 1e-11 * size, "probe3.residuals_match_params", || format!("point {k}"));
        }
    };
    iso3_tok(&mut o, &probe.transform());
    o.fs(&probe.residuals());
    check(&probe, &mut v);
    let k = rng.int(1, 4) as usize;
    let mut xs = vec![];
    for _ in 0..k {
        let x = [rng.range(-0.2, 0.2) * size, rng.range(-0.2, 0.2) * size, rng.range(-0.2, 0.2) * size, rng.range(-0.6, 0.6), rng.range(-0.6, 0.6), rng.range(-0.6, 0.6)];
        probe.set_params(x);
        if rng.chance(0.5) {
            let _ = probe.jacobian();
        }
        check(&probe, &mut v);
        iso3_tok(&mut o, &probe.transform());
        o.fs(&probe.residuals());
        xs.push(x);
    }
    // the Jacobian the solver is handed: row i is the derivative of residual i with the closest point held — for the
    // distance to the closest POINT that is n·∂p/∂x with n the unit vector from the closest point to the moved point,
    // for the distance to the closest PLANE it is ±(face normal)·∂p/∂x.  ∂p/∂x is taken by central differences of the
    // moved points themselves (smooth in the parameters), so the expectation shares nothing with the row functions.
    {
        let x0: Vec<f64> = probe.params();
        let jac = probe.jacobian();
        let moved0: Vec<Point3> = probe.moved().to_vec();
        let closest0: Vec<engeom::SurfacePoint3> = probe.closest().to_vec();
        let h = 1e-6;
        let mut dps: Vec<Vec<Vector3>> = vec![];
        for k in 0..6 {
            let mut xp = [0.0; 6];
            let mut xm = [0.0; 6];
            for j in 0..6 {
                xp[j] = x0[j] + if j == k { h } else { 0.0 };
                xm[j] = x0[j] - if j == k { h } else { 0.0 };
            }
            probe.set_params(xp);
            let a: Vec<Point3> = probe.moved().to_vec();
            probe.set_params(xm);
            let b: Vec<Point3> = probe.moved().to_vec();
            dps.push(a.iter().zip(&b).map(|(p, q)| (p - q) / (2.0 * h)).collect());
        }
        let mut xr = [0.0; 6];
        xr.copy_from_slice(&x0);
        probe.set_params(xr);
        for i in 0..pts.len() {
            let off = moved0[i] - closest0[i].point;
            let n = if plane {
                let s = closest0[i].normal.dot(&off);
                if s.abs() < 1e-6 * size { continue; }
                closest0[i].normal.into_inner() * s.signum()
            } else {
                if off.norm() < 1e-6 * size { continue; }
                off.normalize()
            };
            for k in 0..6 {
                let want = n.dot(&dps[k][i]);
                v.require((jac[i][k] - want).abs() <= 1e-5 * (1.0 + size + want.abs()), if plane { "probe3.jacobian_row_is_the_plane_distance_derivative" } else { "probe3.jacobian_row_is_the_point_distance_derivative" }, || format!("point {i} parameter {k}: row {} expected {want}", jac[i][k]));
            }
        }
    }
    let mut i = Tok::new();
    i.b(plane);
    mesh_tok(&mut i, &mesh);
    i.n(n);
    for p in &pts {
        i.fs(p.coords.as_slice());
    }
    iso3_tok(&mut i, &initial);
    i.n(xs.len());
    for x in &xs {
        i.fs(x);
    }
    emit("align.seq3", &i, &o, &v);
}

pub fn run(rng: &mut Rng, n: usize) {
    for _ in 0..n {
        match rng.below(10) {
            0..=3 => case("align.case", "c07.library_call_panics", || align2(rng)),
            4 | 5 => case("align.case", "c07.library_call_panics", || probe2(rng)),
            6 | 7 => case("align.case", "c07.library_call_panics", || align3(rng)),
            _ => case("align.case", "c07.library_call_panics", || probe3(rng)),
        }
    }
}
