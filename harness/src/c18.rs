//! C18 — angle normalisation and interval arithmetic.
use crate::util::*;
use engeom::common::{
    angle_in_direction, angle_signed_pi, angle_to_2pi, signed_compliment_2pi, AngleDir,
    AngleInterval, Interval,
};
use engeom::geom2::{directed_angle, signed_angle, Vector2};
use std::f64::consts::PI;

fn special_angles(rng: &mut Rng) -> f64 {
    let base = [0.0, PI, -PI, 2.0 * PI, -2.0 * PI, PI / 2.0, -PI / 2.0, 4.0 * PI, 3.0 * PI, -3.0 * PI];
    let b = *rng.pick(&base);
    match rng.below(6) {
        0 => b,
        1 => next_up(b),
        2 => next_down(b),
        3 => b + rng.range(-1e-9, 1e-9),
        4 => -rng.unit() * 1e-18,
        _ => b * (rng.int(-1000, 1000) as f64),
    }
}

fn any_angle(rng: &mut Rng) -> f64 {
    match rng.below(5) {
        0 => special_angles(rng),
        1 => rng.range(-10.0, 10.0),
        2 => rng.range(-1e3, 1e3),
        3 => rng.range(-1e6, 1e6),
        _ => rng.range(-PI, PI),
    }
}

fn same_dir(a: f64, b: f64, tol: f64) -> bool {
    (a.sin() - b.sin()).abs() <= tol && (a.cos() - b.cos()).abs() <= tol
}

fn dir_tok(d: AngleDir) -> &'static str {
    match d {
        AngleDir::Cw => "cw",
        AngleDir::Ccw => "ccw",
    }
}

pub fn run(rng: &mut Rng, n: usize) {
    let eps = 1e-9;
    for _ in 0..n {
        // --- fmod, bit for bit (validates the driver's exact fmod against Rust's `%`)
        {
            let x = match rng.below(4) {
                0 => f64::from_bits(rng.next()),
                1 => any_angle(rng),
                2 => rng.range(-1e300, 1e300),
                _ => rng.range(-1e-300, 1e-300),
            };
            let y = match rng.below(4) {
                0 => f64::from_bits(rng.next()),
                1 => 2.0 * PI,
                2 => rng.range(-1e3, 1e3),
                _ => rng.range(-1e-305, 1e-305),
            };
            if !x.is_nan() && !y.is_nan() {
                let r = x % y;
                let mut i = Tok::new();
                i.f(x).f(y);
                let mut o = Tok::new();
                o.f(r);
                emit("angle.fmod!", &i, &o, &Verdict::new());
            }
        }
        // --- normalisation
        {
            let a = any_angle(rng);
            let tol = eps + a.abs() * 1e-15;
            let s = angle_signed_pi(a);
            let mut v = Verdict::new();
            v.require(s >= -PI && s <= PI, "signed_pi.range", || format!("a={a:e} r={s:e}"));
            v.require(same_dir(a, s, tol), "signed_pi.same_direction", || format!("a={a:e} r={s:e}"));
            let mut i = Tok::new();
            i.f(a);
            let mut o = Tok::new();
            o.f(s);
            emit("angle.signed_pi", &i, &o, &v);

            let u = angle_to_2pi(a);
            let mut v = Verdict::new();
            v.require(u >= 0.0 && u <= 2.0 * PI, "to_2pi.range", || format!("a={a:e} r={u:e}"));
            v.require(same_dir(a, u, tol), "to_2pi.same_direction", || format!("a={a:e} r={u:e}"));
            let mut o = Tok::new();
            o.f(u);
            emit("angle.to_2pi", &i, &o, &v);

            let c = signed_compliment_2pi(a);
            let mut v = Verdict::new();
            v.require(same_dir(a, c, tol), "compliment.same_direction", || format!("a={a:e} r={c:e}"));
            if a.abs() <= 2.0 * PI {
                v.require(close((c - a).abs(), 2.0 * PI, 1e-12), "compliment.full_turn", || format!("a={a:e} r={c:e}"));
            }
            let mut o = Tok::new();
            o.f(c);
            emit("angle.compliment", &i, &o, &v);
        }
        // --- angle in direction
        {
            let a = any_angle(rng);
            let b = if rng.chance(0.2) { a } else if rng.chance(0.2) { a + PI } else { any_angle(rng) };
            let tol = eps + (a.abs() + b.abs()) * 1e-15;
            let cw = angle_in_direction(a, b, AngleDir::Cw);
            let ccw = angle_in_direction(a, b, AngleDir::Ccw);
            for (d, r) in [(AngleDir::Cw, cw), (AngleDir::Ccw, ccw)] {
                let mut v = Verdict::new();
                v.require(r >= 0.0 && r <= 2.0 * PI + 1e-15, "in_direction.range", || format!("a={a:e} b={b:e} r={r:e}"));
                v.require(same_dir(a + d.to_sign() * r, b, tol), "in_direction.rotates", || format!("a={a:e} b={b:e} r={r:e}"));
                v.require(
                    close(cw + ccw, 2.0 * PI, 1e-9) || (cw.abs() <= tol && ccw.abs() <= tol)
                        // both-zero or full turn; a result of exactly one full turn on one side is the same pair
                        || (close(cw, 2.0 * PI, 1e-9) && ccw.abs() <= tol) || (close(ccw, 2.0 * PI, 1e-9) && cw.abs() <= tol),
                    "in_direction.cw_plus_ccw",
                    || format!("a={a:e} b={b:e} cw={cw:e} ccw={ccw:e}"),
                );
                let mut i = Tok::new();
                i.f(a).f(b).w(dir_tok(d));
                let mut o = Tok::new();
                o.f(r);
                emit("angle.in_direction", &i, &o, &v);
            }
        }
        // --- angle interval
        {
            let s = any_angle(rng);
            let e = match rng.below(5) {
                0 => rng.range(-2.0 * PI, 2.0 * PI),
                1 => rng.range(-8.0, 8.0),
                2 => *rng.pick(&[0.0, PI, -PI, 2.0 * PI, -2.0 * PI, 1e-13]),
                _ => rng.range(-3.0, 3.0),
            };
            let fr = rng.unit();
            let iv = AngleInterval::new(s, e);
            // the swept set: from s through e (|e| clamped to a full turn)
            let (lo, ext) = if e < 0.0 { (s + e, (-e).min(2.0 * PI)) } else { (s, e.min(2.0 * PI)) };
            let q = match rng.below(6) {
                0 => lo + ext * rng.unit(),
                1 => lo + ext + (2.0 * PI - ext) * rng.unit(),
                2 => lo,
                3 => lo + ext,
                4 => lo + ext * rng.unit() + 2.0 * PI * (rng.int(-3, 3) as f64),
                _ => any_angle(rng),
            };
            let got = iv.contains(q);
            let margin = 1e-9 + (q.abs() + s.abs()) * 4e-16 * 4.0;
            let delta = angle_to_2pi(q - lo);
            let mut v = Verdict::new();
            v.require(iv.start() >= 0.0 && iv.start() <= 2.0 * PI && iv.angle() >= 0.0 && iv.angle() <= 2.0 * PI, "interval.canonical", || format!("s={s:e} e={e:e}"));
            if delta > margin && delta < ext - margin {
                v.require(got, "interval.contains_swept", || format!("s={s:e} e={e:e} q={q:e} delta={delta:e}"));
            }
            if delta > ext + margin && delta < 2.0 * PI - margin {
                v.require(!got, "interval.excludes_unswept", || format!("s={s:e} e={e:e} q={q:e} delta={delta:e}"));
            }
            // negative extent = same set swept backwards
            let twin = AngleInterval::new(s + e, -e);
            if (delta > margin && delta < ext - margin) || (delta > ext + margin && delta < 2.0 * PI - margin) {
                if e.abs() <= 2.0 * PI {
                    v.require(twin.contains(q) == got, "interval.negative_extent_same_set", || format!("s={s:e} e={e:e} q={q:e}"));
                }
            }
            let af = iv.at_fraction(fr);
            v.require(iv.contains(af) || ext < margin, "interval.at_fraction_inside", || format!("s={s:e} e={e:e} f={fr:e}"));
            let mut i = Tok::new();
            i.f(s).f(e).f(q).f(fr);
            let mut o = Tok::new();
            o.f(iv.start()).f(iv.angle()).b(got).f(af);
            emit("angle.interval", &i, &o, &v);
        }
        // --- interval intersects
        {
            let s0 = rng.range(-7.0, 7.0);
            let e0 = rng.range(-2.0 * PI, 2.0 * PI);
            let s1 = if rng.chance(0.3) { s0 + e0 + rng.range(-0.2, 0.2) } else { rng.range(-7.0, 7.0) };
            let e1 = if rng.chance(0.3) { rng.range(-0.3, 0.3) } else { rng.range(-2.0 * PI, 2.0 * PI) };
            // intervals that TOUCH: one ends exactly (dyadic numbers, no rounding) at the angle where the other starts or
            // ends; they share that one angle
            let touching = rng.chance(0.2);
            let (s0, e0, s1, e1, shared) = if touching {
                let q = |x: f64| (x * 8.0).round() / 8.0;
                let (s0, e0) = (q(rng.range(0.25, 3.0)), q(rng.range(0.25, 2.5)));
                let e1 = q(rng.range(0.125, 2.0));
                match rng.below(3) {
                    0 => (s0, e0, s0 - e1, e1, s0),                 // b ends where a starts
                    1 => (s0, e0, s0 + e0, e1, s0 + e0),            // b starts where a ends
                    _ => (s0, e0, s0 + e0 + e1, -e1, s0 + e0),      // b, swept backwards, ends where a ends
                }
            } else {
                (s0, e0, s1, e1, 0.0)
            };
            let a = AngleInterval::new(s0, e0);
            let b = AngleInterval::new(s1, e1);
            let got = a.intersects(&b);
            let mut v = Verdict::new();
            v.require(got == b.intersects(&a), "intersects.symmetric", || format!("{s0:e} {e0:e} {s1:e} {e1:e}"));
            if touching && a.contains(shared) && b.contains(shared) {
                v.require(got && b.intersects(&a), "intersects.touching_intervals_share_their_end", || format!("{s0} {e0} and {s1} {e1} both contain {shared}: {got} / {}", b.intersects(&a)));
            }
            // share an angle  <=>  start of one lies in the other (sets are arcs)
            let d01 = angle_to_2pi(b.start() - a.start());
            let d10 = angle_to_2pi(a.start() - b.start());
            let m = 1e-9;
            let surely = (d01 > m && d01 < a.angle() - m) || (d10 > m && d10 < b.angle() - m);
            let surely_not = d01 > a.angle() + m && d01 < 2.0 * PI - m && d10 > b.angle() + m && d10 < 2.0 * PI - m;
            if surely {
                v.require(got, "intersects.share_angle", || format!("{s0:e} {e0:e} {s1:e} {e1:e}"));
            }
            if surely_not {
                v.require(!got, "intersects.disjoint", || format!("{s0:e} {e0:e} {s1:e} {e1:e}"));
            }
            // witness search: sample angles of b, none may be in a if !got (away from tolerance)
            if !got {
                for k in 0..16 {
                    let w = b.at_fraction(k as f64 / 15.0);
                    let dw = angle_to_2pi(w - a.start());
                    v.require(!(dw > m && dw < a.angle() - m), "intersects.missed_shared_angle", || format!("{s0:e} {e0:e} {s1:e} {e1:e} w={w:e}"));
                }
            }
            let mut i = Tok::new();
            i.f(s0).f(e0).f(s1).f(e1);
            let mut o = Tok::new();
            o.b(got);
            emit("angle.intersects", &i, &o, &v);
        }
        // --- vector angles
        {
            let a = Vector2::new(rng.range(-5.0, 5.0), rng.range(-5.0, 5.0));
            let b = match rng.below(6) {
                0 => a,
                1 => -a,
                2 => a * rng.range(0.1, 10.0),
                3 => Vector2::new(-a.y, a.x),
                _ => Vector2::new(rng.range(-5.0, 5.0), rng.range(-5.0, 5.0)),
            };
            let sa = signed_angle(&a, &b);
            let mut v = Verdict::new();
            v.require(sa >= -PI && sa <= PI, "signed_angle.range", || format!("{a:?} {b:?} {sa:e}"));
            let rot = |v: &Vector2, t: f64| Vector2::new(v.x * t.cos() - v.y * t.sin(), v.x * t.sin() + v.y * t.cos());
            let par = |u: &Vector2, w: &Vector2| {
                let un = u.normalize();
                let wn = w.normalize();
                (un - wn).norm() < 1e-9
            };
            v.require(par(&rot(&a, sa), &b), "signed_angle.rotates", || format!("{a:?} {b:?} {sa:e}"));
            let mut i = Tok::new();
            i.f(a.x).f(a.y).f(b.x).f(b.y);
            let mut o = Tok::new();
            o.f(sa);
            emit("angle.signed2", &i, &o, &v);
            let cw = directed_angle(&a, &b, AngleDir::Cw);
            let ccw = directed_angle(&a, &b, AngleDir::Ccw);
            for (d, r) in [(AngleDir::Cw, cw), (AngleDir::Ccw, ccw)] {
                let mut v = Verdict::new();
                v.require(r >= 0.0 && r <= 2.0 * PI, "directed.range", || format!("{a:?} {b:?} {r:e}"));
                v.require(par(&rot(&a, d.to_sign() * r), &b), "directed.rotates", || format!("{a:?} {b:?} {r:e}"));
                v.require(close(cw + ccw, 2.0 * PI, 1e-9) || (cw.abs() < 1e-9 && ccw.abs() < 1e-9)
                    || (close(cw, 2.0 * PI, 1e-9) && ccw.abs() < 1e-9) || (close(ccw, 2.0 * PI, 1e-9) && cw.abs() < 1e-9),
                    "directed.cw_plus_ccw", || format!("{a:?} {b:?} cw={cw:e} ccw={ccw:e}"));
                let mut i2 = i.clone();
                i2.w(dir_tok(d));
                let mut o = Tok::new();
                o.f(r);
                emit("angle.directed2", &i2, &o, &v);
            }
        }
        // --- scalar intervals
        {
            let g = |rng: &mut Rng| match rng.below(8) {
                0 => f64::INFINITY,
                1 => f64::NEG_INFINITY,
                2 => 0.0,
                _ => rng.dyadic(8, 2),
            };
            let (a, b, c, d, x) = (g(rng), g(rng), g(rng), g(rng), g(rng));
            let iv = Interval::new(a, b);
            let jv = Interval::new(c, d);
            let mut v = Verdict::new();
            v.require(iv.min <= iv.max && iv.min == a.min(b) && iv.max == a.max(b), "interval.ordered", || format!("{a} {b}"));
            let inside = |k: &Interval, t: f64| t >= k.min && t <= k.max;
            v.require(iv.contains(x) == inside(&iv, x), "interval.contains", || format!("{a} {b} {x}"));
            let share = iv.min.max(jv.min) <= iv.max.min(jv.max);
            v.require(iv.overlaps(&jv) == share, "interval.overlaps_iff_nonempty", || format!("{a} {b} {c} {d}"));
            v.require(iv.contains_interval(&jv) == (jv.min >= iv.min && jv.max <= iv.max), "interval.contains_interval", || format!("{a} {b} {c} {d}"));
            let i1 = iv.intersection(&jv);
            let i2 = jv.intersection(&iv);
            v.require(i1 == i2, "interval.intersection_commutative", || format!("{a} {b} {c} {d}"));
            v.require(i1.is_some() == share, "interval.intersection_some_iff", || format!("{a} {b} {c} {d}"));
            if let Some(k) = i1 {
                v.require(k.min == iv.min.max(jv.min) && k.max == iv.max.min(jv.max), "interval.intersection_set", || format!("{a} {b} {c} {d}"));
                v.require(iv.contains_interval(&k) && jv.contains_interval(&k), "interval.intersection_subset", || format!("{a} {b} {c} {d}"));
            }
            let cl = iv.clamp(x);
            v.require(inside(&iv, cl) && (if inside(&iv, x) { cl == x } else { cl == iv.min || cl == iv.max }), "interval.clamp", || format!("{a} {b} {x} {cl}"));
            v.require(iv.clamp(cl) == cl, "interval.clamp_idempotent", || format!("{a} {b} {x}"));
            let mut i = Tok::new();
            i.f(a).f(b).f(c).f(d).f(x);
            let mut o = Tok::new();
            o.f(iv.min).f(iv.max).f(iv.length()).b(iv.contains(x)).b(iv.contains_interval(&jv)).b(iv.overlaps(&jv));
            match i1 {
                None => {
                    o.w("none");
                }
                Some(k) => {
                    o.w("some").f(k.min).f(k.max);
                }
            }
            o.f(cl);
            emit("interval.ops", &i, &o, &v);
        }
        // --- the direction enum and the quarter turns built from it: rotating by the directed angle "in the stated
        // direction" rests on these agreeing about what a direction is
        {
            let mut v = Verdict::new();
            for d in [AngleDir::Cw, AngleDir::Ccw] {
                let sgn = d.to_sign();
                v.require(sgn == if matches!(d, AngleDir::Ccw) { 1.0 } else { -1.0 }, "angle_dir.sign_of_direction", || format!("{}", dir_tok(d)));
                v.require(dir_tok(AngleDir::from_sign(sgn)) == dir_tok(d), "angle_dir.from_sign_inverts_to_sign", || format!("{}", dir_tok(d)));
                v.require(dir_tok(d.opposite()) != dir_tok(d) && dir_tok(d.opposite().opposite()) == dir_tok(d), "angle_dir.opposite_is_an_involution", || format!("{}", dir_tok(d)));
                let x = rng.range(1e-3, 5.0) * if rng.chance(0.5) { 1.0 } else { -1.0 };
                v.require(dir_tok(AngleDir::from_sign(x)) == if x < 0.0 { "cw" } else { "ccw" }, "angle_dir.from_sign_follows_the_sign", || format!("{x}"));
                let u = Vector2::new(rng.range(-3.0, 3.0), rng.range(-3.0, 3.0) + 1e-3);
                let q = engeom::geom2::rot90(d) * u;
                let want = Vector2::new(-u.y, u.x) * sgn;
                v.require((q - want).norm() <= 1e-12 * (1.0 + u.norm()), "rot90.is_a_quarter_turn_in_the_stated_direction", || format!("{} {u:?} -> {q:?}", dir_tok(d)));
                let q3 = engeom::geom2::rot270(d) * u;
                v.require((q3 + want).norm() <= 1e-12 * (1.0 + u.norm()), "rot270.is_three_quarter_turns_in_the_stated_direction", || format!("{} {u:?} -> {q3:?}", dir_tok(d)));
                // the directed angle from u to its quarter turn in direction d is a quarter turn
                let da = directed_angle(&u, &q, d);
                v.require((da - PI / 2.0).abs() <= 1e-9, "directed_angle.to_the_quarter_turn_is_a_quarter_turn", || format!("{} {u:?}: {da}", dir_tok(d)));
            }
            emit_oracle_only("angle.dir", &Tok::new(), &Tok::new(), &v);
        }
    }
}
