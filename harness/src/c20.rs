//! C20 — conformal flattening is an isometry on planar disks and never folds them.
use crate::gen;
use crate::util::*;
use engeom::geom3::mesh::UvMapping;
use engeom::geom3::{Iso3, Mesh, Vector3};
use engeom::{Point2, Point3};
use std::collections::HashMap;
use std::sync::mpsc;
use std::time::Duration;

fn with_watchdog<T: Send + 'static>(f: impl FnOnce() -> T + Send + 'static) -> Option<T> {
    let (tx, rx) = mpsc::channel();
    std::thread::spawn(move || {
        let r = f();
        let _ = tx.send(r);
    });
    rx.recv_timeout(Duration::from_secs(20)).ok()
}

/// planar triangulated disk (counter-clockwise in the xy plane): jittered grid, optional notch
/// (non-convex outline), random diagonal per cell, a few random edge flips, shuffled numbering
pub struct Disk {
    pub pts: Vec<Point2>,
    pub faces: Vec<[u32; 3]>,
}

fn area2(a: &Point2, b: &Point2, c: &Point2) -> f64 {
    (b - a).x * (c - a).y - (b - a).y * (c - a).x
}

/// planar disks without needle triangles (every face angle at least 8 degrees): the property is
/// about Delaunay-like triangulations and jittered grids
pub fn planar_disk(rng: &mut Rng) -> Disk {
    loop {
        let d = planar_disk_any(rng);
        let min_angle = d
            .faces
            .iter()
            .map(|f| {
                let (a, b, c) = (d.pts[f[0] as usize], d.pts[f[1] as usize], d.pts[f[2] as usize]);
                let ang = |p: Point2, q: Point2, r: Point2| ((q - p).normalize().dot(&(r - p).normalize())).clamp(-1.0, 1.0).acos();
                ang(a, b, c).min(ang(b, c, a)).min(ang(c, a, b))
            })
            .fold(f64::MAX, f64::min);
        if min_angle.to_degrees() >= 8.0 {
            return d;
        }
    }
}

fn planar_disk_any(rng: &mut Rng) -> Disk {
    // gently bowed plates (a large-radius arc sampled finely: the boundary turns by 1e-6 .. 5e-5 rad per
    // vertex) besides the straight-sided and the jittered ones
    let bowed = rng.chance(0.25);
    let nx = if bowed { rng.int(6, 16) as usize } else { rng.int(3, 9) as usize };
    let ny = if bowed { rng.int(3, 8) as usize } else { rng.int(3, 9) as usize };
    let h = *rng.pick(&[1.0, 0.1, 7.0]);
    let jitter = if bowed { 0.0 } else { *rng.pick(&[0.0, 0.15, 0.3]) };
    let kappa = if bowed { 10f64.powf(rng.range(-6.0, -4.3)) } else { 0.0 };
    let mut grid: Vec<Point2> = vec![];
    for j in 0..ny {
        for i in 0..nx {
            let u = i as f64 - (nx - 1) as f64 / 2.0;
            grid.push(Point2::new(h * (i as f64 + rng.range(-jitter, jitter)), h * (j as f64 + rng.range(-jitter, jitter) + 0.5 * kappa * u * u)));
        }
    }
    // notch: drop the cells of a corner block (keeps a disk, makes the outline non-convex)
    let notch = rng.chance(0.4) && nx >= 4 && ny >= 4;
    let (cx, cy) = (rng.int(1, (nx - 2) as i64) as usize, rng.int(1, (ny - 2) as i64) as usize);
    let mut faces: Vec<[u32; 3]> = vec![];
    for j in 0..ny - 1 {
        for i in 0..nx - 1 {
            if notch && i >= cx && j >= cy {
                continue;
            }
            let k = (j * nx + i) as u32;
            let n = nx as u32;
            if rng.chance(0.5) {
                faces.push([k, k + 1, k + n + 1]);
                faces.push([k, k + n + 1, k + n]);
            } else {
                faces.push([k, k + 1, k + n]);
                faces.push([k + 1, k + n + 1, k + n]);
            }
        }
    }
    // random legal edge flips (the quadrilateral of the two faces must be strictly convex)
    for _ in 0..rng.int(0, 12) {
        let mut owner: HashMap<(u32, u32), Vec<usize>> = HashMap::new();
        for (fi, f) in faces.iter().enumerate() {
            for e in 0..3 {
                let (a, b) = (f[e], f[(e + 1) % 3]);
                owner.entry((a.min(b), a.max(b))).or_default().push(fi);
            }
        }
        let inner: Vec<((u32, u32), Vec<usize>)> = owner.into_iter().filter(|(_, v)| v.len() == 2).collect();
        if inner.is_empty() {
            break;
        }
        let mut keys: Vec<&((u32, u32), Vec<usize>)> = inner.iter().collect();
        keys.sort();
        let ((a, b), fs) = keys[rng.below(keys.len())].clone();
        let opp = |f: &[u32; 3]| *f.iter().find(|v| **v != a && **v != b).unwrap();
        let (c, d) = (opp(&faces[fs[0]]), opp(&faces[fs[1]]));
        // orientation of face 0 decides the order: (a, b, c) is ccw or (b, a, c)
        let f0 = faces[fs[0]];
        let pos = f0.iter().position(|v| *v == a).unwrap();
        let (a, b) = if f0[(pos + 1) % 3] == b { (a, b) } else { (b, a) };
        // faces: (a, b, c) and (b, a, d); flipped: (c, a, d) and (d, b, c)
        let (pa, pb, pc, pd) = (grid[a as usize], grid[b as usize], grid[c as usize], grid[d as usize]);
        let m = h * h * 1e-3;
        if area2(&pc, &pa, &pd) > m && area2(&pd, &pb, &pc) > m {
            faces[fs[0]] = [c, a, d];
            faces[fs[1]] = [d, b, c];
        }
    }
    // keep only referenced vertices, shuffle the numbering and the face order / rotation
    let mut used: Vec<u32> = faces.iter().flatten().cloned().collect();
    used.sort();
    used.dedup();
    let mut perm: Vec<usize> = (0..used.len()).collect();
    rng.shuffle(&mut perm);
    let mut remap: HashMap<u32, u32> = HashMap::new();
    let mut pts = vec![Point2::origin(); used.len()];
    for (k, u) in used.iter().enumerate() {
        remap.insert(*u, perm[k] as u32);
        pts[perm[k]] = grid[*u as usize];
    }
    let mut faces: Vec<[u32; 3]> = faces
        .iter()
        .map(|f| {
            let r = rng.below(3);
            [remap[&f[r]], remap[&f[(r + 1) % 3]], remap[&f[(r + 2) % 3]]]
        })
        .collect();
    rng.shuffle(&mut faces);
    Disk { pts, faces }
}

fn flatten(mesh: &Mesh) -> Option<Result<(Vec<Point2>, Vec<u32>), String>> {
    let m = mesh.clone();
    with_watchdog(move || {
        guarded(|| {
            let edges = m.calc_edges().map_err(|e| format!("calc_edges: {e}"))?;
            let uv = edges.boundary_first_flatten().map_err(|e| format!("flatten: {e}"))?;
            Ok::<_, String>((uv, edges.boundary_loops[0].clone()))
        })
        .unwrap_or_else(|e| Err(format!("PANIC {e}")))
    })
}

fn accept_tokens(mesh: &Mesh) -> Tok {
    let mut i = Tok::new();
    i.n(mesh.vertices().len()).n(mesh.faces().len());
    for f in mesh.faces() {
        i.n(f[0] as usize).n(f[1] as usize).n(f[2] as usize);
    }
    i
}

fn edge_list(faces: &[[u32; 3]]) -> Vec<(u32, u32)> {
    let mut e: Vec<(u32, u32)> = vec![];
    for f in faces {
        for k in 0..3 {
            let (a, b) = (f[k], f[(k + 1) % 3]);
            e.push((a.min(b), a.max(b)));
        }
    }
    e.sort();
    e.dedup();
    e
}

fn planar(rng: &mut Rng) {
    let mut d = planar_disk(rng);
    // the same disks at other sizes: a feature of a few micrometres modelled in metres, a part of several metres in
    // millimetres — flattening is scale-covariant, nothing in it may compare a length or an area with a fixed number
    let f = if rng.chance(0.35) { *rng.pick(&[1e-6, 1e-3, 1e3]) } else { 1.0 };
    if f != 1.0 {
        for p in d.pts.iter_mut() {
            *p = Point2::from(p.coords * f);
        }
    }
    // (one sheet in seven lies exactly in the plane z = 0, face up or face down: the pose in which a shortcut that
    // reads x and y off the vertices would look right)
    let pose: Iso3 = if rng.chance(0.15) { Iso3::identity() } else if f == 1.0 { gen::iso3(rng, 30.0) } else { let t = gen::iso3(rng, 30.0); Iso3::from_parts((t.translation.vector * f).into(), t.rotation) };
    let flip = rng.chance(0.3); // seen from below: the winding is clockwise in its own plane's +z
    let v3: Vec<Point3> = d.pts.iter().map(|p| pose * Point3::new(p.x, if flip { -p.y } else { p.y }, 0.0)).collect();
    let mesh = Mesh::new(v3.clone(), d.faces.clone(), false);
    let size = d.pts.iter().map(|p| p.coords.norm()).fold(0.0, f64::max) + 1e-9;
    let mut v = Verdict::new();
    let op = "flatten.planar";
    let res = flatten(&mesh);
    let mut o = Tok::new();
    let mut i = Tok::new();
    match res {
        None => v.require(false, "flatten.terminates", || "no result within 20 s".into()),
        Some(Err(e)) => v.require(false, "flatten.accepts_planar_disk", || format!("{e} ({} vertices, {} faces)", d.pts.len(), d.faces.len())),
        Some(Ok((uv, bound))) => {
            v.require(uv.len() == d.pts.len(), "flatten.one_position_per_vertex", || format!("{} vs {}", uv.len(), d.pts.len()));
            v.require(uv.iter().all(|p| p.x.is_finite() && p.y.is_finite()), "flatten.finite", || "".into());
            let mut worst: f64 = 0.0;
            for (a, b) in edge_list(&d.faces) {
                let l3 = (v3[a as usize] - v3[b as usize]).norm();
                let l2 = (uv[a as usize] - uv[b as usize]).norm();
                worst = worst.max((l3 - l2).abs());
            }
            let min_angle = d.faces.iter().map(|f| {
                let (a, b, c) = (d.pts[f[0] as usize], d.pts[f[1] as usize], d.pts[f[2] as usize]);
                let ang = |p: Point2, q: Point2, r: Point2| ((q - p).normalize().dot(&(r - p).normalize())).clamp(-1.0, 1.0).acos();
                ang(a, b, c).min(ang(b, c, a)).min(ang(c, a, b))
            }).fold(f64::MAX, f64::min);
            v.require(worst <= 1e-6 * size, "flatten.planar_edge_lengths_kept", || format!("worst edge length change {worst:e} (size {size:e}, {} vertices, smallest face angle {:.3} deg)", d.pts.len(), min_angle.to_degrees()));
            let neg = d.faces.iter().filter(|f| area2(&uv[f[0] as usize], &uv[f[1] as usize], &uv[f[2] as usize]) <= 0.0).count();
            v.require(neg == 0, "flatten.triangles_keep_positive_orientation", || format!("{neg} of {} triangles are not positively oriented (flip={flip})", d.faces.len()));
            // inputs of the model: connectivity, 3-D vertices, the boundary loop the implementation used
            i.n(v3.len());
            for p in &v3 {
                i.fs(p.coords.as_slice());
            }
            i.n(d.faces.len());
            for f in &d.faces {
                i.n(f[0] as usize).n(f[1] as usize).n(f[2] as usize);
            }
            i.nlist(&bound.iter().map(|x| *x as usize).collect::<Vec<_>>());
            for p in &uv {
                o.f(p.x).f(p.y);
            }
        }
    }
    if !o.0.is_empty() {
        emit("flatten.accepts", &accept_tokens(&mesh), Tok::new().b(true), &Verdict::new());
    }
    if d.pts.len() <= 40 && !o.0.is_empty() && f == 1.0 {
        emit(op, &i, &o, &v);
    } else {
        emit_oracle_only(op, &Tok::new(), &Tok::new(), &v);
    }
}

/// planar disks with ONE needle face (smallest angle 0.005 - 5 degrees) among well-shaped ones: a fan over a
/// square whose apex sits just above one side, or a regular grid with one interior vertex pushed
/// against the opposite edge of one of its faces
fn needle_disk(rng: &mut Rng) -> (Disk, f64) {
    let size = *rng.pick(&[1.0, 0.1, 7.0]);
    let h = 10f64.powf(rng.range(-4.0, -1.2));
    if rng.chance(0.5) {
        let x = rng.range(0.2, 0.8);
        let pts = vec![(0.0, 0.0), (1.0, 0.0), (1.0, 1.0), (0.0, 1.0), (x, h)];
        let faces = vec![[0u32, 1, 4], [1, 2, 4], [2, 3, 4], [3, 0, 4]];
        (Disk { pts: pts.iter().map(|p| Point2::new(size * p.0, size * p.1)).collect(), faces }, h)
    } else {
        let n = rng.int(4, 7) as usize;
        let mut pts: Vec<Point2> = vec![];
        for j in 0..n {
            for i in 0..n {
                pts.push(Point2::new(i as f64, j as f64));
            }
        }
        let mut faces = vec![];
        for j in 0..n - 1 {
            for i in 0..n - 1 {
                let a = (j * n + i) as u32;
                let (b, c) = (a + 1, a + n as u32);
                faces.push([a, b, c + 1]);
                faces.push([a, c + 1, c]);
            }
        }
        // interior vertex (i, j): the edge from (i, j-1) to (i+1, j) bounds its one-ring
        let (i, j) = (rng.int(1, n as i64 - 2) as usize, rng.int(1, n as i64 - 2) as usize);
        let s = h / 2f64.sqrt();
        pts[j * n + i] = Point2::new(i as f64 + 0.5 - s, j as f64 - 0.5 + s);
        (Disk { pts: pts.iter().map(|p| Point2::new(size * p.x, size * p.y)).collect(), faces }, h)
    }
}

fn planar_needle(rng: &mut Rng) {
    let (d, h) = needle_disk(rng);
    let pose: Iso3 = gen::iso3(rng, 30.0);
    let v3: Vec<Point3> = d.pts.iter().map(|p| pose * Point3::new(p.x, p.y, 0.0)).collect();
    let mesh = Mesh::new(v3.clone(), d.faces.clone(), false);
    let size = d.pts.iter().map(|p| p.coords.norm()).fold(0.0, f64::max) + 1e-9;
    let mut v = Verdict::new();
    match flatten(&mesh) {
        None => v.require(false, "flatten.terminates", || "no result within 20 s".into()),
        Some(Err(e)) => v.require(false, "flatten.accepts_planar_disk", || format!("needle h={h:e}: {e}")),
        Some(Ok((uv, _))) => {
            v.require(uv.len() == d.pts.len() && uv.iter().all(|p| p.x.is_finite() && p.y.is_finite()), "flatten.finite", || "".into());
            let mut worst: f64 = 0.0;
            for (a, b) in edge_list(&d.faces) {
                worst = worst.max(((v3[a as usize] - v3[b as usize]).norm() - (uv[a as usize] - uv[b as usize]).norm()).abs());
            }
            if std::env::var("VH_C20_TRACE").is_ok() {
                eprintln!("needle h={h:e} n={} worst/size={:e}", d.pts.len(), worst / size);
            }
            v.require(worst <= NEEDLE_TOL * size, "flatten.planar_needle_edge_lengths_kept", || format!("worst edge length change {worst:e} (size {size:e}, needle height {h:e} of a unit edge)"));
            let neg = d.faces.iter().filter(|f| area2(&uv[f[0] as usize], &uv[f[1] as usize], &uv[f[2] as usize]) <= 0.0).count();
            v.require(neg == 0, "flatten.needle_triangles_keep_positive_orientation", || format!("{neg} of {} triangles are not positively oriented (needle height {h:e})", d.faces.len()));
        }
    }
    emit_oracle_only("flatten.needle", &Tok::new(), &Tok::new(), &v);
}

const NEEDLE_TOL: f64 = 1e-4;

fn curved(rng: &mut Rng) {
    let nx = rng.int(3, 8) as usize;
    let ny = rng.int(3, 8) as usize;
    let amp = rng.range(0.1, 0.8);
    let base = gen::height_field(rng, nx, ny, amp);
    let t = gen::iso3(rng, 30.0);
    let moved = gen::moved(&base, &t);
    let mut v = Verdict::new();
    match (flatten(&base), flatten(&moved)) {
        (Some(Ok((a, _))), Some(Ok((b, _)))) => {
            let size = nx.max(ny) as f64;
            let mut worst: f64 = 0.0;
            for (p, q) in edge_list(base.faces()) {
                worst = worst.max(((a[p as usize] - a[q as usize]).norm() - (b[p as usize] - b[q as usize]).norm()).abs());
            }
            v.require(worst <= 1e-6 * size, "flatten.unchanged_by_rigid_motion_of_input", || format!("worst difference of flattened edge lengths {worst:e}"));
            let sa: Vec<bool> = base.faces().iter().map(|f| area2(&a[f[0] as usize], &a[f[1] as usize], &a[f[2] as usize]) > 0.0).collect();
            let sb: Vec<bool> = base.faces().iter().map(|f| area2(&b[f[0] as usize], &b[f[1] as usize], &b[f[2] as usize]) > 0.0).collect();
            v.require(sa == sb, "flatten.orientation_unchanged_by_rigid_motion", || "".into());
            v.require(a.iter().all(|p| p.x.is_finite() && p.y.is_finite()), "flatten.finite", || "".into());
        }
        (None, _) | (_, None) => v.require(false, "flatten.terminates", || "no result within 20 s".into()),
        (a, b) => {
            let ea = a.map(|x| x.err()).flatten();
            let eb = b.map(|x| x.err()).flatten();
            v.require(false, "flatten.accepts_curved_disk_in_every_pose", || format!("{ea:?} / {eb:?}"));
        }
    }
    emit_oracle_only("flatten.curved", &Tok::new(), &Tok::new(), &v);
}

fn rejections(rng: &mut Rng) {
    let which = rng.below(9);
    let (mesh, name): (Mesh, &str) = match which {
        0 => (Mesh::create_box(rng.range(1.0, 3.0), rng.range(1.0, 3.0), rng.range(1.0, 3.0), false), "closed box (no boundary)"),
        1 => (gen::sphere(1.5, rng.int(4, 9) as usize, rng.int(3, 6) as usize), "closed sphere (no boundary)"),
        2 => {
            // annulus: a grid with its centre cell removed (two boundary loops)
            let n = rng.int(4, 7) as usize;
            let f = gen::height_field(rng, n, n, 0.0);
            let (ci, cj) = (n / 2 - 1, n / 2 - 1);
            let cell = |k: u32| -> bool {
                // faces of cell (ci, cj) are those whose all vertices lie in the cell's 4 corners
                let (i, j) = ((k as usize) % n, (k as usize) / n);
                (i == ci || i == ci + 1) && (j == cj || j == cj + 1)
            };
            let faces: Vec<[u32; 3]> = f.faces().iter().filter(|t| !(cell(t[0]) && cell(t[1]) && cell(t[2]))).cloned().collect();
            (Mesh::new(f.vertices().to_vec(), faces, false), "annulus (two boundary loops)")
        }
        3 => {
            // punctured torus: one boundary loop, genus one
            let t = gen::torus(3.0, 1.0, rng.int(5, 9) as usize, rng.int(4, 7) as usize);
            let mut faces = t.faces().to_vec();
            faces.remove(rng.below(faces.len()));
            (Mesh::new(t.vertices().to_vec(), faces, false), "punctured torus (one boundary loop, genus one)")
        }
        4 => {
            // a disk and a separate closed component
            let d = gen::height_field(rng, 4, 4, 0.2);
            let b = Mesh::create_box(1.0, 1.0, 1.0, false);
            let off = d.vertices().len() as u32;
            let mut v = d.vertices().to_vec();
            v.extend(b.vertices().iter().map(|p| p + Vector3::new(20.0, 0.0, 0.0)));
            let mut f = d.faces().to_vec();
            f.extend(b.faces().iter().map(|t| [t[0] + off, t[1] + off, t[2] + off]));
            (Mesh::new(v, f, false), "disk plus a separate closed component")
        }
        5 => {
            // a disk and a separate closed TORUS: one boundary loop and Euler characteristic 1 + 0 = 1, two pieces
            let d = gen::height_field(rng, 4, 4, 0.2);
            let t = gen::torus(3.0, 1.0, rng.int(4, 7) as usize, rng.int(3, 6) as usize);
            let off = d.vertices().len() as u32;
            let mut v = d.vertices().to_vec();
            v.extend(t.vertices().iter().map(|p| p + Vector3::new(30.0, 0.0, 0.0)));
            let mut f = d.faces().to_vec();
            f.extend(t.faces().iter().map(|t| [t[0] + off, t[1] + off, t[2] + off]));
            (Mesh::new(v, f, false), "disk plus a separate closed torus (one loop, Euler characteristic 1, two pieces)")
        }
        6 => {
            // punctured torus (-1) plus a closed tetrahedron (+2): one boundary loop, Euler characteristic 1
            let t = gen::torus(3.0, 1.0, rng.int(5, 8) as usize, rng.int(4, 6) as usize);
            let mut f = t.faces().to_vec();
            f.remove(rng.below(f.len()));
            let off = t.vertices().len() as u32;
            let mut v = t.vertices().to_vec();
            v.extend([Point3::new(40.0, 0.0, 0.0), Point3::new(41.0, 0.0, 0.0), Point3::new(40.0, 1.0, 0.0), Point3::new(40.0, 0.0, 1.0)]);
            f.extend([[off, off + 2, off + 1], [off, off + 1, off + 3], [off + 1, off + 2, off + 3], [off + 2, off, off + 3]]);
            (Mesh::new(v, f, false), "punctured torus plus a closed tetrahedron (one loop, Euler characteristic 1, two pieces)")
        }
        7 => {
            // two triangles (or two small disks) touching at one vertex only: Euler characteristic 1
            let k = rng.int(1, 3) as u32; // position of the shared vertex in the numbering
            let mut v: Vec<Point3> = vec![Point3::new(0.0, 0.0, 0.0), Point3::new(1.0, 0.2, 0.0), Point3::new(0.2, 1.0, 0.0), Point3::new(-1.0, -0.3, 0.1), Point3::new(-0.2, -1.0, 0.0)];
            v.swap(0, k as usize);
            let id = |i: u32| if i == 0 { k } else if i == k { 0 } else { i };
            let f = vec![[id(0), id(1), id(2)], [id(0), id(3), id(4)]];
            (Mesh::new(v, f, false), "two triangles sharing only a vertex (Euler characteristic 1)")
        }
        _ => {
            // non-manifold: a third face on an interior edge
            let d = gen::height_field(rng, 3, 3, 0.0);
            let mut v = d.vertices().to_vec();
            v.push(Point3::new(1.0, 1.0, 2.0));
            let mut f = d.faces().to_vec();
            let t = f[0];
            // an interior edge of the 3x3 grid: find one shared by two faces
            let mut edge = (t[0], t[1]);
            'outer: for a in d.faces() {
                for k in 0..3 {
                    let (x, y) = (a[k], a[(k + 1) % 3]);
                    let shared = d.faces().iter().filter(|b| b.contains(&x) && b.contains(&y)).count();
                    if shared == 2 {
                        edge = (x, y);
                        break 'outer;
                    }
                }
            }
            f.push([edge.0, edge.1, (v.len() - 1) as u32]);
            (Mesh::new(v, f, false), "non-manifold edge (three faces)")
        }
    };
    let mut v = Verdict::new();
    let res = flatten(&mesh);
    let accepted = matches!(res, Some(Ok(_)));
    match res {
        None => v.require(false, "flatten.terminates", || format!("{name}: no result within 20 s")),
        Some(Err(e)) => v.require(!e.starts_with("PANIC"), "flatten.rejects_without_panic", || format!("{name}: {e}")),
        Some(Ok(_)) => v.require(false, "flatten.rejects_non_disk", || format!("{name}: accepted")),
    }
    emit("flatten.accepts", &accept_tokens(&mesh), Tok::new().b(accepted), &v);
}

fn uv_round_trip(rng: &mut Rng) {
    let d = planar_disk(rng);
    let amp = rng.range(0.0, 0.4);
    let v3: Vec<Point3> = d.pts.iter().map(|p| Point3::new(p.x, p.y, amp * (0.7 * p.x).sin() * (0.5 * p.y).cos())).collect();
    // the UV map: the planar layout itself, moved and scaled
    let s = rng.range(0.5, 2.0);
    let uvp: Vec<Point2> = d.pts.iter().map(|p| Point2::new(s * p.x + 3.0, s * p.y - 1.0)).collect();
    let Ok(map) = UvMapping::new(uvp.clone(), d.faces.clone()) else { return };
    let mesh = Mesh::new_with_uv(v3.clone(), d.faces.clone(), false, Some(map));
    let size = d.pts.iter().map(|p| p.coords.norm()).fold(0.0, f64::max) + 1e-9;
    let mut v = Verdict::new();
    for _ in 0..5 {
        let f = d.faces[rng.below(d.faces.len())];
        let (mut a, mut b) = (rng.range(0.05, 0.9), rng.range(0.05, 0.9));
        if a + b > 0.95 {
            a *= 0.5;
            b *= 0.5;
        }
        let c = 1.0 - a - b;
        let p3 = Point3::from(v3[f[0] as usize].coords * c + v3[f[1] as usize].coords * a + v3[f[2] as usize].coords * b);
        let p2 = Point2::from(uvp[f[0] as usize].coords * c + uvp[f[1] as usize].coords * a + uvp[f[2] as usize].coords * b);
        match mesh.uv_to_3d(&p2) {
            None => v.require(false, "uv.uv_to_3d_finds_point", || "".into()),
            Some(sp) => v.require((sp.point - p3).norm() <= 1e-9 * size, "uv.uv_to_3d_is_barycentric_image", || format!("{:e}", (sp.point - p3).norm())),
        }
        match mesh.uv_with_tol(&p3, 1e-6 * size + 1e-9, 3.2, None) {
            None => v.require(false, "uv.uv_with_tol_finds_point", || "".into()),
            Some((uv, depth)) => {
                v.require((uv - p2).norm() <= 1e-9 * size, "uv.surface_point_to_uv", || format!("{:e}", (uv - p2).norm()));
                v.require(depth.abs() <= 1e-9 * size, "uv.depth_zero_on_surface", || format!("{depth:e}"));
                if let Some(back) = mesh.uv_to_3d(&uv) {
                    v.require((back.point - p3).norm() <= 1e-8 * size, "uv.round_trip", || format!("{:e}", (back.point - p3).norm()));
                }
            }
        }
        // the same query from a foreign frame: `transform` carries the query point into the mesh frame
        let t = Iso3::new(
            Vector3::new(rng.range(-3.0, 3.0), rng.range(-3.0, 3.0), rng.range(-3.0, 3.0)) * size,
            Vector3::new(rng.range(-1.0, 1.0), rng.range(-1.0, 1.0), rng.range(-1.0, 1.0)) * rng.range(0.1, 3.0),
        );
        let q = t.inverse() * p3;
        match mesh.uv_with_tol(&q, 1e-6 * size + 1e-9, 3.2, Some(&t)) {
            None => v.require(false, "uv.uv_with_tol_finds_point_given_in_another_frame", || format!("{t:?}")),
            Some((uv, depth)) => {
                v.require((uv - p2).norm() <= 1e-8 * size, "uv.surface_point_in_another_frame_to_uv", || format!("{:e}", (uv - p2).norm()));
                v.require(depth.abs() <= 1e-8 * size, "uv.depth_zero_on_surface_in_another_frame", || format!("{depth:e}"));
            }
        }
        // a point lifted off the face along its normal by h has depth h and the same uv
        let (pa, pb, pc) = (v3[f[0] as usize], v3[f[1] as usize], v3[f[2] as usize]);
        let nrm = (pb - pa).cross(&(pc - pa));
        if nrm.norm() > 1e-9 * size * size {
            let nrm = nrm.normalize();
            let h = rng.range(-1.0, 1.0) * 1e-3 * size;
            let lifted = p3 + nrm * h;
            if let Some((uv, depth)) = mesh.uv_with_tol(&lifted, 2e-3 * size, 3.2, None) {
                // the closest surface point may sit on a neighbouring face of a curved sheet; judged
                // only when it is the foot of the normal
                if (uv - p2).norm() <= 1e-9 * size {
                    v.require((depth - h).abs() <= 1e-9 * size, "uv.depth_is_signed_offset_along_normal", || format!("{depth:e} vs {h:e}"));
                }
            } else {
                v.require(false, "uv.uv_with_tol_finds_lifted_point", || format!("{h:e}"));
            }
        }
    }
    emit_oracle_only("flatten.uv", &Tok::new(), &Tok::new(), &v);
}

pub fn run(rng: &mut Rng, n: usize) {
    for _ in 0..n {
        let which = rng.below(11);
        let state = rng.0;
        let r = guarded(|| {
            let mut local = Rng(state);
            match which {
                0..=4 => planar(&mut local),
                5 | 6 => curved(&mut local),
                7 | 8 => rejections(&mut local),
                10 => planar_needle(&mut local),
                _ => uv_round_trip(&mut local),
            }
            local.0
        });
        match r {
            Ok(st) => rng.0 = st,
            Err(e) => {
                let mut v = Verdict::new();
                v.require(false, "flatten.no_panic", || format!("case kind {which}: {e}"));
                emit_oracle_only("flatten.panic", &Tok::new(), &Tok::new(), &v);
                let _ = rng.next();
            }
        }
    }
}
