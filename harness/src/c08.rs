//! C08 — alignment parameters round-trip and Jacobians are true derivatives.
use crate::c03::{iso2_tok, iso3_tok};
use crate::gen;
use crate::util::*;
use engeom::geom2::align2::verif::point_surface_jacobian;
use engeom::geom2::align2::{iso2_from_param, param_from_iso2, RcParams2};
use engeom::geom2::Iso2;
use engeom::geom3::align3::jacobian::{point_plane_jacobian, point_plane_jacobian_rev, point_point_jacobian};
use engeom::geom3::align3::multi_param::ParamHandler;
use engeom::geom3::align3::{iso3_from_param, param_from_iso3, RcParams3, RotationMatrices};
use engeom::geom3::{Iso3, SurfacePoint3, UnitVec3, Vector3};
use engeom::{Point2, Point3, SurfacePoint2, UnitVec2, Vector2};
use parry3d_f64::na::{Matrix3, UnitQuaternion, Vector3 as NV3, Vector6};
use std::f64::consts::PI;

fn mat_diff(a: &Iso3, b: &Iso3) -> f64 {
    (a.to_homogeneous() - b.to_homogeneous()).abs().max()
}
fn mat_diff2(a: &Iso2, b: &Iso2) -> f64 {
    (a.to_homogeneous() - b.to_homogeneous()).abs().max()
}

fn two_d(rng: &mut Rng) {
    let cs = *rng.pick(&[1.0, 30.0, 1e3]);
    let initial = Iso2::new(Vector2::new(rng.range(-cs, cs), rng.range(-cs, cs)), match rng.below(4) { 0 => *rng.pick(&[0.0, PI, -PI, PI / 2.0]), _ => rng.range(-PI, PI) });
    let rc = Point2::new(rng.range(-cs, cs), rng.range(-cs, cs));
    let tol = 1e-9 * (1.0 + cs);
    // parameters <-> isometry
    let (tx, ty, th) = (rng.range(-cs, cs), rng.range(-cs, cs), rng.range(-PI, PI));
    let prm = parry2d_f64::na::Vector3::new(tx, ty, th);
    let t = iso2_from_param(&prm);
    let back = param_from_iso2(&t);
    let mut v = Verdict::new();
    v.require((back - prm).abs().max() <= tol, "iso2.param_roundtrip", || format!("{prm:?} -> {back:?}"));
    let mut i = Tok::new();
    i.f(tx).f(ty).f(th);
    let mut o = Tok::new();
    iso2_tok(&mut o, &t);
    o.f(back.x).f(back.y).f(back.z);
    emit("param.iso2", &i, &o, &v);

    let p0 = RcParams2::from_initial(&initial, &rc);
    let mut v = Verdict::new();
    v.require(mat_diff2(p0.transform(), &initial) <= tol, "rc2.from_initial_reproduces_isometry", || format!("{}", mat_diff2(p0.transform(), &initial)));
    v.require((p0.current_rc() - initial * rc).norm() <= tol, "rc2.current_rc_is_moved_centre", || "".into());
    let x = parry2d_f64::na::Vector3::new(rng.range(-3.0, 3.0), rng.range(-3.0, 3.0), rng.range(-PI, PI));
    let mut p1 = p0.clone();
    p1.set(&x);
    v.require(mat_diff2(&(p1.inverse() * p1.transform()), &Iso2::identity()) <= tol, "rc2.inverse_consistent_after_update", || "".into());
    v.require((p1.current_rc() - p1.transform() * rc).norm() <= tol, "rc2.current_rc_consistent_after_update", || "".into());
    // a pure translation change translates by that vector wherever the centre is
    let d = Vector2::new(rng.range(-2.0, 2.0), rng.range(-2.0, 2.0));
    let mut p2 = p1.clone();
    p2.set(&parry2d_f64::na::Vector3::new(x.x + d.x, x.y + d.y, x.z));
    let q = Point2::new(rng.range(-9.0, 9.0), rng.range(-9.0, 9.0));
    v.require(((p2.transform() * q) - (p1.transform() * q) - d).norm() <= tol, "rc2.pure_translation", || "".into());
    v.require((p2.current_rc() - p2.transform() * rc).norm() <= tol, "rc2.current_rc_consistent_after_translation_only_update", || "".into());
    v.require(mat_diff2(&(p2.inverse() * p2.transform()), &Iso2::identity()) <= tol, "rc2.inverse_consistent_after_translation_only_update", || "".into());
    {
        let mut ph = p1.clone();
        let mut xl = x;
        let mut kinds = Vec::new();
        for _ in 0..rng.int(1, 4) {
            let kind = rng.below(4);
            kinds.push(kind);
            for k in 0..3 {
                let change = match kind { 0 => k < 2, 1 => k >= 2, 2 => true, _ => false };
                if change {
                    xl[k] += rng.range(-1.0, 1.0);
                }
            }
            ph.set(&xl);
        }
        let mut fresh = RcParams2::from_initial(&initial, &rc);
        fresh.set(&xl);
        let why = || format!("update kinds {kinds:?} (0 = translation only, 1 = angle only, 2 = all, 3 = none)");
        v.require(mat_diff2(ph.transform(), fresh.transform()) <= tol, "rc2.update_sequence_ends_in_the_state_of_its_last_update.transform", why);
        v.require(mat_diff2(ph.inverse(), fresh.inverse()) <= tol, "rc2.update_sequence_ends_in_the_state_of_its_last_update.inverse", why);
        v.require((ph.current_rc() - fresh.current_rc()).norm() <= tol, "rc2.update_sequence_ends_in_the_state_of_its_last_update.current_rc", why);
    }
    let mut i = Tok::new();
    iso2_tok(&mut i, &initial);
    i.f(rc.x).f(rc.y).f(x.x).f(x.y).f(x.z);
    let mut o = Tok::new();
    iso2_tok(&mut o, p0.transform());
    o.f(p0.current_rc().x).f(p0.current_rc().y);
    iso2_tok(&mut o, p1.transform());
    iso2_tok(&mut o, p1.inverse());
    o.f(p1.current_rc().x).f(p1.current_rc().y);
    emit("param.rc2", &i, &o, &v);

    // Jacobian against central differences of the residual it linearises
    let test = Point2::new(rng.range(-9.0, 9.0), rng.range(-9.0, 9.0));
    let sp = SurfacePoint2::new(Point2::new(rng.range(-9.0, 9.0), rng.range(-9.0, 9.0)), UnitVec2::new_normalize(Vector2::new(rng.gauss(), rng.gauss() + 1e-3)));
    let moved = p1.transform() * test;
    let j = point_surface_jacobian(&moved, &sp, &p1);
    let mut v = Verdict::new();
    let h = 1e-6;
    for k in 0..3 {
        let mut xp = x;
        let mut xm = x;
        xp[k] += h;
        xm[k] -= h;
        let (mut pp, mut pm) = (p1.clone(), p1.clone());
        pp.set(&xp);
        pm.set(&xm);
        let fd = (sp.scalar_projection(&(pp.transform() * test)) - sp.scalar_projection(&(pm.transform() * test))) / (2.0 * h);
        v.require((fd - j[k]).abs() <= 1e-5 * (1.0 + j[k].abs() + cs), "jacobian2.entry_is_derivative", || format!("k={k} analytic {} fd {fd}", j[k]));
    }
    let mut i = Tok::new();
    i.f(moved.x).f(moved.y).f(sp.normal.x).f(sp.normal.y).f(p1.current_rc().x).f(p1.current_rc().y);
    let mut o = Tok::new();
    o.f(j[0]).f(j[1]).f(j[2]);
    emit("jac.surf2", &i, &o, &v);
}

fn euler(rx: f64, ry: f64, rz: f64) -> Matrix3<f64> {
    let q = UnitQuaternion::from_euler_angles(rx, 0.0, 0.0) * UnitQuaternion::from_euler_angles(0.0, ry, 0.0) * UnitQuaternion::from_euler_angles(0.0, 0.0, rz);
    *q.to_rotation_matrix().matrix()
}

fn mat_tok(t: &mut Tok, m: &Matrix3<f64>) {
    for r in 0..3 {
        for c in 0..3 {
            t.f(m[(r, c)]);
        }
    }
}

fn pitch(rng: &mut Rng) -> f64 {
    let s = if rng.chance(0.5) { 1.0 } else { -1.0 };
    match rng.below(8) {
        0 => s * PI / 2.0,
        1 => s * (PI / 2.0 - 1e-9 * rng.unit()),
        2 => s * (PI / 2.0 - 1.4e-4 * rng.unit()),
        3 => s * (PI / 2.0 - 1e-3 * rng.unit()),
        _ => rng.range(-PI / 2.0, PI / 2.0),
    }
}

fn three_d(rng: &mut Rng) {
    let cs = *rng.pick(&[1.0, 30.0, 1e3]);
    let (rx, ry, rz) = (rng.range(-PI, PI), pitch(rng), rng.range(-PI, PI));
    // one pose in six starts from a SMALL rotation (1e-7 … 1e-2 rad about every axis: a fine correction, the second
    // pass of an alignment): small is not none
    let (rx, ry, rz) = if rng.chance(0.17) { let m = 10f64.powf(rng.range(-7.0, -2.0)); (rng.range(-1.0, 1.0) * m, rng.range(-1.0, 1.0) * m, rng.range(-1.0, 1.0) * m) } else { (rx, ry, rz) };
    let rot = UnitQuaternion::from_euler_angles(rx, 0.0, 0.0) * UnitQuaternion::from_euler_angles(0.0, ry, 0.0) * UnitQuaternion::from_euler_angles(0.0, 0.0, rz);
    // Euler matrices, their round trip through to_wpr and the derivative matrices
    {
        let rm = RotationMatrices::from_euler(rx, ry, rz);
        let m = euler(rx, ry, rz);
        let again = RotationMatrices::from_rotation(&rm.q);
        let m2 = *again.q.to_rotation_matrix().matrix();
        let mut v = Verdict::new();
        v.require((m - m2).abs().max() <= 1e-7, "wpr.matrix_roundtrip_incl_gimbal", || format!("pitch={ry:e} err={:e}", (m - m2).abs().max()));
        let h = 1e-6;
        for (k, d) in [&rm.d.x, &rm.d.y, &rm.d.z].iter().enumerate() {
            let mut a = [rx, ry, rz];
            let mut b = [rx, ry, rz];
            a[k] += h;
            b[k] -= h;
            let fd = (euler(a[0], a[1], a[2]) - euler(b[0], b[1], b[2])) / (2.0 * h);
            v.require((fd - **d).abs().max() <= 1e-6, "euler_derivative_matrices", || format!("k={k} err={:e}", (fd - **d).abs().max()));
        }
        let mut i = Tok::new();
        i.f(rx).f(ry).f(rz);
        let mut o = Tok::new();
        mat_tok(&mut o, &m);
        mat_tok(&mut o, &m2);
        mat_tok(&mut o, &rm.d.x);
        mat_tok(&mut o, &rm.d.y);
        mat_tok(&mut o, &rm.d.z);
        // within the gimbal band the two Euler triples differ but the matrices agree: compare with tolerance
        emit("param.wpr", &i, &o, &v);
    }
    let initial = Iso3::from_parts(parry3d_f64::na::Translation3::new(rng.range(-cs, cs), rng.range(-cs, cs), rng.range(-cs, cs)), rot);
    let rc = Point3::new(rng.range(-cs, cs), rng.range(-cs, cs), rng.range(-cs, cs));
    let tol = 1e-8 * (1.0 + cs);
    let p0 = RcParams3::from_initial(&initial, &rc);
    let mut v = Verdict::new();
    v.require(mat_diff(p0.transform(), &initial) <= tol, "rc3.from_initial_reproduces_isometry", || format!("pitch={ry:e} centre scale {cs}: err={:e}", mat_diff(p0.transform(), &initial)));
    v.require((p0.current_rc() - initial * rc).norm() <= tol, "rc3.current_rc_is_moved_centre", || "".into());
    let x = Vector6::new(rng.range(-3.0, 3.0), rng.range(-3.0, 3.0), rng.range(-3.0, 3.0), rng.range(-PI, PI), rng.range(-1.5, 1.5), rng.range(-PI, PI));
    let mut p1 = p0.clone();
    p1.set(&x);
    v.require(mat_diff(&(p1.inverse() * p1.transform()), &Iso3::identity()) <= tol, "rc3.inverse_consistent_after_update", || "".into());
    v.require((p1.current_rc() - p1.transform() * rc).norm() <= tol, "rc3.current_rc_consistent_after_update", || "".into());
    let d = Vector3::new(rng.range(-2.0, 2.0), rng.range(-2.0, 2.0), rng.range(-2.0, 2.0));
    let mut p2 = p1.clone();
    let mut x2 = x;
    x2[0] += d.x;
    x2[1] += d.y;
    x2[2] += d.z;
    p2.set(&x2);
    let q = Point3::new(rng.range(-9.0, 9.0), rng.range(-9.0, 9.0), rng.range(-9.0, 9.0));
    v.require(((p2.transform() * q) - (p1.transform() * q) - d).norm() <= tol, "rc3.pure_translation", || "".into());
    v.require((p2.current_rc() - p2.transform() * rc).norm() <= tol, "rc3.current_rc_consistent_after_translation_only_update", || format!("{:?} vs {:?}", p2.current_rc(), p2.transform() * rc));
    v.require(mat_diff(&(p2.inverse() * p2.transform()), &Iso3::identity()) <= tol, "rc3.inverse_consistent_after_translation_only_update", || "".into());
    // the state after ANY sequence of updates (translations only, angles only, everything, nothing)
    // is the state a single update with the last parameters gives: transform, inverse, moved centre
    // and the derivative data the Jacobians read
    {
        let mut ph = p1.clone();
        let mut xl = x;
        let mut kinds = Vec::new();
        for _ in 0..rng.int(1, 4) {
            let kind = rng.below(4);
            kinds.push(kind);
            for k in 0..6 {
                let change = match kind { 0 => k < 3, 1 => k >= 3, 2 => true, _ => false };
                if change {
                    xl[k] += rng.range(-1.0, 1.0);
                }
            }
            ph.set(&xl);
        }
        let mut fresh = RcParams3::from_initial(&initial, &rc);
        fresh.set(&xl);
        let why = || format!("update kinds {kinds:?} (0 = translation only, 1 = angles only, 2 = all, 3 = none)");
        v.require(mat_diff(ph.transform(), fresh.transform()) <= tol, "rc3.update_sequence_ends_in_the_state_of_its_last_update.transform", why);
        v.require(mat_diff(ph.inverse(), fresh.inverse()) <= tol, "rc3.update_sequence_ends_in_the_state_of_its_last_update.inverse", why);
        v.require((ph.current_rc() - fresh.current_rc()).norm() <= tol, "rc3.update_sequence_ends_in_the_state_of_its_last_update.current_rc", why);
        let tp = Point3::new(rng.range(-9.0, 9.0), rng.range(-9.0, 9.0), rng.range(-9.0, 9.0));
        let tq = Point3::new(rng.range(-9.0, 9.0), rng.range(-9.0, 9.0), rng.range(-9.0, 9.0));
        let (ja, jb) = (point_point_jacobian(&tp, &tq, &ph), point_point_jacobian(&tp, &tq, &fresh));
        v.require((0..6).all(|k| (ja[k] - jb[k]).abs() <= 1e-8 * (1.0 + cs + jb[k].abs())), "rc3.update_sequence_ends_in_the_state_of_its_last_update.jacobian", why);
    }
    // iso3 <-> param
    let prm = param_from_iso3(&initial);
    v.require(mat_diff(&iso3_from_param(&prm), &initial) <= tol, "iso3.param_roundtrip", || format!("pitch={ry:e}"));
    let mut i = Tok::new();
    iso3_tok(&mut i, &initial);
    i.fs(rc.coords.as_slice()).fs(x.as_slice());
    let mut o = Tok::new();
    iso3_tok(&mut o, p0.transform());
    o.fs(p0.current_rc().coords.as_slice());
    iso3_tok(&mut o, p1.transform());
    o.fs(p1.current_rc().coords.as_slice());
    emit("param.rc3", &i, &o, &v);

    // Jacobians vs central differences (general position: away from the sign change of |.|)
    let test = Point3::new(rng.range(-9.0, 9.0), rng.range(-9.0, 9.0), rng.range(-9.0, 9.0));
    let sp = SurfacePoint3::new(Point3::new(rng.range(-9.0, 9.0), rng.range(-9.0, 9.0), rng.range(-9.0, 9.0)), UnitVec3::new_normalize(Vector3::new(rng.gauss(), rng.gauss(), rng.gauss() + 1e-3)));
    let moved = p1.transform() * test;
    if sp.scalar_projection(&moved).abs() > 1e-2 && (moved - sp.point).norm() > 1e-2 {
        let jp = point_plane_jacobian(&moved, &sp, &p1);
        let jr = point_plane_jacobian_rev(&moved, &sp, &p1);
        let jq = point_point_jacobian(&moved, &sp.point, &p1);
        let mut v = Verdict::new();
        let h = 1e-6;
        let t_i = p1.transform().inverse();
        for k in 0..6 {
            let mut xp = x;
            let mut xm = x;
            xp[k] += h;
            xm[k] -= h;
            let (mut pp, mut pm) = (p1.clone(), p1.clone());
            pp.set(&xp);
            pm.set(&xm);
            let (tp, tm) = (pp.transform() * t_i, pm.transform() * t_i);
            let sc = 1e-5 * (1.0 + cs + jp[k].abs());
            let fd = (sp.scalar_projection(&(tp * moved)).abs() - sp.scalar_projection(&(tm * moved)).abs()) / (2.0 * h);
            v.require((fd - jp[k]).abs() <= sc, "jacobian3.point_plane_is_derivative", || format!("k={k} analytic {} fd {fd}", jp[k]));
            // the reference-side variant: the reference point is the one that moves.  In general position
            // the residual it linearises is the point-to-plane distance with the CURRENT normal
            // (the normal's own rotation contributes (dR n)·(p − c), which vanishes exactly when p is on
            // the normal line of c — the closest-point situation the function is written for; that case
            // is exercised with the fully transformed surface point below)
            let rev = |t: &Iso3| sp.normal.dot(&(moved - t * sp.point)).abs();
            let fd = (rev(&tp) - rev(&tm)) / (2.0 * h);
            v.require((fd - jr[k]).abs() <= sc, "jacobian3.point_plane_rev_is_derivative", || format!("k={k} analytic {} fd {fd}", jr[k]));
            let on_line = sp.point + sp.normal.into_inner() * 0.7;
            let jl = point_plane_jacobian_rev(&on_line, &sp, &p1);
            let fd = (sp.transformed(&tp).scalar_projection(&on_line).abs() - sp.transformed(&tm).scalar_projection(&on_line).abs()) / (2.0 * h);
            v.require((fd - jl[k]).abs() <= sc, "jacobian3.point_plane_rev_on_normal_line", || format!("k={k} analytic {} fd {fd}", jl[k]));
            let fd = (((tp * moved) - sp.point).norm() - ((tm * moved) - sp.point).norm()) / (2.0 * h);
            v.require((fd - jq[k]).abs() <= sc, "jacobian3.point_point_is_derivative", || format!("k={k} analytic {} fd {fd}", jq[k]));
        }
        // model: the core row from the signed normal and the lever arm
        let s = sp.scalar_projection(&moved).signum();
        let n = sp.normal.into_inner() * s;
        let fr = moved - p1.current_rc();
        let mut i = Tok::new();
        i.fs(n.as_slice()).fs(fr.as_slice()).f(x[3]).f(x[4]).f(x[5]);
        let mut o = Tok::new();
        o.fs(jp.as_slice());
        emit("jac.row3", &i, &o, &v);
    }
    // point-to-point rows for pairs that are close together (3e-8 … 0.1 apart: a converged alignment has many of
    // them).  |p − c| is differentiable wherever p ≠ c, with derivative n · ∂p/∂x_k, n the unit vector from c to p;
    // ∂p/∂x_k is taken by central differences of the moved POINT (smooth everywhere), so the oracle does not
    // share the row's own small-distance guard (the code zeroes the row only below 1e-8)
    {
        let dir = Vector3::new(rng.gauss(), rng.gauss(), rng.gauss() + 1e-3).normalize();
        let sep = 10f64.powf(rng.range(-7.5, -1.0));
        let c = moved - dir * sep;
        let jq = point_point_jacobian(&moved, &c, &p1);
        let n = (moved - c).normalize();
        let mut v = Verdict::new();
        let h = 1e-6;
        let t_i = p1.transform().inverse();
        for k in 0..6 {
            let mut xp = x;
            let mut xm = x;
            xp[k] += h;
            xm[k] -= h;
            let (mut pp, mut pm) = (p1.clone(), p1.clone());
            pp.set(&xp);
            pm.set(&xm);
            let dp = ((pp.transform() * t_i) * moved - (pm.transform() * t_i) * moved) / (2.0 * h);
            let want = n.dot(&dp);
            v.require((want - jq[k]).abs() <= 1e-5 * (1.0 + cs + want.abs()), "jacobian3.point_point_is_derivative_for_close_pairs", || format!("separation {sep:e}, k={k}: analytic {} expected {want}", jq[k]));
        }
        emit_oracle_only("jac.close_pairs3", &Tok::new(), &Tok::new(), &v);
    }
    // the multi-entity handler keeps the initial isometries
    {
        let inits: Vec<Iso3> = (0..3).map(|_| gen::iso3(rng, 5.0)).collect();
        let means: Vec<Point3> = (0..3).map(|_| Point3::new(rng.range(-5.0, 5.0), rng.range(-5.0, 5.0), rng.range(-5.0, 5.0))).collect();
        let st = rng.below(3);
        let mut v = Verdict::new();
        match guarded(|| ParamHandler::new(st, means.clone(), Some(&inits))) {
            Err(e) => v.require(false, "param_handler.panics", || e.clone()),
            Ok(hd) => {
                for k in 0..3 {
                    v.require(mat_diff(&hd.get_transform(k), &inits[k]) <= 1e-8 * 10.0, "param_handler.keeps_initial_isometries", || format!("entity {k} (static {st}): err {:e}", mat_diff(&hd.get_transform(k), &inits[k])));
                }
                let rel = hd.relative_transform(0, 2);
                v.require(mat_diff(&rel, &(inits[2].inverse() * inits[0])) <= 1e-7, "param_handler.relative_transform", || "".into());
            }
        }
        emit_oracle_only("param.handler", &Tok::new(), &Tok::new(), &v);
    }
    let _ = NV3::new(0.0, 0.0, 0.0);
}

pub fn run(rng: &mut Rng, n: usize) {
    for _ in 0..n {
        case("param.case", "c08.library_call_panics", || two_d(rng));
        case("param.case", "c08.library_call_panics", || three_d(rng));
    }
}
