//! C09 — least-squares fits are optimal.
use crate::util::*;
use engeom::common::BestFit;
use engeom::func1::{Func1, Polynomial};
use engeom::geom2::Circle2;
use engeom::{Point2, Series1};
use std::f64::consts::PI;

fn abscissae(rng: &mut Rng, n: usize) -> Vec<f64> {
    // asymmetric, clustered, offset from zero — never symmetric about 0; kept inside a range where
    // the normal equations (which the code solves by matrix inversion in f64) stay well enough
    // conditioned for the comparison tolerances: |x| ≤ ~4, minimum gap width/(3n)
    let off = *rng.pick(&[0.5, 1.0, -0.7, 0.3, 0.0]);
    let width = rng.range(1.0, 3.0);
    let mut xs: Vec<f64> = match rng.below(3) {
        0 => (0..n).map(|k| off + width * k as f64 / n as f64).collect(),
        1 => (0..n).map(|_| off + rng.unit().powi(2) * width).collect(),
        _ => (0..n).map(|_| off + rng.range(-0.3, 1.0) * width).collect(),
    };
    xs.sort_by(|a, b| a.partial_cmp(b).unwrap());
    let gap = width / (3.0 * n as f64);
    for k in 1..n {
        if xs[k] - xs[k - 1] < gap {
            xs[k] = xs[k - 1] + gap;
        }
    }
    xs
}

fn fit_k(k: usize, xs: &[f64], ys: &[f64], ws: Option<&[f64]>) -> Result<Vec<f64>, String> {
    guarded(|| match k {
        2 => Polynomial::<2>::least_squares(xs, ys, ws).c.to_vec(),
        3 => Polynomial::<3>::least_squares(xs, ys, ws).c.to_vec(),
        4 => Polynomial::<4>::least_squares(xs, ys, ws).c.to_vec(),
        5 => Polynomial::<5>::least_squares(xs, ys, ws).c.to_vec(),
        _ => Polynomial::<6>::least_squares(xs, ys, ws).c.to_vec(),
    })
}

fn eval(c: &[f64], x: f64) -> f64 {
    c.iter().enumerate().map(|(i, ci)| ci * x.powi(i as i32)).sum()
}

fn polynomials(rng: &mut Rng) {
    let k = rng.int(2, 6) as usize;
    let n = k + rng.below(8) + if rng.chance(0.2) { 0 } else { 1 };
    let xs = abscissae(rng, n);
    let coef: Vec<f64> = (0..k).map(|_| rng.range(-3.0, 3.0)).collect();
    let exact = rng.chance(0.5);
    let ys: Vec<f64> = xs.iter().map(|x| eval(&coef, *x) + if exact { 0.0 } else { rng.range(-0.5, 0.5) }).collect();
    let ws: Option<Vec<f64>> = if rng.chance(0.5) { Some((0..n).map(|_| rng.range(0.2, 3.0)).collect()) } else { None };
    let w = |i: usize| ws.as_ref().map_or(1.0, |w| w[i]);
    let r = fit_k(k, &xs, &ys, ws.as_deref());
    let mut v = Verdict::new();
    let mut o = Tok::new();
    let mut i = Tok::new();
    i.n(k).flist(&xs).flist(&ys);
    i.flist(&(0..n).map(w).collect::<Vec<_>>());
    match r {
        Err(e) => {
            v.require(false, "poly.panics", || e.clone());
            emit_oracle_only("fit.poly", &i, &o, &v);
        }
        Ok(c) => {
            let scale = ys.iter().fold(1.0f64, |a, b| a.max(b.abs()));
            let xmax = xs.iter().fold(1.0f64, |a, b| a.max(b.abs()));
            let spread = (xs[n - 1] - xs[0]).min(1.0);
            let cond = ((1.0 + xmax) / spread).powi(2 * (k as i32 - 1)) * (n as f64 * 3.0).powi(k as i32 - 1);
            if exact {
                for (x, y) in xs.iter().zip(&ys) {
                    v.require((eval(&c, *x) - y).abs() <= 1e-9 * cond * scale, "poly.recovers_exact_polynomial", || format!("K={k} xs={xs:?} coef={coef:?} fit={c:?}"));
                }
            }
            // residual orthogonal (weighted) to every monomial column
            for r in 0..k {
                let dot: f64 = (0..n).map(|j| w(j) * xs[j].powi(r as i32) * (eval(&c, xs[j]) - ys[j])).sum();
                let norm: f64 = (0..n).map(|j| (w(j) * xs[j].powi(r as i32) * ys[j]).abs()).sum::<f64>() + 1.0;
                v.require(dot.abs() <= 1e-8 * cond * norm, "poly.residual_orthogonal_to_monomials", || format!("K={k} r={r} dot={dot:e} xs={xs:?} fit={c:?}"));
            }
            i.flist(&c);
            o.n(k);
            for _ in 0..k {
                o.f(0.0);
            }
            // the substitution into the model's normal equations is only meaningful while the
            // inversion itself is accurate; beyond that the oracle's scaled tolerance judges alone
            if cond < 1e7 {
                emit("fit.poly", &i, &o, &v);
            } else {
                emit_oracle_only("fit.poly", &i, &o, &v);
            }
            // the series best-fit line agrees with the degree-1 fit
            if k == 2 && ws.is_none() {
                let s = Series1::try_new(xs.clone(), ys.clone()).unwrap();
                let l = s.best_fit_line();
                let mut v = Verdict::new();
                v.require((l.c[0] - c[0]).abs() <= 1e-8 * cond * scale && (l.c[1] - c[1]).abs() <= 1e-8 * cond * scale, "line.series_best_fit_equals_degree_one", || format!("{:?} vs {c:?}", l.c));
                let mut i = Tok::new();
                i.flist(&xs).flist(&ys);
                let mut o = Tok::new();
                o.f(l.c[1]).f(l.c[0]);
                emit("fit.line", &i, &o, &v);
            }
        }
    }
}

/// "no other coefficient vector has a smaller weighted sum of squares", judged directly and at any scale
/// of the abscissae (millimetres expressed in metres, say): the fit is compared with a reference
/// least-squares solution computed by SVD in the normalised variable u = x / s
fn polynomials_scaled(rng: &mut Rng) {
    use parry3d_f64::na::{DMatrix, DVector};
    let k = rng.int(2, 6) as usize;
    let n = k + 1 + rng.below(8);
    let s = 10f64.powf(rng.range(-3.3, 1.3));
    let us = abscissae(rng, n);
    let umax = us.iter().fold(0.0f64, |a, b| a.max(b.abs()));
    let us: Vec<f64> = us.iter().map(|u| u / umax).collect();
    // abscissae away from zero as well (a narrow window at x = 1.6, say): the data are a polynomial in the
    // shifted variable, hence in x
    let shift = *rng.pick(&[0.0, 0.0, 1.5, 4.0]);
    let us: Vec<f64> = us.iter().map(|u| u + shift).collect();
    let xs: Vec<f64> = us.iter().map(|u| s * u).collect();
    let cu: Vec<f64> = (0..k).map(|_| rng.range(-3.0, 3.0)).collect();
    let noise = *rng.pick(&[0.0, 0.0, 1e-6, 0.3]);
    let ys: Vec<f64> = us.iter().map(|u| eval(&cu, *u) + noise * rng.range(-1.0, 1.0)).collect();
    let ws: Option<Vec<f64>> = if rng.chance(0.5) { Some((0..n).map(|_| rng.range(0.2, 3.0)).collect()) } else { None };
    let w = |i: usize| ws.as_ref().map_or(1.0, |w| w[i]);
    let mut v = Verdict::new();
    match fit_k(k, &xs, &ys, ws.as_deref()) {
        Err(e) => v.require(false, "poly.panics", || format!("scale {s:e}: {e}")),
        Ok(c) => {
            let a = DMatrix::from_fn(n, k, |i, j| w(i).sqrt() * us[i].powi(j as i32));
            let b = DVector::from_fn(n, |i, _| w(i).sqrt() * ys[i]);
            let reference = a.clone().svd(true, true).solve(&b, 1e-14).unwrap();
            let fit_u: Vec<f64> = (0..k).map(|i| c[i] * s.powi(i as i32)).collect();
            let ss = |cf: &dyn Fn(usize) -> f64| -> f64 { (0..n).map(|j| { let p: f64 = (0..k).map(|i| cf(i) * us[j].powi(i as i32)).sum(); w(j) * (p - ys[j]).powi(2) }).sum() };
            let ss_fit = ss(&|i| fit_u[i]);
            let ss_ref = ss(&|i| reference[i]);
            let total: f64 = (0..n).map(|j| w(j) * ys[j] * ys[j]).sum();
            let sv = a.svd(false, false).singular_values;
            let cond = sv[0] / sv[k - 1];
            let excess = (ss_fit - ss_ref) / total;
            if std::env::var("VH_C09_TRACE").is_ok() {
                eprintln!("k={k} s={s:e} cond={cond:e} noise={noise:e} excess={excess:e}");
            }
            // measured on the repaired tree (normal equations solved by pivoted LU): <= 2e-13 up to condition 1e5 of the
            // design matrix, <= 5e-11 up to 1e7 (the normal equations square the condition number);
            // a fit that loses a coefficient is at 1e-3 .. 1.  (Before the repair b4 of the 4 x 4 closed-form inverse
            // the excess reached 5e-4 at condition 2.6e4.)
            let allowed = if cond <= 1e5 { 1e-10 } else if cond <= 1e7 { 1e-8 } else { f64::INFINITY };
            v.require(excess <= allowed, "poly.no_other_coefficients_have_smaller_sum_of_squares",
                || format!("K={k} scale {s:e} (condition of the normalised design matrix {cond:e}): sum of squares {ss_fit:e}, the least-squares solution has {ss_ref:e} (sum of w*y^2 = {total:e}); fit {c:?}"));
        }
    }
    emit_oracle_only("fit.poly_scaled", &Tok::new(), &Tok::new(), &v);
}

/// `Series1::best_fit_line` at any scale of the abscissae (a profile sampled at a pitch of 25 nm expressed
/// in metres, or in kilometres): the line must be the least-squares line — judged by its sum of squares
/// against a reference solution computed by SVD in the normalised variable u = x / s, and by agreement
/// with `Polynomial::<2>::least_squares`
fn lines_scaled(rng: &mut Rng) {
    use parry3d_f64::na::{DMatrix, DVector};
    let n = 3 + rng.below(12);
    let s = 10f64.powf(rng.range(-8.5, 3.0));
    let us = abscissae(rng, n);
    let umax = us.iter().fold(0.0f64, |a, b| a.max(b.abs()));
    let us: Vec<f64> = us.iter().map(|u| u / umax).collect();
    let xs: Vec<f64> = us.iter().map(|u| s * u).collect();
    let (m_u, b_u) = (rng.range(-3.0, 3.0), rng.range(-3.0, 3.0));
    let noise = *rng.pick(&[0.0, 0.0, 1e-6, 0.3]);
    let ys: Vec<f64> = us.iter().map(|u| m_u * u + b_u + noise * rng.range(-1.0, 1.0)).collect();
    let mut v = Verdict::new();
    let Ok(series) = Series1::try_new(xs.clone(), ys.clone()) else {
        emit_oracle_only("fit.line_scaled", &Tok::new(), &Tok::new(), &v);
        return;
    };
    match guarded(|| series.best_fit_line()) {
        Err(e) => v.require(false, "line.panics", || format!("scale {s:e}: {e}")),
        Ok(l) => {
            let a = DMatrix::from_fn(n, 2, |i, j| us[i].powi(j as i32));
            let b = DVector::from_fn(n, |i, _| ys[i]);
            let reference = a.clone().svd(true, true).solve(&b, 1e-14).unwrap();
            // the fitted line in the normalised variable: y = b + (m s) u
            let (fb, fm) = (l.c[0], l.c[1] * s);
            let ss = |b0: f64, m0: f64| -> f64 { (0..n).map(|j| (b0 + m0 * us[j] - ys[j]).powi(2)).sum() };
            let total: f64 = ys.iter().map(|y| y * y).sum();
            let excess = (ss(fb, fm) - ss(reference[0], reference[1])) / total;
            v.require(excess <= 1e-10, "line.series_best_fit_has_the_smallest_sum_of_squares",
                || format!("pitch scale {s:e}, {n} samples: fitted slope {:e} intercept {:e}, least squares slope {:e} intercept {:e} (relative excess {excess:e})", l.c[1], l.c[0], reference[1] / s, reference[0]));
            if noise == 0.0 {
                v.require((fm - m_u).abs() <= 1e-7 * (1.0 + m_u.abs()) && (fb - b_u).abs() <= 1e-7 * (1.0 + b_u.abs()), "line.series_best_fit_recovers_exact_line",
                    || format!("pitch scale {s:e}: slope {:e} (true {:e}), intercept {:e} (true {:e})", l.c[1], m_u / s, l.c[0], b_u));
            }
            if let Ok(c) = fit_k(2, &xs, &ys, None) {
                v.require((c[1] * s - fm).abs() <= 1e-7 * (1.0 + fm.abs()) && (c[0] - fb).abs() <= 1e-7 * (1.0 + fb.abs()), "line.series_best_fit_equals_degree_one_at_any_scale",
                    || format!("pitch scale {s:e}: series {:?} vs polynomial {c:?}", l.c));
            }
        }
    }
    emit_oracle_only("fit.line_scaled", &Tok::new(), &Tok::new(), &v);
}

/// The outlier-rejecting mode of the circle fit (`BestFit::Gaussian(k)`: samples further than k standard
/// deviations from the mean residual get weight 0) on EXACT samples: there are no outliers, so the generating
/// circle is recovered as in the plain mode.  Includes the structured case in which every residual of the guess
/// is the same number (lattice points of an integer circle and a concentric guess of the wrong radius), where
/// the standard deviation of the residuals is exactly 0.
fn circles_gaussian(rng: &mut Rng) {
    let lattice = rng.chance(0.5);
    let mut v = Verdict::new();
    let (c, pts, g) = if lattice {
        let k = *rng.pick(&[1.0, 2.0, 0.5, 4.0]);
        let (cx, cy) = (rng.int(-6, 6) as f64, rng.int(-6, 6) as f64);
        let on: [(f64, f64); 12] = [(5., 0.), (-5., 0.), (0., 5.), (0., -5.), (3., 4.), (-3., 4.), (3., -4.), (-3., -4.), (4., 3.), (-4., 3.), (4., -3.), (-4., -3.)];
        let mut idx: Vec<usize> = (0..12).collect();
        rng.shuffle(&mut idx);
        let m = rng.int(6, 12) as usize;
        let pts: Vec<Point2> = idx[..m].iter().map(|i| Point2::new(cx + k * on[*i].0, cy + k * on[*i].1)).collect();
        let c = Circle2::new(cx, cy, 5.0 * k);
        // a concentric guess of the wrong radius (dyadic factor: every residual is the same number), or a nearby one
        let g = if rng.chance(0.7) { Circle2::new(cx, cy, 5.0 * k * *rng.pick(&[0.75, 0.875, 1.125, 1.25, 1.5])) } else { Circle2::new(cx + k * rng.range(-1.0, 1.0), cy + k * rng.range(-1.0, 1.0), 5.0 * k * rng.range(0.8, 1.2)) };
        (c, pts, g)
    } else {
        let c = Circle2::new(rng.range(-5.0, 5.0), rng.range(-5.0, 5.0), rng.range(0.5, 5.0));
        let a0 = rng.range(0.0, 2.0 * PI);
        let extent = rng.range(PI, 2.0 * PI);
        let n = rng.int(8, 40) as usize;
        let pts: Vec<Point2> = (0..n).map(|k| { let a = a0 + extent * k as f64 / (n - 1) as f64; Point2::new(c.center.x + c.r() * a.cos(), c.center.y + c.r() * a.sin()) }).collect();
        let g = Circle2::new(c.center.x + c.r() * rng.range(-0.2, 0.2), c.center.y + c.r() * rng.range(-0.2, 0.2), c.r() * rng.range(0.8, 1.2));
        (c, pts, g)
    };
    let sigma = *rng.pick(&[2.0, 3.0, 4.0]);
    match guarded(|| Circle2::fitting_circle(&pts, &g, BestFit::Gaussian(sigma))) {
        Err(e) => v.require(false, "circle_fit.panics", || e.clone()),
        Ok(Err(e)) => v.require(false, "circle_fit.fails_from_nearby_guess", || e.to_string()),
        Ok(Ok(f)) => {
            let tol = 1e-5 * c.r();
            let what = if lattice { "circle_fit.outlier_mode_recovers_exact_circle_when_all_residuals_are_equal" } else { "circle_fit.outlier_mode_recovers_exact_circle" };
            v.require((f.center - c.center).norm() <= tol && (f.r() - c.r()).abs() <= tol, what, || format!("sigma={sigma} guess {:?} r={}: {:?} r={} vs {:?} r={}", g.center, g.r(), f.center, f.r(), c.center, c.r()));
        }
    }
    emit_oracle_only("fit.circle_gaussian", &Tok::new(), &Tok::new(), &v);
}

/// The outlier-rejecting mode on CONTAMINATED data: most samples on a circle (small noise), a few far off it, the
/// guess displaced in a random direction (towards or away from the outliers).  The fit stops at a stationary point
/// of the summed squared radial residuals of the samples it retains AT THE RESULT (those within k standard deviations
/// of the mean residual there) — not of the samples that happened to be retained at the guess.
fn circles_outliers(rng: &mut Rng) {
    let c = Circle2::new(rng.range(-5.0, 5.0), rng.range(-5.0, 5.0), rng.range(1.0, 5.0));
    let n = rng.int(24, 60) as usize;
    let a0 = rng.range(0.0, 2.0 * PI);
    let mut pts: Vec<Point2> = (0..n).map(|k| { let a = a0 + 2.0 * PI * k as f64 / n as f64; let r = c.r() * (1.0 + rng.range(-1e-3, 1e-3)); Point2::new(c.center.x + r * a.cos(), c.center.y + r * a.sin()) }).collect();
    // two to four outliers bunched on one side, 15 % … 40 % of a radius off the circle
    let side = rng.range(0.0, 2.0 * PI);
    for _ in 0..rng.int(2, 4) {
        let a = side + rng.range(-0.3, 0.3);
        let r = c.r() * (1.0 + rng.range(0.15, 0.4));
        pts.push(Point2::new(c.center.x + r * a.cos(), c.center.y + r * a.sin()));
    }
    let gd = rng.range(0.0, 2.0 * PI);
    let g = Circle2::new(c.center.x + c.r() * 0.25 * gd.cos(), c.center.y + c.r() * 0.25 * gd.sin(), c.r() * rng.range(0.85, 1.15));
    let sigma = *rng.pick(&[2.0, 2.5, 3.0]);
    let mut v = Verdict::new();
    match guarded(|| Circle2::fitting_circle(&pts, &g, BestFit::Gaussian(sigma))) {
        Err(e) => v.require(false, "circle_fit.panics", || e.clone()),
        Ok(Err(_)) => {}
        Ok(Ok(f)) => {
            let res: Vec<f64> = pts.iter().map(|p| (p - f.center).norm() - f.r()).collect();
            let mean = res.iter().sum::<f64>() / res.len() as f64;
            let sd = (res.iter().map(|r| (r - mean).powi(2)).sum::<f64>() / res.len() as f64).sqrt();
            // samples well clear of the k-sigma boundary on either side; a sample ON the boundary may be either
            let margin = 0.05;
            let kept: Vec<usize> = (0..pts.len()).filter(|i| (res[*i] - mean).abs() / sd <= sigma - margin).collect();
            let boundary = (0..pts.len()).any(|i| ((res[i] - mean).abs() / sd - sigma).abs() < margin);
            if !boundary && kept.len() >= 3 {
                let (mut gx, mut gy, mut gr) = (0.0, 0.0, 0.0);
                for i in &kept {
                    let d = pts[*i] - f.center;
                    let nrm = d.normalize();
                    gx += -nrm.x * res[*i];
                    gy += -nrm.y * res[*i];
                    gr += -res[*i];
                }
                let gnorm = (gx * gx + gy * gy + gr * gr).sqrt();
                v.require(gnorm <= 1e-4 * (1.0 + c.r()) * (pts.len() as f64).sqrt(), "circle_fit.outlier_mode_stationary_for_the_samples_it_retains", || format!("|J^T r| over the {} retained of {} samples = {gnorm:e}; result {:?} r={} (generating {:?} r={}), guess {:?} r={}, sigma {sigma}", kept.len(), pts.len(), f.center, f.r(), c.center, c.r(), g.center, g.r()));
            }
        }
    }
    emit_oracle_only("fit.circle_outliers", &Tok::new(), &Tok::new(), &v);
}

fn circles(rng: &mut Rng) {
    let c = Circle2::new(rng.range(-5.0, 5.0), rng.range(-5.0, 5.0), rng.range(0.5, 5.0));
    let a0 = rng.range(0.0, 2.0 * PI);
    let extent = rng.range(PI / 3.0, 2.0 * PI);
    let n = rng.int(8, 40) as usize;
    let noisy = rng.chance(0.5);
    let pts: Vec<Point2> = (0..n)
        .map(|k| {
            let a = a0 + extent * k as f64 / (n - 1) as f64;
            let r = c.r() + if noisy { rng.range(-0.01, 0.01) * c.r() } else { 0.0 };
            Point2::new(c.center.x + r * a.cos(), c.center.y + r * a.sin())
        })
        .collect();
    let g = Circle2::new(c.center.x + c.r() * rng.range(-0.3, 0.3), c.center.y + c.r() * rng.range(-0.3, 0.3), c.r() * rng.range(0.7, 1.3));
    let mut v = Verdict::new();
    match guarded(|| Circle2::fitting_circle(&pts, &g, BestFit::All)) {
        Err(e) => v.require(false, "circle_fit.panics", || e.clone()),
        Ok(Err(e)) => v.require(false, "circle_fit.fails_from_nearby_guess", || e.to_string()),
        Ok(Ok(f)) => {
            if !noisy {
                // small arcs are ill-conditioned: the tolerance grows as the arc shrinks
                let tol = 1e-6 * c.r() / (extent / (2.0 * PI)).powi(3);
                v.require((f.center - c.center).norm() <= tol && (f.r() - c.r()).abs() <= tol, "circle_fit.recovers_exact_circle", || format!("extent={extent} {:?} r={} vs {:?} r={}", f.center, f.r(), c.center, c.r()));
            }
            // stationary point of the summed squared radial residuals:  Jᵀ r = 0
            let (mut gx, mut gy, mut gr) = (0.0, 0.0, 0.0);
            let mut ssq = 0.0;
            for p in &pts {
                let d = p - f.center;
                let res = d.norm() - f.r();
                let nrm = d.normalize();
                gx += -nrm.x * res;
                gy += -nrm.y * res;
                gr += -res;
                ssq += res * res;
            }
            let gnorm = (gx * gx + gy * gy + gr * gr).sqrt();
            v.require(gnorm <= 1e-5 * (1.0 + c.r()) * (n as f64).sqrt(), "circle_fit.stationary_point", || format!("|J^T r|={gnorm:e} ssq={ssq:e}"));
        }
    }
    // three points
    let idx = [0, n / 2, n - 1];
    match Circle2::from_3_points(pts[idx[0]], pts[idx[1]], pts[idx[2]]) {
        Ok(t) => {
            for k in idx {
                v.require(t.distance_to(&pts[k]).abs() <= 1e-7 * (1.0 + c.r()), "three_points.passes_through", || "".into());
            }
        }
        Err(_) => {
            // a sampled arc that closes on itself to within 1e-6 rad puts the first and the last point on top of
            // each other: such a triple IS degenerate (the code judges collinearity by the sine of the angle
            // between the legs, threshold 1e-6) and its rejection is not a failure; found by the thorough tier
            let (a, b) = (pts[idx[0]] - pts[idx[1]], pts[idx[1]] - pts[idx[2]]);
            let sine = (a.x * b.y - a.y * b.x).abs() / (a.norm() * b.norm());
            v.require(sine <= 1e-5, "three_points.rejects_non_collinear", || format!("sine of the angle between the legs {sine:e}"));
        }
    }
    // a triple with a repeated point has no circle: rejected, never a circle with non-finite centre or radius
    for (a, b, cc, what) in [(pts[0], pts[0], pts[n / 2], "(p, p, q)"), (pts[n / 2], pts[0], pts[0], "(q, p, p)"), (pts[0], pts[n / 2], pts[0], "(p, q, p)"), (pts[0], pts[0], pts[0], "(p, p, p)")] {
        match guarded(|| Circle2::from_3_points(a, b, cc)) {
            Err(e) => v.require(false, "three_points.panics", || format!("{what}: {e}")),
            Ok(Ok(k)) => v.require(false, "three_points.rejects_a_triple_with_a_repeated_point", || format!("{what}: accepted, centre {:?} r {}", k.center, k.r())),
            Ok(Err(_)) => {}
        }
    }
    let col = Circle2::from_3_points(Point2::new(0.0, 0.0), Point2::new(1.0, 1.0), Point2::new(2.5, 2.5));
    v.require(col.is_err(), "three_points.rejects_collinear", || "".into());
    // RANSAC on contaminated data: inliers exactly on the generating circle
    let m = rng.int(20, 60) as usize;
    let mut data: Vec<Point2> = (0..m).map(|k| { let a = 2.0 * PI * k as f64 / m as f64; Point2::new(c.center.x + c.r() * a.cos(), c.center.y + c.r() * a.sin()) }).collect();
    let nout = m * 3 / 10;
    for _ in 0..nout {
        data.push(Point2::new(c.center.x + rng.range(-2.0, 2.0) * c.r(), c.center.y + rng.range(-2.0, 2.0) * c.r()));
    }
    rng.shuffle(&mut data);
    let tol = 1e-6 * (1.0 + c.r());
    match guarded(|| Circle2::ransac(&data, tol, None, None, None)) {
        Err(e) => v.require(false, "ransac.panics", || e.clone()),
        Ok(Err(e)) => v.require(false, "ransac.fails", || e.to_string()),
        Ok(Ok(rc)) => {
            let count = |cc: &Circle2| data.iter().filter(|p| cc.distance_to(p).abs() < tol).count();
            v.require(count(&rc) >= count(&c), "ransac.at_least_as_many_inliers_as_generating_circle", || format!("{} vs {}", count(&rc), count(&c)));
        }
    }
    emit_oracle_only("fit.circle", &Tok::new(), &Tok::new(), &v);
}

pub fn run(rng: &mut Rng, n: usize) {
    for _ in 0..n {
        for _ in 0..4 {
            case("fit.case", "c09.library_call_panics", || polynomials(rng));
        }
        for _ in 0..2 {
            case("fit.case", "c09.library_call_panics", || polynomials_scaled(rng));
        }
        for _ in 0..2 {
            case("fit.case", "c09.library_call_panics", || lines_scaled(rng));
        }
        case("fit.case", "c09.library_call_panics", || circles(rng));
        case("fit.case", "c09.library_call_panics", || circles_gaussian(rng));
        case("fit.case", "c09.library_call_panics", || circles_outliers(rng));
    }
}
