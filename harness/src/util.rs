//! Shared helpers: PRNG (splitmix64, one state per run), token output, panic capture.
use std::fmt::Write as _;
use std::panic::{catch_unwind, AssertUnwindSafe};

pub struct Rng(pub u64);

impl Rng {
    pub fn new(seed: u64) -> Self {
        Rng(seed.wrapping_mul(0x9E3779B97F4A7C15) ^ 0xD1B54A32D192ED03)
    }
    pub fn next(&mut self) -> u64 {
        self.0 = self.0.wrapping_add(0x9E3779B97F4A7C15);
        let mut z = self.0;
        z = (z ^ (z >> 30)).wrapping_mul(0xBF58476D1CE4E5B9);
        z = (z ^ (z >> 27)).wrapping_mul(0x94D049BB133111EB);
        z ^ (z >> 31)
    }
    /// uniform in [0,1)
    pub fn unit(&mut self) -> f64 {
        (self.next() >> 11) as f64 / (1u64 << 53) as f64
    }
    pub fn range(&mut self, a: f64, b: f64) -> f64 {
        a + (b - a) * self.unit()
    }
    pub fn below(&mut self, n: usize) -> usize {
        (self.next() % (n as u64)) as usize
    }
    pub fn int(&mut self, a: i64, b: i64) -> i64 {
        a + (self.next() % ((b - a + 1) as u64)) as i64
    }
    pub fn chance(&mut self, p: f64) -> bool {
        self.unit() < p
    }
    pub fn pick<'a, T>(&mut self, xs: &'a [T]) -> &'a T {
        &xs[self.below(xs.len())]
    }
    /// approximately normal(0,1)
    pub fn gauss(&mut self) -> f64 {
        let mut s = 0.0;
        for _ in 0..12 {
            s += self.unit();
        }
        s - 6.0
    }
    /// a "dyadic" value k / 2^q with small k: arithmetic on these is exact in f64
    pub fn dyadic(&mut self, max_abs: i64, q: u32) -> f64 {
        self.int(-max_abs * (1 << q), max_abs * (1 << q)) as f64 / (1u64 << q) as f64
    }
    pub fn shuffle<T>(&mut self, xs: &mut [T]) {
        for i in (1..xs.len()).rev() {
            let j = self.below(i + 1);
            xs.swap(i, j);
        }
    }
}

pub fn next_up(x: f64) -> f64 {
    if x.is_nan() || x == f64::INFINITY {
        return x;
    }
    if x == 0.0 {
        return f64::from_bits(1);
    }
    let b = x.to_bits();
    if x > 0.0 {
        f64::from_bits(b + 1)
    } else {
        f64::from_bits(b - 1)
    }
}
pub fn next_down(x: f64) -> f64 {
    -next_up(-x)
}

/// token writer
#[derive(Default, Clone)]
pub struct Tok(pub String);

impl Tok {
    pub fn new() -> Self {
        Tok(String::new())
    }
    fn sep(&mut self) {
        if !self.0.is_empty() {
            self.0.push(' ');
        }
    }
    pub fn f(&mut self, x: f64) -> &mut Self {
        self.sep();
        write!(self.0, "{:016x}", x.to_bits()).unwrap();
        self
    }
    pub fn n(&mut self, k: usize) -> &mut Self {
        self.sep();
        write!(self.0, "i{}", k).unwrap();
        self
    }
    pub fn b(&mut self, x: bool) -> &mut Self {
        self.sep();
        self.0.push(if x { 'T' } else { 'F' });
        self
    }
    pub fn w(&mut self, s: &str) -> &mut Self {
        self.sep();
        self.0.push_str(s);
        self
    }
    pub fn fs(&mut self, xs: &[f64]) -> &mut Self {
        for x in xs {
            self.f(*x);
        }
        self
    }
    pub fn flist(&mut self, xs: &[f64]) -> &mut Self {
        self.n(xs.len());
        self.fs(xs)
    }
    pub fn nlist(&mut self, xs: &[usize]) -> &mut Self {
        self.n(xs.len());
        for x in xs {
            self.n(*x);
        }
        self
    }
    pub fn optf(&mut self, x: Option<f64>) -> &mut Self {
        match x {
            None => self.w("none"),
            Some(v) => self.w("some").f(v),
        }
    }
    pub fn s(&self) -> String {
        self.0.clone()
    }
}

/// Oracle verdict accumulator: the property's clauses evaluated on the implementation's result.
#[derive(Default)]
pub struct Verdict(pub Vec<String>);
impl Verdict {
    pub fn new() -> Self {
        Verdict(vec![])
    }
    pub fn require(&mut self, ok: bool, clause: &str, detail: impl FnOnce() -> String) {
        if !ok {
            self.0.push(format!("{}:{}", clause, detail().replace(['|', '\n'], " ")));
        }
    }
    pub fn s(&self) -> String {
        if self.0.is_empty() {
            "ok".to_string()
        } else {
            format!("FAIL {}", self.0.join(" ; "))
        }
    }
}

pub fn close(a: f64, b: f64, tol: f64) -> bool {
    if a == b {
        return true;
    }
    (a - b).abs() <= tol * 1f64.max(a.abs()).max(b.abs())
}

/// One emitted case:  op | model-input tokens | implementation-output tokens | oracle verdict
pub fn emit(op: &str, input: &Tok, output: &Tok, verdict: &Verdict) {
    println!("{}|{}|{}|{}", op, input.0, output.0, verdict.s());
}

/// As emit, with a "no model comparison" marker (oracle-only case).
pub fn emit_oracle_only(op: &str, input: &Tok, output: &Tok, verdict: &Verdict) {
    println!("{}|{}|{}|{}|nomodel", op, input.0, output.0, verdict.s());
}

pub fn guarded<T>(f: impl FnOnce() -> T) -> Result<T, String> {
    catch_unwind(AssertUnwindSafe(f)).map_err(|e| {
        if let Some(s) = e.downcast_ref::<&str>() {
            s.to_string()
        } else if let Some(s) = e.downcast_ref::<String>() {
            s.clone()
        } else {
            "panic".to_string()
        }
    })
}

/// Runs one generated case.  A panic of the library that none of the case's own guards caught (for
/// instance inside a lookup the oracle itself makes) is an oracle failure of that case — reported with
/// the panic message — not the end of the run.
pub fn case(op: &str, clause: &str, f: impl FnOnce()) {
    if let Err(e) = guarded(f) {
        let mut v = Verdict::new();
        v.require(false, clause, || e.clone());
        emit_oracle_only(op, &Tok::new(), &Tok::new(), &v);
    }
}
