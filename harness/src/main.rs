#![allow(dead_code)]
//! vh — verification harness: generates cases, runs the real engeom code, prints one line per
//! case:  op | inputs for the Lean model | implementation result | oracle verdict
mod probe;
mod util;
mod c01;
mod c02;
mod c03;
mod c04;
mod c05;
mod c06;
mod c07;
mod c08;
mod c09;
mod c10;
mod c11;
mod c12;
mod c13;
mod curves;
mod c14;
mod c15;
mod c16;
mod c17;
mod c18;
mod c19;
mod c20;
mod gen;

use util::Rng;

fn main() {
    let args: Vec<String> = std::env::args().collect();
    if args.len() < 4 {
        eprintln!("usage: vh <PROP> <seed> <ncases> [extra…]");
        std::process::exit(2);
    }
    let prop = args[1].as_str();
    let seed: u64 = args[2].parse().expect("seed");
    let n: usize = args[3].parse().expect("n");
    if std::env::var("VH_TRACE").is_err() {
        std::panic::set_hook(Box::new(|_| {}));
    }
    let mut rng = Rng::new(seed ^ (prop.bytes().fold(0u64, |a, b| a.wrapping_mul(131).wrapping_add(b as u64))));
    if prop == "PROBE" {
        probe::run();
        return;
    }
    match prop {
        "C01" => c01::run(&mut rng, n),
        "C02" => c02::run(&mut rng, n, args.iter().any(|a| a == "--thorough")),
        "C03" => c03::run(&mut rng, n),
        "C04" => c04::run(&mut rng, n),
        "C05" => c05::run(&mut rng, n),
        "C06" => c06::run(&mut rng, n),
        "C07" => c07::run(&mut rng, n),
        "C08" => c08::run(&mut rng, n),
        "C09" => c09::run(&mut rng, n),
        "C10" => c10::run(&mut rng, n, args.iter().any(|a| a == "--thorough")),
        "C11" => c11::run(&mut rng, n),
        "C12" => {
            let slice = (seed % 1000) as usize;
            let thorough = args.iter().any(|a| a == "--thorough");
            c12::run(&mut rng, n, slice % 16, 16, thorough)
        }
        "C13" => c13::run(&mut rng, n, args.iter().any(|a| a == "--child"), seed, args.iter().any(|a| a == "--thorough")),
        "C14" => c14::run(&mut rng, n, args.iter().any(|a| a == "--thorough")),
        "C15" => c15::run(&mut rng, n),
        "C16" => c16::run(&mut rng, n),
        "C17" => c17::run(&mut rng, n),
        "C18" => c18::run(&mut rng, n),
        "C19" => c19::run(&mut rng, n),
        "C20" => c20::run(&mut rng, n),
        _ => {
            eprintln!("unknown property {prop}");
            std::process::exit(2);
        }
    }
}
