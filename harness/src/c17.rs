//! C17 — series and discrete domains stay sorted, finite and function-preserving.
use crate::util::*;
use engeom::common::{linear_space, DiscreteDomain};
use engeom::Series1;

fn sorted_finite(xs: &[f64]) -> bool {
    xs.iter().all(|v| v.is_finite()) && xs.windows(2).all(|w| w[0] <= w[1])
}

fn gen_xs(rng: &mut Rng, n: usize, strict: bool) -> Vec<f64> {
    let mut x = if rng.chance(0.5) { rng.dyadic(8, 2) } else { rng.range(-50.0, 50.0) };
    let grid = rng.chance(0.4);
    let mut v = Vec::new();
    for _ in 0..n {
        v.push(x);
        let step = if grid { rng.int(1, 8) as f64 / 4.0 } else { 10f64.powf(rng.range(-3.0, 1.0)) };
        x += if !strict && rng.chance(0.2) { 0.0 } else { step };
    }
    v
}

fn gen_ys(rng: &mut Rng, n: usize) -> Vec<f64> {
    let grid = rng.chance(0.4);
    (0..n).map(|_| if grid { rng.dyadic(4, 1) } else { rng.range(-10.0, 10.0) }).collect()
}

fn ser_tok(t: &mut Tok, xs: &[f64], ys: &[f64]) {
    t.flist(xs).flist(ys);
}

fn check_series(v: &mut Verdict, name: &str, s: &Series1) {
    v.require(sorted_finite(s.x.values()), &format!("{name}.abscissae_sorted_finite"), || format!("{:?}", s.x.values()));
    v.require(s.x.len() == s.y.len(), &format!("{name}.matching_ordinates"), || format!("{} vs {}", s.x.len(), s.y.len()));
}

/// piecewise-linear reference evaluation, independent of the implementation
fn ref_interp(xs: &[f64], ys: &[f64], x: f64) -> f64 {
    let n = xs.len();
    if x < xs[0] || x > xs[n - 1] {
        return f64::NAN;
    }
    for i in 0..n {
        if xs[i] == x {
            return ys[i];
        }
    }
    for i in 0..n - 1 {
        if xs[i] < x && x < xs[i + 1] {
            return ys[i] + (ys[i + 1] - ys[i]) * ((x - xs[i]) / (xs[i + 1] - xs[i]));
        }
    }
    f64::NAN
}

fn domains(rng: &mut Rng) {
    // try_from
    {
        let n = rng.below(7);
        let mut vs = gen_xs(rng, n, false);
        if n >= 2 && rng.chance(0.4) {
            let i = rng.below(n);
            let j = rng.below(n);
            vs.swap(i, j);
        }
        // disorder that is tiny in absolute terms: a one-ulp backward step, or the whole vector at a
        // magnitude where every difference is far below machine epsilon
        if n >= 2 && rng.chance(0.3) {
            match rng.below(3) {
                0 => {
                    let k = 1 + rng.below(n - 1);
                    vs[k] = next_down(vs[k - 1]);
                }
                1 => {
                    let f = *rng.pick(&[1e-16, 1e-18, 1e-30, 1e-300]);
                    for x in vs.iter_mut() {
                        *x *= f;
                    }
                }
                _ => {
                    let k = 1 + rng.below(n - 1);
                    vs[k] = vs[k - 1] - vs[k - 1].abs().max(1e-3) * *rng.pick(&[1e-16, 3e-16, 1e-15, 1e-12]);
                }
            }
        }
        let r = DiscreteDomain::try_from(vs.clone());
        let mut v = Verdict::new();
        v.require(r.is_ok() == sorted_finite(&vs), "try_from.accepts_iff_sorted", || format!("{vs:?}"));
        let mut i = Tok::new();
        i.flist(&vs);
        let mut o = Tok::new();
        o.w(if r.is_ok() { "ok" } else { "err" });
        emit("domain.try_from", &i, &o, &v);
        // malformed stream: non-finite values must be rejected
        if rng.chance(0.2) && n > 0 {
            let mut bad = gen_xs(rng, n, true);
            let k = rng.below(n);
            bad[k] = *rng.pick(&[f64::NAN, f64::INFINITY, f64::NEG_INFINITY]);
            let mut v = Verdict::new();
            v.require(DiscreteDomain::try_from(bad.clone()).is_err(), "try_from.rejects_non_finite", || format!("{bad:?}"));
            emit_oracle_only("domain.try_from", &Tok::new(), &Tok::new(), &v);
        }
    }
    // push history
    {
        let n = rng.below(5);
        let vs = gen_xs(rng, n, false);
        let mut d = DiscreteDomain::try_from(vs.clone()).unwrap();
        let val = match rng.below(4) {
            0 if n > 0 => vs[n - 1],
            1 if n > 0 => next_down(vs[n - 1]),
            2 if n > 0 => vs[n - 1] + rng.unit(),
            _ => rng.range(-60.0, 60.0),
        };
        let r = d.push(val);
        let mut v = Verdict::new();
        v.require(sorted_finite(d.values()), "push.stays_sorted", || format!("{vs:?} {val}"));
        if r.is_err() {
            v.require(d.values() == &vs[..], "push.rejected_changes_nothing", || format!("{vs:?} {val}"));
        } else {
            v.require(d.len() == n + 1 && d.values()[n] == val, "push.appends", || format!("{vs:?} {val}"));
        }
        v.require(d.push(f64::NAN).is_err() && d.push(f64::INFINITY).is_err(), "push.rejects_non_finite", || "".into());
        let mut i = Tok::new();
        i.flist(&vs).f(val);
        let mut o = Tok::new();
        if r.is_ok() {
            o.w("ok").flist(d.values());
        } else {
            o.w("err");
        }
        emit("domain.push", &i, &o, &v);
    }
    // linear / linear_space with the bounds in either order
    {
        let a = if rng.chance(0.5) { rng.dyadic(8, 2) } else { rng.range(-30.0, 30.0) };
        let b = if rng.chance(0.1) { a } else if rng.chance(0.5) { rng.dyadic(8, 2) } else { rng.range(-30.0, 30.0) };
        let n = rng.int(2, 12) as usize;
        for which in 0..2 {
            let r = guarded(|| if which == 0 { DiscreteDomain::linear(a, b, n) } else { linear_space(a, b, n) });
            let mut v = Verdict::new();
            let mut o = Tok::new();
            let name = if which == 0 { "linear" } else { "linear_space" };
            match r {
                Err(_) => {
                    o.w("panic");
                    v.require(false, &format!("{name}.panics"), || format!("{a} {b} {n}"));
                }
                Ok(d) => {
                    let vals = d.values();
                    v.require(sorted_finite(vals), &format!("{name}.sorted_finite"), || format!("{a} {b} {n} -> {vals:?}"));
                    v.require(vals.len() == n, &format!("{name}.count"), || format!("{a} {b} {n} -> {vals:?}"));
                    let (lo, hi) = (a.min(b), a.max(b));
                    let span = (hi - lo).abs().max(1.0);
                    v.require(vals.len() == n && (vals[0] - lo).abs() <= 1e-12 * span && (vals[n - 1] - hi).abs() <= 1e-9 * span,
                        &format!("{name}.spans_bounds_not_collapsed"), || format!("{a} {b} {n} -> {vals:?}"));
                    o.flist(vals);
                }
            }
            let mut i = Tok::new();
            i.f(a).f(b).n(n);
            emit("domain.linear", &i, &o, &v);
        }
    }
}

fn series(rng: &mut Rng) {
    let n = rng.int(1, 9) as usize;
    // try_new (repeated abscissae allowed)
    {
        let xs = gen_xs(rng, n, false);
        let m = if rng.chance(0.85) { n } else { rng.below(10) };
        let ys = gen_ys(rng, m);
        let r = Series1::try_new(xs.clone(), ys.clone());
        let mut v = Verdict::new();
        v.require(r.is_ok() == (m == n), "try_new.accepts_iff_lengths_match", || format!("{n} {m}"));
        let mut i = Tok::new();
        ser_tok(&mut i, &xs, &ys);
        let mut o = Tok::new();
        o.w(if r.is_ok() { "ok" } else { "err" });
        emit("series.try_new", &i, &o, &v);
        // abscissae with a one-ulp backward step are not ascending: an error, never a series
        if n >= 2 && rng.chance(0.3) {
            let mut bad = gen_xs(rng, n, true);
            let k = 1 + rng.below(n - 1);
            bad[k] = next_down(bad[k - 1]);
            let ys = gen_ys(rng, n);
            let mut v = Verdict::new();
            match Series1::try_new(bad.clone(), ys.clone()) {
                Err(_) => {}
                Ok(sb) => v.require(false, "try_new.rejects_abscissae_with_a_backward_step", || format!("{bad:?} accepted; interpolate at the stored knot {} gives {} (stored {})", bad[k], sb.interpolate(bad[k]), ys[k])),
            }
            emit_oracle_only("series.try_new", &Tok::new(), &Tok::new(), &v);
        }
        if let Ok(s) = r {
            // scaling by any factor (negative reverses), shifting
            let sx = *rng.pick(&[-2.0, -1.0, -0.5, 0.5, 1.0, 3.0, 0.0]);
            let sy = *rng.pick(&[-2.0, 1.0, 0.25]);
            let t = s.scaled_by(sx, sy);
            let mut v = Verdict::new();
            check_series(&mut v, "scaled", &t);
            let mut i = Tok::new();
            ser_tok(&mut i, &xs, &ys);
            i.f(sx).f(sy);
            let mut o = Tok::new();
            ser_tok(&mut o, t.x.values(), &t.y);
            emit("series.scaled", &i, &o, &v);
            let (dx, dy) = (rng.dyadic(8, 2), rng.dyadic(8, 2));
            let t = s.shift_by(dx, dy);
            let mut v = Verdict::new();
            check_series(&mut v, "shifted", &t);
            let mut i = Tok::new();
            ser_tok(&mut i, &xs, &ys);
            i.f(dx).f(dy);
            let mut o = Tok::new();
            ser_tok(&mut o, t.x.values(), &t.y);
            emit("series.shift", &i, &o, &v);
            // NaN removal
            let mut ys2 = ys.clone();
            for y in ys2.iter_mut() {
                if rng.chance(0.3) {
                    *y = f64::NAN;
                }
            }
            let t = Series1::try_new(xs.clone(), ys2.clone()).unwrap().remove_nan();
            let mut v = Verdict::new();
            check_series(&mut v, "remove_nan", &t);
            v.require(t.y.iter().all(|y| !y.is_nan()) && t.y.len() == ys2.iter().filter(|y| !y.is_nan()).count(), "remove_nan.exactly_the_nans", || "".into());
            emit_oracle_only("series.remove_nan", &Tok::new(), &Tok::new(), &v);
        }
    }
    if n < 2 {
        return;
    }
    // strictly increasing abscissae for the function-preserving clauses
    let xs = gen_xs(rng, n, true);
    let ys = gen_ys(rng, n);
    let s = Series1::try_new(xs.clone(), ys.clone()).unwrap();
    let (lo, hi) = (xs[0], xs[n - 1]);
    let span = hi - lo;
    let scale = ys.iter().fold(1.0f64, |a, b| a.max(b.abs()));
    let pick_x = |rng: &mut Rng| match rng.below(5) {
        0 => *rng.pick(&xs),
        1 => next_up(*rng.pick(&xs)).min(hi),
        2 => next_down(*rng.pick(&xs)).max(lo),
        _ => lo + span * rng.unit(),
    };
    // "interpolation returns stored values at knots" — whatever the neighbouring ordinates are: a NaN gap
    // sample next to the knot, or a step so steep that its slope overflows
    if rng.chance(0.35) {
        let mut yb = ys.clone();
        let k = rng.below(n);
        yb[k] = match rng.below(3) {
            0 => f64::NAN,
            1 => 1.0e308,
            _ => -1.0e308,
        };
        if let Some(j) = (k + 1 < n).then_some(k + 1) {
            if rng.chance(0.3) {
                yb[j] = if yb[k].is_nan() { f64::NAN } else { -yb[k] };
            }
        }
        if let Ok(sb) = Series1::try_new(xs.clone(), yb.clone()) {
            let mut v = Verdict::new();
            for i in 0..n {
                if yb[i].is_finite() {
                    let got = sb.interpolate(xs[i]);
                    v.require(got == yb[i], "interpolate.stored_value_at_every_knot", || format!("knot {i} of xs {xs:?} ys {yb:?}: stored {} returned {got}", yb[i]));
                }
            }
            emit_oracle_only("series.interp", &Tok::new(), &Tok::new(), &v);
        }
    }
    // interpolation
    for _ in 0..4 {
        let x = match rng.below(6) {
            0 => lo - rng.unit(),
            1 => hi + rng.unit(),
            _ => pick_x(rng),
        };
        let y = s.interpolate(x);
        let r = ref_interp(&xs, &ys, x);
        let mut v = Verdict::new();
        if x < lo || x > hi {
            v.require(y.is_nan(), "interpolate.nan_outside", || format!("{x} -> {y}"));
        } else {
            v.require(close(y, r, 1e-9) || (y - r).abs() <= 1e-9 * scale, "interpolate.knot_or_blend", || format!("{xs:?} {ys:?} {x} -> {y} want {r}"));
        }
        let mut i = Tok::new();
        ser_tok(&mut i, &xs, &ys);
        i.f(x);
        let mut o = Tok::new();
        if y.is_nan() { o.w("none"); } else { o.w("some").f(y); }
        emit("series.interp", &i, &o, &v);
    }
    // between
    {
        let (mut x0, mut x1) = (pick_x(rng), pick_x(rng));
        if x1 < x0 {
            std::mem::swap(&mut x0, &mut x1);
        }
        let r = guarded(|| s.between(x0, x1));
        let mut v = Verdict::new();
        let mut o = Tok::new();
        match r {
            Err(e) => {
                o.w("panic");
                v.require(false, "between.panics", || format!("{xs:?} {x0} {x1}: {e}"));
            }
            Ok(t) => {
                check_series(&mut v, "between", &t);
                let tx = t.x.values();
                v.require(!tx.is_empty() && tx[0] == x0 && tx[tx.len() - 1] == x1, "between.ends_exactly_at_bounds", || format!("{xs:?} {x0} {x1} -> {tx:?}"));
                for k in 0..5 {
                    let x = x0 + (x1 - x0) * (k as f64) / 4.0;
                    let x = x.min(x1).max(x0);
                    let (a, b) = (t.interpolate(x), s.interpolate(x));
                    v.require((a - b).abs() <= 1e-9 * scale, "between.same_values_as_parent", || format!("{xs:?} {ys:?} [{x0},{x1}] at {x}: {a} vs {b}"));
                }
                o.w("some");
                ser_tok(&mut o, tx, &t.y);
            }
        }
        let mut i = Tok::new();
        ser_tok(&mut i, &xs, &ys);
        i.f(x0).f(x1);
        emit("series.between", &i, &o, &v);
    }
    // area and split
    {
        let a = s.area_under();
        let mut v = Verdict::new();
        let x = pick_x(rng);
        match guarded(|| s.split_at_x(x)) {
            Err(e) => v.require(false, "split.panics", || format!("{xs:?} {x}: {e}")),
            Ok((l, r)) => {
                if let (Some(l), Some(r)) = (&l, &r) {
                    check_series(&mut v, "split_left", l);
                    check_series(&mut v, "split_right", r);
                    v.require((l.area_under() + r.area_under() - a).abs() <= 1e-9 * scale * span.max(1.0), "split.areas_add_up", || format!("{xs:?} {ys:?} at {x}: {} + {} vs {a}", l.area_under(), r.area_under()));
                    v.require(l.x_max() == x && r.x_min() == x, "split.pieces_meet_at_x", || format!("{} {} {x}", l.x_max(), r.x_min()));
                } else {
                    v.require(false, "split.inside_gives_two_pieces", || format!("{x}"));
                }
            }
        }
        let mut i = Tok::new();
        ser_tok(&mut i, &xs, &ys);
        let mut o = Tok::new();
        o.f(a);
        emit("series.area", &i, &o, &v);
    }
    // level crossings
    {
        // ordinates on a coarse grid make segments that lie exactly on the level likely
        let ysg: Vec<f64> = if rng.chance(0.5) { (0..n).map(|_| rng.int(-2, 2) as f64).collect() } else { ys.clone() };
        let sg = Series1::try_new(xs.clone(), ysg.clone()).unwrap();
        let lv = if rng.chance(0.5) { *rng.pick(&ysg) } else { rng.range(-3.0, 3.0) };
        let r = guarded(|| sg.y_crossings(lv));
        let mut v = Verdict::new();
        let mut o = Tok::new();
        match r {
            Err(e) => {
                o.w("panic");
                v.require(false, "crossings.panics", || format!("{xs:?} {ysg:?} level {lv}: {e}"));
            }
            Ok(cs) => {
                let sc = ysg.iter().fold(1.0f64, |a, b| a.max(b.abs()));
                for c in &cs {
                    let y = ref_interp(&xs, &ysg, c.min(hi).max(lo));
                    v.require(c.is_finite() && (y - lv).abs() <= 1e-7 * sc, "crossings.sound", || format!("{xs:?} {ysg:?} level {lv}: x={c} y={y}"));
                }
                v.require(cs.windows(2).all(|w| w[0] < w[1]), "crossings.ascending", || format!("{cs:?}"));
                for k in 0..n - 1 {
                    let (y0, y1) = (ysg[k], ysg[k + 1]);
                    if (y0 < lv && lv < y1) || (y0 > lv && lv > y1) {
                        v.require(cs.iter().any(|c| *c >= xs[k] - 1e-9 && *c <= xs[k + 1] + 1e-9), "crossings.complete", || format!("{xs:?} {ysg:?} level {lv}: segment {k} missed, got {cs:?}"));
                    }
                }
                // a knot whose ordinate IS the level is an abscissa where the interpolant equals the level
                // (an isolated touch, or an end of a segment lying on the level - the last knot included)
                for k in 0..n {
                    if ysg[k] == lv {
                        let xk = xs[k];
                        v.require(cs.iter().any(|c| (*c - xk).abs() <= 1e-9 * (1.0 + xk.abs())), "crossings.knot_on_level_reported", || format!("{xs:?} {ysg:?} level {lv}: knot {k} (x={xk}) missing, got {cs:?}"));
                    }
                }
                o.flist(&cs);
            }
        }
        let mut i = Tok::new();
        ser_tok(&mut i, &xs, &ysg);
        i.f(lv);
        emit("series.crossings", &i, &o, &v);
    }
    // resampling
    {
        let k = rng.int(2, 12) as usize;
        let r = guarded(|| s.resampled_n(k));
        let mut v = Verdict::new();
        let mut o = Tok::new();
        match r {
            Err(e) => {
                o.w("panic");
                v.require(false, "resampled_n.panics", || e.clone());
            }
            Ok(t) => {
                check_series(&mut v, "resampled_n", &t);
                let tx = t.x.values();
                v.require(tx.len() == k, "resampled_n.count", || format!("{} vs {k}", tx.len()));
                v.require(tx[0] == lo && (tx[tx.len() - 1] - hi).abs() <= 1e-12 * span.max(1.0), "resampled_n.keeps_both_ends", || format!("{tx:?} vs [{lo},{hi}]"));
                for (x, y) in t.xys() {
                    let r = ref_interp(&xs, &ys, *x);
                    v.require((y - r).abs() <= 1e-9 * scale, "resampled_n.on_graph", || format!("{x}: {y} vs {r}"));
                }
                o.flist(tx);
                o.n(t.y.len());
                for y in &t.y {
                    if y.is_nan() { o.w("none"); } else { o.w("some").f(*y); }
                }
            }
        }
        let mut i = Tok::new();
        ser_tok(&mut i, &xs, &ys);
        i.n(k);
        emit("series.resample_n", &i, &o, &v);
    }
    // resampling by spacing: spacings from a hundredth of the span to several times the span
    if span > 0.0 {
        let sp = match rng.below(6) {
            0 => span * rng.range(2.0, 6.0),
            1 => span * rng.range(1.0, 2.0),
            2 => span / rng.int(1, 6) as f64,
            3 => span * rng.range(0.4, 0.7),
            _ => span * rng.range(0.01, 1.0),
        };
        let r = guarded(|| s.resampled_x(sp));
        let mut v = Verdict::new();
        let mut o = Tok::new();
        match r {
            Err(e) => {
                o.w("panic");
                v.require(false, "resampled_x.panics", || e.clone());
            }
            Ok(t) => {
                check_series(&mut v, "resampled_x", &t);
                let tx = t.x.values();
                v.require(tx.len() >= 2, "resampled_x.not_collapsed", || format!("{} point(s) for spacing {sp} over span {span}", tx.len()));
                if !tx.is_empty() {
                    v.require(tx[0] == lo && (tx[tx.len() - 1] - hi).abs() <= 1e-12 * span.max(1.0), "resampled_x.keeps_both_ends", || format!("{tx:?} vs [{lo},{hi}]"));
                }
                for (x, y) in t.xys() {
                    let r = ref_interp(&xs, &ys, *x);
                    v.require((y - r).abs() <= 1e-9 * scale, "resampled_x.on_graph", || format!("{x}: {y} vs {r}"));
                }
                o.flist(tx);
                o.n(t.y.len());
                for y in &t.y {
                    if y.is_nan() { o.w("none"); } else { o.w("some").f(*y); }
                }
            }
        }
        let mut i = Tok::new();
        ser_tok(&mut i, &xs, &ys);
        i.f(sp);
        emit("series.resample_x", &i, &o, &v);
    }
}

pub fn run(rng: &mut Rng, n: usize) {
    for _ in 0..n {
        case("series.case", "c17.library_call_panics", || domains(rng));
        case("series.case", "c17.library_call_panics", || series(rng));
    }
}
