//! C12 — mesh connectivity results are exact partitions and always terminate.
use crate::util::*;
use engeom::common::indices::chained_indices;
use engeom::geom3::{Mesh, Point3};
use engeom::raster3::clusters_from_sparse;
use std::collections::{BTreeMap, BTreeSet, HashSet};
use std::sync::mpsc;
use std::time::Duration;

/// run `f` on another thread; `None` = did not finish within the limit (the thread is abandoned)
fn with_watchdog<T: Send + 'static>(f: impl FnOnce() -> T + Send + 'static) -> Option<T> {
    let (tx, rx) = mpsc::channel();
    std::thread::spawn(move || {
        let r = f();
        let _ = tx.send(r);
    });
    rx.recv_timeout(Duration::from_secs(5)).ok()
}

fn hang(op: &str, i: &Tok, clause: &str) -> ! {
    let mut v = Verdict::new();
    v.require(false, clause, || "no result within 5 s".into());
    let mut o = Tok::new();
    o.w("timeout");
    emit_oracle_only(op, i, &o, &v);
    use std::io::Write;
    std::io::stdout().flush().ok();
    std::process::exit(0)
}

struct Uf(Vec<usize>);
impl Uf {
    fn new(n: usize) -> Self {
        Uf((0..n).collect())
    }
    fn find(&mut self, a: usize) -> usize {
        let mut a = a;
        while self.0[a] != a {
            self.0[a] = self.0[self.0[a]];
            a = self.0[a];
        }
        a
    }
    fn union(&mut self, a: usize, b: usize) {
        let (a, b) = (self.find(a), self.find(b));
        if a != b {
            self.0[a] = b;
        }
    }
}

fn key(a: u32, b: u32) -> (u32, u32) {
    (a.min(b), a.max(b))
}

fn verts_for(nv: usize, rng: &mut Rng) -> Vec<Point3> {
    (0..nv).map(|_| Point3::new(rng.range(-5.0, 5.0), rng.range(-5.0, 5.0), rng.range(-5.0, 5.0))).collect()
}

fn faces_tok(t: &mut Tok, faces: &[[u32; 3]]) {
    t.n(faces.len());
    for f in faces {
        t.n(f[0] as usize).n(f[1] as usize).n(f[2] as usize);
    }
}

fn rot_min(c: &[u32]) -> Vec<u32> {
    if c.is_empty() {
        return vec![];
    }
    let k = (0..c.len()).min_by_key(|i| c[*i]).unwrap();
    c[k..].iter().chain(c[..k].iter()).cloned().collect()
}

fn lists_tok(t: &mut Tok, ls: &[Vec<usize>]) {
    t.n(ls.len());
    for l in ls {
        t.nlist(l);
    }
}

pub fn check_mesh(faces: &[[u32; 3]], nv: usize, rng: &mut Rng, reps: usize) {
    let verts = verts_for(nv, rng);
    let mut i = Tok::new();
    faces_tok(&mut i, faces);
    // independent edge table
    let mut counts: BTreeMap<(u32, u32), usize> = BTreeMap::new();
    let mut directed = Vec::new();
    for f in faces {
        for (a, b) in [(f[1], f[2]), (f[2], f[0]), (f[0], f[1])] {
            *counts.entry(key(a, b)).or_insert(0) += 1;
            directed.push((a, b));
        }
    }
    let manifold = counts.values().all(|c| *c <= 2);
    let boundary: Vec<(u32, u32)> = directed.iter().filter(|(a, b)| counts[&key(*a, *b)] == 1).cloned().collect();
    let sources: BTreeSet<u32> = boundary.iter().map(|e| e.0).collect();
    let injective = sources.len() == boundary.len();
    let mut out_deg: BTreeMap<u32, i64> = BTreeMap::new();
    for (a, b) in &boundary {
        *out_deg.entry(*a).or_insert(0) += 1;
        *out_deg.entry(*b).or_insert(0) -= 1;
    }
    let balanced = out_deg.values().all(|d| *d == 0);

    let mut first_out: Option<String> = None;
    let mut v = Verdict::new();
    for _rep in 0..reps {
        let (fv, vv) = (faces.to_vec(), verts.clone());
        let r = with_watchdog(move || {
            guarded(|| {
                let mesh = Mesh::new(vv, fv, false);
                mesh.calc_edges().map(|e| (e.edges.clone(), e.edge_lengths.clone(), e.face_edges.clone(), e.boundary_loops.clone())).map_err(|e| e.to_string())
            })
        });
        let Some(r) = r else { hang("topo.edges", &i, "edges.terminates") };
        let mut o = Tok::new();
        match r {
            Err(p) => {
                o.w("panic");
                v.require(false, "edges.panics", || p.clone());
            }
            Ok(Err(_)) => {
                if manifold {
                    // rejected although edge-manifold: only legitimate when the boundary is inconsistently directed
                    v.require(!balanced, "edges.rejects_only_non_manifold_or_inconsistent", || format!("{faces:?}"));
                    o.w("ok-stuck");
                } else {
                    o.w("err");
                }
            }
            Ok(Ok((edges, lengths, face_edges, loops))) => {
                v.require(manifold, "edges.reject_iff_edge_shared_by_more_than_two", || format!("{faces:?}"));
                let want: Vec<[u32; 2]> = counts.keys().map(|k| [k.0, k.1]).collect();
                v.require(edges == want, "edges.each_undirected_edge_once", || format!("{faces:?} -> {edges:?}"));
                for (k, e) in edges.iter().enumerate() {
                    let d = (verts[e[0] as usize] - verts[e[1] as usize]).norm();
                    v.require((lengths[k] - d).abs() <= 1e-12 * (1.0 + d), "edges.length", || format!("{k}"));
                }
                for (fi, f) in faces.iter().enumerate() {
                    let es = [(f[1], f[2]), (f[2], f[0]), (f[0], f[1])];
                    for k in 0..3 {
                        let idx = face_edges[fi][k] as usize;
                        let kk = key(es[k].0, es[k].1);
                        v.require(idx < edges.len() && edges[idx] == [kk.0, kk.1], "edges.face_to_edges", || format!("{faces:?} face {fi} slot {k}"));
                    }
                }
                // loops: closed vertex cycles containing every boundary edge exactly once
                let mut used: BTreeMap<(u32, u32), usize> = BTreeMap::new();
                for l in &loops {
                    for k in 0..l.len() {
                        *used.entry(key(l[k], l[(k + 1) % l.len()])).or_insert(0) += 1;
                    }
                    v.require(l.len() >= 2, "loops.cycle_length", || format!("{l:?}"));
                }
                let bset: BTreeMap<(u32, u32), usize> = boundary.iter().map(|e| (key(e.0, e.1), 1)).collect();
                v.require(used == bset, "loops.every_boundary_edge_exactly_once", || format!("{faces:?} -> {loops:?}"));
                o.w("ok").n(edges.len());
                for e in &edges {
                    o.n(e[0] as usize).n(e[1] as usize);
                }
                o.n(face_edges.len());
                for fe in &face_edges {
                    o.n(fe[0] as usize).n(fe[1] as usize).n(fe[2] as usize);
                }
                if injective {
                    let mut ls: Vec<Vec<usize>> = loops.iter().map(|l| rot_min(l).iter().map(|x| *x as usize).collect()).collect();
                    ls.sort();
                    o.w("loops");
                    lists_tok(&mut o, &ls);
                } else {
                    let mut es: Vec<Vec<usize>> = used.keys().map(|k| vec![k.0 as usize, k.1 as usize]).collect();
                    es.sort();
                    o.w("pinch");
                    lists_tok(&mut o, &es);
                }
            }
        }
        match &first_out {
            None => first_out = Some(o.0.clone()),
            Some(f) => v.require(*f == o.0, "edges.same_answer_whatever_the_hash_order", || format!("{faces:?}: {f} vs {}", o.0)),
        }
    }
    let mut o = Tok::new();
    let fo = first_out.unwrap();
    // a manifold mesh whose boundary cannot be walked (inconsistent winding) is reported by the
    // model as "stuck"
    if fo == "ok-stuck" {
        let u: Vec<String> = vec![];
        let _ = u;
        o.w("stuck-case");
        emit_oracle_only("topo.edges", &i, &o, &v);
    } else {
        o.w(&fo);
        emit("topo.edges", &i, &o, &v);
    }

    // ---- patches
    let nf = faces.len();
    let mut uf = Uf::new(nf);
    let mut by_edge: BTreeMap<(u32, u32), Vec<usize>> = BTreeMap::new();
    for (fi, f) in faces.iter().enumerate() {
        for (a, b) in [(f[1], f[2]), (f[2], f[0]), (f[0], f[1])] {
            by_edge.entry(key(a, b)).or_default().push(fi);
        }
    }
    for fs in by_edge.values() {
        for w in fs.windows(2) {
            uf.union(w[0], w[1]);
        }
    }
    let mut v = Verdict::new();
    let mut first: Option<Vec<Vec<usize>>> = None;
    for _rep in 0..reps {
        let (fv, vv) = (faces.to_vec(), verts.clone());
        let r = with_watchdog(move || guarded(|| Mesh::new(vv, fv, false).get_patches()));
        let Some(r) = r else { hang("topo.patches", &i, "patches.terminates") };
        match r {
            Err(p) => v.require(false, "patches.panics", || p.clone()),
            Ok(ps) => {
                let mut seen = vec![0usize; nf];
                for p in &ps {
                    for f in p {
                        seen[*f] += 1;
                    }
                    for f in p {
                        v.require(uf.find(*f) == uf.find(p[0]), "patches.same_patch_implies_connected", || format!("{faces:?} -> {ps:?}"));
                    }
                }
                v.require(seen.iter().all(|c| *c == 1), "patches.every_face_in_exactly_one", || format!("{faces:?} -> {ps:?}"));
                let roots: BTreeSet<usize> = (0..nf).map(|f| uf.find(f)).collect();
                v.require(ps.len() == roots.len(), "patches.connected_implies_same_patch", || format!("{faces:?} -> {ps:?}"));
                let mut canon: Vec<Vec<usize>> = ps.iter().map(|p| { let mut q = p.clone(); q.sort(); q }).collect();
                canon.sort();
                match &first {
                    None => first = Some(canon),
                    Some(f) => v.require(*f == canon, "patches.same_answer_whatever_the_hash_order", || format!("{faces:?}: {f:?} vs {canon:?}")),
                }
            }
        }
    }
    let mut o = Tok::new();
    match first {
        Some(c) => lists_tok(&mut o, &c),
        None => {
            o.w("panic");
        }
    }
    emit("topo.patches", &i, &o, &v);
}

fn random_mesh(rng: &mut Rng) -> (Vec<[u32; 3]>, usize) {
    match rng.below(6) {
        // triangulated grid (disk), optionally with holes / flipped faces / a second component
        0 | 1 | 2 => {
            let nx = rng.int(2, 6) as usize;
            let ny = rng.int(2, 6) as usize;
            let mut faces = Vec::new();
            for j in 0..ny - 1 {
                for i in 0..nx - 1 {
                    let k = (j * nx + i) as u32;
                    let n = nx as u32;
                    faces.push([k, k + 1, k + n + 1]);
                    faces.push([k, k + n + 1, k + n]);
                }
            }
            let drop = rng.below(4);
            for _ in 0..drop {
                if faces.len() > 1 {
                    let k = rng.below(faces.len());
                    faces.remove(k);
                }
            }
            if rng.chance(0.3) {
                let k = rng.below(faces.len());
                faces[k].swap(1, 2);
            }
            let mut nv = nx * ny;
            if rng.chance(0.3) {
                let b = nv as u32;
                faces.push([b, b + 1, b + 2]);
                if rng.chance(0.5) {
                    faces.push([b + 2, b + 1, b + 3]);
                }
                nv += 4;
            }
            rng.shuffle(&mut faces);
            (faces, nv)
        }
        // tube (two boundary loops) or closed surface (box)
        3 => {
            let n = rng.int(3, 8) as u32;
            let mut faces = Vec::new();
            for i in 0..n {
                let k = (i + 1) % n;
                faces.push([i * 2, k * 2 + 1, i * 2 + 1]);
                faces.push([i * 2, k * 2, k * 2 + 1]);
            }
            rng.shuffle(&mut faces);
            (faces, 2 * n as usize)
        }
        // fans touching at a single vertex (bow ties)
        4 => {
            let k = rng.int(2, 4) as u32;
            let mut faces = Vec::new();
            for j in 0..k {
                faces.push([0, 1 + 2 * j, 2 + 2 * j]);
                if rng.chance(0.3) {
                    faces.push([1 + 2 * j, 20 + j, 2 + 2 * j]);
                }
            }
            (faces, 30)
        }
        _ => {
            let m = Mesh::create_box(1.0, 2.0, 3.0, false);
            let mut faces = m.faces().to_vec();
            let drop = rng.below(3);
            for _ in 0..drop {
                let k = rng.below(faces.len());
                faces.remove(k);
            }
            (faces, 8)
        }
    }
}

fn voxels(rng: &mut Rng) {
    let n = rng.int(0, 25) as usize;
    let span = rng.int(2, 5);
    let mut set: Vec<(i32, i32, i32)> = Vec::new();
    for _ in 0..n {
        let v = (rng.int(-span, span) as i32, rng.int(-span, span) as i32, if rng.chance(0.5) { 0 } else { rng.int(-1, 1) as i32 });
        if !set.contains(&v) {
            set.push(v);
        }
    }
    let mut i = Tok::new();
    i.n(set.len());
    for v in &set {
        i.n((v.0 + 100) as usize).n((v.1 + 100) as usize).n((v.2 + 100) as usize);
    }
    let code = |v: &(i32, i32, i32)| (((v.0 + 100) as usize) * 1000 + (v.1 + 100) as usize) * 1000 + (v.2 + 100) as usize;
    let mut uf = Uf::new(set.len());
    for a in 0..set.len() {
        for b in 0..a {
            let (p, q) = (set[a], set[b]);
            if (p.0 - q.0).abs() <= 1 && (p.1 - q.1).abs() <= 1 && (p.2 - q.2).abs() <= 1 {
                uf.union(a, b);
            }
        }
    }
    let mut v = Verdict::new();
    let mut first: Option<Vec<Vec<usize>>> = None;
    for _ in 0..3 {
        let hs: HashSet<(i32, i32, i32)> = set.iter().cloned().collect();
        let r = with_watchdog(move || clusters_from_sparse(hs));
        let Some(cs) = r else { hang("topo.clusters", &i, "clusters.terminates") };
        let mut seen: BTreeMap<(i32, i32, i32), usize> = BTreeMap::new();
        for c in &cs {
            for x in c {
                *seen.entry(*x).or_insert(0) += 1;
                let a = set.iter().position(|s| s == x);
                let b = set.iter().position(|s| *s == c[0]);
                v.require(a.is_some() && uf.find(a.unwrap()) == uf.find(b.unwrap()), "clusters.same_cluster_implies_26_connected", || format!("{set:?}"));
            }
        }
        v.require(seen.len() == set.len() && seen.values().all(|c| *c == 1), "clusters.every_voxel_exactly_once", || format!("{set:?} -> {cs:?}"));
        let roots: BTreeSet<usize> = (0..set.len()).map(|k| uf.find(k)).collect();
        v.require(cs.len() == roots.len(), "clusters.connected_implies_same_cluster", || format!("{set:?} -> {cs:?}"));
        let mut canon: Vec<Vec<usize>> = cs.iter().map(|c| { let mut q: Vec<usize> = c.iter().map(code).collect(); q.sort(); q }).collect();
        canon.sort();
        match &first {
            None => first = Some(canon),
            Some(f) => v.require(*f == canon, "clusters.same_answer_whatever_the_hash_order", || format!("{set:?}")),
        }
    }
    let mut o = Tok::new();
    lists_tok(&mut o, &first.unwrap());
    emit("topo.clusters", &i, &o, &v);
}

fn chains(rng: &mut Rng) {
    let n = rng.int(0, 9) as usize;
    let mut pairs: Vec<[u32; 2]> = Vec::new();
    match rng.below(3) {
        0 => {
            // a few disjoint chains / loops, shuffled
            let mut next = 0u32;
            while pairs.len() < n {
                let len = rng.int(1, 4) as u32;
                for k in 0..len {
                    pairs.push([next + k, next + k + 1]);
                }
                if rng.chance(0.3) && len >= 2 {
                    pairs.push([next + len, next]);
                }
                next += len + 2;
            }
            rng.shuffle(&mut pairs);
        }
        _ => {
            for _ in 0..n {
                let a = rng.below(6) as u32;
                let mut b = rng.below(6) as u32;
                if b == a {
                    b = (a + 1) % 6;
                }
                pairs.push([a, b]);
            }
        }
    }
    let mut i = Tok::new();
    i.n(pairs.len());
    for p in &pairs {
        i.n(p[0] as usize).n(p[1] as usize);
    }
    let pc = pairs.clone();
    let r = with_watchdog(move || guarded(|| chained_indices(&pc)));
    let Some(r) = r else { hang("topo.chained", &i, "chained.terminates") };
    let mut v = Verdict::new();
    let mut o = Tok::new();
    match r {
        Err(p) => {
            o.w("panic");
            v.require(false, "chained.panics", || p.clone());
        }
        Ok(chains) => {
            let mut used: BTreeMap<(u32, u32), i64> = BTreeMap::new();
            for p in &pairs {
                *used.entry((p[0], p[1])).or_insert(0) += 1;
            }
            for c in &chains {
                for w in c.windows(2) {
                    *used.entry((w[0], w[1])).or_insert(0) -= 1;
                }
            }
            v.require(used.values().all(|c| *c == 0), "chained.every_pair_exactly_once", || format!("{pairs:?} -> {chains:?}"));
            // maximal: no chain could have been continued by a unique unused pair — i.e. no chain END
            // is the unique start of another chain (and vice versa)
            for (a, ca) in chains.iter().enumerate() {
                let end = *ca.last().unwrap();
                let starts: Vec<usize> = (0..chains.len()).filter(|b| *b != a && chains[*b][0] == end).collect();
                let outgoing = pairs.iter().filter(|p| p[0] == end).count();
                let incoming = pairs.iter().filter(|p| p[1] == end).count();
                if starts.len() == 1 && outgoing == 1 && incoming == 1 {
                    v.require(false, "chained.chains_are_maximal", || format!("{pairs:?} -> {chains:?}: chain {a} ends at {end} where chain {} starts", starts[0]));
                }
            }
            let ls: Vec<Vec<usize>> = chains.iter().map(|c| c.iter().map(|x| *x as usize).collect()).collect();
            lists_tok(&mut o, &ls);
        }
    }
    emit("topo.chained", &i, &o, &v);
}

fn generators(rng: &mut Rng) {
    // box: closed, consistently wound, outward normals
    let (w, h, d) = (rng.range(0.1, 9.0), rng.range(0.1, 9.0), rng.range(0.1, 9.0));
    let m = Mesh::create_box(w, h, d, false);
    let mut v = Verdict::new();
    let c = Point3::new(w / 2.0, h / 2.0, d / 2.0);
    let mut dir: BTreeMap<(u32, u32), usize> = BTreeMap::new();
    for f in m.faces() {
        for (a, b) in [(f[0], f[1]), (f[1], f[2]), (f[2], f[0])] {
            *dir.entry((a, b)).or_insert(0) += 1;
        }
    }
    v.require(dir.iter().all(|((a, b), c)| *c == 1 && dir.get(&(*b, *a)) == Some(&1)), "box.closed_consistently_wound", || "".into());
    match m.get_face_normals() {
        Ok(ns) => {
            for (f, n) in m.faces().iter().zip(ns.iter()) {
                let ctr = (m.vertices()[f[0] as usize].coords + m.vertices()[f[1] as usize].coords + m.vertices()[f[2] as usize].coords) / 3.0;
                v.require(n.dot(&(ctr - c.coords)) > 0.0, "box.normals_outward", || format!("{f:?}"));
            }
        }
        Err(_) => v.require(false, "box.normals", || "".into()),
    }
    let mut o = Tok::new();
    o.n(m.faces().len());
    for f in m.faces() {
        o.n(f[0] as usize).n(f[1] as usize).n(f[2] as usize);
    }
    emit("topo.box", &Tok::new(), &o, &v);
    // cylinder
    let steps = rng.int(3, 40) as usize;
    let (r, hh) = (rng.range(0.1, 5.0), rng.range(0.1, 5.0));
    let m = Mesh::create_cylinder(r, hh, steps);
    let mut v = Verdict::new();
    let mut dir: BTreeMap<(u32, u32), usize> = BTreeMap::new();
    for f in m.faces() {
        for (a, b) in [(f[0], f[1]), (f[1], f[2]), (f[2], f[0])] {
            *dir.entry((a, b)).or_insert(0) += 1;
        }
    }
    v.require(dir.values().all(|c| *c == 1), "cylinder.consistently_wound", || format!("steps={steps}"));
    if let Ok(ns) = m.get_face_normals() {
        for (f, n) in m.faces().iter().zip(ns.iter()) {
            let ctr = (m.vertices()[f[0] as usize].coords + m.vertices()[f[1] as usize].coords + m.vertices()[f[2] as usize].coords) / 3.0;
            v.require(n.x * ctr.x + n.y * ctr.y > 0.0, "cylinder.normals_outward", || format!("steps={steps} {f:?}"));
        }
    }
    let mut i = Tok::new();
    i.n(steps);
    let mut o = Tok::new();
    o.n(m.faces().len());
    for f in m.faces() {
        o.n(f[0] as usize).n(f[1] as usize).n(f[2] as usize);
    }
    emit("topo.cylinder", &i, &o, &v);
}

/// exhaustive enumeration: all face lists of length 1..=maxf over `nv` vertices (ordered triples of
/// distinct vertices); the `slice`-th of `nslices` parts
pub fn exhaustive(rng: &mut Rng, nv: u32, maxf: usize, slice: usize, nslices: usize) {
    let mut tri = Vec::new();
    for a in 0..nv {
        for b in 0..nv {
            for c in 0..nv {
                if a != b && b != c && a != c {
                    tri.push([a, b, c]);
                }
            }
        }
    }
    let t = tri.len();
    let mut count = 0usize;
    for len in 1..=maxf {
        let total = t.pow(len as u32);
        for code in 0..total {
            count += 1;
            if count % nslices != slice {
                continue;
            }
            let mut c = code;
            let mut faces = Vec::new();
            for _ in 0..len {
                faces.push(tri[c % t]);
                c /= t;
            }
            check_mesh(&faces, nv as usize, rng, 2);
        }
    }
}

pub fn run(rng: &mut Rng, n: usize, slice: usize, nslices: usize, thorough: bool) {
    if thorough {
        case("topo.case", "c12.library_call_panics", || exhaustive(rng, 4, 4, slice, nslices));
        case("topo.case", "c12.library_call_panics", || exhaustive(rng, 5, 3, slice, nslices));
    } else {
        case("topo.case", "c12.library_call_panics", || exhaustive(rng, 4, 3, slice, nslices));
    }
    for _ in 0..n {
        let (faces, nv) = random_mesh(rng);
        case("topo.case", "c12.library_call_panics", || check_mesh(&faces, nv, rng, 4));
        // pinwheels: a central polygon fan whose boundary cycle consists ONLY of pinch vertices, each carrying a
        // petal (a side loop of its own); every boundary edge still belongs to exactly one loop
        if rng.chance(0.05) {
            let k = rng.int(3, 6) as u32; // corners of the central polygon 0..k, hub k
            let mut pw: Vec<[u32; 3]> = vec![];
            let hub_fan = k > 3 && rng.chance(0.5);
            if hub_fan {
                for c in 0..k { pw.push([k, c, (c + 1) % k]); }
            } else {
                for c in 1..k - 1 { pw.push([0, c, c + 1]); }
            }
            let mut next = k + 1;
            for c in 0..k {
                let petals = rng.int(1, 2) as u32;
                for _ in 0..petals {
                    pw.push([c, next, next + 1]);
                    next += 2;
                }
            }
            if rng.chance(0.5) { rng.shuffle(&mut pw); }
            case("topo.case", "c12.library_call_panics", || check_mesh(&pw, next as usize, rng, 4));
        }
        // the same connectivity on vertex ids far up the id space (ids straddling and beyond 2^16,
        // 2^17, 2^20): nothing in the edge table may depend on the ids being small
        if rng.chance(0.04) {
            let off = *rng.pick(&[65_530u32, 65_536, 70_000, 131_070, 200_000, 1_048_570]);
            let stride = *rng.pick(&[1u32, 1, 7]);
            let big: Vec<[u32; 3]> = faces.iter().map(|f| [f[0] * stride + off, f[1] * stride + off, f[2] * stride + off]).collect();
            let nvb = (nv as u32 * stride + off) as usize + 1;
            case("topo.case", "c12.library_call_panics", || check_mesh(&big, nvb, rng, 2));
        }
        case("topo.case", "c12.library_call_panics", || voxels(rng));
        case("topo.case", "c12.library_call_panics", || chains(rng));
        case("topo.case", "c12.library_call_panics", || generators(rng));
    }
}
