//! C11 — circle, arc and tangent constructions satisfy their defining constraints.
use crate::util::*;
use engeom::common::Intersection;
use engeom::geom2::{Arc2, Circle2, HasBounds2, Segment2};
use engeom::{Point2, Vector2};
use std::f64::consts::PI;

fn circ_tok(t: &mut Tok, c: &Circle2) {
    t.f(c.center.x).f(c.center.y).f(c.r());
}

fn circle_pairs(rng: &mut Rng) {
    // every relative position, incl. exact-grid tangencies (3-4-5 triangles, axis aligned)
    let grid = rng.chance(0.4);
    let g = |rng: &mut Rng| if grid { rng.int(-6, 6) as f64 / 2.0 } else { rng.range(-5.0, 5.0) };
    let c0 = Circle2::new(g(rng), g(rng), if grid { rng.int(1, 8) as f64 / 2.0 } else { rng.range(0.1, 4.0) });
    let r1 = if grid { rng.int(1, 8) as f64 / 2.0 } else { rng.range(0.1, 4.0) };
    let (ux, uy) = if grid { *rng.pick(&[(1.0, 0.0), (0.0, 1.0), (0.6, 0.8), (-0.8, 0.6), (-1.0, 0.0)]) } else { let a = rng.range(0.0, 2.0 * PI); (a.cos(), a.sin()) };
    let d = match rng.below(8) {
        0 => c0.r() + r1,                         // externally tangent
        1 => (c0.r() - r1).abs(),                 // internally tangent / concentric if equal
        2 => (c0.r() - r1).abs() * rng.unit(),    // nested
        3 => 0.0,                                 // concentric
        4 => c0.r() + r1 + rng.range(0.01, 3.0),  // separate
        _ => (c0.r() - r1).abs() + (c0.r() + r1 - (c0.r() - r1).abs()) * rng.unit(), // crossing
    };
    let c1 = Circle2::new(c0.center.x + ux * d, c0.center.y + uy * d, r1);
    let pts = c0.intersections_with(&c1);
    let dd = (c1.center - c0.center).norm();
    let (rs, rd) = (c0.r() + r1, (c0.r() - r1).abs());
    let scale = 1.0 + c0.r() + r1;
    let mut v = Verdict::new();
    v.require(pts.iter().all(|p| p.x.is_finite() && p.y.is_finite()), "cc.finite_coordinates", || format!("{c0:?} {c1:?} -> {pts:?}"));
    let m = 1e-6 * scale;
    if dd > rs + m || dd < rd - m || dd < 1e-12 {
        v.require(pts.is_empty(), "cc.none_when_separate_nested_or_concentric", || format!("d={dd} rs={rs} rd={rd} -> {}", pts.len()));
    } else if dd < rs - m && dd > rd + m {
        v.require(pts.len() == 2, "cc.two_when_crossing", || format!("d={dd} rs={rs} rd={rd} -> {}", pts.len()));
    } else if grid && (dd == rs || dd == rd) && dd > 0.0 {
        v.require(pts.len() == 1, "cc.one_when_tangent", || format!("d={dd} rs={rs} rd={rd} -> {}", pts.len()));
    }
    for p in &pts {
        if p.x.is_finite() {
            // near tangency the intersection moves like sqrt(eps): loose there
            let slack = if (dd - rs).abs() < 1e-3 * scale || (dd - rd).abs() < 1e-3 * scale { 1e-5 * scale } else { 1e-9 * scale };
            v.require(c0.distance_to(p).abs() <= slack && c1.distance_to(p).abs() <= slack, "cc.points_on_both_circles", || format!("d={dd} rs={rs} rd={rd}: {} {}", c0.distance_to(p), c1.distance_to(p)));
        }
    }
    let sym = c1.intersections_with(&c0);
    v.require(sym.len() == pts.len(), "cc.symmetric_count", || format!("{} vs {}", sym.len(), pts.len()));
    let mut i = Tok::new();
    circ_tok(&mut i, &c0);
    circ_tok(&mut i, &c1);
    let mut o = Tok::new();
    o.n(pts.len());
    for p in &pts {
        o.f(p.x).f(p.y);
    }
    // at (near-)tangency the count is decided by rounding in the tolerance test: not compared
    let near_tangent = ((dd - rs).abs() - 1e-10).abs() < 1e-12 || ((dd - rd).abs() - 1e-10).abs() < 1e-12 || (!grid && ((dd - rs).abs() < 1e-8 || (dd - rd).abs() < 1e-8));
    if near_tangent {
        emit_oracle_only("circle.cc", &i, &o, &v);
    } else {
        emit("circle.cc", &i, &o, &v);
    }
    // interval form never panics and is consistent with the points
    let iv = guarded(|| c0.intersection_interval(c1));
    let mut v = Verdict::new();
    match iv {
        Err(e) => v.require(false, "cc.interval_panics", || e.clone()),
        Ok(r) => {
            v.require(r.is_some() == !pts.is_empty(), "cc.interval_iff_points", || "".into());
            // with two crossings the interval is the arc of the first circle cut off by the second: it ends at the
            // two crossing points and holds the direction of the second centre; a point of it is inside the second circle
            if let (Some(iv), true, false) = (r, pts.len() == 2, near_tangent) {
                let slack = 1e-7;
                let ang = |p: &Point2| c0.angle_of_point(p);
                let holds = |a: f64| iv.contains(a) || iv.contains(a + slack) || iv.contains(a - slack);
                v.require(holds(ang(&pts[0])) && holds(ang(&pts[1])), "cc.interval_ends_at_the_crossings", || format!("{iv:?} vs {:?} {:?}", ang(&pts[0]), ang(&pts[1])));
                v.require(iv.contains(ang(&c1.center)), "cc.interval_holds_direction_of_other_centre", || format!("{iv:?} vs {}", ang(&c1.center)));
                let mid = c0.point_at_angle(iv.at_fraction(0.5));
                v.require((mid - c1.center).norm() < c1.r() + 1e-9 * (1.0 + c1.r()), "cc.interval_midpoint_inside_other_circle", || format!("{iv:?}: {} vs r {}", (mid - c1.center).norm(), c1.r()));
            }
        }
    }
    emit_oracle_only("circle.cc_interval", &Tok::new(), &Tok::new(), &v);
}

/// Tangents from a point EXACTLY on the circle (lattice points of an integer circle: the distance to the centre is the
/// radius bit for bit) — there is no tangent from a point that is not outside, the answer is `None` — and outer tangents
/// of circles that touch internally (integer centres and radii, |c0 c1| = |r0 − r1| exactly): no panic, no segments.
fn tangents_on_the_circle(rng: &mut Rng) {
    let k = *rng.pick(&[1.0, 2.0, 0.5]);
    let (cx, cy) = (rng.int(-5, 5) as f64, rng.int(-5, 5) as f64);
    let on: [(f64, f64); 12] = [(5., 0.), (-5., 0.), (0., 5.), (0., -5.), (3., 4.), (-3., 4.), (3., -4.), (-3., -4.), (4., 3.), (-4., 3.), (4., -3.), (-4., -3.)];
    let c = Circle2::new(cx, cy, 5.0 * k);
    let q = *rng.pick(&on);
    let p = Point2::new(cx + k * q.0, cy + k * q.1);
    let mut v = Verdict::new();
    match guarded(|| c.tangent_points_to(&p)) {
        Err(e) => v.require(false, "tangent.panics", || e.clone()),
        Ok(r) => v.require(r.is_none(), "tangent.none_from_a_point_on_the_circle", || format!("{p:?} on centre ({cx},{cy}) r={}: {r:?}", 5.0 * k)),
    }
    // internally tangent: centres d apart, radii r and r + d
    let (r0, d) = (rng.int(1, 4) as f64, rng.int(1, 3) as f64);
    let dir = *rng.pick(&[(1.0, 0.0), (0.0, 1.0), (-1.0, 0.0), (0.6, 0.8), (-0.8, 0.6)]);
    let (a, b) = (Circle2::new(cx, cy, r0), Circle2::new(cx + 5.0 * d * dir.0, cy + 5.0 * d * dir.1, r0 + 5.0 * d));
    for (x, y, what) in [(&a, &b, "small in large"), (&b, &a, "large around small")] {
        match guarded(|| x.outer_tangents_to(y)) {
            Err(e) => v.require(false, "outer_tangents.panics", || format!("internally tangent circles ({what}): {e}")),
            Ok(r) => v.require(r.is_none(), "outer_tangents.none_for_internally_tangent_circles", || format!("{what}: {:?} r={} and {:?} r={}", x.center, x.r(), y.center, y.r())),
        }
    }
    emit_oracle_only("circle.tangent_exact", &Tok::new(), &Tok::new(), &v);
}

fn tangents(rng: &mut Rng) {
    let c = Circle2::new(rng.range(-5.0, 5.0), rng.range(-5.0, 5.0), rng.range(0.1, 4.0));
    let ratio = match rng.below(6) {
        0 => 1.0 + 1e-9,
        1 => 1.0 + rng.unit() * 1e-3,
        2 => 2f64.sqrt(),
        3 => 10f64.powf(rng.range(0.0, 6.0)),
        4 => rng.range(0.0, 1.0),
        _ => rng.range(1.0, 5.0),
    };
    let a = rng.range(0.0, 2.0 * PI);
    let p = Point2::new(c.center.x + c.r() * ratio * a.cos(), c.center.y + c.r() * ratio * a.sin());
    let r = c.tangent_points_to(&p);
    let d = (p - c.center).norm();
    let mut v = Verdict::new();
    let mut o = Tok::new();
    match r {
        None => {
            v.require(d <= c.r() * (1.0 + 1e-12), "tangent.none_only_inside", || format!("d/r={}", d / c.r()));
            o.w("none");
        }
        Some((t0, t1)) => {
            for t in [t0, t1] {
                v.require(c.distance_to(&t).abs() <= 1e-9 * (1.0 + c.r()), "tangent.point_on_circle", || format!("{}", c.distance_to(&t)));
                let (rad, tan) = ((t - c.center).normalize(), p - t);
                if tan.norm() > 1e-6 * c.r() {
                    v.require(rad.dot(&tan.normalize()).abs() <= 1e-6, "tangent.line_perpendicular_to_radius", || format!("d/r={} cos={}", d / c.r(), rad.dot(&tan.normalize())));
                }
            }
            o.w("some").f(t0.x).f(t0.y).f(t1.x).f(t1.y);
        }
    }
    let mut i = Tok::new();
    circ_tok(&mut i, &c);
    i.f(p.x).f(p.y);
    emit("circle.tangent", &i, &o, &v);

    // outer tangents
    let c1 = Circle2::new(rng.range(-5.0, 5.0), rng.range(-5.0, 5.0), if rng.chance(0.2) { c.r() } else { rng.range(0.1, 4.0) });
    let mut v = Verdict::new();
    match guarded(|| c.outer_tangents_to(&c1)) {
        Err(e) => v.require(false, "outer_tangents.panics", || e.clone()),
        Ok(None) => v.require((c1.center - c.center).norm() <= (c.r() - c1.r()).abs() + 1e-9, "outer_tangents.none_only_when_one_inside_the_other", || "".into()),
        Ok(Some((s0, s1))) => {
            let dd = (c1.center - c.center).norm();
            // exists only if neither circle contains the other
            if dd > (c.r() - c1.r()).abs() + 1e-6 {
                for (k, s) in [s0, s1].iter().enumerate() {
                    let dir = (s.b - s.a).normalize();
                    let dist_line = |q: &Point2| (dir.x * (q.y - s.a.y) - dir.y * (q.x - s.a.x)).abs();
                    let sc = 1.0 + c.r() + c1.r() + dd;
                    v.require((dist_line(&c.center) - c.r()).abs() <= 1e-7 * sc && (dist_line(&c1.center) - c1.r()).abs() <= 1e-7 * sc, "outer_tangents.tangent_to_both", || format!("seg {k}: {} vs {}, {} vs {}", dist_line(&c.center), c.r(), dist_line(&c1.center), c1.r()));
                    v.require(c.distance_to(&s.a).abs() <= 1e-7 * sc && c1.distance_to(&s.b).abs() <= 1e-7 * sc, "outer_tangents.touch_points_on_circles", || format!("seg {k}: {} {}", c.distance_to(&s.a), c1.distance_to(&s.b)));
                    // outer: both centres on the same side
                    let side = |q: &Point2| dir.x * (q.y - s.a.y) - dir.y * (q.x - s.a.x);
                    v.require(side(&c.center) * side(&c1.center) > 0.0, "outer_tangents.centres_same_side", || format!("seg {k}"));
                }
                // documented order: first on the left of the direction self -> other, second on the right
                let axis = (c1.center - c.center).normalize();
                let left = |q: &Point2| axis.x * (q.y - c.center.y) - axis.y * (q.x - c.center.x);
                // (equal radii take a separate code path, judged under its own clause)
                let clause = if (c.r() - c1.r()).abs() < 1e-10 { "outer_tangents.left_right_order_equal_radii" } else { "outer_tangents.left_right_order" };
                v.require(left(&s0.a) > 0.0 && left(&s1.a) < 0.0, clause, || format!("{} {}", left(&s0.a), left(&s1.a)));
            }
        }
    }
    emit_oracle_only("circle.outer_tangents", &Tok::new(), &Tok::new(), &v);
}

fn lines(rng: &mut Rng) {
    let grid = rng.chance(0.3);
    let c = if grid { Circle2::new(rng.int(-4, 4) as f64, rng.int(-4, 4) as f64, rng.int(1, 5) as f64) } else { Circle2::new(rng.range(-5.0, 5.0), rng.range(-5.0, 5.0), rng.range(0.1, 4.0)) };
    let a = rng.range(0.0, 2.0 * PI);
    let dir = if grid { *rng.pick(&[Vector2::new(1.0, 0.0), Vector2::new(0.0, 2.0), Vector2::new(3.0, 4.0)]) } else { Vector2::new(a.cos(), a.sin()) * rng.range(0.2, 5.0) };
    let nrm = Vector2::new(-dir.y, dir.x).normalize();
    let off = match rng.below(5) {
        0 => c.r(),
        1 => 0.0,
        2 => c.r() * rng.range(1.0, 3.0),
        _ => c.r() * rng.range(-1.0, 1.0),
    };
    let origin = c.center + nrm * off + dir * rng.range(-3.0, 3.0);
    // intersection_line_circle is private; it is reached through the segment variant with a long
    // segment centred on the foot point, so that every hit of the LINE lies on the segment
    let span = 4.0 + (c.r() + off.abs() + 1.0) / dir.norm() * 2.0;
    let (sa, sb) = (origin - dir * span, origin + dir * span);
    let Ok(seg) = Segment2::try_new(sa, sb) else { return };
    let ps: Vec<Point2> = c.intersection(&seg);
    let mut v = Verdict::new();
    let sc = 1.0 + c.r();
    v.require(ps.iter().all(|p| p.x.is_finite() && p.y.is_finite()), "line_circle.finite", || format!("{ps:?}"));
    for p in &ps {
        let slack = if (off.abs() - c.r()).abs() < 1e-3 * sc { 1e-4 * sc } else { 1e-8 * sc };
        v.require(c.distance_to(p).abs() <= slack, "line_circle.points_on_circle", || format!("off={off} r={}: {}", c.r(), c.distance_to(p)));
        let t = (p - seg.a).dot(&(seg.b - seg.a)) / (seg.b - seg.a).norm_squared();
        v.require(t >= -1e-9 && t <= 1.0 + 1e-9, "segment_circle.points_on_segment", || format!("{t}"));
        let dl = (dir.x * (p.y - origin.y) - dir.y * (p.x - origin.x)).abs() / dir.norm();
        v.require(dl <= 1e-8 * sc * (1.0 + span), "line_circle.points_on_line", || format!("{dl:e}"));
    }
    let m = 1e-6 * sc;
    if off.abs() > c.r() + m {
        v.require(ps.is_empty(), "line_circle.none_when_missing", || format!("{}", ps.len()));
    } else if off.abs() < c.r() - m {
        v.require(ps.len() == 2, "line_circle.two_when_through", || format!("{}", ps.len()));
    } else if grid && off.abs() == c.r() {
        v.require(ps.len() == 1, "line_circle.one_when_tangent", || format!("{}", ps.len()));
    }
    // a short segment only reports the hits that lie on it
    if let Ok(short) = Segment2::try_new(origin, origin + dir) {
        for p in c.intersection(&short) {
            let t = (p - short.a).dot(&(short.b - short.a)) / (short.b - short.a).norm_squared();
            v.require(t >= -1e-9 && t <= 1.0 + 1e-9, "segment_circle.points_on_segment", || format!("{t}"));
        }
    }
    let mut i = Tok::new();
    i.f(sa.x).f(sa.y).f(sb.x).f(sb.y);
    circ_tok(&mut i, &c);
    let mut o = Tok::new();
    o.n(ps.len());
    for p in &ps {
        o.f(p.x).f(p.y);
    }
    if ((off.abs() - c.r()).abs() - 1e-10).abs() < 1e-11 || (!grid && (off.abs() - c.r()).abs() < 1e-8) {
        emit_oracle_only("circle.segment", &i, &o, &v);
    } else {
        emit("circle.segment", &i, &o, &v);
    }
}

fn arcs(rng: &mut Rng) {
    // three points in general position
    let c = Point2::new(rng.range(-5.0, 5.0), rng.range(-5.0, 5.0));
    let r = rng.range(0.2, 5.0);
    let mut angs = [rng.range(0.0, 2.0 * PI), rng.range(0.0, 2.0 * PI), rng.range(0.0, 2.0 * PI)];
    while (angs[0] - angs[1]).abs() < 0.2 || (angs[1] - angs[2]).abs() < 0.2 || (angs[0] - angs[2]).abs() < 0.2 {
        angs = [rng.range(0.0, 2.0 * PI), rng.range(0.0, 2.0 * PI), rng.range(0.0, 2.0 * PI)];
    }
    let p: Vec<Point2> = angs.iter().map(|a| Point2::new(c.x + r * a.cos(), c.y + r * a.sin())).collect();
    let mut v = Verdict::new();
    let mut o = Tok::new();
    match guarded(|| Arc2::three_points(p[0], p[1], p[2])) {
        Err(e) => {
            v.require(false, "three_points.panics", || e.clone());
            o.w("none");
        }
        Ok(arc) => {
            let sc = 1.0 + r;
            v.require((arc.center() - c).norm() <= 1e-7 * sc && (arc.radius() - r).abs() <= 1e-7 * sc, "three_points.circle_through_all_three", || format!("{:?} {}", arc.center(), arc.radius()));
            v.require((arc.start() - p[0]).norm() <= 1e-7 * sc, "three_points.starts_at_first", || "".into());
            v.require((arc.end() - p[2]).norm() <= 1e-7 * sc, "three_points.ends_at_third", || format!("{:?} vs {:?}", arc.end(), p[2]));
            // passes through the second point: its angular position lies inside the sweep
            let a1 = arc.circle.angle_of_point(&p[1]);
            let rel = if arc.angle >= 0.0 { engeom::common::angle_to_2pi(a1 - arc.angle0) } else { engeom::common::angle_to_2pi(arc.angle0 - a1) };
            v.require(rel <= arc.angle.abs() + 1e-9, "three_points.passes_through_second", || format!("rel={rel} sweep={}", arc.angle));
            // sweep sign = orientation of the triple
            let orient = (p[1].x - p[0].x) * (p[2].y - p[0].y) - (p[1].y - p[0].y) * (p[2].x - p[0].x);
            v.require((arc.angle > 0.0) == (orient > 0.0), "three_points.sweep_sign_is_orientation", || format!("{} {}", arc.angle, orient));
            o.w("some").f(arc.center().x).f(arc.center().y).f(arc.radius()).f(arc.angle0).f(arc.angle);
        }
    }
    let mut i = Tok::new();
    for q in &p {
        i.f(q.x).f(q.y);
    }
    emit("circle.three", &i, &o, &v);

    // arcs with any centre, start angle and signed sweep up to ±2π
    let circle = Circle2::new(rng.range(-5.0, 5.0), rng.range(-5.0, 5.0), rng.range(0.2, 5.0));
    let a0 = match rng.below(3) {
        0 => *rng.pick(&[0.0, PI / 2.0, PI, -PI / 2.0, 3.0 * PI / 2.0]),
        _ => rng.range(-7.0, 7.0),
    };
    let sweep = match rng.below(4) {
        0 => *rng.pick(&[PI / 2.0, -PI / 2.0, PI, 2.0 * PI, -2.0 * PI]),
        _ => rng.range(-2.0 * PI, 2.0 * PI),
    };
    if sweep.abs() < 1e-3 {
        return;
    }
    let arc = Arc2::circle_angles(circle.center, circle.r(), a0, sweep);
    let fr = rng.unit();
    let mut v = Verdict::new();
    let sc = 1.0 + circle.r();
    v.require((arc.length() - circle.r() * sweep.abs()).abs() <= 1e-12 * sc, "arc.length", || "".into());
    v.require((arc.point_at_length(fr * arc.length()) - arc.point_at_fraction(fr)).norm() <= 1e-9 * sc, "arc.length_and_fraction_agree", || "".into());
    v.require((arc.point_at_fraction(1.0) - arc.end()).norm() <= 1e-9 * sc && (arc.point_at_fraction(0.0) - arc.start()).norm() <= 1e-12 * sc, "arc.fraction_ends", || "".into());
    let mut i = Tok::new();
    circ_tok(&mut i, &circle);
    i.f(a0).f(sweep).f(fr);
    let mut o = Tok::new();
    o.f(arc.length()).fs(arc.point_at_fraction(fr).coords.as_slice()).fs(arc.point_at_length(fr * arc.length()).coords.as_slice()).fs(arc.start().coords.as_slice()).fs(arc.end().coords.as_slice());
    emit("arc.points", &i, &o, &v);

    // bounding boxes: contain the arc and touch it on all four sides
    let bb = arc.aabb();
    let cb = circle.aabb();
    let mut v = Verdict::new();
    v.require((cb.mins.x - (circle.center.x - circle.r())).abs() < 1e-12 * sc && (cb.maxs.y - (circle.center.y + circle.r())).abs() < 1e-12 * sc, "circle_aabb.tight", || "".into());
    let (mut lo, mut hi) = (Point2::new(f64::MAX, f64::MAX), Point2::new(f64::MIN, f64::MIN));
    let m = 2000;
    for k in 0..=m {
        let q = arc.point_at_fraction(k as f64 / m as f64);
        v.require(q.x >= bb.mins.x - 1e-9 * sc && q.x <= bb.maxs.x + 1e-9 * sc && q.y >= bb.mins.y - 1e-9 * sc && q.y <= bb.maxs.y + 1e-9 * sc, "arc_aabb.contains_arc", || format!("a0={a0} sweep={sweep} k={k}"));
        lo = Point2::new(lo.x.min(q.x), lo.y.min(q.y));
        hi = Point2::new(hi.x.max(q.x), hi.y.max(q.y));
    }
    // sampled extent reaches the box up to the sampling resolution
    let res = circle.r() * (sweep.abs() / m as f64).powi(2) + 1e-9 * sc;
    v.require((lo.x - bb.mins.x).abs() <= res && (lo.y - bb.mins.y).abs() <= res && (hi.x - bb.maxs.x).abs() <= res && (hi.y - bb.maxs.y).abs() <= res, "arc_aabb.touches_all_four_sides", || format!("a0={a0} sweep={sweep}: box {:?} {:?} vs sampled {lo:?} {hi:?}", bb.mins, bb.maxs));
    let mut i = Tok::new();
    circ_tok(&mut i, &circle);
    i.f(a0).f(sweep);
    let mut o = Tok::new();
    o.f(cb.mins.x).f(cb.mins.y).f(cb.maxs.x).f(cb.maxs.y).f(bb.mins.x).f(bb.mins.y).f(bb.maxs.x).f(bb.maxs.y);
    emit("arc.aabb", &i, &o, &v);
}

/// "the cached bounding box of EVERY circle and arc": circles and arcs however they were obtained —
/// direct constructors, three points, a least-squares or RANSAC fit started from a guess elsewhere,
/// copies, arcs made from such circles
fn boxes_of_every_constructor(rng: &mut Rng) {
    use engeom::common::BestFit;
    let c = Point2::new(rng.range(-6.0, 6.0), rng.range(-6.0, 6.0));
    let r = rng.range(0.2, 5.0);
    let on = |a: f64| Point2::new(c.x + r * a.cos(), c.y + r * a.sin());
    let n = 5 + rng.below(20);
    let a0 = rng.range(0.0, 2.0 * PI);
    let span = rng.range(1.5, 2.0 * PI);
    let pts: Vec<Point2> = (0..n).map(|k| on(a0 + span * k as f64 / n as f64)).collect();
    let mut circles: Vec<(Circle2, &'static str)> = vec![(Circle2::new(c.x, c.y, r), "new"), (Circle2::from_point(c, r), "from_point")];
    if let Ok(k) = Circle2::from_3_points(pts[0], pts[n / 2], pts[n - 1]) {
        circles.push((k, "from_3_points"));
    }
    // a guess that is NOT the answer (centre and radius both off)
    let guess = Circle2::new(c.x + rng.range(-0.4, 0.4) * r, c.y + rng.range(-0.4, 0.4) * r, r * rng.range(0.6, 1.5));
    if let Ok(Ok(k)) = guarded(|| Circle2::fitting_circle(&pts, &guess, BestFit::All)) {
        circles.push((k, "fitting_circle(All)"));
    }
    if let Ok(Ok(k)) = guarded(|| Circle2::fitting_circle(&pts, &guess, BestFit::Gaussian(3.0))) {
        circles.push((k, "fitting_circle(Gaussian)"));
    }
    if let Ok(Ok(k)) = guarded(|| Circle2::ransac(&pts, 1e-6 * r, Some(50), None, None)) {
        circles.push((k, "ransac"));
    }
    let extra: Vec<(Circle2, &'static str)> = circles.iter().map(|(k, _)| (k.clone(), "clone")).collect();
    circles.extend(extra);
    let mut v = Verdict::new();
    for (k, how) in &circles {
        let sc = 1.0 + k.r() + k.center.coords.norm();
        let b = k.aabb();
        let ok = (b.mins.x - (k.center.x - k.r())).abs() <= 1e-9 * sc && (b.mins.y - (k.center.y - k.r())).abs() <= 1e-9 * sc
            && (b.maxs.x - (k.center.x + k.r())).abs() <= 1e-9 * sc && (b.maxs.y - (k.center.y + k.r())).abs() <= 1e-9 * sc;
        v.require(ok, "circle_aabb.every_circle_has_the_box_centre_plus_minus_radius", || format!("{how}: centre {:?} r {} box {:?} {:?}", k.center, k.r(), b.mins, b.maxs));
        // arcs made from it
        let (b0, sw) = (rng.range(-7.0, 7.0), rng.range(0.05, 2.0 * PI) * if rng.chance(0.5) { 1.0 } else { -1.0 });
        let start = k.point_at_angle(b0);
        // the point on the circle at an angle, and a point projected to the perimeter, are ON the circle in the stated direction
        v.require((k.distance_to(&start)).abs() <= 1e-9 * sc && (k.angle_of_point(&start) - b0).rem_euclid(2.0 * PI).min((b0 - k.angle_of_point(&start)).rem_euclid(2.0 * PI)) <= 1e-9, "circle.point_at_angle_is_on_the_circle_at_that_angle", || format!("{how}: angle {b0} -> {start:?}"));
        let off = Point2::new(k.center.x + rng.range(-2.0, 2.0) * k.r(), k.center.y + rng.range(-2.0, 2.0) * k.r());
        match k.project_point_to_perimeter(&off) {
            None => v.require((off - k.center).norm() < 1e-9, "circle.projection_to_perimeter_exists_off_centre", || format!("{off:?}")),
            Some(q) => {
                let (u, w) = ((q - k.center).normalize(), (off - k.center).normalize());
                v.require(k.distance_to(&q).abs() <= 1e-9 * sc && (u - w).norm() <= 1e-9, "circle.projection_to_perimeter_is_on_the_circle_towards_the_point", || format!("{how}: {off:?} -> {q:?}"));
            }
        }
        v.require(k.project_point_to_perimeter(&k.center).is_none(), "circle.centre_has_no_projection_to_perimeter", || format!("{how}"));
        let arcs: Vec<(Arc2, &'static str)> = vec![(k.to_arc(), "to_arc"), (k.to_partial_arc(b0, sw), "to_partial_arc"), (Arc2::circle_point_angle(k.center, k.r(), start, sw), "circle_point_angle")];
        for (arc, ahow) in &arcs {
            let bb = arc.aabb();
            let m = 600;
            let (mut lo, mut hi) = (Point2::new(f64::MAX, f64::MAX), Point2::new(f64::MIN, f64::MIN));
            for j in 0..=m {
                let q = arc.point_at_fraction(j as f64 / m as f64);
                lo = Point2::new(lo.x.min(q.x), lo.y.min(q.y));
                hi = Point2::new(hi.x.max(q.x), hi.y.max(q.y));
            }
            let res = k.r() * (2.0 * PI / m as f64).powi(2) + 1e-9 * sc;
            v.require(lo.x >= bb.mins.x - 1e-9 * sc && lo.y >= bb.mins.y - 1e-9 * sc && hi.x <= bb.maxs.x + 1e-9 * sc && hi.y <= bb.maxs.y + 1e-9 * sc, "arc_aabb.every_arc_inside_its_box", || format!("{how}.{ahow}: box {:?} {:?} vs extent {lo:?} {hi:?}", bb.mins, bb.maxs));
            v.require((lo.x - bb.mins.x).abs() <= res && (lo.y - bb.mins.y).abs() <= res && (hi.x - bb.maxs.x).abs() <= res && (hi.y - bb.maxs.y).abs() <= res, "arc_aabb.every_arc_touches_its_box", || format!("{how}.{ahow}: box {:?} {:?} vs extent {lo:?} {hi:?}", bb.mins, bb.maxs));
        }
    }
    emit_oracle_only("circle.boxes", &Tok::new(), &Tok::new(), &v);
}

/// a circle against a CURVE (`Intersection<&Circle2> for Curve2`): coarse polylines with spans much longer
/// than the circle, fine ones, circles of every size; the crossings of every span are decided here by the
/// quadratic of that span alone
fn curve_circle(rng: &mut Rng) {
    use engeom::geom2::Curve2;
    let n = *rng.pick(&[2usize, 3, 4, 6, 12, 40]);
    let ext = rng.range(2.0, 30.0);
    let mut pts: Vec<Point2> = Vec::new();
    match rng.below(3) {
        0 => {
            for _ in 0..n {
                pts.push(Point2::new(rng.range(-ext, ext), rng.range(-ext, ext)));
            }
        }
        1 => {
            // a closed polygon
            for k in 0..n.max(3) {
                let a = 2.0 * PI * k as f64 / n.max(3) as f64;
                pts.push(Point2::new(ext * a.cos(), 0.6 * ext * a.sin()));
            }
            pts.push(pts[0]);
        }
        _ => {
            for k in 0..n {
                pts.push(Point2::new(-ext + 2.0 * ext * k as f64 / (n - 1) as f64, rng.range(-1.0, 1.0)));
            }
        }
    }
    let Ok(curve) = Curve2::from_points(&pts, 1e-9, false) else { return };
    let v_ = curve.points().to_vec();
    // a circle centred near a point of the curve, small or large compared with the spans
    let k = rng.below(v_.len() - 1);
    let on = v_[k] + (v_[k + 1] - v_[k]) * rng.unit();
    let r = ext * 10f64.powf(rng.range(-2.0, 0.3));
    let c = Point2::new(on.x + rng.range(-1.0, 1.0) * r, on.y + rng.range(-1.0, 1.0) * r);
    let circle = Circle2::new(c.x, c.y, r);
    let mut expect = 0usize;
    let mut ambiguous = false;
    for w in v_.windows(2) {
        let d = w[1] - w[0];
        let f = w[0] - c;
        let (dd, fd, ff) = (d.norm_squared(), f.dot(&d), f.norm_squared() - r * r);
        let disc = fd * fd - dd * ff;
        if disc.abs() <= 1e-9 * (fd * fd + (dd * ff).abs()).max(1e-300) {
            ambiguous = true;
            continue;
        }
        if disc < 0.0 {
            continue;
        }
        for sg in [-1.0, 1.0] {
            let t = (-fd + sg * disc.sqrt()) / dd;
            if t.abs() < 1e-7 || (t - 1.0).abs() < 1e-7 {
                ambiguous = true;
            } else if t > 0.0 && t < 1.0 {
                expect += 1;
            }
        }
    }
    let mut v = Verdict::new();
    match guarded(|| curve.intersection(&circle)) {
        Err(e) => v.require(false, "curve_circle.panics", || e.clone()),
        Ok(got) => {
            let sc = 1.0 + ext + r;
            for p in &got {
                v.require(p.x.is_finite() && p.y.is_finite(), "curve_circle.finite_coordinates", || format!("{p:?}"));
                v.require(((p - c).norm() - r).abs() <= 1e-8 * sc, "curve_circle.points_on_the_circle", || format!("{p:?}: off by {:e}", (p - c).norm() - r));
                let dmin = v_.windows(2).map(|w| { let ab = w[1] - w[0]; let t = ((p - w[0]).dot(&ab) / ab.norm_squared()).clamp(0.0, 1.0); (p - (w[0] + ab * t)).norm() }).fold(f64::INFINITY, f64::min);
                v.require(dmin <= 1e-8 * sc, "curve_circle.points_on_the_curve", || format!("{p:?}: {dmin:e} from the curve"));
            }
            if !ambiguous {
                v.require(got.len() == expect, "curve_circle.every_crossing_of_every_span_reported", || format!("{} spans (longest {:.3}), circle radius {r:.3e}: {} crossings, {} reported", v_.len() - 1, v_.windows(2).map(|w| (w[1] - w[0]).norm()).fold(0.0, f64::max), expect, got.len()));
            }
        }
    }
    emit_oracle_only("circle.curve", &Tok::new(), &Tok::new(), &v);
}

/// Segments between lattice points of an integer circle of radius 5k: end points exactly ON the circle
/// (3-4-5 points), inside it, at its centre or outside it.  The number of hits is decided exactly in
/// integers (roots of `|u + t d|^2 = r^2` in [0, 1]); with coordinates this small a root that is not
/// exactly an end point is at least 1e-5 away from it, far outside the implementation's 1e-10 window.
fn lattice_chords(rng: &mut Rng) {
    let k = *rng.pick(&[1i64, 2, 4]);
    let (cx, cy) = (rng.int(-4, 4), rng.int(-4, 4));
    let r = 5 * k;
    let on: [(i64, i64); 12] = [(5, 0), (-5, 0), (0, 5), (0, -5), (3, 4), (-3, 4), (3, -4), (-3, -4), (4, 3), (-4, 3), (4, -3), (-4, -3)];
    let mut pick = |rng: &mut Rng| -> (i64, i64) {
        match rng.below(6) {
            0 | 1 | 2 => { let p = *rng.pick(&on); (p.0 * k, p.1 * k) }
            3 => (0, 0),
            4 => (rng.int(-3, 3) * k, rng.int(-3, 3) * k),
            _ => { let p = *rng.pick(&on); (p.0 * k + rng.int(-2, 6) * p.0.signum(), p.1 * k + rng.int(0, 6) * p.1.signum()) }
        }
    };
    let (ua, ub) = (pick(rng), pick(rng));
    if ua == ub { return; }
    let (dx, dy) = ((ub.0 - ua.0) as i128, (ub.1 - ua.1) as i128);
    let (ux, uy) = (ua.0 as i128, ua.1 as i128);
    let a = dx * dx + dy * dy;
    let b = 2 * (ux * dx + uy * dy);
    let c0 = ux * ux + uy * uy - (r as i128) * (r as i128);
    let disc = b * b - 4 * a * c0;
    let expected = if disc < 0 {
        0
    } else if disc == 0 {
        (-b >= 0 && -b <= 2 * a) as usize
    } else {
        // t- = (-b - s) / 2a, t+ = (-b + s) / 2a with s = sqrt(disc)
        let lo_ge0 = -b >= 0 && b * b >= disc;
        let lo_le1 = -b - 2 * a <= 0 || (b + 2 * a) * (b + 2 * a) <= disc;
        let hi_ge0 = b <= 0 || disc >= b * b;
        let hi_le1 = 2 * a + b >= 0 && disc <= (2 * a + b) * (2 * a + b);
        (lo_ge0 && lo_le1) as usize + (hi_ge0 && hi_le1) as usize
    };
    let c = Circle2::new(cx as f64, cy as f64, r as f64);
    let (sa, sb) = (Point2::new((cx + ua.0) as f64, (cy + ua.1) as f64), Point2::new((cx + ub.0) as f64, (cy + ub.1) as f64));
    let Ok(seg) = Segment2::try_new(sa, sb) else { return };
    let ps: Vec<Point2> = c.intersection(&seg);
    let mut v = Verdict::new();
    v.require(ps.len() == expected, "segment_circle.reports_exactly_the_hits_on_the_segment", || format!("{} vs {expected} for {sa:?}-{sb:?} on centre ({cx},{cy}) r={r}", ps.len()));
    for p in &ps {
        v.require(c.distance_to(p).abs() <= 1e-7 * r as f64, "line_circle.points_on_circle", || format!("{}", c.distance_to(p)));
        let t = (p - seg.a).dot(&(seg.b - seg.a)) / (seg.b - seg.a).norm_squared();
        v.require(t >= -1e-9 && t <= 1.0 + 1e-9, "segment_circle.points_on_segment", || format!("{t}"));
    }
    let mut i = Tok::new();
    i.f(sa.x).f(sa.y).f(sb.x).f(sb.y);
    circ_tok(&mut i, &c);
    let mut o = Tok::new();
    o.n(ps.len());
    for p in &ps {
        o.f(p.x).f(p.y);
    }
    if disc == 0 {
        emit_oracle_only("circle.segment", &i, &o, &v);
    } else {
        emit("circle.segment", &i, &o, &v);
    }
}

pub fn run(rng: &mut Rng, n: usize) {
    for _ in 0..n {
        for _ in 0..4 {
            case("circle.case", "c11.library_call_panics", || circle_pairs(rng));
            case("circle.case", "c11.library_call_panics", || tangents(rng));
            case("circle.case", "c11.library_call_panics", || lines(rng));
            case("circle.case", "c11.library_call_panics", || lattice_chords(rng));
            case("circle.case", "c11.library_call_panics", || tangents_on_the_circle(rng));
        }
        case("circle.case", "c11.library_call_panics", || arcs(rng));
        case("circle.case", "c11.library_call_panics", || boxes_of_every_constructor(rng));
        for _ in 0..3 {
            case("circle.case", "c11.library_call_panics", || curve_circle(rng));
        }
    }
}
