//! C05 — resampling, simplifying and gap filling stay on the curve and cover it all.
use crate::curves::*;
use crate::gen;
use crate::util::*;
use engeom::common::points::{fill_gaps, ramer_douglas_peucker};
use engeom::common::Resample;
use engeom::geom2::Curve2;
use engeom::geom3::Curve3;
use engeom::{Point2, Point3};

fn seg_dist2(p: &Point2, a: &Point2, b: &Point2) -> f64 {
    let ab = b - a;
    let l2 = ab.norm_squared();
    let t = if l2 > 0.0 { ((p - a).dot(&ab) / l2).clamp(0.0, 1.0) } else { 0.0 };
    (p - (a + ab * t)).norm()
}
fn poly_dist2(p: &Point2, pts: &[Point2]) -> f64 {
    pts.windows(2).map(|w| seg_dist2(p, &w[0], &w[1])).fold(f64::INFINITY, f64::min)
}
fn seg_dist3(p: &Point3, a: &Point3, b: &Point3) -> f64 {
    let ab = b - a;
    let l2 = ab.norm_squared();
    let t = if l2 > 0.0 { ((p - a).dot(&ab) / l2).clamp(0.0, 1.0) } else { 0.0 };
    (p - (a + ab * t)).norm()
}
fn poly_dist3(p: &Point3, pts: &[Point3]) -> f64 {
    pts.windows(2).map(|w| seg_dist3(p, &w[0], &w[1])).fold(f64::INFINITY, f64::min)
}

enum Mode {
    Count(usize),
    Spacing(f64),
    MaxSpacing(f64),
}

fn pick_mode(rng: &mut Rng, l: f64) -> Mode {
    match rng.below(3) {
        0 => Mode::Count(match rng.below(3) {
            0 => 2,
            1 => rng.int(3, 12) as usize,
            _ => rng.int(12, 500) as usize,
        }),
        1 => Mode::Spacing(match rng.below(5) {
            // a curve between one and two spacings long: exactly two samples fit
            4 => l / rng.range(1.05, 1.95),
            // the curve length is a whole number of spacings (exactly, or up to rounding of l / k and of
            // the accumulated positions): the leftover to be split between the two margins is zero or
            // one full spacing, the boundary of "centred with margins smaller than one spacing"
            0 => l / rng.int(2, 64) as f64,
            1 => {
                let s = *rng.pick(&[0.125, 0.25, 0.5, 1.0, 2.0, 0.1, 0.2, 0.3]);
                if l / s >= 2.0 && l / s <= 4000.0 { s } else { l / rng.int(2, 64) as f64 }
            }
            _ => l / rng.range(2.2, 60.0),
        }),
        _ => Mode::MaxSpacing(l / match rng.below(4) {
            0 => rng.int(1, 9) as f64,
            1 => rng.range(0.3, 1.0),
            _ => rng.range(1.0, 80.0),
        }),
    }
}

fn mode_tok(t: &mut Tok, m: &Mode) {
    match m {
        Mode::Count(n) => t.w("count").n(*n),
        Mode::Spacing(s) => t.w("spacing").f(*s),
        Mode::MaxSpacing(s) => t.w("maxspacing").f(*s),
    };
}

/// clauses common to 2-D and 3-D, expressed through closures
#[allow(clippy::too_many_arguments)]
fn judge(
    v: &mut Verdict, mode: &Mode, l: f64, tol: f64, closed: bool, n_new: usize, new_len: f64,
    off_curve: f64, first_gap: f64, last_gap: f64, front_len: f64, back_len: f64,
) {
    let scale = 1.0 + l;
    v.require(off_curve <= 1e-9 * scale, "resample.vertices_on_original", || format!("{off_curve:e}"));
    if !(closed && matches!(mode, Mode::Spacing(_))) {
        v.require(new_len <= l * (1.0 + 1e-9) + 1e-12, "resample.not_longer_than_original", || format!("{new_len} vs {l}"));
    }
    match mode {
        Mode::Count(n) => {
            // the closing sample can be swallowed by the tolerance de-duplication: within tol of the end
            v.require(first_gap <= 1e-9 * scale && last_gap <= tol + 1e-9 * scale, "resample_count.spans_first_to_last", || format!("{first_gap:e} {last_gap:e}"));
            if l / (*n as f64 - 1.0) > 100.0 * tol {
                v.require(n_new == *n, "resample_count.vertex_count", || format!("{n_new} vs {n}"));
            }
        }
        Mode::MaxSpacing(m) => {
            v.require(first_gap <= 1e-9 * scale && last_gap <= tol + 1e-9 * scale, "resample_max.spans_first_to_last", || format!("{first_gap:e} {last_gap:e}"));
            if n_new >= 2 && l / (n_new as f64 - 1.0) > 100.0 * tol && *m > 100.0 * tol {
                v.require(l / (n_new as f64 - 1.0) <= m * (1.0 + 1e-9), "resample_max.spacing_within_maximum", || format!("L={l} n={n_new} -> {} > {m}", l / (n_new as f64 - 1.0)));
                // and not wastefully many
                v.require(n_new <= (l / m).ceil() as usize + 1 || n_new == 2, "resample_max.count", || format!("L={l} m={m} n={n_new}"));
            }
        }
        Mode::Spacing(s) => {
            if *s <= 100.0 * tol {
                return;
            }
            // centred: equal margins, smaller than one spacing.  On a closed curve whose length is a whole
            // number of spacings the sample at L coincides with the sample at 0 and is merged into it by
            // the curve constructor: margins (0, 0) are then observed as (0, one spacing) - the same
            // evenly spaced point set around the loop
            let seam_merge = closed && front_len.abs() <= 1e-9 * scale && ((l - back_len) - s).abs() <= 1e-6 * s + 1e-9 * scale;
            v.require(seam_merge || (front_len - (l - back_len)).abs() <= 1e-9 * scale, "resample_spacing.equal_margins", || format!("front {front_len:e} back {:e}", l - back_len));
            v.require(front_len < *s * (1.0 + 1e-9) && front_len >= -1e-12, "resample_spacing.margin_smaller_than_spacing", || format!("{front_len:e} vs {s:e}"));
            if n_new >= 2 {
                let got = (back_len - front_len) / (n_new as f64 - 1.0);
                v.require((got - s).abs() <= 1e-6 * s + 1e-9 * scale, "resample_spacing.spacing_matches", || format!("{got:e} vs {s:e}"));
            }
        }
    }
}

fn resample2(rng: &mut Rng) {
    let Some((c, _, tol, _)) = gen::curve2(rng) else { return };
    let l = c.length();
    if l < 1000.0 * tol {
        return; // curves comparable in size to their own tolerance are not meaningful here
    }
    let mut mode = pick_mode(rng, l);
    // a closed curve cannot be represented by two samples (they coincide at the seam): such a
    // request is ill-posed and is rejected with an error; not generated
    if c.is_closed() {
        mode = match mode {
            Mode::Count(n) => Mode::Count(n.max(3)),
            Mode::MaxSpacing(m) => Mode::MaxSpacing(m.min(l / 2.01)),
            // (two samples centred on a ring that runs out and back along the same path fall on ONE point; found by
            // the thorough tier)
            Mode::Spacing(sp) if l / sp < 2.0 => Mode::Spacing(l / 2.5),
            m => m,
        };
    }
    let rm = match &mode {
        Mode::Count(n) => Resample::ByCount(*n),
        Mode::Spacing(s) => Resample::BySpacing(*s),
        Mode::MaxSpacing(s) => Resample::ByMaxSpacing(*s),
    };
    let r = guarded(|| c.resample(rm));
    let mut v = Verdict::new();
    let mut o = Tok::new();
    let mut i = Tok::new();
    curve2_state(&mut i, &c);
    mode_tok(&mut i, &mode);
    match r {
        Err(e) => {
            o.w("panic");
            v.require(false, "resample.panics", || format!("L={l} {e}"));
        }
        Ok(Err(e)) => {
            o.w("none");
            // samples at different arc lengths can coincide in space on a self-touching curve
            v.require(self_touching2(&c), "resample.fails", || format!("L={l} {e}"));
        }
        Ok(Ok(rc)) => {
            let off = rc.points().iter().map(|p| poly_dist2(p, c.points())).fold(0.0, f64::max);
            let fg = (rc.at_front().point() - c.at_front().point()).norm();
            let lg = (rc.at_back().point() - c.at_back().point()).norm();
            let mut fl = c.at_closest_to_point(&rc.at_front().point()).length_along();
            // on a closed curve a first sample sitting on the seam can be reported at length L; it was placed at 0
            if c.is_closed() && fl >= l - 1e-9 * (1.0 + l) {
                fl = 0.0;
            }
            // a closed curve resampled by spacing is re-closed by repeating its first vertex: the last
            // SAMPLE is the vertex before that
            let spacing_closed = c.is_closed() && matches!(mode, Mode::Spacing(_));
            let reclosed = spacing_closed && rc.points()[rc.count() - 1] == rc.points()[0];
            let last_sample = if reclosed { rc.points()[rc.count() - 2] } else { rc.at_back().point() };
            let mut bl = c.at_closest_to_point(&last_sample).length_along();
            // on a closed curve a last sample sitting on the seam is reported at length 0 by the
            // closest-point query; it was placed at length L
            if c.is_closed() && rc.count() >= 2 && bl <= 1e-9 * (1.0 + l) {
                bl = l;
            }
            let n_samples = if reclosed { rc.count() - 1 } else { rc.count() };
            // vertex counts and along-curve spacings are judged on curves that do not come back onto
            // themselves (there, two samples at different arc lengths can coincide in space and
            // closest-point is not the inverse of at_length); on-curve / span clauses always
            let simple = !self_touching2(&c);
            if !simple {
                v.require(off <= 1e-9 * (1.0 + l), "resample.vertices_on_original", || format!("{off:e}"));
                if !matches!(mode, Mode::Spacing(_)) {
                    v.require(fg <= 1e-9 * (1.0 + l) && lg <= tol + 1e-9 * (1.0 + l), "resample.spans_first_to_last", || format!("{fg:e} {lg:e}"));
                }
            }
            if simple {
                judge(&mut v, &mode, l, tol, c.is_closed(), n_samples, rc.length(), off, fg, lg, fl, bl);
            }
            if c.is_closed() && !matches!(mode, Mode::Spacing(_)) {
                v.require(rc.is_closed(), "resample.keeps_closedness", || "".into());
            }
            o.w("some");
            curve2_out(&mut o, &rc);
        }
    }
    if strictly_increasing(c.lengths()) {
        emit("curve.resample", &i, &o, &v);
    } else {
        emit_oracle_only("curve.resample", &i, &o, &v);
    }
}

/// closest-point length-along is only a faithful inverse on curves that do not come back to
/// themselves; the spacing clauses are judged on those
/// proper or touching intersection of two segments (orientation test with a relative tolerance)
fn segments_meet(a: &Point2, b: &Point2, c: &Point2, d: &Point2, eps: f64) -> bool {
    let o = |p: &Point2, q: &Point2, r: &Point2| (q - p).x * (r - p).y - (q - p).y * (r - p).x;
    let (d1, d2, d3, d4) = (o(c, d, a), o(c, d, b), o(a, b, c), o(a, b, d));
    let s = eps * ((b - a).norm() + (d - c).norm());
    let (lab, lcd) = ((b - a).norm().max(1e-300), (d - c).norm().max(1e-300));
    // signed distances of the end points from the other segment's line
    let (e1, e2, e3, e4) = (d1 / lcd, d2 / lcd, d3 / lab, d4 / lab);
    (e1 <= s && e2 >= -s || e1 >= -s && e2 <= s) && (e3 <= s && e4 >= -s || e3 >= -s && e4 <= s) && {
        // collinear overlap needs the projections to overlap as well
        let t = |p: &Point2| (p - a).dot(&(b - a)) / (lab * lab);
        let (tc, td) = (t(c), t(d));
        !(e3.abs() <= s && e4.abs() <= s) || (tc.min(td) <= 1.0 + eps && tc.max(td) >= -eps)
    }
}

fn self_touching2(c: &Curve2) -> bool {
    let p = c.points();
    let n = p.len();
    // any two non-adjacent edges that cross or touch
    for a in 0..n - 1 {
        for b in a + 2..n - 1 {
            if a == 0 && b == n - 2 && c.is_closed() {
                continue;
            }
            if segments_meet(&p[a], &p[a + 1], &p[b], &p[b + 1], 1e-9) {
                return true;
            }
        }
    }
    let eps = 1e-6 * (1.0 + c.length());
    // adjacent edges that double back (including across the seam of a closed curve)
    let mut adj: Vec<(usize, usize)> = (0..n - 2).map(|k| (k, k + 1)).collect();
    if c.is_closed() {
        adj.push((n - 2, 0));
    }
    for (a, b) in adj {
        let (u, w) = ((p[a + 1] - p[a]).normalize(), (p[b + 1] - p[b]).normalize());
        if u.dot(&w) < -0.99 {
            return true;
        }
    }
    for a in 0..n - 1 {
        for b in a + 2..n - 1 {
            if a == 0 && b == n - 2 && c.is_closed() {
                continue;
            }
            for k in 0..=8 {
                let q = p[a] + (p[a + 1] - p[a]) * (k as f64 / 8.0);
                if seg_dist2(&q, &p[b], &p[b + 1]) < eps {
                    return true;
                }
                let q = p[b] + (p[b + 1] - p[b]) * (k as f64 / 8.0);
                if seg_dist2(&q, &p[a], &p[a + 1]) < eps {
                    return true;
                }
            }
        }
    }
    false
}

fn self_touching3(c: &Curve3) -> bool {
    let p = c.points();
    let n = p.len();
    let eps = 1e-6 * (1.0 + c.length());
    for k in 0..n - 2 {
        if (p[k + 1] - p[k]).normalize().dot(&(p[k + 2] - p[k + 1]).normalize()) < -0.99 {
            return true;
        }
    }
    for a in 0..n - 1 {
        for b in a + 2..n - 1 {
            for k in 0..=8 {
                let q = p[a] + (p[a + 1] - p[a]) * (k as f64 / 8.0);
                if seg_dist3(&q, &p[b], &p[b + 1]) < eps {
                    return true;
                }
                let q = p[b] + (p[b + 1] - p[b]) * (k as f64 / 8.0);
                if seg_dist3(&q, &p[a], &p[a + 1]) < eps {
                    return true;
                }
            }
        }
    }
    false
}

fn resample3(rng: &mut Rng) {
    let Some((c, _, tol)) = gen::curve3(rng) else { return };
    let l = c.length();
    if l < 1000.0 * tol {
        return;
    }
    let mut mode = pick_mode(rng, l);
    // a ring (first vertex = last vertex) cannot be represented by two samples: ill-posed, not generated
    if (c.at_front().point() - c.at_back().point()).norm() <= tol {
        mode = match mode {
            Mode::Count(n) => Mode::Count(n.max(3)),
            Mode::MaxSpacing(m) => Mode::MaxSpacing(m.min(l / 2.01)),
            // (two samples centred on a ring that runs out and back along the same path fall on ONE point; found by
            // the thorough tier)
            Mode::Spacing(sp) if l / sp < 2.0 => Mode::Spacing(l / 2.5),
            m => m,
        };
    }
    let rm = match &mode {
        Mode::Count(n) => Resample::ByCount(*n),
        Mode::Spacing(s) => Resample::BySpacing(*s),
        Mode::MaxSpacing(s) => Resample::ByMaxSpacing(*s),
    };
    let r = guarded(|| c.resample(rm));
    let mut v = Verdict::new();
    let mut o = Tok::new();
    let mut i = Tok::new();
    curve3_state(&mut i, &c);
    mode_tok(&mut i, &mode);
    match r {
        Err(e) => {
            o.w("panic");
            v.require(false, "resample.panics", || format!("L={l} {e}"));
        }
        Ok(rc) => {
            let off = rc.points().iter().map(|p| poly_dist3(p, c.points())).fold(0.0, f64::max);
            let fg = (rc.at_front().point() - c.at_front().point()).norm();
            let lg = (rc.at_back().point() - c.at_back().point()).norm();
            if !matches!(mode, Mode::Spacing(_)) && !self_touching3(&c) && l > 1000.0 * tol {
                judge(&mut v, &mode, l, tol, false, rc.count(), rc.length(), off, fg, lg, 0.0, l);
            } else {
                v.require(off <= 1e-9 * (1.0 + l), "resample.vertices_on_original", || format!("{off:e}"));
            }
            o.w("some");
            curve3_out(&mut o, &rc);
        }
    }
    if strictly_increasing(c.lengths()) {
        emit("curve.resample", &i, &o, &v);
    } else {
        emit_oracle_only("curve.resample", &i, &o, &v);
    }
}

fn is_subsequence<T: PartialEq>(sub: &[T], full: &[T]) -> bool {
    let mut k = 0;
    for x in full {
        if k < sub.len() && sub[k] == *x {
            k += 1;
        }
    }
    k == sub.len()
}

fn simplify2(rng: &mut Rng) {
    let Some((c, _, _, _)) = gen::curve2(rng) else { return };
    let l = c.length();
    let e = l * 10f64.powf(rng.range(-4.0, -0.5));
    let r = guarded(|| c.simplify(e));
    let mut v = Verdict::new();
    let mut o = Tok::new();
    let mut i = Tok::new();
    curve2_state(&mut i, &c);
    i.f(e);
    match r {
        Err(p) => {
            o.w("panic");
            v.require(false, "simplify.panics", || format!("closed={} n={} {p}", c.is_closed(), c.count()));
        }
        Ok(sc) => {
            v.require((sc.at_front().point() - c.at_front().point()).norm() == 0.0 && (sc.at_back().point() - c.at_back().point()).norm() == 0.0, "simplify.keeps_both_ends", || "".into());
            v.require(sc.is_closed() == c.is_closed(), "simplify.keeps_closedness", || "".into());
            v.require(is_subsequence(sc.points(), c.points()), "simplify.subsequence_of_original", || "".into());
            for (k, p) in c.points().iter().enumerate() {
                let d = poly_dist2(p, sc.points());
                v.require(d <= e * (1.0 + 1e-9) + 1e-12, "simplify.discarded_within_tolerance", || format!("vertex {k}: {d:e} > {e:e}"));
            }
            o.w("some");
            curve2_out(&mut o, &sc);
        }
    }
    emit("curve.simplify", &i, &o, &v);
}

fn simplify3(rng: &mut Rng) {
    let Some((c, pts0, tol)) = gen::curve3(rng) else { return };
    // a third of the curves are built with a COARSE tolerance of their own (a hundredth to a tenth of their length):
    // the simplification tolerance is the one that is asked for, whatever the curve's
    let (c, tol) = if rng.chance(0.33) {
        let t = c.length() * 10f64.powf(rng.range(-2.0, -1.0));
        match Curve3::from_points(&pts0, t) {
            // (an open curve whose two END points lie within its own tolerance of each other is left out: `simplify`
            // returns a curve, not a Result, and when the reduction leaves only those two points the constructor
            // refuses them and the `unwrap` inside `simplify` panics — a limit of the signature, reachable at any
            // tolerance, that the property does not speak about; see DESIGN 8.20)
            Ok(k) if (k.at_front().point() - k.at_back().point()).norm() > 2.0 * t => (k, t),
            _ => (c, tol),
        }
    } else {
        (c, tol)
    };
    let l = c.length();
    let e = l * 10f64.powf(rng.range(-4.0, -0.5));
    let r = guarded(|| c.simplify(e));
    let mut v = Verdict::new();
    let mut o = Tok::new();
    let mut i = Tok::new();
    curve3_state(&mut i, &c);
    i.f(e);
    match r {
        Err(p) => {
            o.w("panic");
            v.require(false, "simplify.panics", || p.clone());
        }
        Ok(sc) => {
            v.require((sc.at_front().point() - c.at_front().point()).norm() == 0.0 && (sc.at_back().point() - c.at_back().point()).norm() == 0.0, "simplify.keeps_both_ends", || "".into());
            v.require(is_subsequence(sc.points(), c.points()), "simplify.subsequence_of_original", || "".into());
            v.require(sc.tol() == tol, "simplify.keeps_curve_tolerance", || format!("{} vs {tol}", sc.tol()));
            for (k, p) in c.points().iter().enumerate() {
                let d = poly_dist3(p, sc.points());
                v.require(d <= e * (1.0 + 1e-9) + 1e-12, "simplify.discarded_within_tolerance", || format!("vertex {k}: {d:e} > {e:e}"));
            }
            o.w("some");
            curve3_out(&mut o, &sc);
        }
    }
    emit("curve.simplify", &i, &o, &v);
}

fn rdp_and_gaps(rng: &mut Rng) {
    // RDP on raw point lists: zig-zags, doubling back, closed rings
    let n = rng.int(2, 14) as usize;
    let mut pts: Vec<Point2> = Vec::new();
    match rng.below(3) {
        0 => {
            for k in 0..n {
                pts.push(Point2::new(k as f64, if k % 2 == 0 { 0.0 } else { rng.range(-1.0, 1.0) }));
            }
        }
        1 => {
            // doubling back along one line
            let mut x = 0.0;
            for _ in 0..n {
                pts.push(Point2::new(x, 0.0));
                x += rng.range(-3.0, 5.0);
            }
        }
        _ => {
            for k in 0..n {
                let a = 6.283 * k as f64 / n as f64;
                pts.push(Point2::new(a.cos() * rng.range(0.8, 1.2), a.sin()));
            }
            pts.push(pts[0]);
        }
    }
    let e = 10f64.powf(rng.range(-3.0, 0.3));
    let r = guarded(|| ramer_douglas_peucker(&pts, e));
    let mut v = Verdict::new();
    let mut o = Tok::new();
    let mut i = Tok::new();
    i.w("2");
    pts2(&mut i, &pts);
    i.f(e);
    match r {
        Err(p) => {
            o.w("panic");
            v.require(false, "rdp.panics", || p.clone());
        }
        Ok(s) => {
            v.require(s.first() == pts.first() && s.last() == pts.last(), "rdp.keeps_both_ends", || "".into());
            v.require(is_subsequence(&s, &pts), "rdp.subsequence", || "".into());
            if s.len() >= 2 {
                for (k, p) in pts.iter().enumerate() {
                    let d = poly_dist2(p, &s);
                    v.require(d <= e * (1.0 + 1e-9) + 1e-12, "rdp.discarded_within_tolerance", || format!("{pts:?} e={e:e} -> {s:?}: vertex {k} is {d:e} away"));
                }
            }
            pts2(&mut o, &s);
        }
    }
    emit("curve.rdp", &i, &o, &v);

    // gap filling
    let maxd = match rng.below(3) {
        0 => rng.int(1, 8) as f64 / 4.0,
        _ => 10f64.powf(rng.range(-1.5, 0.7)),
    };
    let grid: Vec<Point2> = if rng.chance(0.5) { pts.iter().map(|p| Point2::new((p.x * 4.0).round() / 4.0, (p.y * 4.0).round() / 4.0)).collect() } else { pts.clone() };
    let r = guarded(|| fill_gaps(&grid, maxd));
    let mut v = Verdict::new();
    let mut o = Tok::new();
    let mut i = Tok::new();
    i.w("2");
    pts2(&mut i, &grid);
    i.f(maxd);
    match r {
        Err(p) => {
            o.w("panic");
            v.require(false, "fill_gaps.panics", || p.clone());
        }
        Ok(f) => {
            v.require(is_subsequence(&grid, &f), "fill_gaps.keeps_originals_in_order", || "".into());
            for w in f.windows(2) {
                let d = (w[1] - w[0]).norm();
                v.require(d <= maxd * (1.0 + 1e-9), "fill_gaps.no_gap_above_maximum", || format!("{d:e} > {maxd:e}"));
            }
            for p in &f {
                v.require(poly_dist2(p, &grid) <= 1e-9 * 20.0, "fill_gaps.inserted_on_segments", || "".into());
            }
            pts2(&mut o, &f);
        }
    }
    emit("curve.fill_gaps", &i, &o, &v);
}

/// gaps that are long in units of the maximum (a 5 m edge filled to a millimetre): thousands of points
/// go into one gap; every step must still be at most the maximum
fn long_gaps(rng: &mut Rng) {
    let ratio = 10f64.powf(rng.range(1.0, 4.2));
    let maxd = 10f64.powf(rng.range(-4.0, 0.5));
    let len = ratio * maxd;
    let a = rng.range(0.0, 6.283);
    let mut v = Verdict::new();
    if rng.chance(0.5) {
        let p0 = Point2::new(rng.range(-3.0, 3.0), rng.range(-3.0, 3.0));
        let p1 = Point2::new(p0.x + len * a.cos(), p0.y + len * a.sin());
        let p2 = Point2::new(p1.x + 0.4 * maxd, p1.y);
        let pts = vec![p0, p1, p2];
        match guarded(|| fill_gaps(&pts, maxd)) {
            Err(e) => v.require(false, "fill_gaps.panics", || e.clone()),
            Ok(f) => {
                let worst = f.windows(2).map(|w| (w[1] - w[0]).norm()).fold(0.0, f64::max);
                v.require(worst <= maxd * (1.0 + 1e-9), "fill_gaps.no_gap_above_maximum_on_long_gaps", || format!("gap {len:e} filled to {maxd:e} (ratio {ratio:.1}): largest step {worst:e}, {} points", f.len()));
                v.require(is_subsequence(&pts, &f), "fill_gaps.keeps_originals_in_order", || "".into());
                v.require((f.len() as f64) <= 2.0 * ratio + 8.0, "fill_gaps.no_more_points_than_needed_twice_over", || format!("{} points for ratio {ratio:.1}", f.len()));
            }
        }
    } else {
        let p0 = Point3::new(rng.range(-3.0, 3.0), rng.range(-3.0, 3.0), rng.range(-3.0, 3.0));
        let p1 = Point3::new(p0.x + len * a.cos() * 0.8, p0.y + len * a.sin() * 0.8, p0.z + len * 0.6);
        let pts = vec![p0, p1];
        match guarded(|| fill_gaps(&pts, maxd)) {
            Err(e) => v.require(false, "fill_gaps.panics", || e.clone()),
            Ok(f) => {
                let worst = f.windows(2).map(|w| (w[1] - w[0]).norm()).fold(0.0, f64::max);
                v.require(worst <= maxd * (1.0 + 1e-9), "fill_gaps.no_gap_above_maximum_on_long_gaps", || format!("3-D gap {len:e} filled to {maxd:e} (ratio {ratio:.1}): largest step {worst:e}, {} points", f.len()));
                v.require(f.first() == Some(&p0) && f.last() == Some(&p1), "fill_gaps.keeps_originals_in_order", || "".into());
            }
        }
    }
    emit_oracle_only("curve.fill_gaps", &Tok::new(), &Tok::new(), &v);
}

pub fn run(rng: &mut Rng, n: usize) {
    for _ in 0..n {
        case("curve.resample", "c05.library_call_panics", || resample2(rng));
        case("curve.resample", "c05.library_call_panics", || resample2(rng));
        case("curve.resample", "c05.library_call_panics", || resample3(rng));
        case("curve.resample", "c05.library_call_panics", || simplify2(rng));
        case("curve.resample", "c05.library_call_panics", || simplify3(rng));
        case("curve.resample", "c05.library_call_panics", || rdp_and_gaps(rng));
        case("curve.fill_gaps", "c05.library_call_panics", || long_gaps(rng));
    }
}
