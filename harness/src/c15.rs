//! C15 — spatial search, sampling and hulls agree with exhaustive computation.
use crate::curves::*;
use crate::gen;
use crate::util::*;
use engeom::common::kd_tree::{KdTree, KdTreeSearch, PartialKdTree};
use engeom::common::poisson_disk::sample_poisson_disk;
use engeom::common::AngleDir;
use engeom::geom2::hull::{ball_pivot_with_centers_2d, convex_hull_2d, farthest_pair_indices, point_order_direction, BallPivotEnd, BallPivotStart};
use engeom::geom3::Mesh;
use engeom::{Point2, Point3};
use std::num::NonZero;

fn points2(rng: &mut Rng) -> Vec<Point2> {
    points2_family(rng).0
}

/// (points, family): 0 random reals, 1 clustered reals, 2 grid with repeated points, 3 reals with repeated points, 4 grid of distinct points
fn points2_family(rng: &mut Rng) -> (Vec<Point2>, usize) {
    let n = match rng.below(4) {
        0 => rng.int(1, 6) as usize,
        1 => rng.int(6, 60) as usize,
        _ => rng.int(60, 400) as usize,
    };
    let fam = rng.below(5);
    let v: Vec<Point2> = match fam {
        0 => (0..n).map(|_| Point2::new(rng.range(-5.0, 5.0), rng.range(-5.0, 5.0))).collect(),
        4 => {
            let side = (n as f64).sqrt().ceil() as usize;
            let mut all: Vec<Point2> = (0..side * side).map(|k| Point2::new((k % side) as f64 * 0.5 - 2.0, (k / side) as f64 * 0.5 - 2.0)).collect();
            rng.shuffle(&mut all);
            all.truncate(n.max(1));
            all
        }
        1 => {
            // clustered
            let cs: Vec<Point2> = (0..3).map(|_| Point2::new(rng.range(-5.0, 5.0), rng.range(-5.0, 5.0))).collect();
            (0..n).map(|_| { let c = cs[rng.below(3)]; Point2::new(c.x + rng.gauss() * 0.2, c.y + rng.gauss() * 0.2) }).collect()
        }
        2 => (0..n).map(|_| Point2::new(rng.int(-4, 4) as f64 * 0.5, rng.int(-4, 4) as f64 * 0.5)).collect(), // grid with ties + duplicates
        _ => {
            let mut v: Vec<Point2> = (0..n).map(|_| Point2::new(rng.range(-5.0, 5.0), rng.range(-5.0, 5.0))).collect();
            for k in 0..n / 3 {
                v[k] = v[n - 1 - k]; // duplicated points
            }
            v
        }
    };
    (v, fam)
}

fn search(rng: &mut Rng) {
    let (pts, fam) = points2_family(rng);
    // the same cloud in other units (millimetres expressed in metres, and finer): the radius search compares squared
    // distances, so a length tolerance that leaks into it shows only when the radius itself is small
    let f = if rng.chance(0.3) { *rng.pick(&[1e-3, 1e-5]) } else { 1.0 };
    let pts: Vec<Point2> = if f == 1.0 { pts } else { pts.iter().map(|p| Point2::from(p.coords * f)).collect() };
    let eps = 1e-9 * f;
    // families whose points share exact coordinate values (grids, repeated points) are judged under
    // their own clause names: kiddo 5.0.3's ImmutableKdTree mis-indexes them (see KNOWN_FINDINGS.txt)
    let rep = if fam >= 2 { "_with_shared_coordinates" } else { "" };
    let n = pts.len();
    let tree = KdTree::<2>::new(&pts);
    let q = match rng.below(3) {
        0 => Point2::from(pts[rng.below(n)].coords / f),
        1 => Point2::new(rng.int(-4, 4) as f64 * 0.5 + 0.25, rng.int(-4, 4) as f64 * 0.5),
        _ => Point2::new(rng.range(-6.0, 6.0), rng.range(-6.0, 6.0)),
    };
    let q = Point2::from(q.coords * f);
    let k = rng.int(1, 8.min(n as i64)) as usize;
    let r = *rng.pick(&[0.5, 1.0, 0.25, 2.3, 0.0707]) * f;
    let mut all: Vec<f64> = pts.iter().map(|p| (p - q).norm()).collect();
    all.sort_by(|a, b| a.partial_cmp(b).unwrap());
    let mut v = Verdict::new();
    let (i1, d1) = tree.nearest_one(&q);
    v.require((d1 - all[0]).abs() <= 1e-12 && ((pts[i1] - q).norm() - d1).abs() <= 1e-12, &format!("kdtree.nearest_one_is_brute_force{rep}"), || format!("{d1} vs {}", all[0]));
    let nn = tree.nearest(&q, NonZero::new(k).unwrap());
    v.require(nn.len() == k.min(n), &format!("kdtree.nearest_count{rep}"), || format!("{} vs {k}", nn.len()));
    for (j, (i, d)) in nn.iter().enumerate() {
        v.require((d - all[j]).abs() <= 1e-12, &format!("kdtree.k_nearest_distances_are_brute_force{rep}"), || format!("rank {j}: {d} vs {}", all[j]));
        v.require(((pts[*i] - q).norm() - d).abs() <= 1e-12, &format!("kdtree.original_index_matches_distance{rep}"), || format!("index {i}"));
    }
    let wi = tree.within(&q, r);
    let mut wd: Vec<f64> = wi.iter().map(|e| e.1).collect();
    wd.sort_by(|a, b| a.partial_cmp(b).unwrap());
    let strictly: Vec<f64> = all.iter().cloned().filter(|d| *d < r - eps).collect();
    let loosely: Vec<f64> = all.iter().cloned().filter(|d| *d <= r + eps).collect();
    v.require(wd.len() >= strictly.len() && wd.len() <= loosely.len(), &format!("kdtree.within_is_brute_force{rep}"), || format!("{} not in [{}, {}]", wd.len(), strictly.len(), loosely.len()));
    for (i, d) in &wi {
        v.require(((pts[*i] - q).norm() - d).abs() <= 1e-12 && *d <= r + eps, &format!("kdtree.within_index_and_distance{rep}"), || format!("{i} {d} fam={fam} n={n}"));
    }
    let mut idx: Vec<usize> = wi.iter().map(|e| e.0).collect();
    idx.sort();
    idx.dedup();
    v.require(idx.len() == wi.len(), &format!("kdtree.within_no_duplicates{rep}"), || "".into());
    let mut i = Tok::new();
    pts2(&mut i, &pts);
    i.f(q.x).f(q.y).n(k).f(r);
    let mut o = Tok::new();
    o.flist(&nn.iter().map(|e| e.1).collect::<Vec<_>>()).flist(&wd);
    // exact ties at the radius are decided by rounding of squared distances: only compared off the tie
    if fam >= 2 || all.iter().any(|d| (d - r).abs() < eps) {
        emit_oracle_only("search.knn2", &i, &o, &v);
    } else {
        emit("search.knn2", &i, &o, &v);
    }

    // partial tree: original indices
    let m = rng.int(1, n as i64) as usize;
    let mut sel: Vec<usize> = (0..n).collect();
    rng.shuffle(&mut sel);
    sel.truncate(m);
    let pt = PartialKdTree::<2>::new(&pts, &sel);
    let (pi, pd) = pt.nearest_one(&q);
    let best = sel.iter().map(|j| (pts[*j] - q).norm()).fold(f64::INFINITY, f64::min);
    let mut v = Verdict::new();
    v.require(sel.contains(&pi), &format!("partial.index_is_an_original_working_index{rep}"), || format!("{pi}"));
    v.require((pd - best).abs() <= 1e-12 && ((pts[pi] - q).norm() - pd).abs() <= 1e-12, &format!("partial.nearest_is_brute_force_with_original_index{rep}"), || format!("{pd} vs {best}"));
    for (j, d) in pt.within(&q, r) {
        v.require(sel.contains(&j) && ((pts[j] - q).norm() - d).abs() <= 1e-12, &format!("partial.within_original_indices{rep}"), || format!("{j}"));
    }
    for (j, d) in pt.nearest(&q, NonZero::new(k.min(m)).unwrap()) {
        v.require(sel.contains(&j) && ((pts[j] - q).norm() - d).abs() <= 1e-12, &format!("partial.nearest_original_indices{rep}"), || format!("{j}"));
    }
    let mut i = Tok::new();
    pts2(&mut i, &pts);
    i.nlist(&sel).f(q.x).f(q.y);
    let mut o = Tok::new();
    o.w("some").f(pd).f((pts[pi] - q).norm());
    if fam >= 2 {
        emit_oracle_only("search.partial2", &i, &o, &v);
    } else {
        emit("search.partial2", &i, &o, &v);
    }

    // Poisson disk selection over a subset in a given visiting order
    let radius = *rng.pick(&[0.5, 1.0, 0.3, 1.7]);
    let kept = sample_poisson_disk(&pts, &sel, radius);
    let mut v = Verdict::new();
    v.require(kept.iter().all(|j| sel.contains(j)), &format!("poisson.subset_of_working_indices{rep}"), || "".into());
    for a in 0..kept.len() {
        for b in 0..a {
            let d = (pts[kept[a]] - pts[kept[b]]).norm();
            v.require(d >= radius - 1e-9, &format!("poisson.no_two_kept_within_radius{rep}"), || format!("{} and {}: {d} < {radius}", kept[a], kept[b]));
        }
    }
    for j in &sel {
        let d = kept.iter().map(|t| (pts[*t] - pts[*j]).norm()).fold(f64::INFINITY, f64::min);
        v.require(d <= radius + 1e-9, &format!("poisson.every_working_point_covered{rep}"), || format!("{j}: {d} > {radius}"));
    }
    let mut i = Tok::new();
    pts2(&mut i, &pts);
    i.nlist(&sel).f(radius);
    let mut o = Tok::new();
    o.nlist(&kept);
    let tie = sel.iter().any(|a| sel.iter().any(|b| ((pts[*a] - pts[*b]).norm() - radius).abs() < 1e-9));
    if tie || fam >= 2 {
        emit_oracle_only("sample.poisson2", &i, &o, &v);
    } else {
        emit("sample.poisson2", &i, &o, &v);
    }
}

fn hulls(rng: &mut Rng) {
    let pts = points2(rng);
    let n = pts.len();
    if n < 3 {
        return;
    }
    let mut v = Verdict::new();
    // distinct, non-collinear input for parry's hull
    let mut uniq: Vec<Point2> = Vec::new();
    for p in &pts {
        if !uniq.iter().any(|q| (q - p).norm() < 1e-9) {
            uniq.push(*p);
        }
    }
    if uniq.len() < 3 {
        return;
    }
    let area2 = |a: &Point2, b: &Point2, c: &Point2| (b.x - a.x) * (c.y - a.y) - (b.y - a.y) * (c.x - a.x);
    if uniq.iter().all(|p| area2(&uniq[0], &uniq[1], p).abs() < 1e-9) {
        return;
    }
    let hull = match guarded(|| convex_hull_2d(&uniq)) {
        Ok(h) => h,
        Err(e) => {
            v.require(false, "hull.panics", || e.clone());
            emit_oracle_only("hull.convex", &Tok::new(), &Tok::new(), &v);
            return;
        }
    };
    let m = hull.len();
    for k in 0..m {
        let (a, b, c) = (uniq[hull[k]], uniq[hull[(k + 1) % m]], uniq[hull[(k + 2) % m]]);
        v.require(area2(&a, &b, &c) >= -1e-9, "hull.runs_counter_clockwise", || format!("turn at {k}"));
        for p in &uniq {
            v.require(area2(&a, &b, p) >= -1e-9, "hull.around_all_points", || format!("edge {k}"));
        }
    }
    // farthest pair = true diameter of the hull polygon
    let hp: Vec<Point2> = hull.iter().map(|i| uniq[*i]).collect();
    if let Some(poly) = parry2d_f64::shape::ConvexPolygon::from_convex_polyline(hp.clone()) {
        let (fa, fb) = farthest_pair_indices(&poly);
        let got = (poly.points()[fa] - poly.points()[fb]).norm();
        let mut best = 0.0f64;
        for a in poly.points() {
            for b in poly.points() {
                best = best.max((a - b).norm());
            }
        }
        v.require((got - best).abs() <= 1e-12, "hull.farthest_pair_is_diameter", || format!("{got} vs {best}"));
        let mut i = Tok::new();
        pts2(&mut i, poly.points());
        let mut o = Tok::new();
        o.n(fa).n(fb).f(got);
        emit("hull.farthest", &i, &o, &v);
    }
    // order direction of a polygon given in order = sign of its signed area
    let k = rng.int(4, 12) as usize;
    let ccw = rng.chance(0.5);
    let poly: Vec<Point2> = (0..k).map(|j| { let a = 6.283 * (j as f64 + rng.range(-0.2, 0.2)) / k as f64 * if ccw { 1.0 } else { -1.0 }; Point2::new(3.0 * a.cos() + 1.0, 2.0 * a.sin() - 1.0) }).collect();
    let start = rng.below(k);
    let rotated: Vec<Point2> = (0..k).map(|j| poly[(j + start) % k]).collect();
    let mut v = Verdict::new();
    let dir = point_order_direction(&rotated);
    v.require(matches!(dir, AngleDir::Ccw) == ccw, "order_direction.matches_signed_area", || format!("ccw={ccw} start={start}"));
    // ... for any simple loop, not only convex ones: triangles, and star-shaped loops with deep dents
    // (few of their points are hull vertices, down to three), in both directions and from every start
    {
        let k2 = rng.int(3, 14) as usize;
        let ccw2 = rng.chance(0.5);
        let tri = rng.chance(0.4);
        let c0 = (rng.range(-5.0, 5.0), rng.range(-5.0, 5.0));
        let phase = rng.range(0.0, 6.283);
        let sign = if ccw2 { 1.0 } else { -1.0 };
        let lp: Vec<Point2> = (0..k2)
            .map(|j| {
                let a = phase + sign * 6.283185307179586 * (j as f64 + rng.range(-0.25, 0.25)) / k2 as f64;
                // "dented triangle": only three far corners, everything else well inside their triangle
                let r = if tri { if j % ((k2 + 2) / 3) == 0 && j / ((k2 + 2) / 3) < 3 { 3.0 } else { rng.range(0.3, 0.7) } } else { rng.range(0.6, 3.0) };
                Point2::new(c0.0 + r * a.cos(), c0.1 + r * a.sin())
            })
            .collect();
        let area: f64 = (0..k2).map(|j| { let (p, q) = (lp[j], lp[(j + 1) % k2]); p.x * q.y - q.x * p.y }).sum::<f64>() / 2.0;
        for st in 0..k2 {
            let rot: Vec<Point2> = (0..k2).map(|j| lp[(j + st) % k2]).collect();
            let d2 = point_order_direction(&rot);
            v.require(matches!(d2, AngleDir::Ccw) == (area > 0.0), "order_direction.matches_signed_area_of_any_simple_loop",
                || format!("{k2} points, signed area {area:.3}, start {st}, hull of {} points: reported {:?}", convex_hull_2d(&rot).len(), d2));
        }
    }
    // ball pivot around a convex polygon: every ball touches both consecutive hull points and holds no point strictly inside
    let radius = 6.0;
    if let Ok(Ok((idx, centers))) = guarded(|| ball_pivot_with_centers_2d(&rotated, BallPivotStart::StartOnConvex, BallPivotEnd::EndOnRepeat, AngleDir::Ccw, radius)) {
        for (j, c) in centers.iter().enumerate() {
            let (a, b) = (rotated[idx[j]], rotated[idx[j + 1]]);
            v.require(((c - a).norm() - radius).abs() <= 1e-7 && ((c - b).norm() - radius).abs() <= 1e-7, "ball_pivot.centre_one_radius_from_both_points", || format!("step {j}"));
            for p in &rotated {
                v.require((c - p).norm() >= radius - 1e-7, "ball_pivot.no_point_strictly_inside_ball", || format!("step {j}"));
            }
        }
    }
    emit_oracle_only("hull.order_and_pivot", &Tok::new(), &Tok::new(), &v);
    pivot_cloud(rng);
}

/// ball pivot around a scattered cloud (distinct, non-gridded coordinates), small and large radii:
/// every reported ball touches both consecutive hull points and holds no input point strictly inside
fn pivot_cloud(rng: &mut Rng) {
    let n = *rng.pick(&[150usize, 400, 1200, 2500]);
    let big = 3.0;
    let mut pts: Vec<Point2> = Vec::with_capacity(n);
    while pts.len() < n {
        let p = Point2::new(rng.range(-big, big), rng.range(-big, big));
        if p.coords.norm() <= big {
            pts.push(p);
        }
    }
    // mean spacing ~ sqrt(area / n); the ball must not fall through the cloud
    let spacing = (std::f64::consts::PI * big * big / n as f64).sqrt();
    let radius = spacing * *rng.pick(&[2.5, 3.0, 4.0, 6.0, 10.0]);
    let dir = if rng.chance(0.5) { AngleDir::Ccw } else { AngleDir::Cw };
    let mut v = Verdict::new();
    let pts2 = pts.clone();
    let r = {
        let (tx, rx) = std::sync::mpsc::channel();
        std::thread::spawn(move || {
            let r = guarded(|| ball_pivot_with_centers_2d(&pts2, BallPivotStart::StartOnConvex, BallPivotEnd::EndOnRepeat, dir, radius).map_err(|e| e.to_string()));
            let _ = tx.send(r);
        });
        rx.recv_timeout(std::time::Duration::from_secs(10)).ok()
    };
    match r {
        None => {
            v.require(false, "ball_pivot.terminates", || format!("n={n} radius={radius} no result within 10 s"));
            emit_oracle_only("hull.pivot_cloud", &Tok::new(), &Tok::new(), &v);
            use std::io::Write;
            std::io::stdout().flush().ok();
            std::process::exit(0);
        }
        Some(Err(e)) => v.require(false, "ball_pivot.panics", || e.clone()),
        Some(Ok(Err(_))) => {}
        Some(Ok(Ok((idx, centers)))) => {
            v.require(idx.len() == centers.len() + 1, "ball_pivot.one_centre_per_step", || format!("{} vs {}", idx.len(), centers.len()));
            let mut bad_touch = None;
            let mut bad_inside = None;
            for (j, c) in centers.iter().enumerate() {
                if j + 1 >= idx.len() {
                    break;
                }
                let (a, b) = (pts[idx[j]], pts[idx[j + 1]]);
                if ((c - a).norm() - radius).abs() > 1e-7 || ((c - b).norm() - radius).abs() > 1e-7 {
                    bad_touch.get_or_insert(j);
                }
                for (k, p) in pts.iter().enumerate() {
                    if (c - p).norm() < radius - 1e-7 {
                        bad_inside.get_or_insert((j, k, (c - p).norm()));
                    }
                }
            }
            v.require(bad_touch.is_none(), "ball_pivot.centre_one_radius_from_both_points", || format!("n={n} radius={radius} step {:?}", bad_touch));
            // (repaired in /repo, fix 1ef1ccb, and no longer listed as known: a candidate whose contact angle was
            // positive but below the 1e-6 rad guard of the pivot loop was skipped and the ball rolled over that
            // point.  Such a point lay - to within 1e-5 of the radius - ON an earlier ball of the sequence as a
            // third point.  The situation keeps its own clause name so that a recurrence is recognisable.)
            let cocircular = bad_inside.map_or(false, |(j, k, _): (usize, usize, f64)| {
                // a THIRD point on ball q (not one of its two contacts)
                (0..=j).any(|q| q + 1 < idx.len() && k != idx[q] && k != idx[q + 1] && ((centers[q] - pts[k]).norm() - radius).abs() <= 1e-5 * radius)
            });
            if cocircular {
                v.require(false, "ball_pivot.no_point_strictly_inside_ball_after_near_cocircular_contact", || format!("n={n} radius={radius} (step, point, distance) {:?}", bad_inside));
            } else {
                v.require(bad_inside.is_none(), "ball_pivot.no_point_strictly_inside_ball", || format!("n={n} radius={radius} (step, point, distance) {:?}", bad_inside));
            }
            // the loop itself, statement by statement, in the model (start resolved as the code resolves StartOnConvex)
            if n <= 400 {
                let hull = convex_hull_2d(&pts);
                let sv = pts[hull[1]] - pts[hull[0]];
                let sd = engeom::Iso2::rotation(-std::f64::consts::FRAC_PI_2) * sv;
                let mut i = Tok::new();
                crate::curves::pts2(&mut i, &pts);
                i.n(hull[0]).f(sd.x).f(sd.y).w("-").b(matches!(dir, AngleDir::Ccw)).f(radius);
                let mut o = Tok::new();
                o.w("ok").nlist(&idx);
                o.n(centers.len());
                for c in &centers {
                    o.f(c.x).f(c.y);
                }
                emit("hull.pivot", &i, &o, &Verdict::new());
            }
        }
    }
    emit_oracle_only("hull.pivot_cloud", &Tok::new(), &Tok::new(), &v);
}

fn tri_dist(p: &Point3, a: &Point3, b: &Point3, c: &Point3) -> f64 {
    let (ab, ac) = (b - a, c - a);
    let seg = |p: &Point3, a: &Point3, b: &Point3| { let ab = b - a; let l2 = ab.norm_squared(); let t = if l2 > 0.0 { ((p - a).dot(&ab) / l2).clamp(0.0, 1.0) } else { 0.0 }; (p - (a + ab * t)).norm() };
    let mut best = seg(p, a, b).min(seg(p, b, c)).min(seg(p, c, a));
    let n = ab.cross(&ac);
    if n.norm_squared() > 0.0 {
        let ap = p - a;
        let (d00, d01, d11, d20, d21) = (ab.dot(&ab), ab.dot(&ac), ac.dot(&ac), ap.dot(&ab), ap.dot(&ac));
        let den = d00 * d11 - d01 * d01;
        let (v, w) = ((d11 * d20 - d01 * d21) / den, (d00 * d21 - d01 * d20) / den);
        if v >= -1e-12 && w >= -1e-12 && v + w <= 1.0 + 1e-12 {
            best = best.min((p - (a + ab * v + ac * w)).norm());
        }
    }
    best
}

fn mesh_sampling(rng: &mut Rng) {
    let mesh: Mesh = match rng.below(3) {
        0 => Mesh::create_box(rng.range(0.5, 3.0), rng.range(0.5, 3.0), rng.range(0.5, 3.0), false),
        1 => gen::sphere(rng.range(0.5, 2.0), rng.int(5, 10) as usize, rng.int(3, 6) as usize),
        _ => { let nx = rng.int(3, 7) as usize; gen::height_field(rng, nx, 4, 0.4) }
    };
    // a scanned or repaired mesh carries the odd face with a repeated vertex (zero area, no normal) anywhere in its
    // face list: uniform sampling never lands on it and the faces after it keep their share
    let degenerate = rng.chance(0.3);
    let mesh = if degenerate {
        let mut faces = mesh.faces().to_vec();
        for _ in 0..rng.int(1, 3) {
            let f = faces[rng.below(faces.len())];
            let at = rng.below(faces.len());
            faces.insert(at, if rng.chance(0.5) { [f[0], f[0], f[1]] } else { [f[1], f[2], f[1]] });
        }
        Mesh::new(mesh.vertices().to_vec(), faces, false)
    } else {
        mesh
    };
    let vs = mesh.vertices();
    let fs = mesh.faces();
    let normals: Vec<_> = (0..fs.len()).map(|f| mesh.tri_mesh().triangle(f as u32).normal()).collect();
    let areas: Vec<f64> = (0..fs.len()).map(|f| mesh.tri_mesh().triangle(f as u32).area()).collect();
    let total: f64 = areas.iter().sum();
    let on_face = |sp: &engeom::SurfacePoint3| -> Option<usize> {
        (0..fs.len()).find(|f| {
            let t = fs[*f];
            tri_dist(&sp.point, &vs[t[0] as usize], &vs[t[1] as usize], &vs[t[2] as usize]) <= 1e-9 && normals[*f].map_or(false, |n| (n.into_inner() - sp.normal.into_inner()).norm() <= 1e-9)
        })
    };
    let mut v = Verdict::new();
    let nsamp = 3000;
    let mut hits = vec![0usize; fs.len()];
    for sp in mesh.sample_uniform(nsamp) {
        match on_face(&sp) {
            Some(f) => {
                // attribute to the face with the matching normal (shared edges are measure zero)
                hits[f] += 1;
            }
            None => v.require(false, "sample_uniform.on_surface_with_face_normal", || format!("{:?}", sp.point)),
        }
    }
    // proportional to area: per-face binomial test with a 6-sigma band (a STATISTICAL test)
    for f in 0..fs.len() {
        let p = areas[f] / total;
        let mean = nsamp as f64 * p;
        let sd = (nsamp as f64 * p * (1.0 - p)).sqrt();
        // coplanar neighbours share a normal: pool them by skipping the per-face test when any other face has the same normal and touches
        let pooled = (0..fs.len()).any(|g| g != f && normals[g].zip(normals[f]).map_or(false, |(a, b)| (a.into_inner() - b.into_inner()).norm() < 1e-9));
        if !pooled {
            v.require((hits[f] as f64 - mean).abs() <= 6.0 * sd + 3.0, "sample_uniform.proportional_to_area", || format!("face {f}: {} vs {mean:.1} ± {sd:.1}", hits[f]));
        }
    }
    if degenerate {
        // (dense and Poisson sampling ask every face for its normal; a face without one is outside their domain)
        emit_oracle_only("sample.mesh", &Tok::new(), &Tok::new(), &v);
        return;
    }
    let spacing = rng.range(0.15, 0.5);
    for sp in mesh.sample_dense(spacing) {
        v.require(on_face(&sp).is_some(), "sample_dense.on_surface_with_face_normal", || format!("{:?}", sp.point));
    }
    let radius = rng.range(0.2, 0.6);
    let ps = mesh.sample_poisson(radius);
    for sp in &ps {
        v.require(on_face(sp).is_some(), "sample_poisson.on_surface_with_face_normal", || format!("{:?}", sp.point));
    }
    for a in 0..ps.len() {
        for b in 0..a {
            v.require((ps[a].point - ps[b].point).norm() >= radius - 1e-9, "sample_poisson.separated_on_gridded_dense_samples", || format!("{}", (ps[a].point - ps[b].point).norm()));
        }
    }
    emit_oracle_only("sample.mesh", &Tok::new(), &Tok::new(), &v);
}

/// the farthest pair is the true diameter for EVERY convex polygon and every start vertex: small irregular
/// polygons (from each vertex the distances to the others need not rise to a single peak), elongated and
/// sheared shapes, every cyclic rotation of the vertex list
fn diameters(rng: &mut Rng) {
    let mut v = Verdict::new();
    for _ in 0..6 {
        let k = rng.int(5, 14) as usize;
        let (sx, sy, sh) = (rng.range(1.0, 6.0), rng.range(0.5, 3.0), rng.range(-1.5, 1.5));
        let mut pts: Vec<Point2> = (0..k).map(|_| { let (a, b) = (rng.range(-1.0, 1.0), rng.range(-1.0, 1.0)); Point2::new(sx * a + sh * b, sy * b) }).collect();
        // monotone-chain hull (counter-clockwise, no collinear points)
        pts.sort_by(|a, b| a.x.partial_cmp(&b.x).unwrap().then(a.y.partial_cmp(&b.y).unwrap()));
        let cr = |o: &Point2, a: &Point2, b: &Point2| (a.x - o.x) * (b.y - o.y) - (a.y - o.y) * (b.x - o.x);
        let mut h: Vec<Point2> = Vec::new();
        for p in pts.iter() {
            while h.len() >= 2 && cr(&h[h.len() - 2], &h[h.len() - 1], p) <= 1e-9 {
                h.pop();
            }
            h.push(*p);
        }
        let lower = h.len() + 1;
        for p in pts.iter().rev().skip(1) {
            while h.len() >= lower && cr(&h[h.len() - 2], &h[h.len() - 1], p) <= 1e-9 {
                h.pop();
            }
            h.push(*p);
        }
        h.pop();
        if h.len() < 3 {
            continue;
        }
        let mut best = 0.0f64;
        for a in &h {
            for b in &h {
                best = best.max((a - b).norm());
            }
        }
        for r in 0..h.len() {
            let mut rot = h.clone();
            rot.rotate_left(r);
            let Some(poly) = parry2d_f64::shape::ConvexPolygon::from_convex_polyline(rot.clone()) else { continue };
            match guarded(|| farthest_pair_indices(&poly)) {
                Err(e) => v.require(false, "hull.farthest_pair_panics", || e.clone()),
                Ok((fa, fb)) => {
                    let np = poly.points().len();
                    v.require(fa < np && fb < np, "hull.farthest_pair_indices_in_range", || format!("{fa} {fb} of {np}"));
                    if fa < np && fb < np {
                        let got = (poly.points()[fa] - poly.points()[fb]).norm();
                        v.require((got - best).abs() <= 1e-12 * (1.0 + best), "hull.farthest_pair_is_diameter_for_every_start_vertex",
                            || format!("polygon {:?}: pair ({fa}, {fb}) has length {got}, the diameter is {best}", poly.points().iter().map(|p| (p.x, p.y)).collect::<Vec<_>>()));
                    }
                }
            }
        }
    }
    emit_oracle_only("hull.diameters", &Tok::new(), &Tok::new(), &v);
}

pub fn run(rng: &mut Rng, n: usize) {
    for k in 0..n {
        for _ in 0..4 {
            case("search.case", "c15.library_call_panics", || search(rng));
        }
        case("search.case", "c15.library_call_panics", || hulls(rng));
        case("search.case", "c15.library_call_panics", || diameters(rng));
        if k % 4 == 0 {
            case("search.case", "c15.library_call_panics", || mesh_sampling(rng));
        }
    }
}
