//! C01 — curve stations are consistent with arc length.
use crate::curves::*;
use crate::gen;
use crate::util::*;
use engeom::geom2::Curve2;
use engeom::geom3::Curve3;
use engeom::{Point2, Point3};

fn queries(rng: &mut Rng, lengths: &[f64]) -> Vec<f64> {
    let l = *lengths.last().unwrap();
    let mut q = vec![0.0, -0.0, l, -1e-9, next_down(0.0), next_up(l), l * 1.5 + 1.0, -l];
    for v in lengths.iter().take(40) {
        q.push(*v);
        q.push(next_up(*v));
        q.push(next_down(*v));
    }
    for _ in 0..6 {
        q.push(l * rng.unit());
    }
    q
}

/// cumulative-length table of a curve against its own stored vertices
fn table_clauses(v: &mut Verdict, ls: &[f64], edges: &[f64], how: &str) {
    let lt = *ls.last().unwrap();
    let scale = 1.0 + lt;
    v.require(ls.len() == edges.len() + 1, "lengths.count", || how.into());
    v.require(ls[0] == 0.0, "lengths.start_at_zero", || format!("{how}: {}", ls[0]));
    v.require(ls.windows(2).all(|w| w[0] <= w[1]), "lengths.non_decreasing", || how.into());
    let sum: f64 = edges.iter().sum();
    v.require((lt - sum).abs() <= 1e-9 * scale, "lengths.end_at_sum_of_edges", || format!("{how}: {lt} vs {sum}"));
    for (k, e) in edges.iter().enumerate() {
        if k + 1 < ls.len() {
            v.require(((ls[k + 1] - ls[k]) - e).abs() <= 1e-9 * scale, "lengths.each_step_is_the_edge_length", || format!("{how}: edge {k}: table {:e} edge {e:e}", ls[k + 1] - ls[k]));
        }
    }
}

/// a curve the library itself derives from `c` (or `c` unchanged)
fn derive2(rng: &mut Rng, c: Curve2) -> (Curve2, &'static str) {
    let l = c.length();
    match rng.below(8) {
        0 => (c.reversed(), "reversed"),
        1 => {
            let t = engeom::Iso2::new(engeom::Vector2::new(rng.range(-5.0, 5.0), rng.range(-5.0, 5.0)), rng.range(-3.2, 3.2));
            (c.transformed_by(&t), "transformed_by")
        }
        2 => (c.reversed().reversed(), "reversed_twice"),
        3 if c.count() >= 3 => (c.simplify(l * 1e-3), "simplify"),
        4 if l > 1e-3 => match c.between_lengths(l * rng.range(0.05, 0.45), l * rng.range(0.55, 0.95)) {
            Some(p) if p.count() >= 2 => (p, "between_lengths"),
            _ => (c, "from_points"),
        },
        5 if !c.is_closed() && l > 1e-3 => match guarded(|| c.resample(engeom::common::Resample::ByCount(7))) {
            Ok(Ok(r)) => (r, "resample"),
            _ => (c, "from_points"),
        },
        _ => (c, "from_points"),
    }
}

fn derive3(rng: &mut Rng, c: Curve3) -> (Curve3, &'static str) {
    let l = c.length();
    match rng.below(6) {
        0 => (c.transformed_by(&gen::iso3(rng, 5.0)), "transformed_by"),
        1 if c.count() >= 3 => (c.simplify(l * 1e-3), "simplify"),
        2 if l > 1e-3 => match guarded(|| c.resample(engeom::common::Resample::ByCount(7))) {
            Ok(r) if r.count() >= 2 => (r, "resample"),
            _ => (c, "from_points"),
        },
        _ => (c, "from_points"),
    }
}

fn check2(rng: &mut Rng) {
    let (pts, fc) = gen::curve2_points(rng);
    let mut tol = *rng.pick(&[1e-6, 1e-8, 1e-4, 1e-10, 0.0]);
    // sprinkle duplicates within / just outside the tolerance
    let mut pts = pts;
    // an end gap EXACTLY equal to the tolerance (dyadic numbers, so the distance is computed without rounding):
    // the de-duplication and the closedness test must agree on which side "equal" falls
    if rng.chance(0.08) && pts.len() >= 3 {
        tol = *rng.pick(&[0.25, 0.125, 0.0009765625]);
        let q = |x: f64| (x * 64.0).round() / 64.0;
        for p in pts.iter_mut() {
            *p = Point2::new(q(p.x), q(p.y));
        }
        let f = pts[0];
        let last = pts.len() - 1;
        pts[last] = if rng.chance(0.5) { Point2::new(f.x + tol, f.y) } else { Point2::new(f.x, f.y - tol) };
    }
    if rng.chance(0.4) && pts.len() > 1 {
        let k = rng.below(pts.len());
        let d = if rng.chance(0.5) { tol * 0.5 } else { tol * 1.5 };
        let p = Point2::new(pts[k].x + d, pts[k].y);
        pts.insert(k + 1, p);
    }
    let r = Curve2::from_points(&pts, tol, fc);
    let mut i = Tok::new();
    i.w("2");
    pts2(&mut i, &pts);
    i.f(tol).b(fc);
    let mut o = Tok::new();
    let mut v = Verdict::new();
    let Ok(c) = r else {
        o.w("err");
        emit("curve.from_points", &i, &o, &v);
        return;
    };
    let n = c.count();
    let ls = c.lengths().clone();
    let lt = c.length();
    let scale = 1.0 + lt;
    // cumulative lengths
    v.require(ls[0] == 0.0, "lengths.start_at_zero", || format!("{}", ls[0]));
    v.require(ls.windows(2).all(|w| w[0] <= w[1]), "lengths.non_decreasing", || format!("{ls:?}"));
    let sum: f64 = (0..n - 1).map(|k| (c.vtx(k + 1) - c.vtx(k)).norm()).sum();
    v.require((lt - sum).abs() <= 1e-9 * scale, "lengths.end_at_sum_of_edges", || format!("{lt} vs {sum}"));
    v.require(ls.len() == n, "lengths.count", || "".into());
    for k in 0..n - 1 {
        v.require((c.vtx(k + 1) - c.vtx(k)).norm() > tol, "construct.no_edge_within_tol", || format!("edge {k}"));
    }
    if fc {
        v.require(c.is_closed(), "construct.force_closed_is_closed", || "".into());
    }
    o.w("ok");
    curve2_out(&mut o, &c);
    emit("curve.from_points", &i, &o, &v);

    // "every polyline curve": also the curves the library derives from other curves
    let (c, how) = derive2(rng, c);
    let n = c.count();
    let ls = c.lengths().clone();
    let lt = c.length();
    let scale = 1.0 + lt;
    {
        let mut v = Verdict::new();
        table_clauses(&mut v, &ls, &(0..n - 1).map(|k| (c.vtx(k + 1) - c.vtx(k)).norm()).collect::<Vec<_>>(), how);
        let mut i = Tok::new();
        i.w(how);
        emit_oracle_only("curve.derived_lengths", &i, &Tok::new(), &v);
    }

    let strict = strictly_increasing(&ls);
    for l in queries(rng, &ls) {
        let st = match guarded(|| c.at_length(l)) {
            Ok(s) => s,
            Err(e) => {
                let mut v = Verdict::new();
                v.require(false, "station.panics", || format!("at_length({l:e}) L={lt:e}: {e}"));
                emit_oracle_only("curve.at_length", &Tok::new(), &Tok::new(), &v);
                continue;
            }
        };
        let mut v = Verdict::new();
        let mut o = Tok::new();
        let mut i = Tok::new();
        curve2_state(&mut i, &c);
        i.f(l);
        match st {
            None => {
                v.require(l < 0.0 || l > lt, "station.none_only_outside", || format!("l={l:e} L={lt:e}"));
                o.w("none");
            }
            Some(s) => {
                v.require(l >= 0.0 && l <= lt, "station.no_clamping_or_extrapolation", || format!("l={l:e} L={lt:e}"));
                let (k, fr) = (s.index(), s.fraction());
                v.require(k + 1 < n && fr >= 0.0 && fr <= 1.0 + 1e-12, "station.index_fraction_in_range", || format!("k={k} f={fr}"));
                if k + 1 < n {
                    let lerp = c.vtx(k) + (c.vtx(k + 1) - c.vtx(k)) * fr;
                    v.require((lerp - s.point()).norm() <= 1e-9 * scale, "station.index_fraction_reproduce_point", || format!("l={l:e} k={k} f={fr} {:?} vs {:?}", lerp, s.point()));
                    v.require((s.length_along() - l).abs() <= 1e-9 * scale, "station.length_along_equals_l", || format!("l={l:e} got {:e}", s.length_along()));
                    // ... and l is the arc length actually travelled along the stored vertices
                    let arc: f64 = (0..k).map(|j| (c.vtx(j + 1) - c.vtx(j)).norm()).sum::<f64>() + (s.point() - c.vtx(k)).norm();
                    v.require((arc - l).abs() <= 1e-9 * scale, "station.l_is_arc_length_along_vertices", || format!("{how}: l={l:e} arc {arc:e}"));
                    let d = s.direction();
                    let e = (c.vtx(k + 1) - c.vtx(k)).normalize();
                    let at_vertex = ls.iter().any(|x| *x == l);
                    // a vertex whose two adjacent edges are exactly anti-parallel has no normalised
                    // sum (the property defines the direction there as that sum): not judged
                    let doubling_back = at_vertex && {
                        let vi = ls.iter().position(|x| *x == l).unwrap();
                        let (a, b) = if c.is_closed() && (vi == 0 || vi == n - 1) { (n - 2, 0) } else if vi > 0 && vi < n - 1 { (vi - 1, vi) } else { (0, 0) };
                        a != b && ((c.vtx(a + 1) - c.vtx(a)).normalize() + (c.vtx(b + 1) - c.vtx(b)).normalize()).norm() < 1e-9
                    };
                    if !doubling_back {
                        v.require((d.norm() - 1.0).abs() < 1e-9, "station.direction_unit", || format!("{d:?}"));
                    }
                    if !at_vertex {
                        v.require((d.into_inner() - e).norm() < 1e-9, "station.direction_parallel_to_edge", || format!("l={l:e} {d:?} vs {e:?}"));
                    } else {
                        let vi = ls.iter().position(|x| *x == l).unwrap();
                        let interior = vi > 0 && vi < n - 1;
                        let seam = c.is_closed() && (vi == 0 || vi == n - 1);
                        let want = if seam {
                            let s0 = (c.vtx(1) - c.vtx(0)).normalize() + (c.vtx(n - 1) - c.vtx(n - 2)).normalize();
                            if s0.norm() > 1e-6 { Some(s0.normalize()) } else { None }
                        } else if interior {
                            let s0 = (c.vtx(vi) - c.vtx(vi - 1)).normalize() + (c.vtx(vi + 1) - c.vtx(vi)).normalize();
                            if s0.norm() > 1e-6 { Some(s0.normalize()) } else { None }
                        } else if vi == 0 {
                            Some((c.vtx(1) - c.vtx(0)).normalize())
                        } else {
                            Some((c.vtx(n - 1) - c.vtx(n - 2)).normalize())
                        };
                        if let (Some(w), true) = (want, strict) {
                            v.require((d.into_inner() - w).norm() < 1e-7, "station.vertex_direction_is_normalised_sum", || format!("l={l:e} vi={vi} {d:?} vs {w:?}"));
                        }
                        // the same place by vertex index / by iteration
                        if strict {
                            let it = c.iter().nth(vi).unwrap();
                            v.require((it.point() - s.point()).norm() == 0.0 && it.index() == k && it.fraction() == fr, "station.same_by_iteration", || format!("vi={vi}"));
                        }
                    }
                    // the same place by fraction
                    if lt > 0.0 {
                        if let Some(sf) = c.at_fraction(l / lt) {
                            v.require((sf.point() - s.point()).norm() <= 1e-9 * scale, "station.same_by_fraction", || format!("l={l:e}"));
                        }
                    }
                    let nrm = s.normal();
                    if !doubling_back {
                        v.require(nrm.dot(&d).abs() < 1e-9, "station.normal_perpendicular", || "".into());
                    }
                }
                o.w("some").n(k).f(fr).f(s.point().x).f(s.point().y).f(s.direction().x).f(s.direction().y).f(s.length_along());
            }
        }
        if strict {
            emit("curve.at_length", &i, &o, &v);
        } else {
            emit_oracle_only("curve.at_length", &i, &o, &v);
        }
    }
    // front / back
    let mut v = Verdict::new();
    v.require((c.at_front().point() - c.vtx(0)).norm() == 0.0 && c.at_front().length_along() == 0.0, "station.front", || "".into());
    v.require((c.at_back().point() - c.vtx(n - 1)).norm() == 0.0 && (c.at_back().length_along() - lt).abs() <= 1e-12 * scale, "station.back", || "".into());
    emit_oracle_only("curve.front_back", &Tok::new(), &Tok::new(), &v);
}

fn check3(rng: &mut Rng) {
    let pts = gen::curve3_points(rng);
    let tol = *rng.pick(&[1e-6, 1e-8, 1e-4]);
    let r = Curve3::from_points(&pts, tol);
    let mut i = Tok::new();
    i.w("3");
    pts3(&mut i, &pts);
    i.f(tol).b(false);
    let mut o = Tok::new();
    let mut v = Verdict::new();
    let Ok(c) = r else {
        o.w("err");
        emit("curve.from_points", &i, &o, &v);
        return;
    };
    let n = c.count();
    let ls = c.lengths().to_vec();
    let lt = c.length();
    let scale = 1.0 + lt;
    v.require(ls[0] == 0.0, "lengths.start_at_zero", || "".into());
    v.require(ls.windows(2).all(|w| w[0] <= w[1]), "lengths.non_decreasing", || "".into());
    let sum: f64 = (0..n - 1).map(|k| (c.vtx(k + 1) - c.vtx(k)).norm()).sum();
    v.require((lt - sum).abs() <= 1e-9 * scale, "lengths.end_at_sum_of_edges", || format!("{lt} vs {sum}"));
    o.w("ok");
    curve3_out(&mut o, &c);
    emit("curve.from_points", &i, &o, &v);
    let (c, how) = derive3(rng, c);
    let n = c.count();
    let ls = c.lengths().to_vec();
    let lt = c.length();
    let scale = 1.0 + lt;
    {
        let mut v = Verdict::new();
        table_clauses(&mut v, &ls, &(0..n - 1).map(|k| (c.vtx(k + 1) - c.vtx(k)).norm()).collect::<Vec<_>>(), how);
        let mut i = Tok::new();
        i.w(how);
        emit_oracle_only("curve.derived_lengths", &i, &Tok::new(), &v);
    }
    let strict = strictly_increasing(&ls);
    for l in queries(rng, &ls) {
        let st = match guarded(|| c.at_length(l)) {
            Ok(s) => s,
            Err(e) => {
                let mut v = Verdict::new();
                v.require(false, "station.panics", || format!("at_length({l:e}) L={lt:e}: {e}"));
                emit_oracle_only("curve.at_length", &Tok::new(), &Tok::new(), &v);
                continue;
            }
        };
        let mut v = Verdict::new();
        let mut o = Tok::new();
        let mut i = Tok::new();
        curve3_state(&mut i, &c);
        i.f(l);
        match st {
            None => {
                v.require(l < 0.0 || l > lt, "station.none_only_outside", || format!("l={l:e} L={lt:e}"));
                o.w("none");
            }
            Some(s) => {
                v.require(l >= 0.0 && l <= lt, "station.no_clamping_or_extrapolation", || format!("l={l:e}"));
                let (k, fr) = (s.index(), s.fraction());
                v.require(k + 1 < n && fr >= 0.0 && fr <= 1.0 + 1e-12, "station.index_fraction_in_range", || format!("k={k} f={fr}"));
                if k + 1 < n {
                    let lerp: Point3 = c.vtx(k) + (c.vtx(k + 1) - c.vtx(k)) * fr;
                    v.require((lerp - s.point()).norm() <= 1e-9 * scale, "station.index_fraction_reproduce_point", || format!("l={l:e}"));
                    v.require((s.length_along() - l).abs() <= 1e-9 * scale, "station.length_along_equals_l", || format!("l={l:e} got {:e}", s.length_along()));
                    let arc: f64 = (0..k).map(|j| (c.vtx(j + 1) - c.vtx(j)).norm()).sum::<f64>() + (s.point() - c.vtx(k)).norm();
                    v.require((arc - l).abs() <= 1e-9 * scale, "station.l_is_arc_length_along_vertices", || format!("{how}: l={l:e} arc {arc:e}"));
                    let d = s.direction();
                    v.require((d.norm() - 1.0).abs() < 1e-9, "station.direction_unit", || "".into());
                    let at_vertex = ls.iter().any(|x| *x == l);
                    if !at_vertex {
                        let e = (c.vtx(k + 1) - c.vtx(k)).normalize();
                        v.require((d.into_inner() - e).norm() < 1e-9, "station.direction_parallel_to_edge", || format!("l={l:e}"));
                    } else if strict {
                        // the same place by vertex index / by iterating vertices
                        let vi = ls.iter().position(|x| *x == l).unwrap();
                        let it = c.iter().nth(vi).unwrap();
                        v.require((it.point() - s.point()).norm() == 0.0 && it.index() == k && it.fraction() == fr && (it.direction().into_inner() - d.into_inner()).norm() == 0.0,
                            "station.same_by_iteration", || format!("vi={vi}: by length ({k},{fr}) by iteration ({},{})", it.index(), it.fraction()));
                    }
                    if lt > 0.0 {
                        if let Some(sf) = c.at_fraction(l / lt) {
                            v.require((sf.point() - s.point()).norm() <= 1e-9 * scale, "station.same_by_fraction", || format!("l={l:e}"));
                        }
                    }
                }
                let (p, d) = (s.point(), s.direction());
                o.w("some").n(k).f(fr).f(p.x).f(p.y).f(p.z).f(d.x).f(d.y).f(d.z).f(s.length_along());
            }
        }
        if strict {
            emit("curve.at_length", &i, &o, &v);
        } else {
            emit_oracle_only("curve.at_length", &i, &o, &v);
        }
    }
}

pub fn run(rng: &mut Rng, n: usize) {
    for _ in 0..n {
        case("curve.at_length", "c01.library_call_panics", || check2(rng));
        case("curve.at_length", "c01.library_call_panics", || check3(rng));
    }
}
