//! C04 — curve portions, splits, trims and reversal conserve length and endpoints.
use crate::curves::*;
use crate::gen;
use crate::util::*;
use engeom::geom2::Curve2;
use engeom::Point2;

fn seg_dist(p: &Point2, a: &Point2, b: &Point2) -> f64 {
    let ab = b - a;
    let t = ((p - a).dot(&ab) / ab.norm_squared()).clamp(0.0, 1.0);
    (p - (a + ab * t)).norm()
}
pub fn poly_dist(p: &Point2, pts: &[Point2]) -> f64 {
    let mut best = f64::INFINITY;
    for w in pts.windows(2) {
        best = best.min(seg_dist(p, &w[0], &w[1]));
    }
    best
}

fn pick_len(rng: &mut Rng, c: &Curve2) -> f64 {
    let ls = c.lengths();
    let l = c.length();
    let n = ls.len();
    match rng.below(9) {
        0 => ls[rng.below(n)],
        // the start of the curve, also as the negative zero that `-x`, `x * -1.0` or `ceil` of a small negative produce
        1 => if rng.chance(0.35) { -0.0 } else { 0.0 },
        2 => l,
        3 => {
            // inside the last edge
            ls[n - 2] + (l - ls[n - 2]) * rng.unit()
        }
        4 => (ls[rng.below(n)] + c.tol() * rng.range(-2.0, 2.0)).clamp(0.0, l),
        5 => next_up(ls[rng.below(n)]).min(l),
        _ => l * rng.unit(),
    }
}

fn check_portion(v: &mut Verdict, c: &Curve2, l0: f64, l1: f64, r: &Option<Curve2>, name: &str) {
    let l = c.length();
    let tol = c.tol();
    let wrap = l1 < l0;
    let well_posed = (l1 - l0).abs() >= tol && l0 >= 0.0 && l0 <= l && l1 >= 0.0 && l1 <= l && (c.is_closed() || !wrap);
    match r {
        None => {
            // near the tolerance either answer is acceptable
            let travel = if wrap { l - l0 + l1 } else { l1 - l0 };
            if (l1 - l0).abs() >= 3.0 * tol && travel >= 3.0 * tol && l0 >= 0.0 && l0 <= l && l1 >= 0.0 && l1 <= l && (c.is_closed() || !wrap) {
                v.require(false, &format!("{name}.well_posed_request_gives_a_piece"), || format!("l0={l0:e} l1={l1:e} L={l:e} closed={}", c.is_closed()));
            }
        }
        Some(p) => {
            v.require(well_posed, &format!("{name}.ill_posed_request_gives_nothing"), || format!("l0={l0:e} l1={l1:e} L={l:e} closed={}", c.is_closed()));
            if !well_posed {
                return;
            }
            let expect = if wrap { l - l0 + l1 } else { l1 - l0 };
            let slack = 6.0 * tol + 1e-9 * (1.0 + l);
            v.require((p.length() - expect).abs() <= slack, &format!("{name}.length_is_arc_length_difference"), || format!("l0={l0:e} l1={l1:e} L={l:e} got {:e} want {expect:e}", p.length()));
            let s = c.at_length(l0).unwrap().point();
            let e = c.at_length(l1).unwrap().point();
            v.require((p.at_front().point() - s).norm() <= 1e-9 * (1.0 + l), &format!("{name}.starts_at_first_length"), || format!("l0={l0:e} {:?} vs {s:?}", p.at_front().point()));
            v.require((p.at_back().point() - e).norm() <= 2.0 * tol + 1e-9 * (1.0 + l), &format!("{name}.ends_at_second_length"), || format!("l1={l1:e} {:?} vs {e:?}", p.at_back().point()));
            // every vertex on the source, in source order
            let mut prev = f64::NEG_INFINITY;
            let mut wrapped = false;
            for (k, q) in p.points().iter().enumerate() {
                v.require(poly_dist(q, c.points()) <= 1e-9 * (1.0 + l), &format!("{name}.vertices_on_source"), || format!("vertex {k}"));
                let _ = (k, &mut prev, &mut wrapped);
            }
        }
    }
}

fn one_curve(rng: &mut Rng) {
    let Some((c, _, _, _)) = gen::curve2(rng) else { return };
    let l = c.length();
    let tol = c.tol();
    for _ in 0..10 {
        let (l0, l1) = match rng.below(6) {
            0 => {
                let a = pick_len(rng, &c);
                (a, (a + tol * rng.range(0.2, 4.0)).min(l))
            }
            1 => {
                let a = pick_len(rng, &c);
                (a, a)
            }
            _ => (pick_len(rng, &c), pick_len(rng, &c)),
        };
        let r = guarded(|| c.between_lengths(l0, l1));
        let mut v = Verdict::new();
        let mut o = Tok::new();
        let mut i = Tok::new();
        curve2_state(&mut i, &c);
        i.f(l0).f(l1);
        match r {
            Err(e) => {
                o.w("panic");
                v.require(false, "between.panics", || format!("l0={l0:e} l1={l1:e}: {e}"));
            }
            Ok(r) => {
                check_portion(&mut v, &c, l0, l1, &r, "between");
                match &r {
                    None => {
                        o.w("none");
                    }
                    Some(p) => {
                        o.w("some");
                        curve2_out(&mut o, p);
                    }
                }
            }
        }
        let near_tol = ((l1 - l0).abs() - tol).abs() < 1e-3 * tol;
        if strictly_increasing(c.lengths()) && !near_tol {
            emit("curve.between", &i, &o, &v);
        } else {
            emit_oracle_only("curve.between", &i, &o, &v);
        }
    }
    // control-point variant
    for _ in 0..3 {
        let (a, b, ctl) = (pick_len(rng, &c), pick_len(rng, &c), pick_len(rng, &c));
        let r = guarded(|| c.between_lengths_by_control(a, b, ctl));
        let mut v = Verdict::new();
        let mut o = Tok::new();
        let mut i = Tok::new();
        curve2_state(&mut i, &c);
        i.f(a).f(b).f(ctl);
        match r {
            Err(e) => {
                o.w("panic");
                v.require(false, "by_control.panics", || e.clone());
            }
            Ok(None) => {
                o.w("none");
                let (lo, hi) = (a.min(b), a.max(b));
                let far = |x: f64, y: f64| (x - y).abs() > 3.0 * tol;
                if far(lo, hi) && far(ctl, lo) && far(ctl, hi) && (c.is_closed() || (lo < ctl && ctl < hi)) && (hi - lo) < l - 3.0 * tol {
                    v.require(false, "by_control.well_posed_request_gives_a_piece", || format!("a={a:e} b={b:e} ctl={ctl:e} L={l:e}"));
                }
            }
            Ok(Some(p)) => {
                let q = c.at_length(ctl).unwrap().point();
                v.require(poly_dist(&q, p.points()) <= 2.0 * tol + 1e-9 * (1.0 + l), "by_control.piece_contains_control", || format!("a={a:e} b={b:e} ctl={ctl:e} L={l:e}"));
                o.w("some");
                curve2_out(&mut o, &p);
            }
        }
        if strictly_increasing(c.lengths()) {
            emit("curve.by_control", &i, &o, &v);
        } else {
            emit_oracle_only("curve.by_control", &i, &o, &v);
        }
    }
    // split / trim / reverse
    {
        let mut v = Verdict::new();
        let slack = 12.0 * tol + 1e-9 * (1.0 + l);
        if c.is_closed() {
            let (a, b) = (pick_len(rng, &c), pick_len(rng, &c));
            if (a - b).abs() > 3.0 * tol && (a - b).abs() < l - 3.0 * tol {
                match guarded(|| c.split_closed_at_lengths(a, b)) {
                    Ok(Ok((p, q))) => {
                        v.require((p.length() + q.length() - l).abs() <= slack, "split_closed.lengths_sum_to_whole", || format!("{} + {} vs {l}", p.length(), q.length()));
                        v.require((p.at_back().point() - q.at_front().point()).norm() <= 2.0 * tol + 1e-9 && (q.at_back().point() - p.at_front().point()).norm() <= 2.0 * tol + 1e-9, "split_closed.pieces_meet", || "".into());
                    }
                    Ok(Err(_)) => v.require(false, "split_closed.fails_on_well_posed", || format!("a={a:e} b={b:e} L={l:e}")),
                    Err(e) => v.require(false, "split_closed.panics", || e.clone()),
                }
            }
        } else {
            let a = pick_len(rng, &c);
            if a > 3.0 * tol && a < l - 3.0 * tol {
                match guarded(|| c.split_open_at_length(a)) {
                    Ok(Ok((p, q))) => {
                        v.require((p.length() + q.length() - l).abs() <= slack, "split_open.lengths_sum_to_whole", || format!("{} + {} vs {l}", p.length(), q.length()));
                        let m = c.at_length(a).unwrap().point();
                        v.require((p.at_back().point() - m).norm() <= 2.0 * tol + 1e-9 && (q.at_front().point() - m).norm() <= 1e-9 * (1.0 + l), "split_open.pieces_meet_at_split_point", || "".into());
                    }
                    Ok(Err(_)) => v.require(false, "split_open.fails_on_well_posed", || format!("a={a:e} L={l:e}")),
                    Err(e) => v.require(false, "split_open.panics", || e.clone()),
                }
                if let Some(t) = c.trim_front(a) {
                    v.require((t.length() - (l - a)).abs() <= slack, "trim_front.removes_requested_length", || format!("{} vs {}", t.length(), l - a));
                    v.require((t.at_back().point() - c.at_back().point()).norm() <= 2.0 * tol + 1e-9, "trim_front.keeps_back", || "".into());
                }
                if let Some(t) = c.trim_back(a) {
                    v.require((t.length() - (l - a)).abs() <= slack, "trim_back.removes_requested_length", || format!("{} vs {}", t.length(), l - a));
                    v.require((t.at_front().point() - c.at_front().point()).norm() <= 1e-9 * (1.0 + l), "trim_back.keeps_front", || "".into());
                }
            }
        }
        let r = c.reversed();
        v.require((r.length() - l).abs() <= 1e-9 * (1.0 + l), "reversed.keeps_length", || format!("{} vs {l}", r.length()));
        for _ in 0..3 {
            let x = l * rng.unit();
            if let (Some(a), Some(b)) = (r.at_length(x), c.at_length((l - x).clamp(0.0, l))) {
                v.require((a.point() - b.point()).norm() <= 1e-9 * (1.0 + l), "reversed.point_at_l_is_point_at_L_minus_l", || format!("x={x:e}"));
            }
        }
        let mut i = Tok::new();
        curve2_state(&mut i, &c);
        let mut o = Tok::new();
        o.w("some");
        curve2_out(&mut o, &r);
        emit("curve.reversed", &i, &o, &v);
    }
    // a history of nested portioning
    {
        let mut cur = c.clone();
        let steps = rng.int(1, 6);
        let mut v = Verdict::new();
        for _ in 0..steps {
            let (a, b) = (pick_len(rng, &cur), pick_len(rng, &cur));
            let (a, b) = if cur.is_closed() { (a, b) } else { (a.min(b), a.max(b)) };
            let r = match guarded(|| cur.between_lengths(a, b)) {
                Ok(r) => r,
                Err(e) => {
                    v.require(false, "history.panics", || e.clone());
                    break;
                }
            };
            check_portion(&mut v, &cur, a, b, &r, "history");
            match r {
                Some(p) => cur = p,
                None => break,
            }
        }
        emit_oracle_only("curve.history", &Tok::new(), &Tok::new(), &v);
    }
}

pub fn run(rng: &mut Rng, n: usize) {
    for _ in 0..n {
        // a panic of the library outside the individually guarded calls (e.g. in a station lookup the
        // oracle itself makes) is a failure of that case, not of the run
        if let Err(e) = guarded(|| one_curve(rng)) {
            let mut v = Verdict::new();
            v.require(false, "portion.library_call_panics", || e.clone());
            emit_oracle_only("curve.between", &Tok::new(), &Tok::new(), &v);
        }
    }
}
