//! C14 — mesh face selection is set algebra over a per-face predicate.
use crate::gen;
use crate::util::*;
use engeom::common::{SelectOp, Selection};
use engeom::geom3::{Mesh, Point3, SurfacePoint3, UnitVec3, Vector3};
use std::collections::BTreeSet;

fn tri_normal(m: &Mesh, f: usize) -> Option<UnitVec3> {
    m.tri_mesh().triangle(f as u32).normal()
}

#[derive(Clone)]
enum Step {
    Facing { normal: Vector3, angle: f64, op: SelectOp },
    Near { all_points: bool, dist: f64, planar: Option<f64>, angle: Option<f64>, op: SelectOp },
}

fn op_tok(op: SelectOp) -> &'static str {
    match op {
        SelectOp::Add => "add",
        SelectOp::Remove => "remove",
        SelectOp::Keep => "keep",
    }
}

/// the face-independent part of the near check for vertex v: 0 fail, 1 pass (no normal), 2 pass with normal
fn base_of(mesh: &Mesh, other: &Mesh, v: usize, dist: f64, planar: Option<f64>, angle: Option<f64>) -> (usize, Option<UnitVec3>) {
    let p = mesh.vertices()[v];
    let Some((prj, ri, _)) = other.project_with_max_dist(&p, dist) else { return (0, None) };
    if planar.is_none() && angle.is_none() {
        return (1, None);
    }
    let Some(rn) = other.tri_mesh().triangle(ri).normal() else { return (0, None) };
    let rsp = SurfacePoint3::new(prj.point, rn);
    if let Some(pt) = planar {
        if !(rsp.planar_distance(&p) <= pt) {
            return (0, None);
        }
    }
    (2, Some(rn))
}

fn one_chain(rng: &mut Rng, reps: usize) {
    // a mesh whose vertices are shared between differently oriented faces
    let mesh = match rng.below(4) {
        0 => Mesh::create_box(rng.range(0.5, 3.0), rng.range(0.5, 3.0), rng.range(0.5, 3.0), false),
        1 => gen::sphere(rng.range(0.8, 2.0), rng.int(4, 8) as usize, rng.int(3, 6) as usize),
        2 => {
            let nx = rng.int(3, 6) as usize;
            let ny = rng.int(3, 6) as usize;
            gen::height_field(rng, nx, ny, 1.0)
        }
        _ => Mesh::create_cylinder(rng.range(0.5, 2.0), rng.range(0.5, 2.0), rng.int(3, 9) as usize),
    };
    // scanned / imported meshes often carry vertices no face refers to: insert some, anywhere in the list
    let mesh = if rng.chance(0.35) {
        let mut vs: Vec<Point3> = mesh.vertices().to_vec();
        let mut fs: Vec<[u32; 3]> = mesh.faces().to_vec();
        for _ in 0..rng.int(1, 4) {
            let at = rng.below(vs.len() + 1);
            vs.insert(at, Point3::new(rng.range(-9.0, 9.0), rng.range(-9.0, 9.0), rng.range(-9.0, 9.0)));
            for f in fs.iter_mut() {
                for k in f.iter_mut() {
                    if *k as usize >= at {
                        *k += 1;
                    }
                }
            }
        }
        Mesh::new(vs, fs, false)
    } else {
        mesh
    };
    // ... and now and then a face without area (three collinear vertices: a sliver left by a mesher): it has no
    // normal, so no orientation criterion selects it - and it must not change what happens to the other faces
    let mesh = if rng.chance(0.25) {
        let mut vs: Vec<Point3> = mesh.vertices().to_vec();
        let mut fs: Vec<[u32; 3]> = mesh.faces().to_vec();
        for _ in 0..rng.int(1, 2) {
            let f = fs[rng.below(fs.len())];
            // (a copy of `a`: the edge a -> m has no length, the face has exactly zero area)
            let (a, b) = (f[0], f[1]);
            let m = vs[a as usize];
            vs.push(m);
            let at = rng.below(fs.len() + 1);
            fs.insert(at, [a, (vs.len() - 1) as u32, b]);
        }
        Mesh::new(vs, fs, false)
    } else {
        mesh
    };
    // the mesh built from a list of faces, directly: all faces (in order and shuffled), a random subset
    {
        let nf = mesh.faces().len();
        let mut v = Verdict::new();
        for kind in 0..3 {
            let mut idx: Vec<usize> = match kind {
                0 => (0..nf).collect(),
                1 => (0..nf).rev().collect(),
                _ => (0..nf).filter(|_| rng.chance(0.5)).collect(),
            };
            if kind == 1 {
                rng.shuffle(&mut idx);
            }
            if idx.is_empty() {
                continue;
            }
            match guarded(|| mesh.create_from_indices(&idx)) {
                Err(e) => v.require(false, "create_from_indices.panics", || e.clone()),
                Ok(nm) => {
                    let tri = |m: &Mesh, t: &[u32; 3]| -> [[u64; 3]; 3] {
                        let p = |k: usize| { let q: Point3 = m.vertices()[t[k] as usize]; [q.x.to_bits(), q.y.to_bits(), q.z.to_bits()] };
                        [p(0), p(1), p(2)]
                    };
                    let mut want: Vec<[[u64; 3]; 3]> = idx.iter().map(|f| tri(&mesh, &mesh.faces()[*f])).collect();
                    let mut have: Vec<[[u64; 3]; 3]> = nm.faces().iter().map(|t| tri(&nm, t)).collect();
                    want.sort();
                    have.sort();
                    v.require(want == have, "create_from_indices.same_triangles_coordinates_and_winding", || format!("kind {kind}: {} vs {}", want.len(), have.len()));
                    let used: BTreeSet<u32> = idx.iter().flat_map(|f| mesh.faces()[*f].to_vec()).collect();
                    v.require(nm.vertices().len() == used.len(), "create_from_indices.only_used_vertices", || format!("kind {kind}: built mesh has {} vertices, its faces use {} (source has {})", nm.vertices().len(), used.len(), mesh.vertices().len()));
                }
            }
        }
        emit_oracle_only("select.create_from_indices", &Tok::new(), &Tok::new(), &v);
    }
    // reference mesh: a displaced / partial copy, so that some vertices are near and some are not
    let shift = gen::iso3(rng, 0.3);
    let small = engeom::geom3::Iso3::new(shift.translation.vector, shift.rotation.scaled_axis() * 0.05);
    let other = {
        let m = gen::moved(&mesh, &small);
        if rng.chance(0.5) && m.faces().len() > 4 {
            let keep: Vec<usize> = (0..m.faces().len()).filter(|_| rng.chance(0.6)).collect();
            if keep.is_empty() { m } else { m.create_from_indices(&keep) }
        } else {
            m
        }
    };
    let nf = mesh.faces().len();
    let start: Vec<usize> = match rng.below(3) {
        0 => vec![],
        1 => (0..nf).collect(),
        _ => (0..nf).filter(|_| rng.chance(0.5)).collect(),
    };
    let nsteps = rng.int(1, 6) as usize;
    let ops = [SelectOp::Add, SelectOp::Remove, SelectOp::Keep];
    let steps: Vec<Step> = (0..nsteps)
        .map(|_| {
            let op = *rng.pick(&ops);
            if rng.chance(0.4) {
                Step::Facing { normal: Vector3::new(rng.gauss(), rng.gauss(), rng.gauss() + 0.01), angle: rng.range(0.2, 2.5), op }
            } else {
                Step::Near {
                    all_points: rng.chance(0.5),
                    dist: rng.range(0.05, 0.6),
                    planar: if rng.chance(0.5) { Some(rng.range(0.01, 0.3)) } else { None },
                    angle: if rng.chance(0.6) { Some(rng.range(0.05, 1.0)) } else { None },
                    op,
                }
            }
        })
        .collect();

    // ---- expected result by plain set algebra over the pure per-face predicate
    let mut i = Tok::new();
    i.n(nf);
    for f in mesh.faces() {
        i.n(f[0] as usize).n(f[1] as usize).n(f[2] as usize);
    }
    i.nlist(&start);
    i.n(nsteps);
    let mut expect: BTreeSet<usize> = start.iter().cloned().collect();
    for st in &steps {
        let (op, pred): (SelectOp, Vec<bool>) = match st {
            Step::Facing { normal, angle, op } => {
                let pred: Vec<bool> = (0..nf).map(|f| tri_normal(&mesh, f).map_or(false, |n| n.angle(normal) < *angle)).collect();
                i.w("facing").w(op_tok(*op)).n(nf);
                for b in &pred {
                    i.b(*b);
                }
                (*op, pred)
            }
            Step::Near { all_points, dist, planar, angle, op } => {
                let nv = mesh.vertices().len();
                let base: Vec<(usize, Option<UnitVec3>)> = (0..nv).map(|v| base_of(&mesh, &other, v, *dist, *planar, *angle)).collect();
                let corner = |f: usize, k: usize| -> bool {
                    let v = mesh.faces()[f][k] as usize;
                    match (&base[v], angle) {
                        ((0, _), _) => false,
                        (_, None) => true,
                        ((_, Some(rn)), Some(tol)) => tri_normal(&mesh, f).map_or(false, |n| n.angle(rn) <= *tol),
                        ((_, None), Some(_)) => false,
                    }
                };
                // only the angle part of each corner is transmitted to the model
                let ang = |f: usize, k: usize| -> bool {
                    let v = mesh.faces()[f][k] as usize;
                    match (&base[v].1, angle) {
                        (Some(rn), Some(tol)) => tri_normal(&mesh, f).map_or(false, |n| n.angle(rn) <= *tol),
                        _ => false,
                    }
                };
                let pred: Vec<bool> = (0..nf)
                    .map(|f| if *all_points { (0..3).all(|k| corner(f, k)) } else { (0..3).any(|k| corner(f, k)) })
                    .collect();
                i.w("near").w(op_tok(*op)).b(*all_points).b(angle.is_some()).n(nv);
                for b in &base {
                    i.n(b.0);
                }
                i.n(3 * nf);
                for f in 0..nf {
                    for k in 0..3 {
                        i.b(ang(f, k));
                    }
                }
                (*op, pred)
            }
        };
        match op {
            SelectOp::Add => {
                for f in 0..nf {
                    if pred[f] {
                        expect.insert(f);
                    }
                }
            }
            SelectOp::Remove => expect.retain(|f| !pred[*f]),
            SelectOp::Keep => expect.retain(|f| pred[*f]),
        }
    }
    let expect: Vec<usize> = expect.into_iter().collect();

    // ---- the implementation, repeated (fresh hash seeds per HashSet / HashMap)
    let mut v = Verdict::new();
    let mut got_first: Option<Vec<usize>> = None;
    let run = |create: bool| -> (Vec<usize>, Option<Mesh>) {
        let mut filt = mesh.face_select(Selection::Indices(start.clone()));
        for st in &steps {
            filt = match st {
                Step::Facing { normal, angle, op } => filt.facing(normal, *angle, *op),
                Step::Near { all_points, dist, planar, angle, op } => filt.near_mesh(&other, *all_points, *dist, *planar, *angle, *op),
            };
        }
        if create {
            (vec![], Some(filt.create_mesh()))
        } else {
            let mut c = filt.collect();
            c.sort();
            (c, None)
        }
    };
    for _ in 0..reps {
        let (got, _) = run(false);
        v.require(got == expect, "select.set_algebra_over_pure_predicate", || format!("expected {expect:?} got {got:?}"));
        match &got_first {
            None => got_first = Some(got),
            Some(g) => v.require(*g == got, "select.same_result_every_run", || format!("{g:?} vs {got:?}")),
        }
    }
    let got = got_first.unwrap();
    let mut o = Tok::new();
    o.nlist(&got);
    // ---- mesh built from the selection
    if got.is_empty() {
        o.n(0).n(0);
    } else {
        match guarded(|| run(true).1.unwrap()) {
            Err(e) => {
                v.require(false, "create_mesh.panics", || e.clone());
                o.w("panic");
            }
            Ok(nm) => {
                let mut want: Vec<[[u64; 3]; 3]> = got
                    .iter()
                    .map(|f| {
                        let t = mesh.faces()[*f];
                        let p = |k: usize| { let q: Point3 = mesh.vertices()[t[k] as usize]; [q.x.to_bits(), q.y.to_bits(), q.z.to_bits()] };
                        [p(0), p(1), p(2)]
                    })
                    .collect();
                let mut have: Vec<[[u64; 3]; 3]> = nm
                    .faces()
                    .iter()
                    .map(|t| {
                        let p = |k: usize| { let q: Point3 = nm.vertices()[t[k] as usize]; [q.x.to_bits(), q.y.to_bits(), q.z.to_bits()] };
                        [p(0), p(1), p(2)]
                    })
                    .collect();
                want.sort();
                have.sort();
                v.require(want == have, "create_mesh.same_triangles_coordinates_and_winding", || format!("{} vs {}", want.len(), have.len()));
                let used: BTreeSet<u32> = got.iter().flat_map(|f| mesh.faces()[*f].to_vec()).collect();
                v.require(nm.vertices().len() == used.len(), "create_mesh.only_used_vertices", || format!("{} vs {}", nm.vertices().len(), used.len()));
                // report in original vertex ids: the k-th vertex of the built mesh is the k-th smallest vertex id the
                // selection uses when its coordinates say so (two vertices may share coordinates: the end points of a
                // zero-length edge), otherwise the first vertex of the source with these coordinates
                let used_sorted: Vec<u32> = used.iter().cloned().collect();
                let find = |(k, q): (usize, &Point3)| match used_sorted.get(k) {
                    Some(u) if mesh.vertices()[*u as usize] == *q => *u as usize,
                    _ => mesh.vertices().iter().position(|p| p == q).unwrap_or(usize::MAX),
                };
                let keep: Vec<usize> = nm.vertices().iter().enumerate().map(find).collect();
                o.nlist(&keep);
                let mut tris: Vec<Vec<usize>> = nm.faces().iter().map(|t| t.iter().map(|k| keep[*k as usize]).collect()).collect();
                tris.sort();
                o.n(tris.len());
                for t in &tris {
                    o.nlist(t);
                }
            }
        }
    }
    emit("select.chain", &i, &o, &v);
}

pub fn run(rng: &mut Rng, n: usize, thorough: bool) {
    for _ in 0..n {
        case("select.chain", "c14.library_call_panics", || one_chain(rng, if thorough { 16 } else { 8 }));
    }
}
