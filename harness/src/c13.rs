//! C13 — plane sections and splits of a mesh lie on the plane and on the surface.
use crate::gen;
use crate::util::*;
use engeom::common::indices::chained_indices;
use engeom::common::SplitResult;
use engeom::geom3::{Curve3, Iso3, Mesh, Plane3, UnitVec3, Vector3};
use engeom::Point3;
use parry3d_f64::shape::Segment;
use std::collections::HashMap;
use std::io::Read;
use std::process::{Command, Stdio};
use std::sync::mpsc;
use std::time::{Duration, Instant};

fn with_watchdog<T: Send + 'static>(f: impl FnOnce() -> T + Send + 'static) -> Option<T> {
    let (tx, rx) = mpsc::channel();
    std::thread::spawn(move || {
        let r = f();
        let _ = tx.send(r);
    });
    rx.recv_timeout(Duration::from_secs(6)).ok()
}

// ------------------------------------------------------------------------------------------
// chained_indices on arbitrary pair lists
// ------------------------------------------------------------------------------------------
fn segs_of(chain: &[u32]) -> Vec<[u32; 2]> {
    chain.windows(2).map(|w| [w[0], w[1]]).collect()
}

fn chain_case(rng: &mut Rng, pairs: Vec<[u32; 2]>, tag: &str) {
    let _ = rng;
    let chains = match guarded(|| chained_indices(&pairs)) {
        Ok(c) => c,
        Err(e) => {
            let mut v = Verdict::new();
            v.require(false, "chained.panics", || e.clone());
            emit_oracle_only("chain.indices!", &Tok::new(), &Tok::new(), &v);
            return;
        }
    };
    let mut v = Verdict::new();
    // conservation: the consecutive pairs of all chains are exactly the input pairs, each once
    let mut want: HashMap<[u32; 2], i64> = HashMap::new();
    for p in &pairs {
        *want.entry(*p).or_insert(0) += 1;
    }
    let mut lost_or_extra = None;
    for c in &chains {
        v.require(c.len() >= 2, "chained.every_chain_has_a_segment", || format!("{tag}: chain {:?}", c));
        for s in segs_of(c) {
            *want.entry(s).or_insert(0) -= 1;
        }
    }
    for (k, n) in &want {
        if *n != 0 {
            lost_or_extra = Some((*k, *n));
        }
    }
    v.require(lost_or_extra.is_none(), "chained.each_input_pair_used_exactly_once", || format!("{tag}: pair/imbalance {:?} of {} pairs", lost_or_extra, pairs.len()));
    let mut i = Tok::new();
    i.n(pairs.len());
    for p in &pairs {
        i.n(p[0] as usize).n(p[1] as usize);
    }
    let mut o = Tok::new();
    o.n(chains.len());
    for c in &chains {
        o.nlist(&c.iter().map(|x| *x as usize).collect::<Vec<_>>());
    }
    emit("chain.indices!", &i, &o, &v);
}

fn chains(rng: &mut Rng) {
    let mode = rng.below(4);
    let mut pairs: Vec<[u32; 2]> = vec![];
    match mode {
        0 | 1 => {
            // disjoint oriented paths and cycles over distinct labels, shuffled
            let mut next = 0u32;
            for _ in 0..rng.int(1, 5) {
                let len = rng.int(1, 9) as u32;
                let cyc = rng.chance(0.5) && len >= 3;
                let base = next;
                for k in 0..len {
                    if k + 1 < len {
                        pairs.push([base + k, base + k + 1]);
                    } else if cyc {
                        pairs.push([base + k, base]);
                    }
                }
                if len == 1 {
                    pairs.push([base, base + 1]);
                    next += 1;
                }
                next += len + rng.int(0, 2) as u32;
            }
            rng.shuffle(&mut pairs);
            if mode == 1 {
                // some segments reversed: orientation is not consistent
                for p in pairs.iter_mut() {
                    if rng.chance(0.3) {
                        p.swap(0, 1);
                    }
                }
            }
        }
        _ => {
            // arbitrary pairs over a small label set: branching, duplicates, self loops
            let labels = rng.int(2, 8) as u32;
            for _ in 0..rng.int(0, 14) {
                pairs.push([rng.below(labels as usize) as u32, rng.below(labels as usize) as u32]);
            }
        }
    }
    chain_case(rng, pairs, "synthetic");
}

// ------------------------------------------------------------------------------------------
// one edge against a plane
// ------------------------------------------------------------------------------------------
fn rvec(rng: &mut Rng) -> Vector3 {
    loop {
        let v = Vector3::new(rng.gauss(), rng.gauss(), rng.gauss());
        if v.norm() > 0.2 {
            return v;
        }
    }
}

fn edges(rng: &mut Rng) {
    let n = UnitVec3::new_normalize(rvec(rng));
    let s = *rng.pick(&[1.0, 10.0, 0.1]);
    let a = Point3::from(rvec(rng) * s);
    let b = Point3::from(rvec(rng) * s);
    // offset between the two ends (strictly, with a margin)
    let (da, db) = (n.dot(&a.coords), n.dot(&b.coords));
    if (da - db).abs() < 1e-3 * s {
        return;
    }
    let f = rng.range(0.05, 0.95);
    let d = da + (db - da) * f;
    let plane = Plane3::new(n, d);
    let seg = Segment::new(a, b);
    let (_, hit) = seg.local_split_and_get_intersection(&n, d, 1e-6);
    let mut v = Verdict::new();
    let mut o = Tok::new();
    match hit {
        None => {
            v.require(false, "edge.crossing_found", || format!("a={a:?} b={b:?} d={d}"));
        }
        Some((p, t)) => {
            v.require(plane.signed_distance_to_point(&p).abs() <= 1e-10 * (1.0 + s), "edge.crossing_point_on_plane", || format!("{:e}", plane.signed_distance_to_point(&p)));
            v.require(t > 0.0 && t < 1.0 && ((p - a).norm() + (b - p).norm() - (b - a).norm()).abs() <= 1e-10 * s, "edge.crossing_point_on_edge", || format!("t={t}"));
            o.fs(p.coords.as_slice());
        }
    }
    let mut i = Tok::new();
    i.fs(n.as_slice()).f(d).fs(a.coords.as_slice()).fs(b.coords.as_slice());
    emit("section.edge", &i, &o, &v);
}

// ------------------------------------------------------------------------------------------
// meshes
// ------------------------------------------------------------------------------------------
#[derive(Clone, Copy, PartialEq, Debug)]
enum Kind {
    Box,
    /// `Mesh::create_cylinder`: a tube without caps (open)
    Tube,
    ConvexPrism,
    Prism,
    Sphere,
    Torus,
    Field,
}

/// closed prism over a star-shaped polygon (convex when `convex`)
fn prism(rng: &mut Rng, convex: bool) -> Mesh {
    let k = rng.int(3, 9) as usize;
    let h = rng.range(0.5, 4.0);
    let mut ring = vec![];
    for j in 0..k {
        let a = 2.0 * std::f64::consts::PI * (j as f64 + rng.range(-0.25, 0.25)) / k as f64;
        let r = if convex { 2.0 } else { rng.range(0.8, 2.5) };
        ring.push((r * a.cos(), r * a.sin()));
    }
    let mut v = vec![];
    for (x, y) in &ring {
        v.push(Point3::new(*x, *y, 0.0));
    }
    for (x, y) in &ring {
        v.push(Point3::new(*x, *y, h));
    }
    v.push(Point3::new(0.0, 0.0, 0.0));
    v.push(Point3::new(0.0, 0.0, h));
    let (cb, ct) = ((2 * k) as u32, (2 * k + 1) as u32);
    let mut f = vec![];
    for j in 0..k {
        let (a, b) = (j as u32, ((j + 1) % k) as u32);
        let (a2, b2) = (a + k as u32, b + k as u32);
        f.push([a, b, b2]);
        f.push([a, b2, a2]);
        f.push([cb, b, a]);
        f.push([ct, a2, b2]);
    }
    Mesh::new(v, f, false)
}

fn make_mesh(rng: &mut Rng) -> (Mesh, Kind) {
    let (m, k) = match rng.below(12) {
        0 | 1 => (Mesh::create_box(rng.range(0.5, 5.0), rng.range(0.5, 5.0), rng.range(0.5, 5.0), false), Kind::Box),
        2 | 3 => (Mesh::create_cylinder(rng.range(0.5, 3.0), rng.range(0.5, 5.0), rng.int(3, 24) as usize), Kind::Tube),
        4 => (prism(rng, true), Kind::ConvexPrism),
        5 => (prism(rng, false), Kind::Prism),
        6 | 7 => (gen::sphere(rng.range(0.5, 3.0), rng.int(4, 14) as usize, rng.int(3, 9) as usize), Kind::Sphere),
        8 | 9 => (gen::torus(rng.range(2.0, 4.0), rng.range(0.3, 1.0), rng.int(5, 16) as usize, rng.int(4, 10) as usize), Kind::Torus),
        _ => {
            let nx = rng.int(3, 10) as usize;
            let ny = rng.int(3, 10) as usize;
            let amp = rng.range(0.0, 1.5);
            (gen::height_field(rng, nx, ny, amp), Kind::Field)
        }
    };
    let t = gen::iso3(rng, 20.0);
    (gen::moved(&m, &t), k)
}

struct Case {
    mesh: Mesh,
    kind: Kind,
    plane: Plane3,
    /// the plane stays clear of every vertex by a margin
    clean: bool,
    /// open mesh whose section has a free end (a boundary edge is crossed)
    open_section: bool,
    /// no boundary edges
    watertight: bool,
    scale: f64,
}

fn boundary_edges(mesh: &Mesh) -> Vec<(u32, u32)> {
    let mut count: HashMap<(u32, u32), u32> = HashMap::new();
    for f in mesh.faces() {
        for k in 0..3 {
            let (a, b) = (f[k], f[(k + 1) % 3]);
            *count.entry((a.min(b), a.max(b))).or_insert(0) += 1;
        }
    }
    count.into_iter().filter(|(_, n)| *n == 1).map(|(e, _)| e).collect()
}

fn gen_case(rng: &mut Rng) -> Case {
    let (mesh, kind) = make_mesh(rng);
    let vs = mesh.vertices();
    let mut lo = vs[0].coords;
    let mut hi = vs[0].coords;
    for p in vs {
        lo = lo.inf(&p.coords);
        hi = hi.sup(&p.coords);
    }
    let scale = (hi - lo).norm();
    let mode = rng.below(20);
    let n = if rng.chance(0.2) {
        // a principal direction of the pose-less primitive would be cleverer; an axis of the world is enough
        UnitVec3::new_normalize(*rng.pick(&[Vector3::x(), Vector3::y(), Vector3::z()]))
    } else {
        UnitVec3::new_normalize(rvec(rng))
    };
    let through = Point3::from(lo + (hi - lo).component_mul(&Vector3::new(rng.range(0.1, 0.9), rng.range(0.1, 0.9), rng.range(0.1, 0.9))));
    let plane = match mode {
        0 => Plane3::new(n, n.dot(&through.coords) + 3.0 * scale), // misses the mesh
        1 => {
            // exactly through a vertex
            let p = vs[rng.below(vs.len())];
            Plane3::new(n, n.dot(&p.coords))
        }
        2 => {
            // exactly through an edge (contains two vertices of a face)
            let f = mesh.faces()[rng.below(mesh.faces().len())];
            let (a, b) = (vs[f[0] as usize], vs[f[1] as usize]);
            let e = (b - a).normalize();
            let r = rvec(rng);
            let nn = e.cross(&r);
            if nn.norm() < 1e-3 {
                Plane3::new(n, n.dot(&through.coords))
            } else {
                let nn = UnitVec3::new_normalize(nn);
                Plane3::new(nn, nn.dot(&a.coords))
            }
        }
        3 => {
            // coplanar with a face
            let f = mesh.faces()[rng.below(mesh.faces().len())];
            let (a, b, c) = (vs[f[0] as usize], vs[f[1] as usize], vs[f[2] as usize]);
            Plane3::from((&a, &b, &c))
        }
        _ => Plane3::new(n, n.dot(&through.coords)),
    };
    let margin = 1e-4 * scale.max(1.0);
    let clean = vs.iter().all(|p| plane.signed_distance_to_point(p).abs() > margin);
    let mut open_section = false;
    let boundary = boundary_edges(&mesh);
    let watertight = boundary.is_empty();
    {
        for (a, b) in boundary {
            let (sa, sb) = (plane.signed_distance_to_point(&vs[a as usize]), plane.signed_distance_to_point(&vs[b as usize]));
            if (sa <= 2e-6 && sb >= -2e-6) || (sb <= 2e-6 && sa >= -2e-6) {
                open_section = true;
            }
        }
    }
    Case { mesh, kind, plane, clean, open_section, watertight, scale }
}

fn area(mesh: &Mesh) -> f64 {
    let v = mesh.vertices();
    mesh.faces().iter().map(|f| (v[f[1] as usize] - v[f[0] as usize]).cross(&(v[f[2] as usize] - v[f[0] as usize])).norm() * 0.5).sum()
}

/// the crossing segment of every face (clean planes only), with the mesh edges it runs between
fn crossings(mesh: &Mesh, plane: &Plane3) -> Vec<((u32, u32), Point3, (u32, u32), Point3)> {
    let v = mesh.vertices();
    let mut out = vec![];
    for f in mesh.faces() {
        let s: Vec<f64> = f.iter().map(|i| plane.signed_distance_to_point(&v[*i as usize])).collect();
        let mut pts = vec![];
        for k in 0..3 {
            let (i, j) = (k, (k + 1) % 3);
            if (s[i] < 0.0) != (s[j] < 0.0) {
                let (a, b) = (v[f[i] as usize], v[f[j] as usize]);
                let t = s[i] / (s[i] - s[j]);
                pts.push(((f[i].min(f[j]), f[i].max(f[j])), a + (b - a) * t));
            }
        }
        if pts.len() == 2 {
            out.push((pts[0].0, pts[0].1, pts[1].0, pts[1].1));
        }
    }
    out
}

fn components(segs: &[((u32, u32), Point3, (u32, u32), Point3)]) -> usize {
    let mut id: HashMap<(u32, u32), usize> = HashMap::new();
    for s in segs {
        let n = id.len();
        id.entry(s.0).or_insert(n);
        let n = id.len();
        id.entry(s.2).or_insert(n);
    }
    let mut parent: Vec<usize> = (0..id.len()).collect();
    fn find(p: &mut Vec<usize>, a: usize) -> usize {
        let mut a = a;
        while p[a] != a {
            p[a] = p[p[a]];
            a = p[a];
        }
        a
    }
    for s in segs {
        let (a, b) = (find(&mut parent, id[&s.0]), find(&mut parent, id[&s.2]));
        if a != b {
            parent[a] = b;
        }
    }
    let mut roots: Vec<usize> = (0..parent.len()).map(|a| find(&mut parent, a)).collect();
    roots.sort();
    roots.dedup();
    roots.len()
}

/// perimeter of the convex polygon spanned by coplanar points (angle sort about the centroid)
fn convex_perimeter(pts: &[Point3], n: &Vector3) -> f64 {
    let c = pts.iter().fold(Vector3::zeros(), |a, p| a + p.coords) / pts.len() as f64;
    let u = {
        let r = if n.x.abs() < 0.9 { Vector3::x() } else { Vector3::y() };
        n.cross(&r).normalize()
    };
    let w = n.cross(&u);
    let mut ang: Vec<(f64, Point3)> = pts.iter().map(|p| (((p.coords - c).dot(&w)).atan2((p.coords - c).dot(&u)), *p)).collect();
    ang.sort_by(|a, b| a.0.total_cmp(&b.0));
    let mut per = 0.0;
    for k in 0..ang.len() {
        per += (ang[(k + 1) % ang.len()].1 - ang[k].1).norm();
    }
    per
}

fn section_checks(c: &Case, curves: &[Curve3], v: &mut Verdict) -> (usize, f64) {
    let tol = 1e-9 * (1.0 + c.scale + c.plane.d.abs());
    let mut nseg = 0;
    let mut total = 0.0;
    let mut worst_plane: f64 = 0.0;
    let mut worst_surf: f64 = 0.0;
    for cv in curves {
        for p in cv.points() {
            worst_plane = worst_plane.max(c.plane.signed_distance_to_point(p).abs());
            worst_surf = worst_surf.max((c.mesh.point_closest_to(p) - p).norm());
        }
        nseg += cv.points().len() - 1;
        total += cv.length();
    }
    v.require(worst_plane <= tol.max(2e-6 * (!c.clean) as u8 as f64), "section.vertices_on_plane", || format!("{worst_plane:e}"));
    v.require(worst_surf <= tol * 10.0, "section.vertices_on_surface", || format!("{worst_surf:e}"));
    (nseg, total)
}

fn mesh_tokens(c: &Case) -> Tok {
    let mut i = Tok::new();
    i.fs(c.plane.normal.as_slice()).f(c.plane.d);
    i.n(c.mesh.vertices().len());
    for p in c.mesh.vertices() {
        i.fs(p.coords.as_slice());
    }
    i.n(c.mesh.faces().len());
    for f in c.mesh.faces() {
        i.n(f[0] as usize).n(f[1] as usize).n(f[2] as usize);
    }
    i
}

/// run the section in this process (the caller has decided that it is safe, or we are the child)
fn run_section(c: &Case, rng: &mut Rng) {
    let (mesh, plane) = (c.mesh.clone(), c.plane.clone());
    let res = with_watchdog(move || guarded(|| mesh.section(&plane, Some(1e-10)).map_err(|e| e.to_string())));
    let mut v = Verdict::new();
    let op = "section.mesh";
    let curves = match res {
        None => {
            v.require(false, if c.open_section { "section.returns_for_open_section" } else { "section.returns" }, || format!("{:?} mesh, no result within 6 s", c.kind));
            let mut o = Tok::new();
            o.w("timeout");
            emit_oracle_only(op, &Tok::new(), &o, &v);
            use std::io::Write;
            std::io::stdout().flush().ok();
            std::process::exit(0);
        }
        Some(Err(e)) => {
            v.require(false, if c.clean { "section.panics" } else { "section.panics_on_plane_through_vertices" }, || format!("{:?} mesh: {e}", c.kind));
            emit_oracle_only(op, &Tok::new(), &Tok::new(), &v);
            return;
        }
        Some(Ok(Err(e))) => {
            v.require(false, "section.returns_ok", || e.clone());
            emit_oracle_only(op, &Tok::new(), &Tok::new(), &v);
            return;
        }
        Some(Ok(Ok(cs))) => cs,
    };
    let (nseg, total) = section_checks(c, &curves, &mut v);
    let closed_mesh = c.watertight || !c.open_section;
    if std::env::var("VH_C13_TRACE").is_ok() && (curves.len() > 20 || (c.watertight && curves.iter().any(|cv| (cv.points()[0] - cv.points()[cv.points().len() - 1]).norm() > 1e-6))) {
        let clear = c.mesh.vertices().iter().map(|p| c.plane.signed_distance_to_point(p).abs()).fold(f64::INFINITY, f64::min);
        eprintln!("TRACE kind {:?} faces {} verts {} watertight {} open_section {} clean {} clearance {clear:e} plane n {:?} d {} curves {}", c.kind, c.mesh.faces().len(), c.mesh.vertices().len(), c.watertight, c.open_section, c.clean, c.plane.normal, c.plane.d, curves.len());
        for cv in curves.iter().take(6) {
            eprintln!("   curve n={} first {:?} last {:?}", cv.points().len(), cv.points()[0], cv.points()[cv.points().len() - 1]);
        }
        let vs = c.mesh.vertices();
        let near: Vec<(usize, f64)> = (0..vs.len()).map(|k| (k, c.plane.signed_distance_to_point(&vs[k]))).filter(|x| x.1.abs() < 1e-3).collect();
        eprintln!("   near-plane vertices {near:?}");
        for cv in curves.iter().take(3) {
            let ids: Vec<String> = cv.points().iter().map(|p| match vs.iter().position(|q| (q - p).norm() < 1e-9) { Some(k) => format!("v{k}"), None => { let f = c.mesh.faces().iter().position(|f| { let t = parry3d_f64::shape::Triangle::new(vs[f[0] as usize], vs[f[1] as usize], vs[f[2] as usize]); use parry3d_f64::query::PointQuery; t.distance_to_local_point(p, false) < 1e-9 }); format!("f{:?}", f.map(|k| c.mesh.faces()[k])) } }).collect();
            eprintln!("   curve: {}", ids.join(" "));
        }
        let bb = c.mesh.aabb();
        eprintln!("   aabb {:?} {:?}", bb.mins, bb.maxs);
    }
    let ctol = 1e-8 * (1.0 + c.scale);
    // (a plane through vertices of an OPEN mesh is probed for termination and incidence only, see DESIGN 8.6)
    // ... and a plane that contains a whole face has no well-defined section along that face
    let contains_face = !c.clean && c.mesh.faces().iter().any(|f| f.iter().all(|k| c.plane.signed_distance_to_point(&c.mesh.vertices()[*k as usize]).abs() <= 1e-5));
    if (c.watertight && !contains_face) || (closed_mesh && c.clean) {
        for (k, cv) in curves.iter().enumerate() {
            let p = cv.points();
            v.require((p[0] - p[p.len() - 1]).norm() <= ctol, "section.closed_for_watertight_mesh", || format!("{:?}: curve {k} of {} has a gap of {:e}", c.kind, curves.len(), (p[0] - p[p.len() - 1]).norm()));
        }
    }
    if c.clean && !c.watertight {
        // an open mesh: a section curve is closed or ends on the boundary of the mesh at both ends
        let bnd = boundary_edges(&c.mesh);
        let on_boundary = |p: &Point3| bnd.iter().any(|(a, b)| {
            let (pa, pb) = (c.mesh.vertices()[*a as usize], c.mesh.vertices()[*b as usize]);
            let ab = pb - pa;
            let t = ((p - pa).dot(&ab) / ab.norm_squared()).clamp(0.0, 1.0);
            (p - (pa + ab * t)).norm() <= ctol
        });
        for (k, cv) in curves.iter().enumerate() {
            let p = cv.points();
            let closed = (p[0] - p[p.len() - 1]).norm() <= ctol;
            v.require(closed || (on_boundary(&p[0]) && on_boundary(&p[p.len() - 1])), "section.open_curve_ends_on_the_mesh_boundary", || format!("{:?}: curve {k} of {} ends inside the surface", c.kind, curves.len()));
        }
    }
    if c.clean {
        let want = crossings(&c.mesh, &c.plane);
        // every returned segment is the crossing of exactly one face, every crossing is returned once
        let mut used = vec![false; want.len()];
        let mut unmatched = 0;
        for cv in &curves {
            for w in cv.points().windows(2) {
                let mut hit = None;
                for (k, s) in want.iter().enumerate() {
                    if used[k] {
                        continue;
                    }
                    let fwd = (s.1 - w[0]).norm() <= ctol && (s.3 - w[1]).norm() <= ctol;
                    let bwd = (s.3 - w[0]).norm() <= ctol && (s.1 - w[1]).norm() <= ctol;
                    if fwd || bwd {
                        hit = Some(k);
                        break;
                    }
                }
                match hit {
                    Some(k) => used[k] = true,
                    None => unmatched += 1,
                }
            }
        }
        let missing = used.iter().filter(|u| !**u).count();
        v.require(unmatched == 0, "section.every_segment_crosses_one_face", || format!("{:?}: {unmatched} of {nseg} returned segments are not the crossing of a face", c.kind));
        v.require(missing == 0, "section.every_face_crossing_used_exactly_once", || format!("{:?}: {missing} of {} face crossings missing from the curves", c.kind, want.len()));
        let comps = components(&want);
        v.require(curves.len() == comps, "section.one_curve_per_connected_crossing_set", || format!("{:?}: {} curves for {comps} components", c.kind, curves.len()));
        let convex = matches!(c.kind, Kind::Box | Kind::ConvexPrism | Kind::Sphere) || (c.kind == Kind::Tube && !c.open_section);
        if convex && !want.is_empty() {
            let mut pts: Vec<Point3> = vec![];
            for s in &want {
                pts.push(s.1);
                pts.push(s.3);
            }
            let per = convex_perimeter(&pts, &c.plane.normal.into_inner());
            v.require(curves.len() == 1, "section.convex_solid_has_one_loop", || format!("{:?}: {} loops", c.kind, curves.len()));
            v.require((total - per).abs() <= 1e-8 * (1.0 + per), "section.convex_loop_length_is_polygon_perimeter", || format!("{:?}: {total} vs {per}", c.kind));
        }
        if want.is_empty() {
            v.require(curves.is_empty(), "section.empty_when_plane_misses", || format!("{} curves", curves.len()));
        }
        // rigid motion of mesh and plane together
        let t: Iso3 = gen::iso3(rng, 30.0);
        let (m2, p2) = (gen::moved(&c.mesh, &t), c.plane.transform_by(&t));
        if let Some(Ok(Ok(c2))) = with_watchdog(move || guarded(|| m2.section(&p2, Some(1e-10)).map_err(|e| e.to_string()))) {
            let mut l1: Vec<f64> = curves.iter().map(|x| x.length()).collect();
            let mut l2: Vec<f64> = c2.iter().map(|x| x.length()).collect();
            l1.sort_by(|a, b| a.total_cmp(b));
            l2.sort_by(|a, b| a.total_cmp(b));
            let same = l1.len() == l2.len() && l1.iter().zip(&l2).all(|(a, b)| (a - b).abs() <= 1e-7 * (1.0 + a));
            v.require(same, "section.commutes_with_rigid_motion", || format!("{:?}: lengths {:?} vs {:?}", c.kind, l1, l2));
        } else {
            v.require(false, "section.commutes_with_rigid_motion", || "moved section failed".into());
        }
    }
    // the implementation's own algorithm, statement by statement, in the model: same curves, same
    // vertices, same order (every kind of case: clean or through vertices, closed or open)
    if c.mesh.faces().len() <= 400 {
        let mut i = Tok::new();
        i.fs(c.plane.normal.as_slice()).f(c.plane.d).f(1e-10);
        i.n(c.mesh.vertices().len());
        for p in c.mesh.vertices() {
            i.fs(p.coords.as_slice());
        }
        i.n(c.mesh.faces().len());
        for f in c.mesh.faces() {
            i.n(f[0] as usize).n(f[1] as usize).n(f[2] as usize);
        }
        let mut o = Tok::new();
        o.n(curves.len());
        for cv in &curves {
            o.n(cv.points().len());
            for p in cv.points() {
                o.fs(p.coords.as_slice());
            }
        }
        emit("section.curves", &i, &o, &Verdict::new());
    }
    let mut o = Tok::new();
    o.n(nseg).f(total).n(curves.len());
    let small = c.mesh.faces().len() <= 400;
    if c.clean && small {
        emit(op, &mesh_tokens(c), &o, &v);
    } else {
        emit_oracle_only(op, &Tok::new(), &o, &v);
    }
}

fn run_split(c: &Case) {
    let (mesh, plane) = (c.mesh.clone(), c.plane.clone());
    let res = with_watchdog(move || {
        guarded(|| match mesh.split(&plane) {
            SplitResult::Pair(a, b) => Some((Some(a), Some(b))),
            SplitResult::Negative => Some((Some(mesh.clone()), None)),
            SplitResult::Positive => Some((None, Some(mesh.clone()))),
        })
    });
    let mut v = Verdict::new();
    let vs = c.mesh.vertices();
    let eps = 1e-6;
    let any_neg = vs.iter().any(|p| c.plane.signed_distance_to_point(p) < -eps);
    let any_pos = vs.iter().any(|p| c.plane.signed_distance_to_point(p) > eps);
    match res {
        None => v.require(false, "split.returns", || "no result within 6 s".into()),
        Some(Err(e)) => v.require(false, if c.clean { "split.panics" } else { "split.panics_on_plane_through_vertices" }, || format!("{:?}: {e}", c.kind)),
        Some(Ok(None)) => {}
        Some(Ok(Some((neg, pos)))) => {
            let tol = 2e-6 + 1e-9 * c.scale;
            match (&neg, &pos) {
                (Some(a), Some(b)) => {
                    v.require(any_neg && any_pos, "split.pair_only_when_crossed", || "".into());
                    let wa = a.vertices().iter().map(|p| c.plane.signed_distance_to_point(p)).fold(f64::MIN, f64::max);
                    let wb = b.vertices().iter().map(|p| c.plane.signed_distance_to_point(p)).fold(f64::MAX, f64::min);
                    v.require(wa <= tol, "split.first_part_on_negative_side", || format!("{wa:e}"));
                    v.require(wb >= -tol, "split.second_part_on_positive_side", || format!("{wb:e}"));
                    if c.clean {
                        let (s, t) = (area(a) + area(b), area(&c.mesh));
                        v.require((s - t).abs() <= 1e-9 * (1.0 + t), "split.areas_sum_to_original", || format!("{:?}: {s} vs {t}", c.kind));
                    }
                }
                (Some(_), None) => v.require(!any_pos, "split.negative_only_when_nothing_above", || "".into()),
                (None, Some(_)) => v.require(!any_neg, "split.positive_only_when_nothing_below", || "".into()),
                _ => {}
            }
        }
    }
    emit_oracle_only("section.split", &Tok::new(), &Tok::new(), &v);
}

/// the curve tolerance argument only merges neighbouring curve vertices: whatever it is, the vertices
/// returned lie on the plane and on the surface and the section is there when the plane crosses the
/// mesh.  Planes are placed close to a mesh vertex (closer than the tolerance, clear of parry's own
/// on-plane threshold) on watertight meshes.
fn run_section_loose(c: &Case, rng: &mut Rng) {
    if !c.watertight {
        return;
    }
    let t = c.scale * 10f64.powf(rng.range(-3.5, -1.3));
    let vs = c.mesh.vertices();
    let pv = vs[rng.below(vs.len())];
    let n = c.plane.normal;
    let delta = t * rng.range(0.1, 0.8) * if rng.chance(0.5) { 1.0 } else { -1.0 };
    let plane = Plane3::new(n, n.dot(&pv.coords) + delta);
    let clear = vs.iter().map(|p| plane.signed_distance_to_point(p).abs()).fold(f64::INFINITY, f64::min);
    if clear < 1e-5 * (1.0 + c.scale) {
        return;
    }
    let arg = if rng.chance(0.25) { None } else { Some(t) };
    section_against_face_crossings(c, &plane, arg, clear, "section.loose_tolerance");
}

/// the section by `plane` (which clears every vertex) against the crossing segments of the faces
fn section_against_face_crossings(c: &Case, plane: &Plane3, arg: Option<f64>, clear: f64, op: &str) {
    let (mesh, pl2) = (c.mesh.clone(), plane.clone());
    let res = with_watchdog(move || guarded(|| mesh.section(&pl2, arg).map_err(|e| e.to_string())));
    let mut v = Verdict::new();
    match res {
        None => v.require(false, "section.returns", || format!("{:?} mesh, curve tolerance {arg:?}: no result within 6 s", c.kind)),
        Some(Err(e)) => v.require(false, "section.panics", || format!("{:?} mesh, curve tolerance {arg:?}: {e}", c.kind)),
        Some(Ok(Err(e))) => v.require(false, "section.returns_ok", || e.clone()),
        Some(Ok(Ok(curves))) => {
            let tol = 1e-9 * (1.0 + c.scale + plane.d.abs());
            let mut total = 0.0;
            let (mut wp, mut ws) = (0.0f64, 0.0f64);
            for cv in &curves {
                for p in cv.points() {
                    wp = wp.max(plane.signed_distance_to_point(p).abs());
                    ws = ws.max((c.mesh.point_closest_to(p) - p).norm());
                }
                total += cv.length();
            }
            v.require(wp <= tol, "section.vertices_on_plane_whatever_the_curve_tolerance", || format!("{:?} of size {:e}: a curve vertex is {wp:e} off the plane (curve tolerance {arg:?}, nearest mesh vertex {clear:e} from the plane)", c.kind, c.scale));
            v.require(ws <= 10.0 * tol, "section.vertices_on_surface_whatever_the_curve_tolerance", || format!("{:?}: {ws:e} (curve tolerance {arg:?})", c.kind));
            let want = {
                let probe = Case { mesh: c.mesh.clone(), kind: c.kind, plane: plane.clone(), clean: true, open_section: false, watertight: true, scale: c.scale };
                crossings(&probe.mesh, &probe.plane)
            };
            let wlen: f64 = want.iter().map(|s| (s.1 - s.3).norm()).sum();
            if !want.is_empty() && wlen > 10.0 * arg.unwrap_or(1e-6) {
                v.require(!curves.is_empty(), "section.not_empty_when_the_plane_crosses", || format!("{:?} of size {:e}: {} face crossings of total length {wlen}, no curve (curve tolerance {arg:?}, nearest mesh vertex {clear:e} from the plane)", c.kind, c.scale, want.len()));
            }
            let slack = 2.0 * arg.unwrap_or(1e-6) * (want.len() as f64 + 1.0) + 1e-8 * (1.0 + wlen);
            v.require((total - wlen).abs() <= slack, "section.length_is_the_length_of_the_face_crossings", || format!("{:?}: {total} vs {wlen} (curve tolerance {arg:?})", c.kind));
        }
    }
    emit_oracle_only(op, &Tok::new(), &Tok::new(), &v);
}

/// meshes of every size (a part modelled in micrometres or in metres): the vertex-on-plane snap of the
/// section is an absolute 1e-6, so a plane that clears every vertex by more than that cuts every face it
/// crosses, whatever the size of the mesh
fn run_section_scaled(rng: &mut Rng) {
    let base = match rng.below(4) {
        0 => (Mesh::create_box(rng.range(0.5, 5.0), rng.range(0.5, 5.0), rng.range(0.5, 5.0), false), Kind::Box),
        1 => (prism(rng, true), Kind::ConvexPrism),
        2 => (gen::sphere(rng.range(0.5, 3.0), rng.int(4, 10) as usize, rng.int(3, 7) as usize), Kind::Sphere),
        _ => (gen::torus(rng.range(2.0, 4.0), rng.range(0.3, 1.0), rng.int(5, 12) as usize, rng.int(4, 8) as usize), Kind::Torus),
    };
    // from a part of a few hundred micrometres (a model in metres, a MEMS feature) to one of tens of thousands of units
    let f: f64 = *rng.pick(&[1e-4, 1e-3, 1e-2, 0.1, 30.0, 400.0, 2000.0, 3e4]);
    let t = gen::iso3(rng, 3.0);
    let verts: Vec<Point3> = base.0.vertices().iter().map(|p| Point3::from((t * p).coords * f)).collect();
    let mesh = Mesh::new(verts, base.0.faces().to_vec(), false);
    let vs = mesh.vertices();
    let mut lo = vs[0].coords;
    let mut hi = vs[0].coords;
    for p in vs {
        lo = lo.inf(&p.coords);
        hi = hi.sup(&p.coords);
    }
    let scale = (hi - lo).norm();
    let n = if rng.chance(0.4) { UnitVec3::new_normalize(*rng.pick(&[Vector3::x(), Vector3::y(), Vector3::z()])) } else { UnitVec3::new_normalize(rvec(rng)) };
    let pv = vs[rng.below(vs.len())];
    // beside a vertex by a few micrometres to a millimetre, whatever the size of the mesh
    let small = f < 1e-2;
    let delta = if small { scale * rng.range(0.01, 0.2) } else { 10f64.powf(rng.range(-5.3, -3.0)) } * if rng.chance(0.5) { 1.0 } else { -1.0 };
    let plane = Plane3::new(n, n.dot(&pv.coords) + delta);
    let clear = vs.iter().map(|p| plane.signed_distance_to_point(p).abs()).fold(f64::INFINITY, f64::min);
    // (the section snaps a mesh vertex within an ABSOLUTE 1e-6 of the plane onto it, whatever the size of the part)
    if clear < if small { (3e-3 * scale).max(3e-6) } else { 3e-6 } {
        return;
    }
    let c = Case { mesh, kind: base.1, plane: plane.clone(), clean: true, open_section: false, watertight: true, scale };
    section_against_face_crossings(&c, &plane, Some(1e-9), clear, "section.scaled");
}


/// a case that may never return is run in a child process with a memory cap and a time limit
fn run_isolated(state: u64, c: &Case) {
    let exe = std::env::current_exe().expect("current_exe");
    let cmd = format!("ulimit -v 2000000; exec {} C13 {} 1 --child", exe.display(), state);
    let trace = std::env::var("VH_C13_TRACE").is_ok();
    let mut child = Command::new("sh").arg("-c").arg(cmd).stdout(Stdio::piped()).stderr(if trace { Stdio::inherit() } else { Stdio::null() }).spawn().expect("spawn");
    let start = Instant::now();
    let mut status = None;
    while start.elapsed() < Duration::from_secs(10) {
        match child.try_wait() {
            Ok(Some(s)) => {
                status = Some(s);
                break;
            }
            _ => std::thread::sleep(Duration::from_millis(20)),
        }
    }
    if status.is_none() {
        let _ = child.kill();
        let _ = child.wait();
    }
    let mut out = String::new();
    if let Some(mut so) = child.stdout.take() {
        let _ = so.read_to_string(&mut out);
    }
    let ok = status.map(|s| s.success()).unwrap_or(false);
    if ok && out.lines().any(|l| l.starts_with("section.mesh")) {
        print!("{out}");
    } else {
        let mut v = Verdict::new();
        let clause = if c.open_section { "section.returns_for_open_section" } else { "section.returns_for_plane_through_vertices" };
        v.require(false, clause, || format!("{:?} mesh, {} faces: Mesh::section did not return (child {}; memory capped at 2 GB, 10 s)", c.kind, c.mesh.faces().len(), if status.is_none() { "timed out".to_string() } else { format!("{:?}", status.unwrap().code()) }));
        let mut o = Tok::new();
        o.w("no-return");
        emit_oracle_only("section.mesh", &Tok::new(), &o, &v);
    }
}

/// A two-sided sheet: every face of an open surface also present with the opposite winding (a thin wall modelled with
/// both of its sides, a surface appended to its own reversed copy).  The two sides are distinct faces; a split keeps
/// both, so the areas of the halves still add up to the area of the whole.  Only the split clauses are run.
fn split_two_sided(rng: &mut Rng) {
    let nx = rng.int(3, 8) as usize;
    let ny = rng.int(3, 8) as usize;
    let amp = rng.range(0.0, 1.0);
    let base = gen::moved(&gen::height_field(rng, nx, ny, amp), &gen::iso3(rng, 20.0));
    let mut faces = base.faces().to_vec();
    let back: Vec<[u32; 3]> = faces.iter().map(|f| [f[0], f[2], f[1]]).collect();
    faces.extend(back);
    let mesh = Mesh::new(base.vertices().to_vec(), faces, false);
    let vs = mesh.vertices();
    let (mut lo, mut hi) = (vs[0].coords, vs[0].coords);
    for p in vs {
        lo = lo.inf(&p.coords);
        hi = hi.sup(&p.coords);
    }
    let scale = (hi - lo).norm();
    let n = UnitVec3::new_normalize(rvec(rng));
    let through = Point3::from(lo + (hi - lo).component_mul(&Vector3::new(rng.range(0.2, 0.8), rng.range(0.2, 0.8), rng.range(0.2, 0.8))));
    let plane = Plane3::new(n, n.dot(&through.coords));
    let margin = 1e-4 * scale.max(1.0);
    if !vs.iter().all(|p| plane.signed_distance_to_point(p).abs() > margin) {
        return;
    }
    let c = Case { mesh, kind: Kind::Field, plane, clean: true, open_section: true, watertight: false, scale };
    run_split(&c);
}

pub fn run(rng: &mut Rng, n: usize, child: bool, seed: u64, thorough: bool) {
    if child {
        // `seed` is the PRNG state at which the parent generated the case
        let mut r = Rng(seed);
        let c = gen_case(&mut r);
        run_section(&c, &mut r);
        return;
    }
    let mut k = 0;
    let mut isolated = 0;
    while k < n {
        match rng.below(10) {
            0..=2 => {
                chains(rng);
                k += 1
            }
            3 => {
                edges(rng);
                k += 1
            }
            _ => {
                let state = rng.0;
                let c = gen_case(rng);
                let risky = c.open_section || !c.clean;
                if risky {
                    // a bounded number per run: each may cost seconds
                    if isolated < if thorough { 400 } else { 40 } {
                        isolated += 1;
                        run_isolated(state, &c);
                    }
                } else {
                    run_section(&c, rng);
                    run_section_loose(&c, rng);
                    run_section_scaled(rng);
                    // the index pairs parry produced for this section, through chained_indices
                    if let parry3d_f64::query::IntersectResult::Intersect(pl) = c.mesh.tri_mesh().intersection_with_local_plane(&c.plane.normal, c.plane.d, 1.0e-6) {
                        chain_case(rng, pl.indices().to_vec(), "parry polyline");
                    }
                }
                if rng.chance(0.15) {
                    split_two_sided(rng);
                }
                if !c.open_section || c.clean {
                    run_split(&c);
                }
                k += 2;
            }
        }
    }
}
