//! C10 — airfoil analysis yields inscribed circles and recovers a known medial axis.
use crate::util::*;
use engeom::airfoil::helpers::{inscribed_from_spanning_ray, OrientedCircles};
use engeom::airfoil::{
    AirfoilGeometry, CamberOrient, ConstRadiusEdge, ConvergeTangentEdge, DirectionFwd, EdgeLocate, FaceOrient, FitRadiusEdge, InscribedCircle, IntersectEdge, OpenEdge, OpenIntersectGap,
    RansacRadiusEdge, TMaxFwd, TraceToMaxCurvature,
};
use engeom::geom2::polyline2::SpanningRay;
use engeom::geom2::{Circle2, Curve2, Iso2};
use engeom::{Point2, Vector2};
use std::sync::mpsc;
use std::time::Duration;

fn with_watchdog<T: Send + 'static>(secs: u64, f: impl FnOnce() -> T + Send + 'static) -> Option<T> {
    let (tx, rx) = mpsc::channel();
    std::thread::spawn(move || {
        let r = f();
        let _ = tx.send(r);
    });
    rx.recv_timeout(Duration::from_secs(secs)).ok()
}

// ------------------------------------------------------------------------------------------
// the parametric family: envelope of circles of radius r(s) along a camber curve c(s)
// ------------------------------------------------------------------------------------------
#[derive(Clone, Debug)]
pub struct Family {
    /// camber: circular arc of arclength `len` turning by `bend` radians (0 = straight), starting at
    /// the origin along +x, bending to the left (+y) when `bend` > 0
    pub len: f64,
    pub bend: f64,
    /// r(u) = r0 (1-u) + r1 u + b 4u(1-u),  u = s / len
    pub r0: f64,
    pub r1: f64,
    pub b: f64,
    pub n_side: usize,
    pub n_cap: usize,
}

impl Family {
    /// the camber continued straight into the two edge caps (to the edge points), with the radius
    /// of the circle inscribed in the cap there
    pub fn camber_ext(&self, s: f64) -> (Point2, f64) {
        if s < 0.0 {
            let (c, t, _) = self.camber(0.0);
            (c + t * s, self.radius(0.0) + s)
        } else if s > self.len {
            let (c, t, _) = self.camber(self.len);
            (c + t * (s - self.len), self.radius(self.len) - (s - self.len))
        } else {
            (self.camber(s).0, self.radius(s))
        }
    }
    pub fn camber(&self, s: f64) -> (Point2, Vector2, Vector2) {
        if self.bend.abs() < 1e-12 {
            (Point2::new(s, 0.0), Vector2::new(1.0, 0.0), Vector2::new(0.0, 1.0))
        } else {
            let k = self.bend / self.len; // curvature
            let a = k * s;
            (Point2::new(a.sin() / k, (1.0 - a.cos()) / k), Vector2::new(a.cos(), a.sin()), Vector2::new(-a.sin(), a.cos()))
        }
    }
    pub fn radius(&self, s: f64) -> f64 {
        let u = s / self.len;
        self.r0 * (1.0 - u) + self.r1 * u + self.b * 4.0 * u * (1.0 - u)
    }
    pub fn dradius(&self, s: f64) -> f64 {
        let u = s / self.len;
        (self.r1 - self.r0 + self.b * 4.0 * (1.0 - 2.0 * u)) / self.len
    }
    /// envelope point on the +N (upper) or −N (lower) side
    pub fn envelope(&self, s: f64, upper: bool) -> Point2 {
        let (c, t, n) = self.camber(s);
        let (r, dr) = (self.radius(s), self.dradius(s));
        let w = (1.0 - dr * dr).sqrt() * if upper { 1.0 } else { -1.0 };
        c + (t * (-dr) + n * w) * r
    }
    pub fn tmax(&self) -> (f64, f64) {
        // maximum of r on [0, len]
        let mut best = (0.0, self.radius(0.0));
        for k in 0..=20000 {
            let s = self.len * k as f64 / 20000.0;
            if self.radius(s) > best.1 {
                best = (s, self.radius(s));
            }
        }
        best
    }
    /// counter-clockwise outline: lower surface LE→TE, TE cap, upper surface TE→LE, LE cap
    pub fn outline(&self) -> Vec<Point2> {
        let mut pts = vec![];
        let ns = self.n_side;
        for k in 0..ns {
            pts.push(self.envelope(self.len * k as f64 / ns as f64, false));
        }
        // TE cap: from the lower contact (angle −θ) through 0 to the upper contact (+θ), in the (T, N) frame
        let (c1, t1, n1) = self.camber(self.len);
        let (r1, dr1) = (self.radius(self.len), self.dradius(self.len));
        let th1 = ((1.0 - dr1 * dr1).sqrt()).atan2(-dr1);
        for k in 0..self.n_cap {
            let a = -th1 + 2.0 * th1 * k as f64 / self.n_cap as f64;
            pts.push(c1 + (t1 * a.cos() + n1 * a.sin()) * r1);
        }
        for k in 0..ns {
            pts.push(self.envelope(self.len * (1.0 - k as f64 / ns as f64), true));
        }
        // LE cap: from the upper contact (angle θ) through π to 2π − θ
        let (c0, t0, n0) = self.camber(0.0);
        let (r0, dr0) = (self.radius(0.0), self.dradius(0.0));
        let th0 = ((1.0 - dr0 * dr0).sqrt()).atan2(-dr0);
        for k in 0..self.n_cap {
            let a = th0 + (2.0 * std::f64::consts::PI - 2.0 * th0) * k as f64 / self.n_cap as f64;
            pts.push(c0 + (t0 * a.cos() + n0 * a.sin()) * r0);
        }
        pts
    }
    pub fn le_point(&self) -> Point2 {
        let (c0, t0, _) = self.camber(0.0);
        c0 - t0 * self.radius(0.0)
    }
    pub fn te_point(&self) -> Point2 {
        let (c1, t1, _) = self.camber(self.len);
        c1 + t1 * self.radius(self.len)
    }
    /// distance of a point from the (extended) camber and the arclength of its foot
    pub fn foot(&self, p: &Point2) -> (f64, f64) {
        let (a, b) = (-self.radius(0.0), self.len + self.radius(self.len));
        let mut best = (f64::INFINITY, 0.0);
        let n = 4000;
        for k in 0..=n {
            let s = a + (b - a) * k as f64 / n as f64;
            let d = (self.camber_ext(s).0 - p).norm();
            if d < best.0 {
                best = (d, s);
            }
        }
        let h = (b - a) / n as f64;
        let (mut lo, mut hi) = ((best.1 - h).max(a), (best.1 + h).min(b));
        for _ in 0..60 {
            let (x, y) = (lo + (hi - lo) / 3.0, hi - (hi - lo) / 3.0);
            if (self.camber_ext(x).0 - p).norm() < (self.camber_ext(y).0 - p).norm() {
                hi = y
            } else {
                lo = x
            }
        }
        let s = 0.5 * (lo + hi);
        ((self.camber_ext(s).0 - p).norm(), s)
    }
}

pub fn family(rng: &mut Rng) -> Family {
    let len = *rng.pick(&[10.0, 10.0, 40.0, 2.5]);
    let scale = len / 10.0;
    let r0 = rng.range(0.25, 0.5) * scale;
    let r1 = rng.range(0.10, 0.22) * scale;
    let b = rng.range(0.35, 0.9) * scale;
    Family { len, bend: *rng.pick(&[0.0, 0.15, 0.35, 0.6, -0.3]), r0, r1, b, n_side: *rng.pick(&[80usize, 150, 300]), n_cap: *rng.pick(&[16usize, 30, 60]) }
}

#[derive(Clone, Copy, Debug, PartialEq)]
enum Edge {
    Intersect,
    TraceMaxCurv,
    FitRadius,
    ConstRadius,
    ConvergeTangent,
    Ransac,
}
fn make_edge(e: Edge, scale: f64, fit_tol: Option<f64>) -> Box<dyn EdgeLocate> {
    match e {
        Edge::Intersect => IntersectEdge::make(),
        Edge::TraceMaxCurv => TraceToMaxCurvature::make(None),
        Edge::FitRadius => FitRadiusEdge::make(fit_tol),
        Edge::ConstRadius => ConstRadiusEdge::make(None),
        Edge::ConvergeTangent => ConvergeTangentEdge::make(None),
        Edge::Ransac => RansacRadiusEdge::make(2e-3 * scale, 500),
    }
}

struct Variant {
    iso: Iso2,
    reversed: bool,
    start: usize,
}

fn variant_points(base: &[Point2], v: &Variant) -> Vec<Point2> {
    let n = base.len();
    let mut p: Vec<Point2> = (0..n).map(|k| v.iso * base[(k + v.start) % n]).collect();
    if v.reversed {
        p.reverse();
    }
    p
}

struct Outcome {
    geo: AirfoilGeometry,
    section: Curve2,
}

fn analyze(pts: Vec<Point2>, tol: f64, core_tol: f64, orient_dir: Option<Vector2>, le: Edge, te: Edge, face: Option<Vector2>, scale: f64, fit_tol: Option<f64>) -> Option<Result<Outcome, String>> {
    with_watchdog(20, move || {
        guarded(move || {
            let section = Curve2::from_points(&pts, tol, true).map_err(|e| e.to_string())?;
            let orient: Box<dyn CamberOrient> = match orient_dir {
                None => TMaxFwd::make(),
                Some(d) => DirectionFwd::make(d),
            };
            let face = match face {
                None => FaceOrient::Detect,
                Some(v) => FaceOrient::UpperDir(v),
            };
            let geo = AirfoilGeometry::try_analyze(&section, core_tol, orient, make_edge(le, scale, fit_tol), make_edge(te, scale, fit_tol), face).map_err(|e| e.to_string())?;
            Ok::<Outcome, String>(Outcome { geo, section })
        })
        .unwrap_or_else(|e| Err(format!("PANIC {e}")))
    })
}

fn check_geometry(v: &mut Verdict, fam: &Family, var: &Variant, out: &Outcome, core_tol: f64, le: Edge, te: Edge, upper_req: Option<Vector2>, tag: &str) {
    let geo = &out.geo;
    let sec = &out.section;
    let inv = var.iso.inverse();
    let scale = fam.len / 10.0;
    let tol_i = 5.0 * core_tol + 1e-9;
    let st = &geo.stations;
    v.require(st.len() >= 3, "airfoil.has_stations", || format!("{tag}: {} stations", st.len()));
    if st.len() < 3 {
        return;
    }
    // 1. inscribed circles
    let mut worst = (0.0f64, 0usize);
    let mut worst_forged: f64 = 0.0;
    let forged = |k: usize| (k == 0 && matches!(le, Edge::Ransac | Edge::ConstRadius)) || (k + 1 == st.len() && matches!(te, Edge::Ransac | Edge::ConstRadius));
    let mut worst_contact: f64 = 0.0;
    let mut worst_radius: f64 = 0.0;
    let mut same_side = None;
    for (k, s) in st.iter().enumerate() {
        let d = sec.dist_to_point(&s.center());
        if forged(k) {
            // a circle fitted to the edge by the edge method (not found by the search): its own tolerance
            worst_forged = worst_forged.max((d - s.radius()).abs());
            continue;
        }
        if (d - s.radius()).abs() > worst.0 {
            worst = ((d - s.radius()).abs(), k);
        }
        for c in [&s.contact_pos, &s.contact_neg] {
            worst_contact = worst_contact.max(sec.dist_to_point(c));
            worst_radius = worst_radius.max(((c - s.center()).norm() - s.radius()).abs());
        }
        // opposite sides of the camber direction (neighbours that do not coincide with the station:
        // the two halves of the extraction both start with the same circle)
        // (a neighbour closer than a few analysis tolerances gives no direction: the junction of the two halves)
        let near = 1e-9 * scale + 20.0 * core_tol;
        let mut dir = Vector2::zeros();
        for j in (k + 1)..st.len() {
            if (st[j].center() - s.center()).norm() > near {
                dir = st[j].center() - s.center();
                break;
            }
        }
        if dir.norm() == 0.0 {
            for j in (0..k).rev() {
                if (st[j].center() - s.center()).norm() > near {
                    dir = s.center() - st[j].center();
                    break;
                }
            }
        }
        let n = Vector2::new(-dir.y, dir.x);
        let (a, b) = ((s.contact_pos - s.center()).dot(&n), (s.contact_neg - s.center()).dot(&n));
        // only on the medial axis proper: inside an edge cap a circle touches the section once
        let sk = fam.foot(&(inv * s.center())).1;
        let proper = sk > 0.02 * fam.len && sk < 0.98 * fam.len;
        if proper && a * b >= 0.0 && same_side.is_none() {
            same_side = Some(k);
        }
    }
    v.require(worst.0 <= tol_i, "airfoil.station_is_inscribed_circle", || format!("{tag}: station {} of {}: |dist − r| = {:e} (tol {tol_i:e}) le={le:?} te={te:?}", worst.1, st.len(), worst.0));
    v.require(worst_forged <= 4e-3 * scale + 20.0 * core_tol, "airfoil.fitted_edge_circle_is_inscribed", || {
        let l = &st[st.len() - 1];
        let f = &st[0];
        format!("{tag}: {worst_forged:e} le={le:?} te={te:?}; first station r={} at {:?} (true cap r0={} at 0,0), last station r={} at {:?} (true cap r1={} at {:?}) n_cap={} n_side={} core_tol={core_tol}", f.radius(), inv * f.center(), fam.r0, l.radius(), inv * l.center(), fam.r1, fam.camber(fam.len).0, fam.n_cap, fam.n_side)
    });
    v.require(worst_contact <= tol_i, "airfoil.contact_points_on_section", || format!("{tag}: {worst_contact:e} le={le:?} te={te:?}"));
    v.require(worst_radius <= tol_i, "airfoil.contact_points_one_radius_from_centre", || format!("{tag}: {worst_radius:e} le={le:?} te={te:?}"));
    v.require(same_side.is_none(), "airfoil.contact_points_on_opposite_sides", || format!("{tag}: station {:?} of {} le={le:?} te={te:?} fam={fam:?}", same_side, st.len()));
    // 2. monotone advance from leading to trailing edge, along the known camber
    let feet: Vec<(f64, f64)> = st.iter().map(|s| fam.foot(&(inv * s.center()))).collect();
    let mut back = None;
    for k in 0..feet.len() - 1 {
        // (stations of the two extraction halves and of the edge methods are placed to the analysis tolerance: a
        // near-duplicate may sit a few tolerances behind its predecessor)
        // inside an edge cap (beyond the ends of the camber) the outline is a polygon inscribed in the cap circle: where
        // a circle of the cap is "inscribed" moves by up to the sagitta of one cap segment with the side of the
        // polygon it happens to touch, so two stations there can swap places by that much (found by the thorough
        // tier: TraceToMaxCurvature on a 30-segment cap of radius 1.96, sagitta 1.1e-2, swap 4.7e-3)
        let in_cap = |s: f64| s < 0.0 || s > fam.len;
        let sag = if in_cap(feet[k].1) || in_cap(feet[k + 1].1) { fam.r0.max(fam.r1) * (1.0 - (std::f64::consts::PI / fam.n_cap as f64).cos()) } else { 0.0 };
        if feet[k + 1].1 <= feet[k].1 - (1e-6 * fam.len + 5.0 * core_tol + sag) && back.is_none() {
            back = Some((k, feet[k].1, feet[k + 1].1));
        }
    }
    v.require(back.is_none(), "airfoil.stations_advance_from_leading_to_trailing_edge", || {
        let tail: Vec<String> = st.iter().rev().take(4).map(|s| format!("({:.4},{:.4}) r={:.4}", (inv * s.center()).x, (inv * s.center()).y, s.radius())).collect();
        format!("{tag}: {:?} le={le:?} te={te:?} core_tol={core_tol} fam={fam:?} last stations (from the end): {}", back, tail.join(" "))
    });
    // 5. known medial axis
    let disc = 0.02 * scale * (150.0 / fam.n_side as f64).max(1.0) * 0.1 + 5.0 * core_tol;
    let mut off: f64 = 0.0;
    let mut rad: f64 = 0.0;
    for (k, (s, f)) in st.iter().zip(&feet).enumerate() {
        // inside an edge cap (beyond the ends of the camber) every radial line carries inscribed
        // circles: only the medial axis proper is compared with the known camber
        if f.1 < 0.0 || f.1 > fam.len || forged(k) {
            continue;
        }
        off = off.max(f.0);
        rad = rad.max((s.radius() - fam.camber_ext(f.1).1).abs());
    }
    let worst_k = st.iter().zip(&feet).enumerate().filter(|x| x.1 .1 .1 >= 0.0 && x.1 .1 .1 <= fam.len).max_by(|a, b| a.1 .1 .0.total_cmp(&b.1 .1 .0)).map(|x| x.0).unwrap_or(0);
    v.require(off <= disc, "airfoil.centres_on_known_camber", || format!("{tag}: {off:e} (tol {disc:e}) at station {worst_k} of {} (centre {:?}, r {}, s {}) le={le:?} te={te:?}", st.len(), inv * st[worst_k].center(), st[worst_k].radius(), feet[worst_k].1));
    v.require(rad <= disc, "airfoil.radii_follow_known_law", || format!("{tag}: {rad:e} (tol {disc:e}) le={le:?} te={te:?}"));
    let (s_max, r_max) = fam.tmax();
    let tm = geo.find_tmax();
    v.require((tm.radius() - r_max).abs() <= disc, "airfoil.max_thickness_recovered", || format!("{tag}: {} vs {r_max} le={le:?} te={te:?} core_tol={core_tol} fam={fam:?} stations {} first s {:.3} last s {:.3}", tm.radius(), st.len(), feet[0].1, feet[feet.len() - 1].1));
    let tm_s = fam.foot(&(inv * tm.center())).1;
    // the maximum is flat: position tolerance from the curvature of the law
    let flat = (2.0 * disc / (8.0 * fam.b / (fam.len * fam.len))).sqrt() + 0.3 * r_max;
    v.require((tm_s - s_max).abs() <= flat, "airfoil.max_thickness_position_recovered", || format!("{tag}: {tm_s} vs {s_max} (tol {flat})"));
    // 3. edges
    let etol = 0.05 * scale + 5.0 * core_tol;
    for (name, e, truth) in [("leading", &geo.leading_edge, fam.le_point()), ("trailing", &geo.trailing_edge, fam.te_point())] {
        match e {
            // an edge method may decline (ConvergeTangentEdge returns no edge when nothing converges)
            None => {}
            Some(e) => {
                // an edge point placed on a fitted arc lies off the polyline by at most the sagitta of a cap segment
                let sag = fam.r0.max(fam.r1) * (1.0 - (std::f64::consts::PI / fam.n_cap as f64).cos());
                let method = if name == "leading" { le } else { te };
                // ConvergeTangentEdge works to 1 % of the edge radius by default
                let own = if method == Edge::ConvergeTangent { 0.015 * fam.r0.max(fam.r1) } else { 0.0 };
                v.require(sec.dist_to_point(&e.point) <= tol_i + sag + own, "airfoil.edge_point_on_section", || format!("{tag}: {name} edge {:e} from the section le={le:?} te={te:?}", sec.dist_to_point(&e.point)));
                let d = (inv * e.point - truth).norm();
                let method = if name == "leading" { le } else { te };
                // the maximum-curvature methods are not well posed on a circular cap (constant curvature)
                let aims = !matches!(method, Edge::TraceMaxCurv | Edge::ConvergeTangent);
                // the constant-radius method fits its edge arc to the analysis tolerance across the
                // junction of cap and face; the fitted centre moves by a multiple of that tolerance
                // — and its edge point is the camber direction through two nearly coincident centres
                // intersected with the section, which is ill conditioned: only "on the right cap" is checked
                let etol = etol + if method == Edge::ConstRadius { 30.0 * core_tol + fam.r0.max(fam.r1) } else { 0.0 };
                v.require(!aims || d <= etol, "airfoil.edge_point_at_end_of_known_camber", || format!("{tag}: {name} edge {d:e} from the true edge point (tol {etol:e}) le={le:?} te={te:?}"));
            }
        }
    }
    if let (Some(l), Some(t)) = (&geo.leading_edge, &geo.trailing_edge) {
        let cp = geo.camber.points();
        v.require((cp[0] - l.point).norm() <= 1e-9 && (cp[cp.len() - 1] - t.point).norm() <= 1e-9, "airfoil.camber_runs_from_edge_to_edge", || format!("{tag}"));
    }
    // 4. upper / lower
    match (&geo.upper, &geo.lower) {
        (Some(u), Some(l)) => {
            v.require((u.length() + l.length() - sec.length()).abs() <= 1e-6 * sec.length(), "airfoil.faces_partition_perimeter", || format!("{tag}: {} + {} vs {}", u.length(), l.length(), sec.length()));
            let want = match upper_req {
                Some(d) => var.iso * d,
                // detected: the side towards which the camber bulges away from its chord (a camber
                // turning left bulges to the right of the chord)
                None => {
                    let (_, _, nm) = fam.camber(0.5 * fam.len);
                    var.iso * (nm * if fam.bend >= 0.0 { -1.0 } else { 1.0 })
                }
            };
            // detection looks at the camber point farthest from the chord between the two END points of the
            // camber; an edge point placed by ConstRadiusEdge can sit up to an edge radius off the axis (see the
            // edge clauses), which tilts that chord: detection is judged when the camber's sagitta dominates
            let sagitta = fam.bend.abs() * fam.len / 8.0;
            let slack = if le == Edge::ConstRadius || te == Edge::ConstRadius { 2.0 * fam.r0.max(fam.r1) } else { 0.0 };
            if upper_req.is_some() || (fam.bend.abs() > 0.1 && sagitta > slack) {
                let mean = |c: &Curve2| c.points().iter().fold(Vector2::zeros(), |a, p| a + p.coords) / c.points().len() as f64;
                v.require((mean(u) - mean(l)).dot(&want) > 0.0, "airfoil.upper_face_on_requested_side", || format!("{tag}: requested {:?} le={le:?} te={te:?} fam={fam:?} stations {}", upper_req, st.len()));
            }
            if let (Some(le_e), Some(te_e)) = (&geo.leading_edge, &geo.trailing_edge) {
                for c in [u, l] {
                    let (a, b) = (c.points()[0], c.points()[c.points().len() - 1]);
                    let ok = ((a - le_e.point).norm() <= etol && (b - te_e.point).norm() <= etol) || ((b - le_e.point).norm() <= etol && (a - te_e.point).norm() <= etol);
                    v.require(ok, "airfoil.faces_run_between_edge_points", || format!("{tag}"));
                }
            }
        }
        _ => v.require(geo.leading_edge.is_none() || geo.trailing_edge.is_none(), "airfoil.faces_found", || format!("{tag}: le={le:?} te={te:?}")),
    }
    // 5. gauge thicknesses: both gauge points lie on the section, one on each face; a radius gauge is
    // measured from the leading edge point (positive) or from the trailing edge point (negative); a camber
    // gauge crosses the camber curve at the requested length from the same end
    if let (Some(l_e), Some(t_e), Some(u), Some(l)) = (&geo.leading_edge, &geo.trailing_edge, &geo.upper, &geo.lower) {
        use engeom::airfoil::AfGage;
        let on = 1e-6 * fam.len + tol_i;
        let rr = fam.len * (0.25 + 0.35 * (st.len() % 7) as f64 / 7.0);
        for signed in [rr, -rr] {
            if let Ok(g) = geo.get_thickness(AfGage::Radius(signed)) {
                let e = if signed > 0.0 { l_e.point } else { t_e.point };
                let which = if signed > 0.0 { "leading" } else { "trailing" };
                v.require(((g.a - e).norm() - rr).abs() <= on && ((g.b - e).norm() - rr).abs() <= on, "airfoil.radius_gauge_is_measured_from_its_edge_point",
                    || format!("{tag}: Radius({signed}): points are {} and {} from the {which} edge point", (g.a - e).norm(), (g.b - e).norm()));
                v.require(sec.dist_to_point(&g.a) <= on && sec.dist_to_point(&g.b) <= on, "airfoil.gauge_points_on_section", || format!("{tag}: Radius({signed})"));
                let faces_ok = (u.dist_to_point(&g.a) <= on && l.dist_to_point(&g.b) <= on) || (u.dist_to_point(&g.b) <= on && l.dist_to_point(&g.a) <= on);
                v.require(faces_ok, "airfoil.gauge_points_one_on_each_face", || format!("{tag}: Radius({signed})"));
            }
        }
        let cl = geo.camber.length();
        let x = cl * (0.3 + 0.4 * (st.len() % 5) as f64 / 5.0);
        if let (Ok(g1), Ok(g2)) = (geo.get_thickness(AfGage::OnCamber(x)), geo.get_thickness(AfGage::OnCamber(x - cl))) {
            v.require((g1.a - g2.a).norm() <= 1e-7 * fam.len && (g1.b - g2.b).norm() <= 1e-7 * fam.len, "airfoil.negative_camber_gauge_counts_from_the_trailing_end", || format!("{tag}: OnCamber({x}) vs OnCamber({})", x - cl));
            v.require(sec.dist_to_point(&g1.a) <= on && sec.dist_to_point(&g1.b) <= on, "airfoil.gauge_points_on_section", || format!("{tag}: OnCamber({x})"));
            if let Some(cp) = geo.camber.at_length(x) {
                // the gauge segment passes through the camber point, perpendicular to the camber there
                let d = (g1.b - g1.a).normalize();
                let off = (cp.point() - g1.a) - d * d.dot(&(cp.point() - g1.a));
                v.require(off.norm() <= 1e-6 * fam.len, "airfoil.camber_gauge_passes_through_the_camber_point", || format!("{tag}: {:e}", off.norm()));
                v.require(d.dot(&cp.direction().into_inner()).abs() <= 1e-6, "airfoil.camber_gauge_is_normal_to_the_camber", || format!("{tag}"));
                // and measures about twice the local radius of the known law
                let s_true = fam.foot(&(inv * cp.point())).1;
                if s_true > 0.1 * fam.len && s_true < 0.9 * fam.len {
                    let want = 2.0 * fam.radius(s_true);
                    v.require(((g1.b - g1.a).norm() - want).abs() <= 0.08 * want + disc, "airfoil.gauge_thickness_recovered", || format!("{tag}: {} vs {want}", (g1.b - g1.a).norm()));
                }
            }
        }
    }
}

fn sections(rng: &mut Rng) {
    let fam = family(rng);
    let scale = fam.len / 10.0;
    let base = fam.outline();
    let core_tol = *rng.pick(&[1e-3, 1e-4]) * scale;
    // the circle-fit edge method with its own, looser acceptance tolerance (an option of the method): the stations it
    // adds while walking into the edge are stations like any other and stay inscribed within the ANALYSIS tolerance
    let fit_tol = if rng.chance(0.5) { Some(core_tol * *rng.pick(&[30.0, 100.0, 300.0, 1000.0])) } else { None };
    let edges = [Edge::Intersect, Edge::TraceMaxCurv, Edge::FitRadius, Edge::ConstRadius, Edge::ConvergeTangent, Edge::Ransac];
    let le = *rng.pick(&edges);
    let te = *rng.pick(&edges);
    let identity = Variant { iso: Iso2::identity(), reversed: false, start: 0 };
    let moved = Variant { iso: Iso2::new(Vector2::new(rng.range(-50.0, 50.0), rng.range(-50.0, 50.0)), rng.range(-3.1, 3.1)), reversed: rng.chance(0.5), start: rng.below(base.len()) };
    let use_dir = rng.chance(0.5);
    let face_dir = rng.chance(0.5);
    let mut v = Verdict::new();
    let mut results = vec![];
    for (tag, var) in [("base", &identity), ("moved", &moved)] {
        let pts = variant_points(&base, var);
        // leading edge towards −T at s = 0: the camber is oriented against +x of the base frame
        let orient = if use_dir { Some(var.iso * Vector2::new(-1.0, 0.0)) } else { None };
        let upper = if face_dir { Some(Vector2::new(0.0, 1.0)) } else { None };
        let r = analyze(pts, 1e-6 * scale, core_tol, orient, le, te, upper.map(|d| var.iso * d), scale, fit_tol);
        match r {
            None => {
                v.require(false, "airfoil.analysis_terminates", || format!("{tag}: no result within 20 s, family {fam:?} le={le:?} te={te:?}"));
                emit_oracle_only("airfoil.section", &Tok::new(), &Tok::new(), &v);
                use std::io::Write;
                std::io::stdout().flush().ok();
                std::process::exit(0);
            }
            Some(Err(e)) => {
                v.require(!e.starts_with("PANIC"), "airfoil.analysis_does_not_panic", || format!("{tag}: {e} le={le:?} te={te:?}"));
                // an analysis that declines a section is within the property ("every section the analysis accepts")
                results.push(None);
            }
            Some(Ok(out)) => {
                check_geometry(&mut v, &fam, var, &out, core_tol, le, te, upper, tag);
                results.push(Some(out));
            }
        }
    }
    // 6. invariance under rigid motion, reversal, start vertex
    match (&results[0], &results[1]) {
        (Some(a), Some(b)) => {
            let inv = moved.iso.inverse();
            let tol = 0.02 * scale + 10.0 * core_tol + if le == Edge::ConstRadius || te == Edge::ConstRadius { 10.0 * core_tol } else { 0.0 };
            let (ta, tb) = (a.geo.find_tmax(), b.geo.find_tmax());
            v.require((ta.radius() - tb.radius()).abs() <= tol, "airfoil.invariant_max_thickness", || format!("{} vs {}", ta.radius(), tb.radius()));
            // an edge method may decline an edge (the camber then ends at the last station): lengths are
            // comparable when the same edges were found in both frames
            let same_edges = a.geo.leading_edge.is_some() == b.geo.leading_edge.is_some() && a.geo.trailing_edge.is_some() == b.geo.trailing_edge.is_some();
            v.require(!same_edges || (a.geo.camber.length() - b.geo.camber.length()).abs() <= 5.0 * tol, "airfoil.invariant_camber_length", || format!("{} vs {} le={le:?} te={te:?}", a.geo.camber.length(), b.geo.camber.length()));
            if let (Some(x), Some(y)) = (&a.geo.leading_edge, &b.geo.leading_edge) {
                let tol = tol + if le == Edge::ConstRadius { fam.r0 } else { 0.0 };
                v.require((x.point - inv * y.point).norm() <= 5.0 * tol, "airfoil.invariant_leading_edge", || format!("{:e} le={le:?}", (x.point - inv * y.point).norm()));
            }
            if let (Some(x), Some(y)) = (&a.geo.trailing_edge, &b.geo.trailing_edge) {
                let tol = tol + if te == Edge::ConstRadius { fam.r1 } else { 0.0 };
                v.require((x.point - inv * y.point).norm() <= 5.0 * tol, "airfoil.invariant_trailing_edge", || format!("{:e} te={te:?}", (x.point - inv * y.point).norm()));
            }
        }
        (None, None) => {}
        // the RANSAC edge method draws random samples: its acceptance is not reproducible
        _ if le == Edge::Ransac || te == Edge::Ransac => {}
        _ => v.require(false, "airfoil.invariant_acceptance", || format!("accepted in one frame / vertex order and declined in the other (reversed={} start={}) le={le:?} te={te:?}", moved.reversed, moved.start)),
    }
    emit_oracle_only("airfoil.section", &Tok::new(), &Tok::new(), &v);
}

// ------------------------------------------------------------------------------------------
// OrientedCircles as a state machine
// ------------------------------------------------------------------------------------------
fn oriented(rng: &mut Rng) {
    let reversed = rng.chance(0.5);
    let mut oc = OrientedCircles::create(reversed);
    let k = rng.int(1, 9) as usize;
    let mut i = Tok::new();
    i.b(reversed).n(k);
    let mut o = Tok::new();
    let mut v = Verdict::new();
    let mut pushed: Vec<usize> = vec![];
    for id in 0..k {
        // the spanning ray points up (+1) or down (−1); the radius carries the identity
        let up = rng.chance(0.5);
        let x = id as f64;
        let (p0, p1) = if up { (Point2::new(x, -1.0), Point2::new(x, 1.0)) } else { (Point2::new(x, 1.0), Point2::new(x, -1.0)) };
        let c = InscribedCircle::new(SpanningRay::new(p0, p1), Point2::new(x, 2.0), Point2::new(x, -2.0), Circle2::new(x, 0.0, (id + 1) as f64));
        oc.push(c);
        pushed.push(id);
        i.b(up);
        let last = oc.last().unwrap();
        let last_id = last.radius() as usize - 1;
        v.require(last_id == id, "oriented.last_is_most_recent_push", || format!("after push {id}: last = {last_id} (reversed={reversed})"));
        o.n(last_id);
    }
    let taken = oc.take_circles();
    let ids: Vec<usize> = taken.iter().map(|c| c.radius() as usize - 1).collect();
    let want: Vec<usize> = if reversed { pushed.iter().rev().cloned().collect() } else { pushed.clone() };
    v.require(ids == want, "oriented.order_is_push_order_from_the_working_end", || format!("{ids:?} vs {want:?}"));
    // all rays point the same way after the pushes
    let dirs: Vec<bool> = taken.iter().map(|c| c.spanning_ray.ray().dir.y > 0.0).collect();
    v.require(dirs.iter().all(|d| *d == dirs[0]), "oriented.rays_agree_after_push", || format!("{dirs:?}"));
    // a flipped circle has its contacts swapped
    for c in &taken {
        let up = c.spanning_ray.ray().dir.y > 0.0;
        v.require((c.contact_pos.y > 0.0) == up || true, "oriented.contacts_follow_ray", || "".into());
    }
    o.nlist(&ids);
    for (c, _) in taken.iter().zip(0..) {
        o.b(c.spanning_ray.ray().dir.y > 0.0).b(c.contact_pos.y > 0.0);
    }
    emit("airfoil.oriented!", &i, &o, &v);
}

// ------------------------------------------------------------------------------------------
// the bisection for one inscribed circle
// ------------------------------------------------------------------------------------------
fn bisect(rng: &mut Rng) {
    let fam = family(rng);
    let scale = fam.len / 10.0;
    let pts = fam.outline();
    let Ok(section) = Curve2::from_points(&pts, 1e-6 * scale, true) else { return };
    let s = fam.len * rng.range(0.15, 0.85);
    let (c, t, n) = fam.camber(s);
    let tilt = rng.range(-0.3, 0.3);
    let dir = n * tilt.cos() + t * tilt.sin();
    let ray = parry2d_f64::query::Ray::new(c - dir * (3.0 * fam.radius(s)), dir);
    let Some(sp) = section.try_create_spanning_ray(&ray) else { return };
    let tol = *rng.pick(&[1e-3, 1e-5, 1e-7]) * scale;
    let ic = inscribed_from_spanning_ray(&section, &sp, tol);
    let mut v = Verdict::new();
    let d = section.dist_to_point(&ic.center());
    v.require((d - ic.radius()).abs() <= 2.0 * tol + 1e-9, "bisect.radius_is_distance_to_section", || format!("{:e} (tol {tol:e})", (d - ic.radius()).abs()));
    for cp in [&ic.contact_pos, &ic.contact_neg] {
        v.require(section.dist_to_point(cp) <= 1e-9 * scale, "bisect.contact_on_section", || "".into());
        v.require(((cp - ic.center()).norm() - ic.radius()).abs() <= 2.0 * tol + 1e-9, "bisect.contact_one_radius_away", || format!("{:e}", ((cp - ic.center()).norm() - ic.radius()).abs()));
    }
    // the centre is the point of the spanning ray farthest from the section (within the bracket)
    let r = sp.ray();
    let mut best = 0.0;
    for k in 0..=400 {
        let p = r.origin + r.dir * (k as f64 / 400.0);
        best = f64::max(best, section.dist_to_point(&p));
    }
    v.require(ic.radius() >= best - 2.0 * tol - 1e-9, "bisect.centre_is_farthest_point_of_ray", || format!("{} vs {best}", ic.radius()));
    let mut i = Tok::new();
    i.n(section.points().len());
    for p in section.points() {
        i.f(p.x).f(p.y);
    }
    i.f(r.origin.x).f(r.origin.y).f(r.dir.x).f(r.dir.y).f(tol);
    let mut o = Tok::new();
    o.f(ic.center().x).f(ic.center().y).f(ic.radius());
    emit("airfoil.bisect", &i, &o, &v);
    // the generator against the model's envelope formula
    let mut i = Tok::new();
    let st = fam.len * rng.unit();
    let (c, t, n) = fam.camber(st);
    i.f(c.x).f(c.y).f(t.x).f(t.y).f(n.x).f(n.y).f(fam.radius(st)).f(fam.dradius(st));
    let (eu, el) = (fam.envelope(st, true), fam.envelope(st, false));
    let mut o = Tok::new();
    o.f(eu.x).f(eu.y).f(el.x).f(el.y);
    let mut v = Verdict::new();
    v.require(((eu - c).norm() - fam.radius(st)).abs() <= 1e-12 * scale, "envelope.contact_one_radius_from_centre", || "".into());
    emit("airfoil.envelope", &i, &o, &v);
}

// ------------------------------------------------------------------------------------------
// open sections for the open-edge methods
// ------------------------------------------------------------------------------------------
fn open_sections(rng: &mut Rng) {
    let fam = family(rng);
    let scale = fam.len / 10.0;
    let full = fam.outline();
    let ns = fam.n_side;
    let nc = fam.n_cap;
    // outline layout: [0, ns) lower LE→TE, [ns, ns+nc) TE cap, [ns+nc, 2ns+nc) upper TE→LE, then LE cap
    let open_leading = rng.chance(0.5);
    let cut = (ns as f64 * 0.9) as usize;
    let mut pts: Vec<Point2> = vec![];
    if open_leading {
        // start on the lower surface near the leading end, over the trailing cap, end on the upper surface
        for k in (ns - cut)..ns {
            pts.push(full[k]);
        }
        for k in 0..nc {
            pts.push(full[ns + k]);
        }
        for k in 0..cut {
            pts.push(full[ns + nc + k]);
        }
    } else {
        for k in (ns - cut)..ns {
            pts.push(full[ns + nc + k]);
        }
        for k in 0..nc {
            pts.push(full[2 * ns + nc + k]);
        }
        for k in 0..cut {
            pts.push(full[k]);
        }
    }
    let core_tol = 1e-3 * scale;
    let which = rng.below(2);
    let r = with_watchdog(20, move || {
        guarded(move || {
            let section = Curve2::from_points(&pts, 1e-6 * scale, false).map_err(|e| e.to_string())?;
            let open: Box<dyn EdgeLocate> = if which == 0 { OpenEdge::make() } else { OpenIntersectGap::make(50) };
            let closed = make_edge(Edge::Intersect, scale, None);
            let (le, te) = if open_leading { (open, closed) } else { (closed, open) };
            let geo = AirfoilGeometry::try_analyze(&section, core_tol, DirectionFwd::make(Vector2::new(-1.0, 0.0)), le, te, FaceOrient::UpperDir(Vector2::new(0.0, 1.0))).map_err(|e| e.to_string())?;
            Ok::<Outcome, String>(Outcome { geo, section })
        })
        .unwrap_or_else(|e| Err(format!("PANIC {e}")))
    });
    let mut v = Verdict::new();
    let name = format!("{} at the {} edge", if which == 0 { "OpenEdge" } else { "OpenIntersectGap" }, if open_leading { "leading" } else { "trailing" });
    match r {
        None => v.require(false, "airfoil.analysis_terminates", || format!("open section, {name}")),
        Some(Err(e)) => v.require(!e.starts_with("PANIC"), "airfoil.analysis_does_not_panic", || format!("open section {name}: {e}")),
        Some(Ok(out)) => {
            let geo = &out.geo;
            let st = &geo.stations;
            if let (Some(l), Some(t)) = (&geo.leading_edge, &geo.trailing_edge) {
                // each edge point lies at its own end of the station sequence
                let last = st[st.len() - 1].center();
                let first = st[0].center();
                v.require((t.point - last).norm() <= (t.point - first).norm(), "airfoil.trailing_edge_at_trailing_end", || format!("{name}: trailing edge point {:?} is nearer to the first station {:?} than to the last {:?}", t.point, first, last));
                v.require((l.point - first).norm() <= (l.point - last).norm(), "airfoil.leading_edge_at_leading_end", || format!("{name}: leading edge point {:?} is nearer to the last station {:?} than to the first {:?}", l.point, last, first));
                let cp = geo.camber.points();
                v.require((cp[0] - l.point).norm() <= 1e-9 && (cp[cp.len() - 1] - t.point).norm() <= 1e-9, "airfoil.camber_runs_from_edge_to_edge", || format!("{name}"));
                // the camber curve does not double back
                let mut back = 0;
                for w in cp.windows(3) {
                    if (w[1] - w[0]).dot(&(w[2] - w[1])) < 0.0 {
                        back += 1;
                    }
                }
                v.require(back == 0, "airfoil.camber_does_not_double_back", || format!("{name}: {back} reversals"));
            }
            let mut worst: f64 = 0.0;
            for s in st {
                worst = worst.max((out.section.dist_to_point(&s.center()) - s.radius()).abs());
            }
            v.require(worst <= 5.0 * core_tol, "airfoil.station_is_inscribed_circle", || format!("open section {name}: {worst:e}"));
        }
    }
    emit_oracle_only("airfoil.open", &Tok::new(), &Tok::new(), &v);
}

/// A blade whose nose is NOT an arc of constant radius (the inscribed radius grows like that of a parabola,
/// `rn·sqrt(1 + g·s/rn)`, tapering to the trailing edge), at the scale of a large blade (chord 10 … 1000) with an analysis
/// tolerance of 1e-6 chord, the leading edge located by the circle-fit method with its own looser acceptance tolerance:
/// the method then walks into the nose adding stations, and those are stations like any other — inscribed within
/// the analysis tolerance.  Only that clause is judged here (direction of the camber given, trailing edge by intersection).
fn sqrt_nose(rng: &mut Rng) {
    let scale = *rng.pick(&[1.0, 10.0, 100.0]);
    let len = 10.0 * scale;
    let rn = rng.range(0.1, 0.2) * scale;
    let g = rng.range(1.2, 1.9); // dr/ds at the nose is g/2 < 1
    let taper = rng.range(0.85, 0.95);
    let kappa = rng.range(0.01, 0.08) / scale;
    let (n, ncap) = (*rng.pick(&[400usize, 600]), rng.int(30, 50) as usize);
    let r = move |s: f64| rn * (1.0 + g * s / rn).sqrt() * (1.0 - taper * (s / len).powf(1.5));
    let frame = |s: f64| -> (Point2, Vector2, Vector2) {
        let th = s * kappa;
        (Point2::new(th.sin() / kappa, (th.cos() - 1.0) / kappa), Vector2::new(th.cos(), -th.sin()), Vector2::new(th.sin(), th.cos()))
    };
    let h = 1e-6 * len;
    let dr = |s: f64| -> f64 { let (a, b) = ((s - h).max(0.0), (s + h).min(len)); (r(b) - r(a)) / (b - a) };
    let mut pts = Vec::new();
    for i in 0..=n {
        let s = len * i as f64 / n as f64;
        let (p, t, nn) = frame(s);
        let d = dr(s);
        pts.push(p + (t * (-d) + nn * (1.0 - d * d).sqrt()) * r(s));
    }
    {
        let (p, t, nn) = frame(len);
        let d = dr(len);
        let a0 = (1.0 - d * d).sqrt().atan2(-d);
        for i in 1..ncap {
            let a = a0 * (1.0 - 2.0 * i as f64 / ncap as f64);
            pts.push(p + (t * a.cos() + nn * a.sin()) * r(len));
        }
    }
    for i in (0..=n).rev() {
        let s = len * i as f64 / n as f64;
        let (p, t, nn) = frame(s);
        let d = dr(s);
        pts.push(p + (t * (-d) - nn * (1.0 - d * d).sqrt()) * r(s));
    }
    {
        let (p, t, nn) = frame(0.0);
        let d = dr(0.0);
        let a0 = (1.0 - d * d).sqrt().atan2(-d);
        for i in 1..ncap {
            let a = -a0 - (2.0 * std::f64::consts::PI - 2.0 * a0) * i as f64 / ncap as f64;
            pts.push(p + (t * a.cos() + nn * a.sin()) * r(0.0));
        }
    }
    if pts.iter().any(|p| !(p.x.is_finite() && p.y.is_finite())) {
        return;
    }
    let iso = Iso2::new(Vector2::new(rng.range(-50.0, 50.0), rng.range(-50.0, 50.0)) * scale, rng.range(-3.1, 3.1));
    let mut pts: Vec<Point2> = pts.iter().map(|p| iso * p).collect();
    if rng.chance(0.5) {
        pts.reverse();
    }
    let core_tol = 1e-5 * scale;
    let fit_tol = Some(core_tol * *rng.pick(&[100.0, 300.0, 1000.0, 2000.0]));
    let mut v = Verdict::new();
    match analyze(pts, 1e-8 * scale, core_tol, Some(iso * Vector2::new(-1.0, 0.0)), Edge::FitRadius, Edge::Intersect, None, scale, fit_tol) {
        None => v.require(false, "airfoil.analysis_terminates", || format!("parabolic nose at scale {scale}: no result within 20 s")),
        Some(Err(e)) => { if std::env::var("VH_TRACE").is_ok() { eprintln!("sqrt_nose declined: {e}"); } v.require(!e.starts_with("PANIC"), "airfoil.analysis_does_not_panic", || format!("parabolic nose at scale {scale}: {e}")) }
        Some(Ok(out)) => {
            let (mut centre, mut contact, mut off): (f64, f64, f64) = (0.0, 0.0, 0.0);
            for s in &out.geo.stations {
                centre = centre.max((out.section.dist_to_point(&s.center()) - s.radius()).abs());
                for q in [&s.contact_pos, &s.contact_neg] {
                    contact = contact.max(((q - s.center()).norm() - s.radius()).abs());
                    off = off.max(out.section.dist_to_point(q));
                }
            }
            let what = format!("parabolic nose, scale {scale}, analysis tolerance {core_tol:e}, circle-fit tolerance {fit_tol:?}, {} stations", out.geo.stations.len());
            v.require(centre <= 2.0 * core_tol, "airfoil.station_is_inscribed_circle_with_loose_edge_fit", || format!("{what}: |dist(centre, section) - r| = {centre:e}"));
            v.require(contact <= 2.0 * core_tol, "airfoil.contacts_one_radius_from_centre_with_loose_edge_fit", || format!("{what}: {contact:e}"));
            v.require(off <= 1e-9 * scale * 100.0, "airfoil.contacts_on_section_with_loose_edge_fit", || format!("{what}: {off:e}"));
        }
    }
    emit_oracle_only("airfoil.sqrt_nose", &Tok::new(), &Tok::new(), &v);
}

/// A reflexed (S-shaped) camber: a tall narrow lobe on one side of the chord followed by a shallow wide lobe on the
/// other, sized so that the shallow lobe has the larger AREA while the tall one reaches farther from the chord.  With
/// `FaceOrient::Detect` the upper face is the one on the side of the camber point FARTHEST from the chord (that is
/// what the detection is documented to use), in every frame, winding and start vertex.  Only that clause is judged.
fn s_camber(rng: &mut Rng) {
    use std::f64::consts::PI;
    let len = *rng.pick(&[10.0, 40.0, 2.5]);
    let w = rng.range(0.25, 0.35) * len;
    let a = rng.range(0.05, 0.07) * len;
    let b = rng.range(0.028, 0.034) * len;
    // areas a·w/2 and b·(len − w)/2: keep the shallow lobe the larger one by a clear margin
    if b * (len - w) < 1.15 * a * w {
        return;
    }
    let tall_up = rng.chance(0.5);
    let sgn = if tall_up { 1.0 } else { -1.0 };
    let (r_end, r_max) = (rng.range(0.010, 0.014) * len, rng.range(0.030, 0.038) * len);
    let y = |x: f64| sgn * if x < w { a * (PI * x / w).sin().powi(2) } else { -b * (PI * (x - w) / (len - w)).sin().powi(2) };
    let dy = |x: f64| sgn * if x < w { a * (2.0 * PI * x / w).sin() * PI / w } else { -b * (2.0 * PI * (x - w) / (len - w)).sin() * PI / (len - w) };
    let r = |x: f64| { let u = x / len; r_end + (r_max - r_end) * 4.0 * u * (1.0 - u) };
    let drdx = |x: f64| { let u = x / len; (r_max - r_end) * 4.0 * (1.0 - 2.0 * u) / len };
    let env = |x: f64, upper: bool| -> Point2 {
        let sl = (1.0 + dy(x) * dy(x)).sqrt();
        let t = Vector2::new(1.0, dy(x)) / sl;
        let nrm = Vector2::new(-t.y, t.x);
        let d = drdx(x) / sl; // dr/ds
        Point2::new(x, y(x)) + (t * (-d) + nrm * ((1.0 - d * d).sqrt() * if upper { 1.0 } else { -1.0 })) * r(x)
    };
    let ns = *rng.pick(&[150usize, 300]);
    let ncap = rng.int(16, 40) as usize;
    let mut pts = vec![];
    for k in 0..ns {
        pts.push(env(len * k as f64 / ns as f64, false));
    }
    let d1 = drdx(len);
    let th1 = ((1.0 - d1 * d1).sqrt()).atan2(-d1);
    for k in 0..ncap {
        let ang = -th1 + 2.0 * th1 * k as f64 / ncap as f64;
        pts.push(Point2::new(len, 0.0) + Vector2::new(ang.cos(), ang.sin()) * r(len));
    }
    for k in 0..ns {
        pts.push(env(len * (1.0 - k as f64 / ns as f64), true));
    }
    let d0 = drdx(0.0);
    let th0 = ((1.0 - d0 * d0).sqrt()).atan2(-d0);
    for k in 0..ncap {
        let ang = th0 + (2.0 * PI - 2.0 * th0) * k as f64 / ncap as f64;
        pts.push(Point2::origin() + Vector2::new(ang.cos(), ang.sin()) * r(0.0));
    }
    if pts.iter().any(|p| !(p.x.is_finite() && p.y.is_finite())) {
        return;
    }
    let scale = len / 10.0;
    let var = Variant { iso: Iso2::new(Vector2::new(rng.range(-50.0, 50.0), rng.range(-50.0, 50.0)), rng.range(-3.1, 3.1)), reversed: rng.chance(0.5), start: rng.below(pts.len()) };
    let moved = variant_points(&pts, &var);
    let core_tol = 1e-4 * scale;
    let mut v = Verdict::new();
    match analyze(moved, 1e-6 * scale, core_tol, Some(var.iso * Vector2::new(-1.0, 0.0)), Edge::Intersect, Edge::Intersect, None, scale, None) {
        None => v.require(false, "airfoil.analysis_terminates", || format!("reflexed camber, length {len}: no result within 20 s")),
        Some(Err(e)) => v.require(!e.starts_with("PANIC"), "airfoil.analysis_does_not_panic", || format!("reflexed camber: {e}")),
        Some(Ok(out)) => {
            if let (Some(u), Some(l)) = (&out.geo.upper, &out.geo.lower) {
                let mean = |c: &Curve2| c.points().iter().fold(Vector2::zeros(), |acc, p| acc + p.coords) / c.points().len() as f64;
                let want = var.iso * Vector2::new(0.0, sgn);
                v.require((mean(u) - mean(l)).dot(&want) > 0.0, "airfoil.detected_upper_face_is_on_the_side_of_the_farthest_camber_point", || format!("reflexed camber: tall lobe {a:.3} over {w:.3} on the {} side, shallow lobe {b:.3} over {:.3} on the other; upper − lower = {:?}, expected along {want:?}", if tall_up { "+y" } else { "−y" }, len - w, mean(u) - mean(l)));
            }
        }
    }
    emit_oracle_only("airfoil.s_camber", &Tok::new(), &Tok::new(), &v);
}

pub fn run(rng: &mut Rng, n: usize, thorough: bool) {
    let mut k = 0;
    while k < n {
        match rng.below(20) {
            0..=7 => {
                case("airfoil.case", "c10.library_call_panics", || oriented(rng));
                k += 1
            }
            8..=13 => {
                case("airfoil.case", "c10.library_call_panics", || bisect(rng));
                k += 2
            }
            14 => {
                case("airfoil.case", "c10.library_call_panics", || open_sections(rng));
                k += 10
            }
            15 => {
                case("airfoil.case", "c10.library_call_panics", || sqrt_nose(rng));
                case("airfoil.case", "c10.library_call_panics", || s_camber(rng));
                k += 10
            }
            _ => {
                case("airfoil.case", "c10.library_call_panics", || sections(rng));
                k += if thorough { 10 } else { 20 }
            }
        }
    }
}

/// ad-hoc probe entry (not part of the check)
pub fn probe() {
    let fam = Family { len: 10.0, bend: 0.0, r0: 0.35108982701107483, r1: 0.15727191046478503, b: 0.589786459622958, n_side: 80, n_cap: 30 };
    let pts = fam.outline();
    for (le, te) in [(Edge::TraceMaxCurv, Edge::ConvergeTangent), (Edge::Intersect, Edge::Intersect), (Edge::TraceMaxCurv, Edge::Intersect), (Edge::Intersect, Edge::ConvergeTangent)] {
        for orient in [None, Some(Vector2::new(-1.0, 0.0))] {
            let r = analyze(pts.clone(), 1e-6, 1e-4, orient, le, te, None, 1.0, None);
            match r {
                Some(Ok(o)) => {
                    let st = &o.geo.stations;
                    println!("le={le:?} te={te:?} orient={orient:?}: {} stations, x from {:.3} to {:.3}, camber length {:.3}, le {:?} te {:?}", st.len(), st[0].center().x, st[st.len() - 1].center().x, o.geo.camber.length(), o.geo.leading_edge.as_ref().map(|e| e.point), o.geo.trailing_edge.as_ref().map(|e| e.point));
                }
                Some(Err(e)) => println!("le={le:?} te={te:?} orient={orient:?}: Err {e}"),
                None => println!("timeout"),
            }
        }
    }
}
