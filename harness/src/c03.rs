//! C03 — measurements do not depend on the coordinate frame.
use crate::gen;
use crate::util::*;
use engeom::common::{DistMode, To2D, To3D, TransformBy};
use engeom::geom2::{Curve2, Iso2, Segment2};
use engeom::geom3::{Curve3, Iso3, Mesh, Plane3, PointCloud, PointCloudFeatures, SurfacePoint3, UnitVec3, Vector3};
use engeom::metrology::{Distance3, Measurement};
use engeom::{Point2, Point3, SurfacePoint2, UnitVec2, Vector2};

pub fn iso3_tok(t: &mut Tok, iso: &Iso3) {
    let m = iso.rotation.to_rotation_matrix();
    let m = m.matrix();
    for r in 0..3 {
        for c in 0..3 {
            t.f(m[(r, c)]);
        }
    }
    t.f(iso.translation.x).f(iso.translation.y).f(iso.translation.z);
}
pub fn iso2_tok(t: &mut Tok, iso: &Iso2) {
    t.f(iso.rotation.re).f(iso.rotation.im).f(iso.translation.x).f(iso.translation.y);
}
fn iso2(rng: &mut Rng, tmax: f64) -> Iso2 {
    Iso2::new(Vector2::new(rng.range(-tmax, tmax), rng.range(-tmax, tmax)), rng.range(-3.2, 3.2))
}
fn p3(rng: &mut Rng, s: f64) -> Point3 {
    Point3::new(rng.range(-s, s), rng.range(-s, s), rng.range(-s, s))
}

fn isometries(rng: &mut Rng) {
    let tm = *rng.pick(&[1.0, 30.0, 1e3]);
    let (a, b) = (gen::iso3(rng, tm), gen::iso3(rng, tm));
    let p = p3(rng, 10.0);
    let n = UnitVec3::new_normalize(Vector3::new(rng.gauss(), rng.gauss(), rng.gauss() + 1e-3));
    let tol = 1e-9 * (1.0 + tm);
    let mut v = Verdict::new();
    let q = p3(rng, 10.0);
    v.require((((a * p) - (a * q)).norm() - (p - q).norm()).abs() <= tol, "iso3.preserves_distance", || "".into());
    v.require((a.inverse() * (a * p) - p).norm() <= tol, "iso3.inverse_restores", || "".into());
    v.require(((a * b) * p - a * (b * p)).norm() <= tol, "iso3.composition_is_sequence", || "".into());
    v.require(((a * n).norm() - 1.0).abs() <= 1e-12, "iso3.normals_only_rotate", || "".into());
    let mut i = Tok::new();
    iso3_tok(&mut i, &a);
    iso3_tok(&mut i, &b);
    i.fs(p.coords.as_slice()).fs(n.as_slice());
    let mut o = Tok::new();
    o.fs((a * p).coords.as_slice()).fs((a * n).as_slice()).fs(((a * b) * p).coords.as_slice()).fs((a.inverse() * p).coords.as_slice()).fs(((a * a.inverse()) * p).coords.as_slice());
    emit("xform.apply3", &i, &o, &v);

    let (a, b) = (iso2(rng, tm), iso2(rng, tm));
    let p = Point2::new(rng.range(-9.0, 9.0), rng.range(-9.0, 9.0));
    let n = Vector2::new(rng.gauss(), rng.gauss());
    let mut v = Verdict::new();
    v.require((a.inverse() * (a * p) - p).norm() <= tol, "iso2.inverse_restores", || "".into());
    v.require(((a * b) * p - a * (b * p)).norm() <= tol, "iso2.composition_is_sequence", || "".into());
    let mut i = Tok::new();
    iso2_tok(&mut i, &a);
    iso2_tok(&mut i, &b);
    i.f(p.x).f(p.y).f(n.x).f(n.y);
    let mut o = Tok::new();
    o.fs((a * p).coords.as_slice()).fs((a * n).as_slice()).fs(((a * b) * p).coords.as_slice()).fs((a.inverse() * p).coords.as_slice());
    emit("xform.apply2", &i, &o, &v);
}

fn surface_points_and_planes(rng: &mut Rng) {
    let tm = *rng.pick(&[1.0, 30.0, 1e3]);
    let t = gen::iso3(rng, tm);
    let tol = 1e-9 * (1.0 + tm);
    let sp = SurfacePoint3::new(p3(rng, 10.0), UnitVec3::new_normalize(Vector3::new(rng.gauss(), rng.gauss(), rng.gauss() + 1e-3)));
    let q = p3(rng, 10.0);
    let spt = &t * sp;
    let mut v = Verdict::new();
    v.require((spt.scalar_projection(&(t * q)) - sp.scalar_projection(&q)).abs() <= tol, "surface_point.scalar_projection_invariant", || "".into());
    v.require((spt.projection(&(t * q)) - t * sp.projection(&q)).norm() <= tol, "surface_point.projection_commutes", || "".into());
    v.require((spt.planar_distance(&(t * q)) - sp.planar_distance(&q)).abs() <= tol, "surface_point.planar_distance_invariant", || "".into());
    v.require((spt.point - t * sp.point).norm() <= tol && (spt.normal.into_inner() - t * sp.normal.into_inner()).norm() <= 1e-12, "surface_point.point_moves_normal_rotates", || "".into());
    let mut i = Tok::new();
    iso3_tok(&mut i, &t);
    i.fs(sp.point.coords.as_slice()).fs(sp.normal.as_slice()).fs(q.coords.as_slice());
    let mut o = Tok::new();
    o.f(sp.scalar_projection(&q)).fs(sp.projection(&q).coords.as_slice()).fs(spt.point.coords.as_slice()).fs(spt.normal.as_slice())
        .f(spt.scalar_projection(&(t * q))).fs(spt.projection(&(t * q)).coords.as_slice());
    emit("xform.sp3", &i, &o, &v);

    // planes
    let pl = match rng.below(3) {
        0 => Plane3::from((&p3(rng, 5.0), &p3(rng, 5.0), &p3(rng, 5.0))),
        1 => Plane3::from(&sp),
        _ => Plane3::new(sp.normal, rng.range(-5.0, 5.0)),
    };
    let plt = pl.transform_by(&t);
    let mut v = Verdict::new();
    v.require((plt.signed_distance_to_point(&(t * q)) - pl.signed_distance_to_point(&q)).abs() <= tol, "plane.signed_distance_invariant", || format!("{} vs {}", plt.signed_distance_to_point(&(t * q)), pl.signed_distance_to_point(&q)));
    v.require((plt.project_point(&(t * q)) - t * pl.project_point(&q)).norm() <= tol, "plane.project_commutes", || "".into());
    v.require((pl.transform_by(&t).transform_by(&t.inverse()).signed_distance_to_point(&q) - pl.signed_distance_to_point(&q)).abs() <= tol, "plane.inverse_restores", || "".into());
    v.require((pl.inverted_normal().signed_distance_to_point(&q) + pl.signed_distance_to_point(&q)).abs() <= 1e-12 * 20.0, "plane.inverted_flips_sign", || "".into());
    let mut i = Tok::new();
    iso3_tok(&mut i, &t);
    i.fs(pl.normal.as_slice()).f(pl.d).fs(q.coords.as_slice());
    let mut o = Tok::new();
    o.f(pl.signed_distance_to_point(&q)).fs(pl.project_point(&q).coords.as_slice()).fs(plt.normal.as_slice()).f(plt.d)
        .f(plt.signed_distance_to_point(&(t * q))).f(pl.inverted_normal().signed_distance_to_point(&q));
    emit("xform.plane", &i, &o, &v);

    // 2-D surface point, segment, Distance conversion
    let t2 = iso2(rng, tm);
    let s2 = SurfacePoint2::new(Point2::new(rng.range(-9.0, 9.0), rng.range(-9.0, 9.0)), UnitVec2::new_normalize(Vector2::new(rng.gauss(), rng.gauss() + 1e-3)));
    let q2 = Point2::new(rng.range(-9.0, 9.0), rng.range(-9.0, 9.0));
    let s2t = &t2 * s2;
    let mut v = Verdict::new();
    v.require((s2t.scalar_projection(&(t2 * q2)) - s2.scalar_projection(&q2)).abs() <= tol, "surface_point2.scalar_projection_invariant", || "".into());
    v.require((s2t.projection(&(t2 * q2)) - t2 * s2.projection(&q2)).norm() <= tol, "surface_point2.projection_commutes", || "".into());
    if let Ok(seg) = Segment2::try_new(s2.point, q2) {
        let st = seg.transform_by(&t2);
        v.require((st.a - t2 * seg.a).norm() <= tol && (st.b - t2 * seg.b).norm() <= tol, "segment.moves_with_transform", || "".into());
    }
    let d3 = Distance3::new(sp.point, q, Some(sp.normal));
    let back = d3.to_2d(&Iso3::identity()).to_3d(&Iso3::identity());
    if sp.normal.z.abs() < 1e-9 {
        v.require((back.value() - d3.value()).abs() <= 1e-9 * 30.0, "distance.to_2d_to_3d_roundtrip", || "".into());
    }
    let moved = Distance3::new(t * d3.a, t * d3.b, Some(t * d3.direction));
    v.require((moved.value() - d3.value()).abs() <= tol, "distance.value_invariant", || "".into());
    let p2 = Point2::new(1.5, -2.0);
    v.require((p2.to_3d().to_2d() - p2).norm() == 0.0, "convert.to_3d_to_2d_roundtrip", || "".into());
    emit_oracle_only("xform.misc", &Tok::new(), &Tok::new(), &v);
}

fn curves(rng: &mut Rng) {
    let tm = *rng.pick(&[1.0, 30.0, 1e3]);
    let tol = 1e-9 * (1.0 + tm);
    if let Some((c, _, _, _)) = gen::curve2(rng) {
        let t = iso2(rng, tm);
        let ct: Curve2 = c.transformed_by(&t);
        let l = c.length();
        let mut v = Verdict::new();
        let tl = tol * (1.0 + l);
        v.require((ct.length() - l).abs() <= tl, "curve2.length_invariant", || format!("{} vs {l}", ct.length()));
        v.require(ct.count() == c.count() && ct.is_closed() == c.is_closed(), "curve2.same_structure", || format!("{} vs {}", ct.count(), c.count()));
        for _ in 0..4 {
            let x = l * rng.unit();
            if let (Some(a), Some(b)) = (c.at_length(x), ct.at_length(x.min(ct.length()))) {
                v.require((t * a.point() - b.point()).norm() <= tl, "curve2.stations_commute", || format!("x={x}"));
                v.require((t * a.direction().into_inner() - b.direction().into_inner()).norm() <= 1e-6, "curve2.directions_rotate", || format!("x={x}"));
            }
            let q = Point2::new(rng.range(-9.0, 9.0), rng.range(-9.0, 9.0));
            let (d0, d1) = (c.dist_to_point(&q), ct.dist_to_point(&(t * q)));
            v.require((d0 - d1).abs() <= tl, "curve2.distance_invariant", || format!("{d0} vs {d1}"));
            let moved_closest = t * c.at_closest_to_point(&q).point();
            v.require(((moved_closest - t * q).norm() - d1).abs() <= tl, "curve2.closest_point_commutes", || "".into());
        }
        // the stations AT the vertices (iteration, exact vertex lengths, front / back): their directions,
        // normals and surface points are built from the two adjacent edges and must move with the curve whichever
        // way it turns there (clockwise or not) and wherever its headings point in the current frame
        if ct.count() == c.count() {
            for (k, (a, b)) in c.iter().zip(ct.iter()).enumerate() {
                let (e0, e1) = (if k > 0 { Some(c.vtx(k) - c.vtx(k - 1)) } else { None }, if k + 1 < c.count() { Some(c.vtx(k + 1) - c.vtx(k)) } else { None });
                // a vertex where the curve doubles back exactly has no blended direction (DESIGN 8.6)
                let doubling_back = matches!((e0, e1), (Some(u), Some(w)) if (u.normalize() + w.normalize()).norm() < 1e-6);
                if doubling_back || (c.is_closed() && (k == 0 || k + 1 == c.count())) && {
                    let (u, w) = (c.vtx(1) - c.vtx(0), c.vtx(c.count() - 1) - c.vtx(c.count() - 2));
                    (u.normalize() + w.normalize()).norm() < 1e-6
                } {
                    continue;
                }
                v.require((t * a.point() - b.point()).norm() <= tl, "curve2.vertex_stations_commute", || format!("vertex {k}"));
                v.require((t * a.direction().into_inner() - b.direction().into_inner()).norm() <= 1e-6, "curve2.vertex_directions_rotate", || format!("vertex {k}: {:?} moved is {:?}, the moved curve has {:?}", a.direction(), t * a.direction().into_inner(), b.direction()));
                v.require((t * a.normal().into_inner() - b.normal().into_inner()).norm() <= 1e-6, "curve2.vertex_normals_rotate", || format!("vertex {k}"));
                let (sa, sb) = (a.surface_point(), b.surface_point());
                v.require((t * sa.point - sb.point).norm() <= tl && (t * sa.normal.into_inner() - sb.normal.into_inner()).norm() <= 1e-6, "curve2.vertex_surface_points_commute", || format!("vertex {k}"));
            }
        }
        let back = ct.transformed_by(&t.inverse());
        let err = back.points().iter().zip(c.points()).map(|(a, b)| (a - b).norm()).fold(0.0, f64::max);
        v.require(back.count() == c.count() && err <= tl, "curve2.inverse_restores", || format!("{err:e}"));
        emit_oracle_only("xform.curve2", &Tok::new(), &Tok::new(), &v);
    }
    if let Some((c, _, _)) = gen::curve3(rng) {
        let t = gen::iso3(rng, tm);
        let ct: Curve3 = c.transformed_by(&t);
        let l = c.length();
        let tl = tol * (1.0 + l);
        let mut v = Verdict::new();
        v.require((ct.length() - l).abs() <= tl, "curve3.length_invariant", || format!("{} vs {l}", ct.length()));
        for _ in 0..4 {
            let x = l * rng.unit();
            if let (Some(a), Some(b)) = (c.at_length(x), ct.at_length(x.min(ct.length()))) {
                v.require((t * a.point() - b.point()).norm() <= tl, "curve3.stations_commute", || format!("x={x}"));
            }
            let q = p3(rng, 10.0);
            let (d0, d1) = (c.dist_to_point(&q), ct.dist_to_point(&(t * q)));
            v.require((d0 - d1).abs() <= tl, "curve3.distance_invariant", || format!("{d0} vs {d1}"));
        }
        emit_oracle_only("xform.curve3", &Tok::new(), &Tok::new(), &v);
    }
}

/// Outlines handed to `Curve2::from_points_ccw` (the constructor that orients an outline counter-clockwise by a
/// vote over its convex hull): star-shaped simple polygons with 3 … 12 vertices — triangles, darts and
/// arrowheads have only three hull vertices — in either winding and starting anywhere.  The result is wound
/// counter-clockwise, and building it in another frame gives the moved curve, vertex for vertex.
fn outlines(rng: &mut Rng) {
    let m = rng.int(3, 12) as usize;
    let (cx, cy) = (rng.range(-5.0, 5.0), rng.range(-5.0, 5.0));
    let a0 = rng.range(0.0, 2.0 * std::f64::consts::PI);
    let dart = rng.chance(0.3);
    let mut pts: Vec<Point2> = (0..m)
        .map(|k| {
            let a = a0 + 2.0 * std::f64::consts::PI * (k as f64 + rng.range(-0.3, 0.3)) / m as f64;
            // a dart: three far vertices, the rest tucked well inside their triangle
            let r = if dart { if k % ((m + 2) / 3).max(1) == 0 && k / ((m + 2) / 3).max(1) < 3 { rng.range(4.0, 6.0) } else { rng.range(0.3, 0.8) } } else { rng.range(1.0, 5.0) };
            Point2::new(cx + r * a.cos(), cy + r * a.sin())
        })
        .collect();
    if rng.chance(0.5) {
        pts.reverse();
    }
    let k = rng.below(m);
    pts.rotate_left(k);
    let area2 = |ps: &[Point2]| -> f64 { (0..ps.len()).map(|i| { let (a, b) = (ps[i], ps[(i + 1) % ps.len()]); a.x * b.y - a.y * b.x }).sum() };
    if area2(&pts).abs() < 0.5 {
        return;
    }
    let fc = rng.chance(0.5);
    let mut v = Verdict::new();
    let Ok(c) = Curve2::from_points_ccw(&pts, 1e-9, fc) else { return };
    let body = |c: &Curve2| -> Vec<Point2> { let p = c.points(); if c.is_closed() { p[..p.len() - 1].to_vec() } else { p.to_vec() } };
    v.require(area2(&body(&c)) > 0.0, "curve2.from_points_ccw_is_counter_clockwise", || format!("signed area {} for {pts:?}", 0.5 * area2(&body(&c))));
    for _ in 0..3 {
        let t = iso2(rng, 30.0);
        let moved: Vec<Point2> = pts.iter().map(|p| t * p).collect();
        match Curve2::from_points_ccw(&moved, 1e-9, fc) {
            Err(e) => v.require(false, "curve2.from_points_ccw_commutes_with_motion", || e.to_string()),
            Ok(cm) => {
                let same = cm.count() == c.count() && cm.points().iter().zip(c.points()).all(|(a, b)| (a - t * b).norm() <= 1e-9 * 40.0);
                v.require(same, "curve2.from_points_ccw_commutes_with_motion", || format!("{pts:?} under {t:?}: {:?} vs moved {:?}", cm.points(), c.points()));
            }
        }
    }
    emit_oracle_only("xform.outline", &Tok::new(), &Tok::new(), &v);
}

/// "any rigid motion": besides ordinary ones, motions far below the size of the part (a fixture
/// correction of a fraction of a micron, one step of an iterative refinement) and pure tiny rotations
fn iso3_any(rng: &mut Rng, tm: f64) -> (Iso3, bool) {
    match rng.below(6) {
        0 => {
            let s = 10f64.powf(rng.range(-9.0, -5.0));
            let axis = Vector3::new(rng.gauss(), rng.gauss(), rng.gauss() + 1e-9).normalize();
            (Iso3::new(Vector3::new(rng.range(-s, s), rng.range(-s, s), rng.range(-s, s)), axis * (s * rng.range(-1.0, 1.0))), true)
        }
        1 => {
            let s = 10f64.powf(rng.range(-9.0, -5.0));
            let axis = Vector3::new(rng.gauss(), rng.gauss(), rng.gauss() + 1e-9).normalize();
            (Iso3::new(Vector3::zeros(), axis * s), true)
        }
        _ => (gen::iso3(rng, tm), false),
    }
}

fn meshes_and_clouds(rng: &mut Rng) {
    let tm = *rng.pick(&[1.0, 30.0, 1e3]);
    let mut mesh: Mesh = gen::mesh(rng);
    let (t, tiny) = iso3_any(rng, tm);
    if tiny && rng.chance(0.5) {
        // a part measured far from the origin of its coordinate system
        mesh.transform(&gen::iso3(rng, 1e4));
    }
    let size = mesh.vertices().iter().map(|p| p.coords.norm()).fold(1.0, f64::max);
    let tol = if tiny { 1e-11 * size } else { 1e-9 * (1.0 + tm) * 30.0 };
    let mut moved = mesh.clone();
    moved.transform(&t);
    let mut v = Verdict::new();
    // the entity itself commutes with T: every vertex moves by T, connectivity is kept
    let worst = mesh.vertices().iter().zip(moved.vertices()).map(|(a, b)| (t * a - b).norm()).fold(0.0, f64::max);
    v.require(moved.faces() == mesh.faces() && worst <= 1e-12 * (size + t.translation.vector.norm()), "mesh.vertices_move_by_t",
        || format!("worst vertex error {worst:e} (size {size:e}, |translation| {:e}, angle {:e})", t.translation.vector.norm(), t.rotation.angle()));
    // transforming in sequence equals transforming by the composition; T then T^-1 restores
    {
        let (t2, _) = iso3_any(rng, tm);
        let mut seq = moved.clone();
        seq.transform(&t2);
        let comp = t2 * t;
        let mut once = mesh.clone();
        once.transform(&comp);
        let w = seq.vertices().iter().zip(once.vertices()).map(|(a, b)| (a - b).norm()).fold(0.0, f64::max);
        let mag = size + t.translation.vector.norm() + t2.translation.vector.norm();
        v.require(w <= 1e-11 * mag, "mesh.sequence_equals_composition", || format!("{w:e} (size {mag:e})"));
        let mut back = moved.clone();
        back.transform(&t.inverse());
        let w = back.vertices().iter().zip(mesh.vertices()).map(|(a, b)| (a - b).norm()).fold(0.0, f64::max);
        v.require(w <= 1e-11 * mag, "mesh.inverse_restores", || format!("{w:e} (size {mag:e})"));
    }
    for _ in 0..4 {
        let f = mesh.faces()[rng.below(mesh.faces().len())];
        let base = mesh.vertices()[f[0] as usize];
        let q = base + Vector3::new(rng.gauss(), rng.gauss(), rng.gauss()) * rng.range(0.0, 1.0);
        let (c0, c1) = (mesh.surf_closest_to(&q), moved.surf_closest_to(&(t * q)));
        let (d0, d1) = ((c0.point - q).norm(), (c1.point - t * q).norm());
        v.require((d0 - d1).abs() <= tol, "mesh.distance_invariant", || format!("{d0} vs {d1}"));
        // the tolerance projection takes the frame of the query as an argument: a point given in another frame together
        // with the motion into the mesh frame is accepted or rejected like the moved point itself
        if !tiny {
            let raw = t.inverse() * q;
            let max_angle = rng.range(0.1, 1.5);
            let cap = d0 * rng.range(1.1, 2.0) + 1e-6;
            let (a, b) = (mesh.project_with_tol(&raw, cap, max_angle, Some(&t)).map(|r| r.1), mesh.project_with_tol(&q, cap, max_angle, None).map(|r| r.1));
            // (off the borderline of the angle test, where the two evaluations may round apart)
            let borderline = c0.normal.into_inner().angle(&(q - c0.point));
            // (and only where the closest point is inside ONE face: on an edge between faces of different normals the
            // last bit of the query decides which face answers, and the two frames differ in the last bits)
            let inside_one_face = matches!(mesh.project_with_max_dist(&q, cap), Some((_, _, parry3d_f64::shape::TrianglePointLocation::OnFace(_, bc))) if bc.iter().all(|x| *x > 1e-6));
            if inside_one_face && (borderline - max_angle).abs() > 1e-6 && (borderline - (std::f64::consts::PI - max_angle)).abs() > 1e-6 {
                v.require(a == b, "mesh.project_with_tol_does_not_depend_on_the_frame_of_the_query", || format!("given in another frame: {a:?}, given in the mesh frame: {b:?} (angle to the face normal {borderline}, limit {max_angle})"));
            }
        }
        for mode in [0, 1] {
            let m = |k: i32| if k == 0 { DistMode::ToPoint } else { DistMode::ToPlane };
            let (a, b) = (mesh.measure_point_deviation(&q, m(mode)).value(), moved.measure_point_deviation(&(t * q), m(mode)).value());
            // ties between faces can choose a different normal: judged only when the closest point itself commutes
            if (t * c0.point - c1.point).norm() <= 1e-6 && (t * c0.normal.into_inner() - c1.normal.into_inner()).norm() <= 1e-6 {
                v.require((a - b).abs() <= tol, "mesh.deviation_invariant", || format!("{a} vs {b}"));
            }
        }
    }
    // point cloud
    let pts: Vec<Point3> = (0..5).map(|_| p3(rng, 5.0)).collect();
    let ns: Vec<UnitVec3> = (0..5).map(|_| UnitVec3::new_normalize(Vector3::new(rng.gauss(), rng.gauss(), rng.gauss() + 1e-3))).collect();
    let mut cloud = PointCloud::try_new(pts.clone(), Some(ns.clone()), None).unwrap();
    cloud.transform(&t);
    for k in 0..5 {
        v.require((cloud.points()[k] - t * pts[k]).norm() <= tol, "cloud.points_move", || "".into());
        v.require((cloud.normals().unwrap()[k].into_inner() - t * ns[k].into_inner()).norm() <= 1e-12, "cloud.normals_rotate", || "".into());
    }
    let moved_pts = (&pts).transform_by(&t);
    v.require(moved_pts.iter().zip(&pts).all(|(a, b)| (a - t * b).norm() <= tol), "points.transform_by", || "".into());
    emit_oracle_only("xform.mesh", &Tok::new(), &Tok::new(), &v);
}

pub fn run(rng: &mut Rng, n: usize) {
    for _ in 0..n {
        for _ in 0..4 {
            case("xform.case", "c03.library_call_panics", || isometries(rng));
            case("xform.case", "c03.library_call_panics", || surface_points_and_planes(rng));
        }
        case("xform.case", "c03.library_call_panics", || curves(rng));
        case("xform.case", "c03.library_call_panics", || outlines(rng));
        case("xform.case", "c03.library_call_panics", || meshes_and_clouds(rng));
    }
}
