//! C16 — deviations equal signed distance; aggregates track their contents.
use crate::gen;
use crate::util::*;
use engeom::common::{DiscreteDomain, DistMode};
use engeom::geom3::{Mesh, Point3, PointCloud, PointCloudFeatures, UnitVec3, Vector3};
use engeom::metrology::line_profiles::{line_surface_deviations, point_curve2_deviation};
use engeom::metrology::{
    DiscreteDomainTolMap, Distance3, Measurement, SurfaceDeviation2, SurfaceDeviationSet2, Tolerance, ToleranceMap,
};
use engeom::{Point2, SurfacePoint2, UnitVec2, Vector2};

fn dev_curve(rng: &mut Rng) {
    let Some((curve, _, _, _)) = gen::curve2(rng) else { return };
    let l = curve.length();
    for _ in 0..8 {
        // a point near the curve: on both sides, at corners (near vertices), beyond the ends
        let base = match rng.below(4) {
            0 => curve.at_length(rng.unit() * l).unwrap().point(),
            1 => curve.points()[rng.below(curve.points().len())],
            2 => curve.at_front().point() + (curve.at_front().point() - curve.at_back().point()) * rng.unit(),
            _ => curve.at_length(rng.unit() * l).unwrap().point(),
        };
        let off = *rng.pick(&[0.0, 1e-9, 1e-7, 1e-3, 0.1, 1.0]) * l.max(1e-3);
        let a = rng.range(0.0, 6.3);
        let q = Point2::new(base.x + off * a.cos(), base.y + off * a.sin());
        let st = curve.at_closest_to_point(&q);
        let dev = point_curve2_deviation(&st, &q);
        let sp = st.surface_point();
        let dist = (q - st.point()).norm();
        let mut v = Verdict::new();
        let tol = 1e-9 * (1.0 + dist);
        if dist >= 1e-6 {
            v.require((dev.deviation.abs() - dist).abs() <= tol, "curve_dev.magnitude_is_distance", || format!("dev={} dist={}", dev.deviation, dist));
            let side = sp.normal.dot(&(q - st.point()));
            if side.abs() > 1e-9 * dist {
                v.require((dev.deviation > 0.0) == (side > 0.0), "curve_dev.sign_is_side", || format!("dev={} side={}", dev.deviation, side));
            }
            let rec = dev.actual_point();
            v.require((rec - q).norm() <= tol, "curve_dev.reconstructs", || format!("rec={rec:?} q={q:?}"));
        } else {
            v.require((dev.deviation - sp.normal.dot(&(q - st.point()))).abs() <= tol, "curve_dev.normal_component", || format!("dev={}", dev.deviation));
        }
        v.require((dev.surface.point - st.point()).norm() == 0.0, "curve_dev.reference_point", || "".into());
        let mut i = Tok::new();
        i.f(st.point().x).f(st.point().y).f(sp.normal.x).f(sp.normal.y).f(q.x).f(q.y);
        let mut o = Tok::new();
        o.f(dev.surface.normal.x).f(dev.surface.normal.y).f(dev.deviation);
        emit("dev.curve", &i, &o, &v);
    }
}

/// The batch form over a measured profile: `line_surface_deviations` holds, in order, the deviation of every measured
/// point whose closest station lies in the given interval of arc length (all of them without an interval) — each
/// equal to `point_curve2_deviation` of that point — and its extremes are those of what it holds.
fn dev_profile(rng: &mut Rng) {
    let Some((curve, _, _, _)) = gen::curve2(rng) else { return };
    let l = curve.length();
    let n = rng.int(1, 12) as usize;
    let pts: Vec<Point2> = (0..n).map(|_| { let b = curve.at_length(rng.unit() * l).unwrap().point(); let a = rng.range(0.0, 6.3); let off = *rng.pick(&[0.0, 1e-3, 0.1, 1.0]) * l.max(1e-3) * rng.unit(); Point2::new(b.x + off * a.cos(), b.y + off * a.sin()) }).collect();
    let iv = if rng.chance(0.5) { None } else { let (a, b) = (rng.unit() * l, rng.unit() * l); Some(engeom::common::Interval::new(a.min(b), a.max(b))) };
    let mut v = Verdict::new();
    match guarded(|| line_surface_deviations(&curve, &pts, iv)) {
        Err(e) => v.require(false, "profile_dev.panics", || e.clone()),
        Ok(set) => {
            let mut want = vec![];
            for p in &pts {
                let st = curve.at_closest_to_point(p);
                let la = st.length_along();
                // a closest station within rounding of an interval end may fall either way: such a profile is not judged
                if let Some(i) = &iv {
                    if (la - i.min).abs() <= 1e-9 * (1.0 + l) || (la - i.max).abs() <= 1e-9 * (1.0 + l) {
                        return;
                    }
                    if la < i.min || la > i.max {
                        continue;
                    }
                }
                want.push(point_curve2_deviation(&st, p).deviation);
            }
            let got: Vec<f64> = set.iter().map(|d| d.deviation).collect();
            v.require(got == want, "profile_dev.holds_the_deviation_of_every_point_in_the_interval_in_order", || format!("interval {iv:?}: {got:?} vs {want:?}"));
            if !want.is_empty() {
                let (mx, mn) = (want.iter().cloned().fold(f64::NEG_INFINITY, f64::max), want.iter().cloned().fold(f64::INFINITY, f64::min));
                v.require(set.max().map(|d| d.deviation) == Some(mx) && set.min().map(|d| d.deviation) == Some(mn), "profile_dev.extremes_are_those_of_its_contents", || format!("{:?} {:?} vs {mx} {mn}", set.max().map(|d| d.deviation), set.min().map(|d| d.deviation)));
            } else {
                v.require(set.max().is_none() && set.min().is_none() && set.symmetrical_zone_size() == 0.0, "profile_dev.empty_has_no_extremes", || "".into());
            }
        }
    }
    emit_oracle_only("dev.profile", &Tok::new(), &Tok::new(), &v);
}

fn dev_mesh(rng: &mut Rng) {
    let mesh: Mesh = gen::mesh(rng);
    let nf = mesh.faces().len();
    for _ in 0..6 {
        let f = mesh.faces()[rng.below(nf)];
        let (a, b, c) = (mesh.vertices()[f[0] as usize], mesh.vertices()[f[1] as usize], mesh.vertices()[f[2] as usize]);
        let (u, w) = (rng.unit(), rng.unit());
        let (u, w) = if u + w > 1.0 { (1.0 - u, 1.0 - w) } else { (u, w) };
        // interior of the face, on one of its edges, or at a vertex (there the closest point of a nearby
        // query is on the edge / vertex and the offset is NOT along the face normal)
        let (u, w) = match rng.below(4) {
            0 => (u, 0.0),
            1 => (0.0, 0.0),
            _ => (u, w),
        };
        let base = Point3::from(a.coords * (1.0 - u - w) + b.coords * u + c.coords * w);
        // distances from far below the on-surface threshold of the code (1e-6) to the size of the part
        let off = if rng.chance(0.5) { *rng.pick(&[0.0, 1e-8, 1e-4, 0.05, 0.5]) } else { 10f64.powf(rng.range(-7.5, 0.0)) };
        let d = Vector3::new(rng.gauss(), rng.gauss(), rng.gauss());
        let q = base + d * off;
        for is_point in [true, false] {
            let mode = || if is_point { DistMode::ToPoint } else { DistMode::ToPlane };
            let closest = mesh.surf_closest_to(&q);
            let m = mesh.measure_point_deviation(&q, mode());
            let val = m.value();
            let dist = (q - closest.point).norm();
            let side = closest.normal.dot(&(q - closest.point));
            let tol = 1e-9 * (1.0 + dist);
            let mut v = Verdict::new();
            match mode() {
                DistMode::ToPoint => {
                    if dist >= 1e-6 {
                        v.require((val.abs() - dist).abs() <= tol, "mesh_dev.point_mode_magnitude", || format!("val={val} dist={dist}"));
                        if side.abs() > 1e-9 * dist {
                            v.require((val > 0.0) == (side > 0.0), "mesh_dev.sign_is_side", || format!("val={val} side={side}"));
                        }
                        let rec = m.a + m.direction.into_inner() * val;
                        v.require((rec - q).norm() <= tol, "mesh_dev.reconstructs", || format!("{rec:?} {q:?}"));
                    }
                }
                DistMode::ToPlane => {
                    v.require((val - side).abs() <= tol, "mesh_dev.plane_mode_normal_component", || format!("val={val} side={side}"));
                }
            }
            let r = m.reversed();
            v.require((r.value() - val).abs() <= tol, "distance.reversed_keeps_value", || format!("{} {}", r.value(), val));
            v.require((m.direction.dot(&(m.b - m.a)) - val).abs() <= tol, "distance.value_is_projection", || "".into());
            let ctr = m.center();
            v.require((ctr.point - Point3::from((m.a.coords + m.b.coords) * 0.5)).norm() <= tol, "distance.center_is_midpoint", || "".into());
            let mut i = Tok::new();
            i.fs(closest.point.coords.as_slice()).fs(closest.normal.as_slice()).fs(q.coords.as_slice());
            i.w(match mode() {
                DistMode::ToPoint => "point",
                DistMode::ToPlane => "plane",
            });
            let mut o = Tok::new();
            o.fs(m.direction.as_slice()).f(val);
            emit("dev.mesh", &i, &o, &v);
        }
    }
    // Distance with an arbitrary direction
    let a = Point3::new(rng.range(-9.0, 9.0), rng.range(-9.0, 9.0), rng.range(-9.0, 9.0));
    let b = Point3::new(rng.range(-9.0, 9.0), rng.range(-9.0, 9.0), rng.range(-9.0, 9.0));
    let d = UnitVec3::new_normalize(Vector3::new(rng.gauss(), rng.gauss(), rng.gauss() + 0.01));
    let m = Distance3::new(a, b, Some(d));
    let mut v = Verdict::new();
    v.require((m.value() - d.dot(&(b - a))).abs() < 1e-12 * 30.0, "distance.value_is_projection", || "".into());
    v.require((m.reversed().value() - m.value()).abs() < 1e-12 * 30.0, "distance.reversed_keeps_value", || "".into());
    let dflt = Distance3::new(a, b, None);
    v.require((dflt.value() - (b - a).norm()).abs() < 1e-9, "distance.default_direction_is_length", || "".into());
    let mut i = Tok::new();
    i.fs(a.coords.as_slice()).fs(b.coords.as_slice()).fs(d.as_slice());
    let mut o = Tok::new();
    o.f(m.value()).f(m.reversed().value());
    emit("dev.distance3", &i, &o, &v);
}

fn dev_set(rng: &mut Rng) {
    let pool: Vec<f64> = (0..6).map(|_| rng.dyadic(4, 2)).collect();
    let mut val = |rng: &mut Rng| if rng.chance(0.6) { *rng.pick(&pool) } else { rng.range(-5.0, 5.0) };
    let n0 = if rng.chance(0.4) { 0 } else { rng.below(8) };
    let m = rng.below(12);
    let init: Vec<f64> = (0..n0).map(|_| val(rng)).collect();
    let pushes: Vec<f64> = (0..m).map(|_| val(rng)).collect();
    let sp = SurfacePoint2::new(Point2::new(0.0, 0.0), UnitVec2::new_normalize(Vector2::new(1.0, 0.0)));
    let mk = |d: f64| SurfaceDeviation2::new(sp, d);
    let mut set = SurfaceDeviationSet2::new(init.iter().map(|d| mk(*d)).collect());
    let mut all = init.clone();
    let mut v = Verdict::new();
    let mut o = Tok::new();
    let idx_of = |set: &SurfaceDeviationSet2, want_max: bool| -> Option<usize> {
        // recover the cached index by pointer identity
        let r = if want_max { set.max() } else { set.min() };
        r.map(|x| (x as *const SurfaceDeviation2 as usize - &set[0] as *const SurfaceDeviation2 as usize) / std::mem::size_of::<SurfaceDeviation2>())
    };
    let mut audit = |set: &SurfaceDeviationSet2, all: &Vec<f64>, v: &mut Verdict, o: &mut Tok| {
        let tmax = all.iter().cloned().fold(f64::NEG_INFINITY, f64::max);
        let tmin = all.iter().cloned().fold(f64::INFINITY, f64::min);
        if all.is_empty() {
            v.require(set.max().is_none() && set.min().is_none(), "devset.empty_has_no_extremes", || "".into());
            v.require(set.symmetrical_zone_size() == 0.0, "devset.empty_zone", || "".into());
        } else {
            v.require(set.max().map(|d| d.deviation) == Some(tmax), "devset.max_is_true_max", || format!("{all:?}"));
            v.require(set.min().map(|d| d.deviation) == Some(tmin), "devset.min_is_true_min", || format!("{all:?}"));
            v.require(set.symmetrical_zone_size() == 2.0 * tmax.abs().max(tmin.abs()), "devset.zone", || format!("{all:?}"));
        }
        v.require(set.len() == all.len(), "devset.len", || "".into());
        match idx_of(set, true) {
            None => o.w("none"),
            Some(k) => o.w("some").n(k),
        };
        match idx_of(set, false) {
            None => o.w("none"),
            Some(k) => o.w("some").n(k),
        };
    };
    audit(&set, &all, &mut v, &mut o);
    for d in &pushes {
        set.push(mk(*d));
        all.push(*d);
        audit(&set, &all, &mut v, &mut o);
    }
    o.optf(set.max().map(|d| d.deviation)).optf(set.min().map(|d| d.deviation)).f(set.symmetrical_zone_size());
    let mut i = Tok::new();
    i.flist(&init).flist(&pushes);
    emit("dev.set", &i, &o, &v);
}

/// A deviation set that has been written out and read back (serde, as the library derives it) is a constructed set
/// like any other: it reports the true extremes of what it holds, and keeps doing so through further pushes.
fn dev_set_reloaded(rng: &mut Rng) {
    let mut val = |rng: &mut Rng| if rng.chance(0.5) { rng.dyadic(4, 2) } else { rng.range(-5.0, 5.0) };
    let n0 = rng.below(7);
    let init: Vec<f64> = (0..n0).map(|_| val(rng)).collect();
    let before: Vec<f64> = (0..rng.below(4)).map(|_| val(rng)).collect();
    let after: Vec<f64> = (0..rng.below(5)).map(|_| val(rng)).collect();
    let sp = SurfacePoint2::new(Point2::new(0.0, 0.0), UnitVec2::new_normalize(Vector2::new(1.0, 0.0)));
    let mut v = Verdict::new();
    let r = guarded(|| {
        let mut notes: Vec<(bool, &'static str, String)> = vec![];
        let mut set = SurfaceDeviationSet2::new(init.iter().map(|d| SurfaceDeviation2::new(sp, *d)).collect());
        let mut all = init.clone();
        for d in &before {
            set.push_new(sp, *d);
            all.push(*d);
        }
        let text = serde_json::to_string(&set).map_err(|e| e.to_string())?;
        let mut set: SurfaceDeviationSet2 = serde_json::from_str(&text).map_err(|e| e.to_string())?;
        // (the JSON text carries each value to within a unit in the last place; what the reloaded set holds is the truth
        // its extremes are judged against)
        let held: Vec<f64> = set.iter().map(|d| d.deviation).collect();
        notes.push((held.len() == all.len() && held.iter().zip(&all).all(|(a, b)| (a - b).abs() <= 1e-14 * (1.0 + b.abs())), "devset.round_trips_through_serde", format!("{held:?} vs {all:?}")));
        let mut all = held;
        let mut audit = |set: &SurfaceDeviationSet2, all: &Vec<f64>, when: &str| {
            let tmax = all.iter().cloned().fold(f64::NEG_INFINITY, f64::max);
            let tmin = all.iter().cloned().fold(f64::INFINITY, f64::min);
            notes.push((set.len() == all.len(), "devset.reloaded_len", format!("{when}: {} vs {}", set.len(), all.len())));
            if all.is_empty() {
                notes.push((set.max().is_none() && set.min().is_none(), "devset.reloaded_empty_has_no_extremes", when.to_string()));
            } else {
                notes.push((set.max().map(|d| d.deviation) == Some(tmax), "devset.reloaded_max_is_true_max", format!("{when}: {:?} vs {tmax} of {all:?}", set.max().map(|d| d.deviation))));
                notes.push((set.min().map(|d| d.deviation) == Some(tmin), "devset.reloaded_min_is_true_min", format!("{when}: {:?} vs {tmin} of {all:?}", set.min().map(|d| d.deviation))));
                notes.push((set.symmetrical_zone_size() == 2.0 * tmax.abs().max(tmin.abs()), "devset.reloaded_zone", format!("{when}: {all:?}")));
            }
        };
        audit(&set, &all, "after reload");
        for d in &after {
            set.push(SurfaceDeviation2::new(sp, *d));
            all.push(*d);
            audit(&set, &all, "after reload and push");
        }
        Ok::<_, String>(notes)
    });
    match r {
        Err(e) => v.require(false, "devset.reloaded_set_panics", || format!("init {init:?} pushed {before:?} then reloaded, pushed {after:?}: {e}")),
        Ok(Err(e)) => v.require(false, "devset.round_trips_through_serde", || e.clone()),
        Ok(Ok(notes)) => {
            for (ok, clause, what) in notes {
                v.require(ok, clause, || what.clone());
            }
        }
    }
    emit_oracle_only("dev.set_reloaded", &Tok::new(), &Tok::new(), &v);
}

fn tolmap(rng: &mut Rng) {
    let n = rng.int(1, 8) as usize;
    let mut vals: Vec<f64> = Vec::new();
    let mut x = rng.dyadic(6, 2);
    for _ in 0..n {
        vals.push(x);
        x += if rng.chance(0.15) { 0.0 } else { rng.int(1, 12) as f64 / 4.0 };
    }
    // zero is a breakpoint in many real tables: shift so that one breakpoint is exactly +0.0 (exact on dyadics)
    if rng.chance(0.35) {
        let z = vals[rng.below(n)];
        for v in vals.iter_mut() {
            *v -= z;
            if *v == 0.0 {
                *v = 0.0; // +0.0
            }
        }
    }
    let strictly = vals.windows(2).all(|w| w[0] < w[1]);
    let dom = DiscreteDomain::try_from(vals.clone()).unwrap();
    let zones: Vec<Tolerance> = (0..n).map(|k| Tolerance::new_unchecked(-(k as f64) - 1.0, k as f64 + 1.0)).collect();
    let map = DiscreteDomainTolMap::try_new(dom.clone(), zones).unwrap();
    let canon = |k: usize| (0..n).rev().find(|j| vals[*j] == vals[k]).unwrap();
    for _ in 0..6 {
        let q = match rng.below(6) {
            // the same number with the other sign of zero: -0.0 IS 0.0 as far as "not above x" goes
            5 => {
                let b = *rng.pick(&vals);
                if b == 0.0 { -0.0 } else { b }
            }
            0 => *rng.pick(&vals),
            1 => next_up(*rng.pick(&vals)),
            2 => next_down(*rng.pick(&vals)),
            3 => vals[0] - rng.unit() * 3.0,
            _ => rng.range(vals[0] - 1.0, vals[n - 1] + 1.0),
        };
        let mut i = Tok::new();
        i.flist(&vals).f(q);
        // index_of
        let io = dom.index_of(q);
        let want = if q < vals[0] || q > vals[n - 1] { None } else { (0..n).rev().find(|j| vals[*j] <= q) };
        let mut v = Verdict::new();
        v.require(io.map(canon) == want, "domain.index_of_greatest_not_above", || format!("{vals:?} q={q} got={io:?}"));
        let mut o = Tok::new();
        match io {
            None => o.w("none"),
            Some(k) => o.w("some").n(canon(k)),
        };
        emit("domain.index_of", &i, &o, &v);
        // tolerance map
        let got = map.get(q).map(|t| (t.upper - 1.0) as usize);
        let mut v = Verdict::new();
        let want = if q < vals[0] { None } else { (0..n).rev().find(|j| vals[*j] <= q) };
        if strictly {
            v.require(got == want, if q < vals[0] { "tolmap.below_start" } else { "tolmap.zone_of_greatest_breakpoint_not_above" }, || format!("{vals:?} q={q} got={got:?}"));
        } else {
            v.require(got.map(|k| vals[k]) == want.map(|k| vals[k]), if q < vals[0] { "tolmap.below_start" } else { "tolmap.zone_of_greatest_breakpoint_not_above" }, || format!("{vals:?} q={q} got={got:?}"));
        }
        let mut o = Tok::new();
        match got {
            None => o.w("none"),
            Some(k) => o.w("some").n(canon(k)),
        };
        emit("tolmap.get", &i, &o, &v);
    }
    let empty = DiscreteDomainTolMap::try_new(DiscreteDomain::default(), vec![]).unwrap();
    if empty.get(1.0).is_some() {
        let mut v = Verdict::new();
        v.require(false, "tolmap.empty", || "".into());
        emit_oracle_only("tolmap.get", &Tok::new(), &Tok::new(), &v);
    }
}

struct Ids(usize);
impl Ids {
    fn next(&mut self) -> usize {
        self.0 += 1;
        self.0
    }
}
fn pt(id: usize) -> Point3 {
    Point3::new(id as f64, 0.0, 0.0)
}
fn nm(id: usize) -> UnitVec3 {
    UnitVec3::new_unchecked(Vector3::new(id as f64, 0.0, 0.0))
}
fn col(id: usize) -> [u8; 3] {
    [(id & 255) as u8, ((id >> 8) & 255) as u8, ((id >> 16) & 255) as u8]
}
fn uncol(c: &[u8; 3]) -> usize {
    c[0] as usize | (c[1] as usize) << 8 | (c[2] as usize) << 16
}

fn lit(rng: &mut Rng, ids: &mut Ids, force: Option<(bool, bool)>, t: &mut Tok) -> (Vec<Point3>, Option<Vec<UnitVec3>>, Option<Vec<[u8; 3]>>) {
    let np = rng.below(4);
    let ps: Vec<usize> = (0..np).map(|_| ids.next()).collect();
    let (hn, hc) = force.unwrap_or((rng.chance(0.5), rng.chance(0.5)));
    let len = |rng: &mut Rng| if rng.chance(0.85) { np } else { rng.below(4) };
    let ns: Option<Vec<usize>> = if hn { let k = len(rng); Some((0..k).map(|_| ids.next()).collect()) } else { None };
    let cs: Option<Vec<usize>> = if hc { let k = len(rng); Some((0..k).map(|_| ids.next()).collect()) } else { None };
    t.nlist(&ps);
    match &ns { Some(l) => { t.nlist(l); } None => { t.w("-"); } }
    match &cs { Some(l) => { t.nlist(l); } None => { t.w("-"); } }
    (ps.iter().map(|i| pt(*i)).collect(), ns.map(|l| l.iter().map(|i| nm(*i)).collect()), cs.map(|l| l.iter().map(|i| col(*i)).collect()))
}

fn cloud(rng: &mut Rng) {
    let mut ids = Ids(0);
    let mut i = Tok::new();
    let mut o = Tok::new();
    let mut v = Verdict::new();
    let init = if rng.chance(0.4) {
        let (hn, hc) = (rng.chance(0.5), rng.chance(0.5));
        i.w("empty").b(hn).b(hc);
        Some(PointCloud::empty(hn, hc))
    } else {
        i.w("trynew");
        let (p, n, c) = lit(rng, &mut ids, None, &mut i);
        PointCloud::try_new(p, n, c).ok()
    };
    let nops = rng.below(7);
    i.n(nops);
    let mut ops: Vec<Box<dyn FnOnce(&mut PointCloud) -> bool>> = Vec::new();
    for _ in 0..nops {
        match rng.below(4) {
            0 | 1 => {
                let p = ids.next();
                let n = if rng.chance(0.5) { Some(ids.next()) } else { None };
                let c = if rng.chance(0.5) { Some(ids.next()) } else { None };
                i.w("append").n(p);
                match n { Some(k) => { i.n(k); } None => { i.w("-"); } }
                match c { Some(k) => { i.n(k); } None => { i.w("-"); } }
                ops.push(Box::new(move |cl: &mut PointCloud| cl.append(pt(p), n.map(nm), c.map(col)).is_ok()));
            }
            2 => {
                i.w("merge");
                // the other cloud must itself be valid to exist
                let mut t = Tok::new();
                let (p, n, c) = loop {
                    t = Tok::new();
                    let (p, n, c) = lit(rng, &mut ids, None, &mut t);
                    if n.as_ref().map_or(true, |l| l.len() == p.len()) && c.as_ref().map_or(true, |l| l.len() == p.len()) {
                        break (p, n, c);
                    }
                };
                i.w(&t.0);
                ops.push(Box::new(move |cl: &mut PointCloud| cl.merge(PointCloud::try_new(p, n, c).unwrap()).is_ok()));
            }
            _ => {
                let k = rng.below(4);
                let idx: Vec<usize> = (0..k).map(|_| rng.below(6)).collect();
                i.w("select").nlist(&idx);
                ops.push(Box::new(move |cl: &mut PointCloud| {
                    if idx.iter().all(|j| *j < cl.len()) {
                        *cl = cl.create_from_indices(&idx);
                        true
                    } else {
                        false // the real call would panic on an out-of-range index: not issued
                    }
                }));
            }
        }
    }
    match init {
        None => {
            o.w("err");
        }
        Some(mut cl) => {
            o.w("ok");
            for op in ops {
                let before = (cl.points().to_vec(), cl.normals().map(|n| n.to_vec()), cl.colors().map(|c| c.to_vec()));
                let ok = op(&mut cl);
                o.w(if ok { "ok" } else { "rej" });
                if !ok {
                    let same = before.0 == cl.points() && before.1.as_deref() == cl.normals() && before.2.as_deref() == cl.colors();
                    v.require(same, "cloud.rejected_changes_nothing", || "".into());
                }
                v.require(cl.normals().map_or(true, |n| n.len() == cl.len()), "cloud.normals_same_length", || format!("{} vs {}", cl.normals().unwrap().len(), cl.len()));
                v.require(cl.colors().map_or(true, |n| n.len() == cl.len()), "cloud.colors_same_length", || format!("{} vs {}", cl.colors().unwrap().len(), cl.len()));
            }
            o.nlist(&cl.points().iter().map(|p| p.x as usize).collect::<Vec<_>>());
            match cl.normals() { Some(l) => { o.nlist(&l.iter().map(|n| n.x as usize).collect::<Vec<_>>()); } None => { o.w("-"); } }
            match cl.colors() { Some(l) => { o.nlist(&l.iter().map(uncol).collect::<Vec<_>>()); } None => { o.w("-"); } }
        }
    }
    emit("cloud.history", &i, &o, &v);
}

pub fn run(rng: &mut Rng, n: usize) {
    for _ in 0..n {
        case("dev.case", "c16.library_call_panics", || dev_curve(rng));
        case("dev.case", "c16.library_call_panics", || dev_mesh(rng));
        for _ in 0..4 {
            case("dev.case", "c16.library_call_panics", || dev_set(rng));
            case("dev.case", "c16.library_call_panics", || dev_set_reloaded(rng));
            case("dev.case", "c16.library_call_panics", || dev_profile(rng));
            case("dev.case", "c16.library_call_panics", || tolmap(rng));
            case("dev.case", "c16.library_call_panics", || cloud(rng));
        }
    }
}
