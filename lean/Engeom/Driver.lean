import Engeom.Driver.C18
import Engeom.Driver.C02
import Engeom.Driver.C03
import Engeom.Driver.C06
import Engeom.Driver.C08
import Engeom.Driver.C09
import Engeom.Driver.C11
import Engeom.Driver.C12
import Engeom.Driver.C14
import Engeom.Driver.Curve
import Engeom.Driver.C15
import Engeom.Driver.C16
import Engeom.Driver.C17
import Engeom.Driver.C19
import Engeom.Driver.C13
import Engeom.Driver.C07
import Engeom.Driver.C10
import Engeom.Driver.C20

def dispatch (op : String) (args : List String) : Option String :=
  match (op.splitOn ".").head! with
  | "angle" | "interval" => DrvC18.handle op args
  | "dev" | "tolmap" | "cloud" => DrvC16.handle op args
  | "domain" => if op = "domain.index_of" then DrvC16.handle op args else DrvC17.handle op args
  | "circle" | "arc" => DrvC11.handle op args
  | "param" | "jac" => DrvC08.handle op args
  | "fit" => DrvC09.handle op args
  | "ray" => DrvC06.handle op args
  | "closest" => DrvC02.handle op args
  | "xform" => DrvC03.handle op args
  | "curve" => DrvCurve.handle op args
  | "search" | "sample" | "hull" => DrvC15.handle op args
  | "select" => DrvC14.handle op args
  | "topo" => DrvC12.handle op args
  | "series" => DrvC17.handle op args
  | "frame" | "basis" | "plane" => DrvC19.handle op args
  | "chain" | "section" => DrvC13.handle op args
  | "align" => DrvC07.handle op args
  | "airfoil" => DrvC10.handle op args
  | "flatten" => DrvC20.handle op args
  | _ => none

partial def loop (h : IO.FS.Stream) (out : IO.FS.Stream) : IO Unit := do
  let line ← h.getLine
  if line.isEmpty then return ()
  let toks := (line.trimAscii.toString.splitOn " ").filter (· ≠ "")
  match toks with
  | [] => out.putStrLn "bad-op"
  | op :: args =>
    match dispatch op args with
    | some s => out.putStrLn s
    | none => out.putStrLn "bad-op"
  loop h out

def main : IO Unit := do
  let i ← IO.getStdin
  let o ← IO.getStdout
  loop i o
  o.flush
