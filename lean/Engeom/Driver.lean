import Engeom.Driver.C18
import Engeom.Driver.C16

def dispatch (op : String) (args : List String) : Option String :=
  match (op.splitOn ".").head! with
  | "angle" | "interval" => DrvC18.handle op args
  | "dev" | "tolmap" | "cloud" | "domain" => DrvC16.handle op args
  | _ => none

partial def loop (h : IO.FS.Stream) (out : IO.FS.Stream) : IO Unit := do
  let line ← h.getLine
  if line.isEmpty then return ()
  let toks := (line.trimAscii.toString.splitOn " ").filter (· ≠ "")
  match toks with
  | [] => out.putStrLn "bad-op"
  | op :: args =>
    match dispatch op args with
    | some s => out.putStrLn s
    | none => out.putStrLn "bad-op"
  loop h out

def main : IO Unit := do
  let i ← IO.getStdin
  let o ← IO.getStdout
  loop i o
  o.flush
