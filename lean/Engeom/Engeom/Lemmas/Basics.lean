import Engeom.Model.Prelude
import Mathlib.Algebra.Order.Field.Basic
import Mathlib.Tactic.Linarith
/- smin / smax / sabs of the model are min / max / |·| in every linearly ordered field. -/

variable {F : Type} [Field F] [LinearOrder F] [IsStrictOrderedRing F]

theorem sabs_eq (a : F) : sabs a = |a| := by
  unfold sabs; split_ifs with h
  · exact (abs_of_neg h).symm
  · exact (abs_of_nonneg (not_lt.mp h)).symm

theorem smax_eq (a b : F) : smax a b = max a b := by
  unfold smax; split_ifs with h
  · exact (max_eq_right h).symm
  · exact (max_eq_left (not_le.mp h).le).symm

theorem smin_eq (a b : F) : smin a b = min a b := by
  unfold smin; split_ifs with h
  · exact (min_eq_left h).symm
  · exact (min_eq_right (not_le.mp h).le).symm
