import Engeom.Lemmas.RealScalar
import Mathlib.Analysis.Complex.Norm
import Mathlib.Tactic.FieldSimp
import Mathlib.Tactic.Ring
/- atan2 facts (atan2 y x = Complex.arg (x + y i)) used by C08 / C18 / C11. -/

open Real

theorem atan2R (y x : ℝ) : (Scalar.atan2 y x : ℝ) = Complex.arg ⟨x, y⟩ := rfl

theorem norm_mk (x y : ℝ) : ‖(⟨x, y⟩ : ℂ)‖ = Real.sqrt (x * x + y * y) := by
  rw [Complex.norm_eq_sqrt_sq_add_sq]; simp only [pow_two]

/-- cos / sin of the angle of a unit vector give back its components -/
theorem cos_atan2_unit (c s : ℝ) (h : c * c + s * s = 1) : Real.cos (Scalar.atan2 s c) = c := by
  have hn : ‖(⟨c, s⟩ : ℂ)‖ = 1 := by rw [norm_mk, h, Real.sqrt_one]
  have hne : (⟨c, s⟩ : ℂ) ≠ 0 := by
    intro h0; rw [h0, norm_zero] at hn; exact zero_ne_one hn
  rw [atan2R, Complex.cos_arg hne, hn, div_one]

theorem sin_atan2_unit (c s : ℝ) (h : c * c + s * s = 1) : Real.sin (Scalar.atan2 s c) = s := by
  have hn : ‖(⟨c, s⟩ : ℂ)‖ = 1 := by rw [norm_mk, h, Real.sqrt_one]
  rw [atan2R, Complex.sin_arg, hn, div_one]

/-- the angle of `r (cos θ, sin θ)` is `θ` for `θ ∈ (−π, π]`, `r > 0` -/
theorem atan2_sin_cos (r θ : ℝ) (hr : 0 < r) (h1 : -π < θ) (h2 : θ ≤ π) :
    Scalar.atan2 (r * Real.sin θ) (r * Real.cos θ) = θ := by
  have key := Complex.arg_mul_cos_add_sin_mul_I hr (θ := θ) ⟨h1, h2⟩
  have e : (⟨r * Real.cos θ, r * Real.sin θ⟩ : ℂ) = (r : ℂ) * (Complex.cos θ + Complex.sin θ * Complex.I) := by
    apply Complex.ext <;>
      simp [Complex.cos_ofReal_re, Complex.sin_ofReal_re, Complex.cos_ofReal_im, Complex.sin_ofReal_im]
  rw [atan2R, e]
  exact key
