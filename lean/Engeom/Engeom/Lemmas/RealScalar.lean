import Engeom.Scalar
import Mathlib.Analysis.SpecialFunctions.Trigonometric.Inverse
import Mathlib.Analysis.SpecialFunctions.Complex.Arg
import Mathlib.Analysis.SpecialFunctions.Sqrt
/-
  The real-number instance of `Scalar`, used only in proof files.
  `fmod x y = x - y * trunc (x / y)` (C semantics); `atan2 y x = Complex.arg (x + y i)`.
-/

noncomputable section

/-- truncation toward zero, as a real -/
def Real.truncR (q : ℝ) : ℝ := if 0 ≤ q then (⌊q⌋ : ℝ) else (⌈q⌉ : ℝ)

instance : Scalar ℝ where
  sqrt := Real.sqrt
  sin := Real.sin
  cos := Real.cos
  acos := Real.arccos
  asin := Real.arcsin
  atan2 y x := Complex.arg ⟨x, y⟩
  fmod x y := x - y * Real.truncR (x / y)
  floor x := (⌊x⌋ : ℝ)
  ceil x := (⌈x⌉ : ℝ)
  pi := Real.pi
  ofRat n d := (n : ℝ) / (d : ℝ)

theorem ofRatR (n d : Nat) : (Scalar.ofRat n d : ℝ) = (n : ℝ) / (d : ℝ) := rfl
theorem sqrtR (x : ℝ) : (Scalar.sqrt x : ℝ) = Real.sqrt x := rfl
theorem piR : (Scalar.pi : ℝ) = Real.pi := rfl

theorem fmodR_def (x y : ℝ) : Scalar.fmod x y = x - y * Real.truncR (x / y) := rfl

/-- fmod is congruent to its argument modulo the modulus -/
theorem fmodR_congr (x y : ℝ) : ∃ k : ℤ, Scalar.fmod x y = x - k * y := by
  rw [fmodR_def]; unfold Real.truncR
  split
  · exact ⟨⌊x / y⌋, by ring⟩
  · exact ⟨⌈x / y⌉, by ring⟩

theorem fmodR_nonneg {x y : ℝ} (hy : 0 < y) (hx : 0 ≤ x) :
    0 ≤ Scalar.fmod x y ∧ Scalar.fmod x y < y := by
  rw [fmodR_def]; unfold Real.truncR
  have hq : 0 ≤ x / y := div_nonneg hx hy.le
  rw [if_pos hq]
  have h1 := Int.floor_le (x / y)
  have h2 := Int.lt_floor_add_one (x / y)
  have e : x = y * (x / y) := by field_simp
  constructor
  · nlinarith
  · nlinarith

theorem fmodR_neg {x y : ℝ} (hy : 0 < y) (hx : x < 0) :
    -y < Scalar.fmod x y ∧ Scalar.fmod x y ≤ 0 := by
  rw [fmodR_def]; unfold Real.truncR
  have hq : ¬ 0 ≤ x / y := not_le.mpr (div_neg_of_neg_of_pos hx hy)
  rw [if_neg hq]
  have h1 := Int.le_ceil (x / y)
  have h2 := Int.ceil_lt_add_one (x / y)
  have e : x = y * (x / y) := by field_simp
  constructor
  · nlinarith
  · nlinarith

theorem fmodR_abs_lt {x y : ℝ} (hy : 0 < y) : -y < Scalar.fmod x y ∧ Scalar.fmod x y < y := by
  rcases le_or_gt 0 x with hx | hx
  · have := fmodR_nonneg hy hx; exact ⟨by linarith, this.2⟩
  · have := fmodR_neg hy hx; exact ⟨this.1, by linarith⟩

end
