import Engeom.Model.Curve
import Engeom.Generated.Consts
/-
  Model of the boundary-first conformal flattening (property C20):
    src/geom3/mesh/conformal.rs   boundary_first_flatten and its helpers
  The pipeline is written as a function of the CONNECTIVITY, the BOUNDARY LOOP and an EDGE-LENGTH
  accessor only — exactly the data the Rust code reads (`edge_lengths`, `boundary_edge_lengths`).
  The sparse LU of faer is replaced by dense Gaussian elimination with partial pivoting (same
  linear systems).
-/

section
variable {α : Type} [Add α] [Sub α] [Mul α] [Div α] [Neg α] [LT α] [LE α]
  [DecidableLT α] [DecidableLE α] [OfNat α 0] [OfNat α 1] [OfNat α 2] [Scalar α]

abbrev Mat (α : Type) := Array (Array α)

def Mat.zeros (n m : Nat) : Mat α := Array.replicate n (Array.replicate m 0)
def Mat.get (A : Mat α) (i j : Nat) : α := (A.getD i #[]).getD j 0
def Mat.add (A : Mat α) (i j : Nat) (v : α) : Mat α :=
  A.modify i fun row => row.modify j fun x => x + v

def sumA (l : Array α) : α := l.foldl (· + ·) 0

/-- dense Gaussian elimination with partial pivoting: solves `A x = b` -/
def solveDense (A : Mat α) (b : Array α) : Array α :=
  let n := b.size
  -- forward elimination on the augmented rows
  let aug : Array (Array α) := (Array.range n).map fun i => (A.getD i #[]).push (b.getD i 0)
  let aug := (List.range n).foldl (fun (M : Array (Array α)) k =>
    -- pivot: the row at or below k with the largest |entry| in column k
    let p := (List.range n).foldl (fun best i =>
      if k ≤ i ∧ sabs ((M.getD best #[]).getD k 0) < sabs ((M.getD i #[]).getD k 0) then i else best) k
    let rk := M.getD p #[]
    let rp := M.getD k #[]
    let M := (M.set! k rk).set! p rp
    let piv := rk.getD k 0
    (Array.range n).foldl (fun (M : Array (Array α)) i =>
      if k < i then
        let ri := M.getD i #[]
        let f := ri.getD k 0 / piv
        M.set! i ((Array.range (n + 1)).map fun j => ri.getD j 0 - f * rk.getD j 0)
      else M) M) aug
  -- back substitution
  (List.range n).reverse.foldl (fun (x : Array α) i =>
    let ri := aug.getD i #[]
    let s := (List.range n).foldl (fun acc j => if i < j then acc + ri.getD j 0 * x.getD j 0 else acc) 0
    x.set! i ((ri.getD n 0 - s) / ri.getD i 0)) (Array.replicate n 0)

/-- `calc_face_angles` for one face from the three side lengths opposite its vertices
    (law of cosines; the three degenerate branches first) -/
def faceAngles (a b c : α) : α × α × α :=
  if b + c < a then (Scalar.pi, 0, 0)
  else if a + c < b then (0, Scalar.pi, 0)
  else if a + b < c then (0, 0, Scalar.pi)
  else
    (Scalar.acos ((b * b + c * c - a * a) / (2 * b * c)),
     Scalar.acos ((a * a + c * c - b * b) / (2 * a * c)),
     Scalar.acos ((a * a + b * b - c * c) / (2 * a * b)))

def cotOf (x : α) : α := 1 / (Scalar.sin x / Scalar.cos x)

/-- the regularisation added to the diagonal, regenerated from the source -/
def laplacianReg : α := Scalar.ofRat Gen.LAPLACIAN_REG_num Gen.LAPLACIAN_REG_den

/-- `cotan_laplacian_triplets` assembled densely: half the cotangent of the angle opposite an edge,
    summed over its faces, `−w` off the diagonal, `Σ w + reg` on it -/
def cotanLaplacian (len : Nat → Nat → α) (faces : List (Nat × Nat × Nat)) (n : Nat) : Mat α :=
  let half : α := Scalar.ofRat 1 2
  let A := faces.foldl (fun (A : Mat α) f =>
    let (v0, v1, v2) := f
    let ang := faceAngles (len v1 v2) (len v2 v0) (len v0 v1)
    let put (A : Mat α) (i j : Nat) (w : α) : Mat α :=
      (((A.add i j (-w)).add j i (-w)).add i i w).add j j w
    let A := put A v1 v2 (half * cotOf ang.1)
    let A := put A v2 v0 (half * cotOf ang.2.1)
    put A v0 v1 (half * cotOf ang.2.2)) (Mat.zeros n n)
  (List.range n).foldl (fun A i => A.add i i laplacianReg) A

/-- `calc_angle_defects`: 2π (π on the boundary) minus the face angles at the vertex -/
def angleDefects (len : Nat → Nat → α) (faces : List (Nat × Nat × Nat)) (bound : List Nat) (n : Nat) : Array α :=
  let init : Array α := (Array.range n).map fun i => if bound.contains i then Scalar.pi else 2 * Scalar.pi
  faces.foldl (fun (t : Array α) f =>
    let (v0, v1, v2) := f
    let ang := faceAngles (len v1 v2) (len v2 v0) (len v0 v1)
    ((t.modify v0 (· - ang.1)).modify v1 (· - ang.2.1)).modify v2 (· - ang.2.2)) init

def subMat (A : Mat α) (rows cols : List Nat) : Mat α :=
  (rows.map fun i => (cols.map fun j => A.get i j).toArray).toArray

def matVec (A : Mat α) (x : Array α) : Array α :=
  A.map fun row => sumA ((Array.range row.size).map fun j => row.getD j 0 * x.getD j 0)

def cumsum (l : List α) : List α :=
  (l.foldl (fun (acc : α × List α) x => (acc.1 + x, acc.2 ++ [acc.1 + x])) (0, [])).2

/-- the whole of `boundary_first_flatten` after the topology checks: (x, y) per vertex, or `none`
    when the corrected boundary lengths turn negative -/
def flattenCore (len : Nat → Nat → α) (faces : List (Nat × Nat × Nat)) (bound : List Nat) (n : Nat) :
    Option (List (α × α)) :=
  let inner := (List.range n).filter fun i => !bound.contains i
  let A := cotanLaplacian len faces n
  let Aii := subMat A inner inner
  let Aib := subMat A inner bound
  let defects := angleDefects len faces bound n
  -- dirichlet_boundary with u_b = 0
  let dInner : Array α := (inner.map fun i => defects.getD i 0).toArray
  let ui := (solveDense Aii dInner).map fun v => -v
  -- h = −A_ibᵀ u_i
  let nb := bound.length
  let h : List α := (List.range nb).map fun b =>
    -(sumA ((Array.range inner.length).map fun i => Aib.get i b * ui.getD i 0))
  let imK : List α := List.zipWith (fun vi hv => defects.getD vi 0 - hv) bound h
  -- boundary_edge_lengths
  let bl : List α := (List.range nb).map fun i => len (bound.getD i 0) (bound.getD ((i + 1) % nb) 0)
  -- best_fit_curve
  let phi := cumsum (imK.map fun k => -k)
  let tx := phi.map Scalar.cos
  let ty := phi.map Scalar.sin
  let mass : List α := (List.range nb).map fun ni =>
    let i := (ni + nb - 1) % nb
    (bl.getD i 0 + bl.getD ni 0) / 2
  let dotw (p q : List α) : α := (List.range nb).foldl (fun acc i => acc + mass.getD i 0 * p.getD i 0 * q.getD i 0) 0
  let m00 := dotw tx tx
  let m01 := dotw tx ty
  let m11 := dotw ty ty
  let det := m00 * m11 - m01 * m01
  let i00 := m11 / det
  let i01 := -m01 / det
  let i11 := m00 / det
  let sx := (List.range nb).foldl (fun acc i => acc + tx.getD i 0 * bl.getD i 0) 0
  let sy := (List.range nb).foldl (fun acc i => acc + ty.getD i 0 * bl.getD i 0) 0
  let cx := i00 * sx + i01 * sy
  let cy := i01 * sx + i11 * sy
  let bl' : List α := (List.range nb).map fun i =>
    bl.getD i 0 - mass.getD i 0 * (tx.getD i 0 * cx + ty.getD i 0 * cy)
  if bl'.any (fun x => decide (x < 0)) then none else
  let col0 := cumsum (List.zipWith (· * ·) bl' tx)
  let col1 := cumsum (List.zipWith (· * ·) bl' ty)
  let uvbX : List α := (List.range nb).map fun i => col0.getD ((i + nb - 1) % nb) 0
  let _uvbY : List α := (List.range nb).map fun i => col1.getD ((i + nb - 1) % nb) 0
  -- extend_curve: harmonic x, conjugate y
  let rhs : Array α := (matVec Aib uvbX.toArray).map fun v => -v
  let xi := solveDense Aii rhs
  let xAll : Array α := (Array.range n).map fun v =>
    match bound.idxOf? v, inner.idxOf? v with
    | some b, _ => uvbX.getD b 0
    | none, some i => xi.getD i 0
    | none, none => 0
  let half : α := Scalar.ofRat 1 2
  let hAll : Array α := (Array.range n).map fun v =>
    match bound.idxOf? v with
    | some b => 0 - half * (uvbX.getD ((b + nb - 1) % nb) 0 - uvbX.getD ((b + 1) % nb) 0)
    | none => 0
  let yAll := solveDense A hAll
  some ((List.range n).map fun v => (xAll.getD v 0, yAll.getD v 0))

/-- the edge-length accessor of a vertex list (`MeshEdges::new`, `boundary_edge_lengths`) -/
def lengthOf (verts : List (V3 α)) (i j : Nat) : α :=
  match verts[i]?, verts[j]? with
  | some a, some b => vdist a b
  | _, _ => 0

/-- `Mesh::calc_edges()?.boundary_first_flatten()` on vertices: the lengths are the only thing read
    from the coordinates -/
def flatten (verts : List (V3 α)) (faces : List (Nat × Nat × Nat)) (bound : List Nat) : Option (List (α × α)) :=
  flattenCore (lengthOf verts) faces bound verts.length

/-- algebraic cotangent of the angle at `p` in the triangle `p q r` (2-D) -/
def cotAt (p q r : V2 α) : α := V2.dot (V2.sub q p) (V2.sub r p) / V2.cross (V2.sub q p) (V2.sub r p)

/-- the acceptance test in front of the pipeline: one boundary loop, one connected piece, Euler
    characteristic one -/
def acceptsDisk (nLoops nPatches nVert nEdges nFaces : Nat) : Bool :=
  nLoops == 1 && nPatches == 1 && (nVert + nFaces == nEdges + 1)

end
