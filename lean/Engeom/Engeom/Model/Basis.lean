import Engeom.Model.Frame
/-
  Model of the frame / basis / plane constructions (property C19):
    src/geom3/iso3.rs      try_from_basis_{xy,xz,yz,yx,zx,zy}, from_bases
    src/common/svd_basis.rs  SvdBasis::{from_points, basis_variances, rank, point_to_basis,
                             point_from_basis}, iso3_from_basis, iso3_from_xyo, iso2_from_basis
    src/common/points.rs   mean_point, mean_point_weighted
    src/geom3/plane3.rs    From impls, intersection_distance

  The two-vector constructors are *interpreted from the recipe table regenerated from the source*
  (`Gen.frameRecipes`): which axis is normalised first and which two cross products, in which
  operand order, produce the other two.  nalgebra's SVD is an external routine: the model takes its
  result as a parameter and states (`SvdContract`) what is assumed of it; `svdResiduals` evaluates
  that contract on every run.
-/

section
variable {α : Type} [Add α] [Sub α] [Mul α] [Div α] [Neg α] [LT α] [LE α]
  [DecidableLT α] [DecidableLE α] [OfNat α 0] [OfNat α 1] [OfNat α 2] [Scalar α]

/-- nalgebra `try_normalize(min_norm)`: `None` when `‖v‖ ≤ min_norm`, else `v / ‖v‖`. -/
def tryNormalize3 (eps : α) (v : V3 α) : Option (V3 α) :=
  let n := V3.norm v
  if n ≤ eps then none else some ⟨v.x / n, v.y / n, v.z / n⟩

/-- the three columns of a rotation matrix -/
structure Frame3 (α : Type) where
  e0 : V3 α
  e1 : V3 α
  e2 : V3 α

namespace Frame3
def get (F : Frame3 α) (i : Nat) : V3 α := if i = 0 then F.e0 else if i = 1 then F.e1 else F.e2
def set (F : Frame3 α) (i : Nat) (v : V3 α) : Frame3 α :=
  if i = 0 then { F with e0 := v } else if i = 1 then { F with e1 := v } else { F with e2 := v }
/-- `from_bases`: columns → rotation (the quaternion extraction of an orthonormal right-handed
    column matrix is that matrix), translation = origin -/
def toIso (F : Frame3 α) (origin : V3 α) : Iso3 α :=
  ⟨⟨F.e0.x, F.e1.x, F.e2.x⟩, ⟨F.e0.y, F.e1.y, F.e2.y⟩, ⟨F.e0.z, F.e1.z, F.e2.z⟩, origin⟩
end Frame3

/-- One two-vector constructor, as a recipe `(primary, secondary, [(dst, lhs, rhs), (dst, lhs, rhs)])`
    over the slots `e0 e1 e2`: normalise slot `primary`; then twice `dst := normalise (lhs × rhs)`.
    Slot `secondary` initially holds the raw second argument. -/
def runFrame (eps : α) (primary secondary : Nat) (steps : List (Nat × Nat × Nat)) (a b : V3 α) :
    Option (Frame3 α) :=
  let z : V3 α := ⟨0, 0, 0⟩
  let F0 : Frame3 α := (Frame3.set (Frame3.set ⟨z, z, z⟩ secondary b) primary a)
  match tryNormalize3 eps (F0.get primary) with
  | none => none
  | some u =>
    steps.foldl (fun acc st =>
      match acc with
      | none => none
      | some F =>
        match tryNormalize3 eps (V3.cross (F.get st.2.1) (F.get st.2.2)) with
        | none => none
        | some w => some (F.set st.1 w)) (some (F0.set primary u))

/-! the six constructors written out (shown equal to the interpreted recipes in Props/C19) -/
def frameA (eps : α) (p s : V3 α) : Option (V3 α × V3 α × V3 α) :=
  match tryNormalize3 eps p with
  | none => none
  | some u => match tryNormalize3 eps (V3.cross u s) with
    | none => none
    | some w => match tryNormalize3 eps (V3.cross w u) with
      | none => none
      | some c => some (u, c, w)

def frameB (eps : α) (p s : V3 α) : Option (V3 α × V3 α × V3 α) :=
  match tryNormalize3 eps p with
  | none => none
  | some u => match tryNormalize3 eps (V3.cross s u) with
    | none => none
    | some w => match tryNormalize3 eps (V3.cross u w) with
      | none => none
      | some c => some (u, w, c)

def frameXY (eps : α) (e0 e1 : V3 α) : Option (Frame3 α) :=
  (frameA eps e0 e1).map fun (u, c, w) => ⟨u, c, w⟩
def frameYZ (eps : α) (e1 e2 : V3 α) : Option (Frame3 α) :=
  (frameA eps e1 e2).map fun (u, c, w) => ⟨w, u, c⟩
def frameZX (eps : α) (e2 e0 : V3 α) : Option (Frame3 α) :=
  (frameA eps e2 e0).map fun (u, c, w) => ⟨c, w, u⟩
def frameXZ (eps : α) (e0 e2 : V3 α) : Option (Frame3 α) :=
  (frameB eps e0 e2).map fun (u, w, c) => ⟨u, w, c⟩
def frameYX (eps : α) (e1 e0 : V3 α) : Option (Frame3 α) :=
  (frameB eps e1 e0).map fun (u, w, c) => ⟨c, u, w⟩
def frameZY (eps : α) (e2 e1 : V3 α) : Option (Frame3 α) :=
  (frameB eps e2 e1).map fun (u, w, c) => ⟨w, c, u⟩

/-! ### means -/
def sumV3 (l : List (V3 α)) : V3 α := l.foldr V3.add ⟨0, 0, 0⟩
def sumS (l : List α) : α := l.foldr (· + ·) 0

/-- number of items as a scalar (Rust `len() as f64`) -/
def countS : List (V3 α) → α
  | [] => 0
  | _ :: r => countS r + 1

/-- `mean_point` -/
def meanPoint (pts : List (V3 α)) : V3 α :=
  let s := sumV3 pts
  let n := countS pts
  ⟨s.x / n, s.y / n, s.z / n⟩

def weightedSum : List (V3 α) → List α → V3 α
  | p :: ps, w :: ws => V3.add (V3.smul w p) (weightedSum ps ws)
  | _, _ => ⟨0, 0, 0⟩

def weightTotal : List (V3 α) → List α → α
  | _ :: ps, w :: ws => w + weightTotal ps ws
  | _, _ => 0

/-- `mean_point_weighted` -/
def meanPointWeighted (pts : List (V3 α)) (ws : List α) : V3 α :=
  let s := weightedSum pts ws
  let t := weightTotal pts ws
  ⟨s.x / t, s.y / t, s.z / t⟩

/-- the rows handed to the SVD: `p - c` -/
def centredRows (c : V3 α) (pts : List (V3 α)) : List (V3 α) := pts.map fun p => V3.sub p c

/-- the rows handed to the SVD when weighted: `(p - c) * w` -/
def centredRowsW (c : V3 α) : List (V3 α) → List α → List (V3 α)
  | p :: ps, w :: ws => V3.smul w (V3.sub p c) :: centredRowsW c ps ws
  | _, _ => []

/-- the pre-fix expression `p - c * w` (kept as a counter-model: see Props/C19) -/
def centredRowsWPrefix (c : V3 α) : List (V3 α) → List α → List (V3 α)
  | p :: ps, w :: ws => V3.sub p (V3.smul w c) :: centredRowsWPrefix c ps ws
  | _, _ => []

/-- `Σ_k (a_k · u)(a_k · v)` : the entry `uᵀ (AᵀA) v` of the Gram matrix -/
def gramForm (A : List (V3 α)) (u v : V3 α) : α :=
  sumS (A.map fun a => V3.dot a u * V3.dot a v)

/-! ### the decomposition as delivered by the external SVD -/
structure SvdBasis3M (α : Type) where
  b0 : V3 α
  b1 : V3 α
  b2 : V3 α
  s0 : α
  s1 : α
  s2 : α
  center : V3 α

namespace SvdBasis3M
/-- `point_to_basis` -/
def toBasis (S : SvdBasis3M α) (p : V3 α) : V3 α :=
  let v := V3.sub p S.center
  ⟨V3.dot S.b0 v, V3.dot S.b1 v, V3.dot S.b2 v⟩
/-- `point_from_basis` -/
def fromBasis (S : SvdBasis3M α) (q : V3 α) : V3 α :=
  V3.add (V3.add (V3.add (V3.smul q.x S.b0) (V3.smul q.y S.b1)) (V3.smul q.z S.b2)) S.center
/-- `rank(tol)` -/
def rank (S : SvdBasis3M α) (tol : α) : Nat :=
  (if tol < S.s0 then 1 else 0) + (if tol < S.s1 then 1 else 0) + (if tol < S.s2 then 1 else 0)
end SvdBasis3M

/-- Residuals of the contract assumed of the external SVD, on rows `A`:
    worst orthonormality defect, worst off-diagonal Gram entry, worst `σ_i² − b_iᵀ AᵀA b_i`. -/
def svdResiduals (A : List (V3 α)) (S : SvdBasis3M α) : α × α × α :=
  let m3 (a b c : α) : α := smax (sabs a) (smax (sabs b) (sabs c))
  let ortho := smax (m3 (V3.dot S.b0 S.b0 - 1) (V3.dot S.b1 S.b1 - 1) (V3.dot S.b2 S.b2 - 1))
    (m3 (V3.dot S.b0 S.b1) (V3.dot S.b0 S.b2) (V3.dot S.b1 S.b2))
  let off := m3 (gramForm A S.b0 S.b1) (gramForm A S.b0 S.b2) (gramForm A S.b1 S.b2)
  let diag := m3 (S.s0 * S.s0 - gramForm A S.b0 S.b0) (S.s1 * S.s1 - gramForm A S.b1 S.b1)
    (S.s2 * S.s2 - gramForm A S.b2 S.b2)
  (ortho, off, diag)

/-- plain `normalize` (no guard) -/
def normalize3 (v : V3 α) : V3 α :=
  let n := V3.norm v
  ⟨v.x / n, v.y / n, v.z / n⟩

/-- `iso3_from_basis`: columns `b0`, `b1`, `b0 × b1`, all normalised (`none` = the guarded panic on a
    zero or parallel pair), translation `origin`; the function returns the inverse. -/
def iso3FromBasis (eps : α) (b0 b1 : V3 α) (origin : V3 α) : Option (Iso3 α) :=
  match tryNormalize3 eps b0 with
  | none => none
  | some c0 => match tryNormalize3 eps b1 with
    | none => none
    | some c1 => match tryNormalize3 eps (V3.cross c0 c1) with
      | none => none
      | some c2 => some (Frame3.toIso ⟨c0, c1, c2⟩ origin).inv

/-- `iso3_from_xyo` (`x0`, `y` unit vectors) -/
def iso3FromXyo (eps : α) (x0 y origin : V3 α) : Option (Iso3 α) :=
  match tryNormalize3 eps (V3.sub y (V3.smul (V3.dot x0 y) x0)) with
  | none => none
  | some y0 => some (Frame3.toIso ⟨x0, y0, normalize3 (V3.cross x0 y0)⟩ origin).inv

/-- `iso2_from_basis`: `b1` is `b0` turned by +90°, result inverted -/
def iso2FromBasis (eps : α) (b0 origin : V2 α) : Option (Iso2 α) :=
  let n := V2.norm b0
  if n ≤ eps then none else
  some (⟨b0.x / n, b0.y / n, origin⟩ : Iso2 α).inv

/-! ### planes -/
/-- `From<(&Point3, &Point3, &Point3)>` -/
def Plane3.ofThreePoints (p1 p2 p3 : V3 α) : Plane3 α :=
  Plane3.ofNormalPoint (normalize3 (Plane3.rawNormal3 p1 p2 p3)) p1

/-- `intersection_distance`: `None` when `n · sn ≤ tol` -/
def Plane3.intersectionDistance (tol : α) (P : Plane3 α) (sp : SP3 α) : Option α :=
  let p0 := V3.smul P.d P.normal
  let denom := V3.dot P.normal sp.normal
  if denom ≤ tol then none else some (V3.dot (V3.sub p0 sp.point) P.normal / denom)

end
