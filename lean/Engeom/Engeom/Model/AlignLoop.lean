import Engeom.Model.Align
import Engeom.Model.Closest
/-
  Model of the alignment problems handed to the Levenberg–Marquardt solver (property C07):
    src/geom2/align2/points_to_curve.rs   PointsToCurve  (params, moved, closest; set_params /
    src/geom3/align3/points_to_mesh.rs    PointsToMesh    residuals / jacobian)
  The solver itself is external: it is an arbitrary client issuing `set_params`, `residuals` and
  `jacobian` calls and finally restoring the accepted parameters.  The model is the state machine
  those calls act on; the closest-point query is the exhaustive scan of Model/Closest (C02).
-/

/-- the fixed data of a problem: the points, how parameters move a point, the closest-reference
    query and the mode-specific residual -/
structure AlignProblem (P SP X R : Type) where
  points : List P
  move : X → P → P
  closest : P → SP
  resid : P → SP → R

/-- the mutable part of `PointsToCurve` / `PointsToMesh` -/
structure AlignState (P SP X : Type) where
  x : X
  moved : List P
  closest : List SP

inductive AlignOp (X : Type) where
  | setParams (x : X)
  | residuals
  | jacobian

namespace AlignProblem
variable {P SP X R : Type} (pb : AlignProblem P SP X R)

/-- `params.set(x); move_points()` -/
def refresh (x : X) : AlignState P SP X :=
  let moved := pb.points.map (pb.move x)
  ⟨x, moved, moved.map pb.closest⟩

/-- `residuals()`: reads the caches only -/
def residuals (s : AlignState P SP X) : List R := List.zipWith pb.resid s.moved s.closest

def step (s : AlignState P SP X) : AlignOp X → AlignState P SP X
  | .setParams x => pb.refresh x
  | .residuals => s
  | .jacobian => s

def run (s : AlignState P SP X) (ops : List (AlignOp X)) : AlignState P SP X := ops.foldl pb.step s

/-- a defective variant in which `set_params` stores the parameters without refreshing the caches
    (the mistake the property is about); kept as a counter-model -/
def stepStale (s : AlignState P SP X) : AlignOp X → AlignState P SP X
  | .setParams x => { s with x := x }
  | .residuals => s
  | .jacobian => s

end AlignProblem

/-- bookkeeping of a trust-region solver: a trial point replaces the current one only if it lowers
    the objective (`reset_params_if(!update_considered_good)` restores the accepted point) -/
def lmAccept {X C : Type} [LT C] [DecidableLT C] (f : X → C) (cur : X) (trials : List X) : X :=
  trials.foldl (fun c t => if f t < f c then t else c) cur

section
variable {α : Type} [Add α] [Sub α] [Mul α] [Div α] [Neg α] [LT α] [LE α]
  [DecidableLT α] [DecidableLE α] [OfNat α 0] [OfNat α 1] [OfNat α 2] [Scalar α]

def countS2 : List (V2 α) → α
  | [] => 0
  | _ :: r => countS2 r + 1

/-- `mean_point` in 2-D -/
def meanPoint2 (pts : List (V2 α)) : V2 α :=
  let s := pts.foldr V2.add ⟨0, 0⟩
  let n := countS2 pts
  ⟨s.x / n, s.y / n⟩

def countS3 : List (V3 α) → α
  | [] => 0
  | _ :: r => countS3 r + 1

def meanPoint3 (pts : List (V3 α)) : V3 α :=
  let s := pts.foldr V3.add ⟨0, 0, 0⟩
  let n := countS3 pts
  ⟨s.x / n, s.y / n, s.z / n⟩

/-- `curve.at_closest_to_point(p).surface_point()`: closest point by exhaustive scan, normal = edge
    direction turned by −90°.  The flag says that the answer is at (or within `1e-9` of) a vertex,
    or that another edge is equally close to within rounding: there the edge — hence the normal —
    is a matter of tie-breaking. -/
def edgeTie2 (p : V2 α) (best : Nat) (d2 : α) : List (V2 α) → Nat → Bool
  | a :: b :: r, i =>
    let eps : α := Scalar.ofRat 1 1000000000
    (i != best && decide ((closestOnSegment p a b).2.2 ≤ d2 * (1 + eps))) || edgeTie2 p best d2 (b :: r) (i + 1)
  | _, _ => false

def closestSurface2 (verts : List (V2 α)) (p : V2 α) : SP2 α × Bool :=
  match closestOnPolyline verts p with
  | none => (⟨p, ⟨0, 0⟩⟩, true)
  | some (i, t, q, d2) =>
    let a := verts.getD i ⟨0, 0⟩
    let b := verts.getD (i + 1) ⟨0, 0⟩
    let d := V2.sub b a
    let len := V2.norm d
    let eps : α := Scalar.ofRat 1 1000000000
    (⟨q, ⟨d.y / len, -(d.x / len)⟩⟩,
      decide (t ≤ eps) || decide (1 - eps ≤ t) || edgeTie2 p i d2 verts 0)

/-- `mesh.surf_closest_to(p)`: closest point by exhaustive scan over the faces, normal of the
    winning face; the flag says that the closest point is not interior to that face (edge / vertex:
    the face is a matter of tie-breaking) or that another face is as close to within rounding. -/
def closestSurface3 (verts : List (V3 α)) (faces : List (Nat × Nat × Nat)) (p : V3 α) : SP3 α × Bool :=
  let z : V3 α := ⟨0, 0, 0⟩
  let best := faces.foldl (fun (best : Option (V3 α × α × V3 α)) f =>
    let a := verts.getD f.1 z
    let b := verts.getD f.2.1 z
    let c := verts.getD f.2.2 z
    let r := closestOnTriangle p a b c
    let n := V3.cross (V3.sub b a) (V3.sub c a)
    match best with
    | none => some (r.1, r.2, n)
    | some bst => if r.2 < bst.2.1 then some (r.1, r.2, n) else some bst) none
  match best with
  | none => (⟨p, z⟩, true)
  | some (q, d2, n) =>
    let len := V3.norm n
    let nh : V3 α := ⟨n.x / len, n.y / len, n.z / len⟩
    let h := V3.dot nh (V3.sub p q)
    -- interior to the face exactly when the offset is along the normal
    let eps : α := Scalar.ofRat 1 1000000000
    -- ... or when a second face is equally close to within rounding (two faces facing each other
    -- across the point): which of them wins is a matter of tie-breaking, as in 2-D
    let rivals := faces.foldl (fun (k : Nat) f =>
      let r := closestOnTriangle p (verts.getD f.1 z) (verts.getD f.2.1 z) (verts.getD f.2.2 z)
      if r.2 ≤ d2 * (1 + eps) then k + 1 else k) 0
    (⟨q, nh⟩, decide (eps * (1 + d2) < sabs (d2 - h * h)) || decide (2 ≤ rivals))

/-- the 2-D problem of `points_to_curve` -/
def problem2 (verts pts : List (V2 α)) : AlignProblem (V2 α) (SP2 α × Bool) (α × α × α) α :=
  let rc := meanPoint2 pts
  { points := pts
    move := fun x p => (RcParams2.set rc x).transform.apply p
    closest := closestSurface2 verts
    resid := fun p c => c.1.scalarProjection p }

/-- the 3-D problem of `points_to_mesh`; `toPlane` selects `DistMode::ToPlane`. `rcD` is the moved
    rotation centre fixed by `from_initial`. -/
def problem3 (toPlane : Bool) (verts : List (V3 α)) (faces : List (Nat × Nat × Nat)) (pts : List (V3 α))
    (rcD : V3 α) : AlignProblem (V3 α) (SP3 α × Bool) (List α) α :=
  let rc := meanPoint3 pts
  { points := pts
    move := fun x p =>
      (RcParams3.set rc rcD (x.getD 0 0) (x.getD 1 0) (x.getD 2 0) (x.getD 3 0) (x.getD 4 0) (x.getD 5 0)).transform.apply p
    closest := closestSurface3 verts faces
    resid := fun p c =>
      if toPlane then sabs (c.1.scalarProjection p) else V3.norm (V3.sub p c.1.point) }

end
