import Engeom.Model.Search
import Engeom.Model.Circle
/-
  Model of `ball_pivot_with_centers_2d` (src/geom2/hull.rs, property C15): the loop written in engeom,
  statement by statement.  The k-d tree radius query is the brute-force `withinR` (the specification
  the wrapper is compared with on every run); the circle-circle intersection is the model of C11.
  The start (`BallPivotStart`) is resolved by the caller to an index and a direction.
-/

inductive PivotEnd where
  | onIndex (i : Nat)
  | onRepeat
deriving Repr

section
variable {α : Type} [Add α] [Sub α] [Mul α] [Div α] [Neg α] [LT α] [LE α]
  [DecidableLT α] [DecidableLE α] [OfNat α 0] [OfNat α 1] [OfNat α 2] [Scalar α]

structure PivotState (α : Type) where
  wi : Nat
  dir : V2 α
  results : List Nat
  centers : List (V2 α)
  completed : List Nat

/-- below this angle a neighbour counts as being on the ball already -/
def pivotMinAngle : α := Scalar.ofRat 1 1000000
/-- an angle this close to a full turn is an angle of zero lost to round-off -/
def pivotWrapTol : α := Scalar.ofRat 1 1000000000

/-- one candidate centre against the best so far (`PivotPoint::better_of`: the first one wins ties).
    After the repair: an angle of almost a full turn counts as zero, and a neighbour `pn` that is on the
    ball already (angle below `pivotMinAngle`) is a candidate exactly when it lies AHEAD of the working
    point in the direction of travel — the ball would otherwise roll over it; before the repair every
    such neighbour was skipped (`pivotCand_prefix`). -/
def pivotCand (pw dir : V2 α) (r : α) (pn : V2 α) (dirn : AngleDir) (ni : Nat) (best : Option (Nat × V2 α × α)) (pi : V2 α) :
    Option (Nat × V2 α × α) :=
  let di := V2.sub pi pw
  let a0 := directedAngle dir di dirn
  let ang := if Scalar.pi * 2 - pivotWrapTol < a0 then 0 else a0
  let center := V2.add pw (V2.smul r dir)
  let travel : V2 α := match dirn with
    | .ccw => ⟨-dir.y, dir.x⟩
    | .cw => ⟨dir.y, -dir.x⟩
  if ang < pivotMinAngle && V2.dot (V2.sub pn center) travel ≤ 0 then best
  else match best with
    | none => some (ni, pi, ang)
    | some b => if ang < b.2.2 then some (ni, pi, ang) else some b

/-- the pre-repair candidate test: every angle below 1e-6 skipped (kept as the regression witness) -/
def pivotCand_prefix (pw dir : V2 α) (dirn : AngleDir) (ni : Nat) (best : Option (Nat × V2 α × α)) (pi : V2 α) :
    Option (Nat × V2 α × α) :=
  let di := V2.sub pi pw
  let ang := directedAngle dir di dirn
  if ang < pivotMinAngle then best
  else match best with
    | none => some (ni, pi, ang)
    | some b => if ang < b.2.2 then some (ni, pi, ang) else some b

/-- all candidates of one neighbour -/
def pivotNeighbour (pts : List (V2 α)) (r : α) (dirn : AngleDir) (wi : Nat) (dir : V2 α) (skip : Option Nat)
    (best : Option (Nat × V2 α × α)) (e : Nat × α) : Option (Nat × V2 α × α) :=
  if some e.1 = skip then best else
    (Circle.intersectionsWith ⟨pts.getD wi ⟨0, 0⟩, r⟩ ⟨pts.getD e.1 ⟨0, 0⟩, r⟩).foldl
      (pivotCand (pts.getD wi ⟨0, 0⟩) dir r (pts.getD e.1 ⟨0, 0⟩) dirn e.1) best

/-- the candidate with the smallest directed angle: `(point index, ball centre, angle)` -/
def pivotBest (pts : List (V2 α)) (r : α) (dirn : AngleDir) (wi : Nat) (dir : V2 α) (skip : Option Nat) :
    Option (Nat × V2 α × α) :=
  (withinR pts (pts.getD wi ⟨0, 0⟩) (r * 2)).foldl (pivotNeighbour pts r dirn wi dir skip) none

inductive PivotOutcome (α : Type) where
  | running (s : PivotState α)
  | done (s : PivotState α)
  | loopDetected

/-- the neighbour two elements back is skipped -/
def pivotSkip (s : PivotState α) : Option Nat :=
  if 2 ≤ s.results.length then s.results[s.results.length - 2]? else none

/-- move the ball to point `ni` with centre `c`; the flag says that the end condition is met -/
def pivotAdvance (pts : List (V2 α)) (stop : PivotEnd) (s : PivotState α) (ni : Nat) (c : V2 α) : Bool × PivotState α :=
  let finished := match stop with
    | .onIndex e => ni == e
    | .onRepeat => s.completed.contains ni
  (finished,
    { wi := ni, dir := V2.normalize (V2.sub c (pts.getD ni ⟨0, 0⟩)), results := s.results ++ [ni],
      centers := s.centers ++ [c],
      completed := if finished || s.completed.contains ni then s.completed else s.completed ++ [ni] })

/-- one pass of the `loop` -/
def pivotStep (pts : List (V2 α)) (r : α) (dirn : AngleDir) (stop : PivotEnd) (s : PivotState α) : PivotOutcome α :=
  if s.completed.length * 3 < s.results.length then .loopDetected
  else
    match pivotBest pts r dirn s.wi s.dir (pivotSkip s) with
    | none => .done s
    | some x =>
      if (pivotAdvance pts stop s x.1 x.2.1).1 then .done (pivotAdvance pts stop s x.1 x.2.1).2
      else .running (pivotAdvance pts stop s x.1 x.2.1).2

def pivotLoop (pts : List (V2 α)) (r : α) (dirn : AngleDir) (stop : PivotEnd) : Nat → PivotState α → Option (PivotState α)
  | 0, _ => none
  | fuel + 1, s =>
    match pivotStep pts r dirn stop s with
    | .loopDetected => none
    | .done s' => some s'
    | .running s' => pivotLoop pts r dirn stop fuel s'

/-- `ball_pivot_with_centers_2d` from a resolved start; `none` = `Err("Loop detected")`.
    Every pass appends one result and `results ≤ 3·completed + 1 ≤ 3n + 1`, so `3n + 3` passes suffice. -/
def ballPivot (pts : List (V2 α)) (start : Nat) (startDir : V2 α) (stop : PivotEnd) (dirn : AngleDir) (r : α) :
    Option (List Nat × List (V2 α)) :=
  let s0 : PivotState α := ⟨start, V2.normalize startDir, [start], [], [start]⟩
  match pivotLoop pts r dirn stop (3 * pts.length + 3) s0 with
  | some s => some (s.results, s.centers)
  | none => none

end
