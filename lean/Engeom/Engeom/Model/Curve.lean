import Engeom.Model.Prelude
/-
  Model of the polyline curves: src/geom2/curve2.rs and src/geom3/curve3.rs (properties C01, C03,
  C04, C05) and of the point-list helpers of src/common/points.rs (C05).
  One generic model over a small vector interface, instantiated at V2 and V3.
  Binary search on the cumulative lengths is modelled by its contract (linear scan).
-/

class VecLike (P : Type) (α : outParam Type) where
  add : P → P → P
  sub : P → P → P
  smul : α → P → P
  dot : P → P → α

section
variable {α : Type} [Add α] [Sub α] [Mul α] [Div α] [Neg α] [LT α] [LE α]
  [DecidableLT α] [DecidableLE α] [OfNat α 0] [OfNat α 1] [OfNat α 2]

instance : VecLike (V2 α) α := ⟨V2.add, V2.sub, V2.smul, V2.dot⟩
instance : VecLike (V3 α) α := ⟨V3.add, V3.sub, V3.smul, V3.dot⟩

variable {P : Type} [VecLike P α] [Scalar α]

def vnorm (v : P) : α := Scalar.sqrt (VecLike.dot v v)
/-- `dist` -/
def vdist (a b : P) : α := vnorm (VecLike.sub a b)
/-- `Unit::new_normalize` -/
def vnormalize (v : P) : P := VecLike.smul (1 / vnorm v) v
/-- nalgebra divides by the norm (rather than multiplying by its inverse) -/
def vunit (v : P) (divBy : P → α → P) : P := divBy v (vnorm v)

/-- `Vec::dedup_by(|a, b| dist(a, b) <= tol)`: an element is dropped when it is within `tol` of the
    last RETAINED element -/
def dedupTolPts (tol : α) : List P → List P
  | [] => []
  | a :: r => a :: go a r
where go (last : P) : List P → List P
  | [] => []
  | b :: r => if vdist b last ≤ tol then go last r else b :: go b r

/-- cumulative lengths `[0, d₀, d₀+d₁, …]` -/
def cumLengths : List P → List α
  | [] => [0]
  | a :: r => go (0 : α) a r
where go (acc : α) (prev : P) : List P → List α
  | [] => [acc]
  | b :: r => acc :: go (acc + vdist b prev) b r

structure Curve (α P : Type) where
  verts : List P
  lengths : List α
  closed : Bool
  tol : α
  /-- 2-D curves blend the two adjacent edge directions at a vertex; 3-D curves use the next edge -/
  blend : Bool

/-- `Curve2::from_points` (`blend = true`) / `Curve3::from_points` (`blend = false`, never closed) -/
def Curve.fromPoints (pts : List P) (tol : α) (forceClosed : Bool) (blend : Bool) : Option (Curve α P) :=
  let p1 := dedupTolPts tol pts
  if p1.length < 2 then none else
  let p2 := match p1.head?, p1.getLast? with
    | some s, some e => if forceClosed && blend && decide (tol < vdist s e) then p1 ++ [s] else p1
    | _, _ => p1
  let closed := match p2.head?, p2.getLast? with
    | some s, some e => blend && decide (vdist s e ≤ tol)
    | _, _ => false
  some ⟨p2, cumLengths p2, closed, tol, blend⟩

structure Station (α P : Type) where
  point : P
  dir : P
  index : Nat
  fraction : α

variable [Inhabited P] [Inhabited α]

def Curve.count (c : Curve α P) : Nat := c.verts.length
def Curve.vtx (c : Curve α P) (i : Nat) : P := c.verts.getD i default
def Curve.len (c : Curve α P) (i : Nat) : α := c.lengths.getD i default
def Curve.length (c : Curve α P) : α := c.lengths.getLast?.getD 0

/-- `dir_of_edge` -/
def Curve.dirOfEdge (c : Curve α P) (i : Nat) : P := vnormalize (VecLike.sub (c.vtx (i + 1)) (c.vtx i))

/-- `dir_of_vertex` -/
def Curve.dirOfVertex (c : Curve α P) (i : Nat) : P :=
  let n := c.count
  let isFirst := i == 0
  let isLast := i + 1 == n
  if c.blend then
    if c.closed && (isFirst || isLast) then
      vnormalize (VecLike.add (c.dirOfEdge 0) (c.dirOfEdge (n - 2)))
    else if isFirst then c.dirOfEdge 0
    else if isLast then c.dirOfEdge (n - 2)
    else vnormalize (VecLike.add (c.dirOfEdge (i - 1)) (c.dirOfEdge i))
  else
    if isLast then c.dirOfEdge (i - 1) else c.dirOfEdge i

/-- `at_vertex` -/
def Curve.atVertex (c : Curve α P) (i : Nat) : Station α P :=
  if i + 1 == c.count then ⟨c.vtx i, c.dirOfVertex i, i - 1, 1⟩ else ⟨c.vtx i, c.dirOfVertex i, i, 0⟩

/-- `length_along` -/
def Curve.lengthAlong (c : Curve α P) (s : Station α P) : α :=
  c.len s.index + (c.len (s.index + 1) - c.len s.index) * s.fraction

/-- number of cumulative lengths strictly below `l` (= insertion point of the binary search when
    there is no exact hit) -/
def countLt (ls : List α) (l : α) : Nat := (ls.takeWhile (fun v => decide (v < l))).length

/-- `at_length` -/
def Curve.atLength (c : Curve α P) (l : α) : Option (Station α P) :=
  if l < 0 || c.length < l then none else
  let k := countLt c.lengths l
  -- exact hit: lengths[k] = l
  if k < c.lengths.length && !decide (l < c.len k) then some (c.atVertex k)
  else
    let i := k - 1
    let dir := c.dirOfEdge i
    let rem := l - c.len i
    let f := rem / (c.len (i + 1) - c.len i)
    some ⟨VecLike.add (c.vtx i) (VecLike.smul rem dir), dir, i, f⟩

/-- `at_fraction` -/
def Curve.atFraction (c : Curve α P) (f : α) : Option (Station α P) := c.atLength (f * c.length)

/-! ### between_lengths (2-D only in the Rust code; the model is dimension generic) -/

/-- the walk of `between_lengths`: state `(working, wrap, points)`; `none` = out of fuel -/
def betweenWalk (c : Curve α P) (endSt : Station α P) (lastIndex : Nat) :
    Nat → Station α P → Bool → List P → Option (List P)
  | 0, _, _, _ => none
  | fuel + 1, working, wrap, pts =>
    let pts := pts ++ [working.point]
    let next := working.index + 1
    if lastIndex < next then
      if !wrap then some pts else betweenWalk c endSt lastIndex fuel (c.atVertex 0) false pts
    else if decide (c.lengthAlong working ≤ c.lengthAlong endSt) && decide (endSt.index < next) then some pts
    else betweenWalk c endSt lastIndex fuel (c.atVertex next) wrap pts

/-- `between_lengths`: the last vertex index the walk may visit (a closed curve repeats its first vertex) -/
@[reducible] def Curve.betweenLastIndex (c : Curve α P) : Nat := if c.closed then c.count - 2 else c.count - 1

/-- `between_lengths`: the request is ill posed (lengths closer than the tolerance, or inverted on an open curve) -/
@[reducible] def Curve.betweenIllPosed (c : Curve α P) (l0 l1 : α) (wrap : Bool) : Bool :=
  decide (sabs (l1 - l0) < c.tol) || (!c.closed && wrap)

/-- `between_lengths`; the raw point list before the final `from_points` -/
def Curve.betweenRaw (c : Curve α P) (l0 l1 : α) : Option (List P) :=
  match c.atLength l0, c.atLength l1 with
  | some start, some endSt =>
    let wrap := decide (c.lengthAlong endSt < c.lengthAlong start)
    let lastIndex := c.betweenLastIndex
    if c.betweenIllPosed l0 l1 wrap then none
    else
      match betweenWalk c endSt lastIndex (2 * c.count + 2) start wrap [] with
      | some pts =>
        match pts.getLast? with
        | some lastP => some (if c.tol < vdist endSt.point lastP then pts ++ [endSt.point] else pts)
        | none => none
      | none => none
  | _, _ => none

def Curve.between (c : Curve α P) (l0 l1 : α) : Option (Curve α P) :=
  match c.betweenRaw l0 l1 with
  | some pts => Curve.fromPoints pts c.tol false c.blend
  | none => none

/-- `between_lengths_by_control` (note the Rust precedence: `c < lo || (c > hi && closed)`) -/
def Curve.betweenByControl (c : Curve α P) (a b ctl : α) : Option (Curve α P) :=
  if c.length < ctl then none else
  let lo := smin a b
  let hi := smax a b
  if lo < ctl && ctl < hi then c.between lo hi
  else if decide (ctl < lo) || (decide (hi < ctl) && c.closed) then c.between hi lo
  else none

def Curve.reversed (c : Curve α P) : Option (Curve α P) := Curve.fromPoints c.verts.reverse c.tol false c.blend

/-! ### resampling positions (C05) -/

/-- `resample_by_count` positions (post-fix for 2-D: multiplied by the curve length) -/
def positionsByCount (ofNat : Nat → α) (len : α) (n : Nat) : List α :=
  (List.range n).map (fun i => ofNat i / ofNat (n - 1) * len)

/-- the 2-D pre-fix positions: fractions used as lengths (D1) -/
def positionsByCount_prefix (ofNat : Nat → α) (n : Nat) : List α :=
  (List.range n).map (fun i => ofNat i / ofNat (n - 1))

/-- `resample_by_spacing` positions: `0, s, 2s, … < L`, shifted by half the remainder -/
def positionsBySpacing (len s : α) : Nat → α → List α → List α
  | 0, _, acc => acc
  | fuel + 1, cur, acc => if cur < len then positionsBySpacing len s fuel (cur + s) (acc ++ [cur]) else acc

def centred (len : α) (ps : List α) : List α :=
  match ps.getLast? with
  | some last => let pad := (len - last) / 2; ps.map (· + pad)
  | none => ps

/-- `resample_at_positions` -/
def Curve.resampleAt (c : Curve α P) (positions : List α) : Option (Curve α P) :=
  match positions.mapM (fun l => (c.atLength l).map (·.point)) with
  | some pts => Curve.fromPoints pts c.tol c.closed c.blend
  | none => none       -- the Rust code unwraps: a position outside [0, L] panics

/-! ### Ramer–Douglas–Peucker and gap filling (points.rs) -/

/-- distance from `p` to the infinite line through `a`, `b` — what `Rdp::simplify` used BEFORE the
    fix (kept for the regression witnesses) -/
def lineDist (a b p : P) : α :=
  let n := vnormalize (VecLike.sub b a)
  let t := VecLike.dot n (VecLike.sub p a)
  vnorm (VecLike.sub (VecLike.add a (VecLike.smul t n)) p)

/-- distance from `p` to the segment `a b` (coincident end points: distance to that point) -/
def segDist (a b p : P) : α :=
  let ab := VecLike.sub b a
  let ap := VecLike.sub p a
  let len2 := VecLike.dot ab ab
  let t := if 0 < len2 then smax (smin (VecLike.dot ap ab / len2) 1) 0 else 0
  vnorm (VecLike.sub ap (VecLike.smul t ab))

/-- index and distance of the farthest point from the segment `a b`, first maximum wins,
    starting from `(0, 0)` -/
def farthest (a b : P) : List P → Nat → Nat → α → Nat × α
  | [], _, bi, bd => (bi, bd)
  | p :: r, i, bi, bd =>
    let d := segDist a b p
    if bd < d then farthest a b r (i + 1) i d else farthest a b r (i + 1) bi bd

/-- `Rdp::simplify` on the index range `[i0, i1]`; returns the kept indices strictly inside -/
def rdpKeep (pts : List P) (tol : α) : Nat → Nat → Nat → List Nat
  | 0, _, _ => []
  | fuel + 1, i0, i1 =>
    if i1 - i0 < 2 then [] else
    let a := pts.getD i0 default
    let b := pts.getD i1 default
    let inner := (pts.drop (i0 + 1)).take (i1 - i0 - 1)
    let (k, d) := farthest a b inner (i0 + 1) 0 0
    let ab := VecLike.sub b a
    -- coincident end points (a closed ring) are always split at the farthest vertex
    let ring := !decide (0 < VecLike.dot ab ab) && decide (0 < d)
    if decide (tol < d) || ring then rdpKeep pts tol fuel i0 k ++ [k] ++ rdpKeep pts tol fuel k i1 else []

/-- `ramer_douglas_peucker` -/
def rdp (pts : List P) (tol : α) : List P :=
  if pts.length < 2 then pts else
  let keep := [0] ++ rdpKeep pts tol pts.length 0 (pts.length - 1) ++ [pts.length - 1]
  keep.map (fun i => pts.getD i default)

/-- number of points `fill_gaps` inserts into a gap of length `d` -/
def gapCount (ofNat : Nat → α) (d maxd : α) : Nat → Nat → Nat
  | 0, n => n
  | fuel + 1, n => if maxd < d / ofNat (n + 1) then gapCount ofNat d maxd fuel (n + 1) else n

/-- `evenly_spaced_points_between` -/
def evenlyBetween (ofNat : Nat → α) (a b : P) (n : Nat) : List P :=
  let step := VecLike.smul (1 / ofNat (n + 1)) (VecLike.sub b a)
  (List.range n).map (fun i => VecLike.add a (VecLike.smul (ofNat (i + 1)) step))

/-- `fill_gaps` (`fuel` bounds the search for `n`) -/
def fillGaps (ofNat : Nat → α) (fuel : Nat) (maxd : α) : List P → List P
  | [] => []
  | a :: r => a :: go a r
where go (prev : P) : List P → List P
  | [] => []
  | p :: r =>
    let d := vdist p prev
    (if maxd < d then evenlyBetween ofNat prev p (gapCount ofNat d maxd fuel 1) else []) ++ p :: go p r

end
