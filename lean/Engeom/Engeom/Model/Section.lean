import Engeom.Model.Frame
/-
  Model of plane sections of a mesh (property C13):
    src/common/indices.rs        chained_indices, chain_candidates   (exact; in Model/Topology.lean)
    src/geom3/mesh/queries.rs    Mesh::section, Mesh::split          (specification level)
  parry's `intersection_with_local_plane` / `local_split` are external: the model states what a
  section IS (the crossing segment of every face the plane passes through, joined at the shared
  edge points) and the correspondence run compares the implementation's curves with it.
-/

/-! `chained_indices` itself is modelled in Model/Topology.lean (it is shared with C12). -/

/-- consecutive pairs of a chain -/
def segsOf : List Nat → List (Nat × Nat)
  | a :: b :: r => (a, b) :: segsOf (b :: r)
  | _ => []

section
variable {α : Type} [Add α] [Sub α] [Mul α] [Div α] [Neg α] [LT α] [LE α]
  [DecidableLT α] [DecidableLE α] [OfNat α 0] [OfNat α 1] [OfNat α 2]

/-! ### geometry of one crossing -/

/-- parry `Segment::local_split_and_get_intersection`: `a + (b − a) · ((d − n·a) / (n·(b − a)))` -/
def crossPoint (P : Plane3 α) (a b : V3 α) : V3 α :=
  let dir := V3.sub b a
  let t := (P.d - V3.dot P.normal a) / V3.dot P.normal dir
  V3.add a (V3.smul t dir)

/-- the segment in which a plane that passes through none of its vertices crosses a triangle
    (as a pair of (mesh-edge, point)); `none` when all three vertices are on one side -/
def faceCrossing (P : Plane3 α) (ia ib ic : Nat) (a b c : V3 α) :
    Option (((Nat × Nat) × V3 α) × ((Nat × Nat) × V3 α)) :=
  let key (i j : Nat) : Nat × Nat := if i ≤ j then (i, j) else (j, i)
  let sa := decide (P.signedDistance a < 0)
  let sb := decide (P.signedDistance b < 0)
  let sc := decide (P.signedDistance c < 0)
  if sa = sb ∧ sb = sc then none
  else if sb = sc then some ((key ic ia, crossPoint P c a), (key ia ib, crossPoint P a b))
  else if sa = sc then some ((key ia ib, crossPoint P a b), (key ib ic, crossPoint P b c))
  else some ((key ib ic, crossPoint P b c), (key ic ia, crossPoint P c a))

def allCrossings (P : Plane3 α) (verts : List (V3 α)) (faces : List (Nat × Nat × Nat)) :
    List (((Nat × Nat) × V3 α) × ((Nat × Nat) × V3 α)) :=
  faces.filterMap fun f =>
    let z : V3 α := ⟨0, 0, 0⟩
    faceCrossing P f.1 f.2.1 f.2.2 (verts.getD f.1 z) (verts.getD f.2.1 z) (verts.getD f.2.2 z)

/-- connected components of the segment graph (shared mesh edges are shared nodes) -/
def mergeComps (comps : List (List (Nat × Nat))) (u v : Nat × Nat) : List (List (Nat × Nat)) :=
  let hit := comps.filter fun c => c.contains u || c.contains v
  let rest := comps.filter fun c => !(c.contains u || c.contains v)
  (u :: v :: hit.flatten) :: rest

def componentCount (segs : List ((Nat × Nat) × (Nat × Nat))) : Nat :=
  (segs.foldl (fun comps s => mergeComps comps s.1 s.2) []).length

/-- twice the vector area of a triangle -/
def areaVec2 (a b c : V3 α) : V3 α := V3.cross (V3.sub b a) (V3.sub c a)

end

/-! ### `Mesh::plane_crossing_segments` / `Mesh::section` (engeom's own code since the repair of the
    section hang): every statement of the Rust function, HashMap lookups as association lists -/

inductive SecKey where
  | vertex (i : Nat)
  | edge (i j : Nat)
deriving DecidableEq, Repr

section
variable {α : Type} [Add α] [Sub α] [Mul α] [Div α] [Neg α] [LT α] [LE α]
  [DecidableLT α] [DecidableLE α] [OfNat α 0] [OfNat α 1] [OfNat α 2]

/-- `if d.abs() <= eps { 0.0 } else { d }` -/
def snapDist (eps d : α) : α := if sabs d ≤ eps then 0 else d

def isZero (d : α) : Bool := !(decide (d < 0)) && !(decide (0 < d))
def isAbove (d : α) : Bool := decide (0 < d)
def isBelow (d : α) : Bool := decide (d < 0)

def count3 (p : α → Bool) (d0 d1 d2 : α) : Nat :=
  (if p d0 then 1 else 0) + (if p d1 then 1 else 0) + (if p d2 then 1 else 0)

def ekey (a b : Nat) : Nat × Nat := if a ≤ b then (a, b) else (b, a)

/-- the two on-plane vertices of a face that has exactly two of them, as an edge key -/
def onPlaneEdge (f : Nat × Nat × Nat) (d0 d1 d2 : α) : Nat × Nat :=
  if isZero d0 then (if isZero d1 then ekey f.1 f.2.1 else ekey f.1 f.2.2) else ekey f.2.1 f.2.2

/-- first pass: does the in-plane edge `e` have a face above / a face below? -/
def inPlaneSides (dist : List α) (faces : List (Nat × Nat × Nat)) (e : Nat × Nat) : Bool × Bool :=
  faces.foldl (fun (s : Bool × Bool) f =>
    let d0 := dist.getD f.1 0
    let d1 := dist.getD f.2.1 0
    let d2 := dist.getD f.2.2 0
    if count3 isZero d0 d1 d2 = 2 ∧ onPlaneEdge f d0 d1 d2 = e then
      (s.1 || isAbove d0 || isAbove d1 || isAbove d2, s.2 || isBelow d0 || isBelow d1 || isBelow d2)
    else s) (false, false)

/-- the `ends` of one face: on-plane vertices and crossed edges, in edge order -/
def faceEnds (f : Nat × Nat × Nat) (d0 d1 d2 : α) : List SecKey :=
  let one (a b : Nat) (da db : α) : List SecKey :=
    if isZero da then [.vertex a]
    else if !(isZero db) && (isBelow da != isBelow db) then [.edge (ekey a b).1 (ekey a b).2]
    else []
  one f.1 f.2.1 d0 d1 ++ one f.2.1 f.2.2 d1 d2 ++ one f.2.2 f.1 d2 d0

/-- the point of a section key -/
def keyPoint (verts : List (V3 α)) (dist : List α) : SecKey → V3 α
  | .vertex i => verts.getD i ⟨0, 0, 0⟩
  | .edge i j =>
    let pi := verts.getD i ⟨0, 0, 0⟩
    let pj := verts.getD j ⟨0, 0, 0⟩
    let di := dist.getD i 0
    let dj := dist.getD j 0
    V3.add pi (V3.smul (di / (di - dj)) (V3.sub pj pi))

structure SecState (α : Type) where
  keys : List SecKey
  points : List (V3 α)
  pairs : List (Nat × Nat)

def findKey (k : SecKey) : List SecKey → Nat → Option Nat
  | [], _ => none
  | a :: r, i => if a = k then some i else findKey k r (i + 1)

/-- `keys.entry(key).or_insert_with(..)` -/
def SecState.intern (verts : List (V3 α)) (dist : List α) (s : SecState α) (k : SecKey) : SecState α × Nat :=
  match findKey k s.keys 0 with
  | some i => (s, i)
  | none => ({ s with keys := s.keys ++ [k], points := s.points ++ [keyPoint verts dist k] }, s.keys.length)

/-- one iteration of the main loop -/
def sectionFace (P : Plane3 α) (verts : List (V3 α)) (dist : List α) (faces : List (Nat × Nat × Nat))
    (s : SecState α) (f : Nat × Nat × Nat) : SecState α :=
  let z : V3 α := ⟨0, 0, 0⟩
  let d0 := dist.getD f.1 0
  let d1 := dist.getD f.2.1 0
  let d2 := dist.getD f.2.2 0
  let zeros := count3 isZero d0 d1 d2
  let above := count3 isAbove d0 d1 d2
  let below := count3 isBelow d0 d1 d2
  if zeros = 3 ∨ (zeros < 2 ∧ (above = 0 ∨ below = 0)) then s
  else if zeros = 2 ∧ (above = 0 ∨ inPlaneSides dist faces (onPlaneEdge f d0 d1 d2) ≠ (true, true)) then s
  else
    match faceEnds f d0 d1 d2 with
    | [k0, k1] =>
      let r0 := s.intern verts dist k0
      let r1 := r0.1.intern verts dist k1
      let p0 := verts.getD f.1 z
      let p1 := verts.getD f.2.1 z
      let p2 := verts.getD f.2.2 z
      let faceNormal := V3.cross (V3.sub p1 p0) (V3.sub p2 p0)
      let along := V3.cross P.normal faceNormal
      let seg := V3.sub (r1.1.points.getD r1.2 z) (r1.1.points.getD r0.2 z)
      let pr := if V3.dot seg along < 0 then (r1.2, r0.2) else (r0.2, r1.2)
      { r1.1 with pairs := r1.1.pairs ++ [pr] }
    | _ => s

/-- the table of snapped signed distances -/
def distOf (P : Plane3 α) (eps : α) (verts : List (V3 α)) : List α :=
  verts.map fun v => snapDist eps (P.signedDistance v)

/-- `plane_crossing_segments` -/
def planeCrossingSegments (P : Plane3 α) (eps : α) (verts : List (V3 α)) (faces : List (Nat × Nat × Nat)) :
    List (V3 α) × List (Nat × Nat) :=
  let dist := distOf P eps verts
  let s := faces.foldl (sectionFace P verts dist faces) ⟨[], [], []⟩
  (s.points, s.pairs)

end
