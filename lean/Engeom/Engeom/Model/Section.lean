import Engeom.Model.Frame
/-
  Model of plane sections of a mesh (property C13):
    src/common/indices.rs        chained_indices, chain_candidates   (exact; in Model/Topology.lean)
    src/geom3/mesh/queries.rs    Mesh::section, Mesh::split          (specification level)
  parry's `intersection_with_local_plane` / `local_split` are external: the model states what a
  section IS (the crossing segment of every face the plane passes through, joined at the shared
  edge points) and the correspondence run compares the implementation's curves with it.
-/

/-! `chained_indices` itself is modelled in Model/Topology.lean (it is shared with C12). -/

/-- consecutive pairs of a chain -/
def segsOf : List Nat → List (Nat × Nat)
  | a :: b :: r => (a, b) :: segsOf (b :: r)
  | _ => []

section
variable {α : Type} [Add α] [Sub α] [Mul α] [Div α] [Neg α] [LT α] [LE α]
  [DecidableLT α] [DecidableLE α] [OfNat α 0] [OfNat α 1] [OfNat α 2]

/-! ### geometry of one crossing -/

/-- parry `Segment::local_split_and_get_intersection`: `a + (b − a) · ((d − n·a) / (n·(b − a)))` -/
def crossPoint (P : Plane3 α) (a b : V3 α) : V3 α :=
  let dir := V3.sub b a
  let t := (P.d - V3.dot P.normal a) / V3.dot P.normal dir
  V3.add a (V3.smul t dir)

/-- the segment in which a plane that passes through none of its vertices crosses a triangle
    (as a pair of (mesh-edge, point)); `none` when all three vertices are on one side -/
def faceCrossing (P : Plane3 α) (ia ib ic : Nat) (a b c : V3 α) :
    Option (((Nat × Nat) × V3 α) × ((Nat × Nat) × V3 α)) :=
  let key (i j : Nat) : Nat × Nat := if i ≤ j then (i, j) else (j, i)
  let sa := decide (P.signedDistance a < 0)
  let sb := decide (P.signedDistance b < 0)
  let sc := decide (P.signedDistance c < 0)
  if sa = sb ∧ sb = sc then none
  else if sb = sc then some ((key ic ia, crossPoint P c a), (key ia ib, crossPoint P a b))
  else if sa = sc then some ((key ia ib, crossPoint P a b), (key ib ic, crossPoint P b c))
  else some ((key ib ic, crossPoint P b c), (key ic ia, crossPoint P c a))

def allCrossings (P : Plane3 α) (verts : List (V3 α)) (faces : List (Nat × Nat × Nat)) :
    List (((Nat × Nat) × V3 α) × ((Nat × Nat) × V3 α)) :=
  faces.filterMap fun f =>
    let z : V3 α := ⟨0, 0, 0⟩
    faceCrossing P f.1 f.2.1 f.2.2 (verts.getD f.1 z) (verts.getD f.2.1 z) (verts.getD f.2.2 z)

/-- connected components of the segment graph (shared mesh edges are shared nodes) -/
def mergeComps (comps : List (List (Nat × Nat))) (u v : Nat × Nat) : List (List (Nat × Nat)) :=
  let hit := comps.filter fun c => c.contains u || c.contains v
  let rest := comps.filter fun c => !(c.contains u || c.contains v)
  (u :: v :: hit.flatten) :: rest

def componentCount (segs : List ((Nat × Nat) × (Nat × Nat))) : Nat :=
  (segs.foldl (fun comps s => mergeComps comps s.1 s.2) []).length

/-- twice the vector area of a triangle -/
def areaVec2 (a b c : V3 α) : V3 α := V3.cross (V3.sub b a) (V3.sub c a)

end
