import Engeom.Model.Prelude
/-
  Model of rigid motions and of the entities that are moved by them (property C03, also used by
  C08 / C19): src/common/surface_point.rs, src/geom3/plane3.rs, transforms of src/geom2.rs,
  src/geom3.rs.  An isometry is a rotation matrix (row major) plus a translation.
-/

section
variable {α : Type} [Add α] [Sub α] [Mul α] [Div α] [Neg α] [LT α] [LE α]
  [DecidableLT α] [DecidableLE α] [OfNat α 0] [OfNat α 1] [OfNat α 2]

structure Iso3 (α : Type) where
  r0 : V3 α
  r1 : V3 α
  r2 : V3 α
  t : V3 α

namespace Iso3
def applyVec (T : Iso3 α) (v : V3 α) : V3 α := ⟨V3.dot T.r0 v, V3.dot T.r1 v, V3.dot T.r2 v⟩
def apply (T : Iso3 α) (p : V3 α) : V3 α := V3.add (T.applyVec p) T.t
def col0 (T : Iso3 α) : V3 α := ⟨T.r0.x, T.r1.x, T.r2.x⟩
def col1 (T : Iso3 α) : V3 α := ⟨T.r0.y, T.r1.y, T.r2.y⟩
def col2 (T : Iso3 α) : V3 α := ⟨T.r0.z, T.r1.z, T.r2.z⟩
/-- inverse of a rigid motion: `(Rᵀ, −Rᵀ t)` -/
def inv (T : Iso3 α) : Iso3 α :=
  let rt : Iso3 α := ⟨T.col0, T.col1, T.col2, ⟨0, 0, 0⟩⟩
  ⟨T.col0, T.col1, T.col2, V3.neg (rt.applyVec T.t)⟩
/-- composition `A * B` (apply `B` first) -/
def mul (A B : Iso3 α) : Iso3 α :=
  ⟨⟨V3.dot A.r0 B.col0, V3.dot A.r0 B.col1, V3.dot A.r0 B.col2⟩,
   ⟨V3.dot A.r1 B.col0, V3.dot A.r1 B.col1, V3.dot A.r1 B.col2⟩,
   ⟨V3.dot A.r2 B.col0, V3.dot A.r2 B.col1, V3.dot A.r2 B.col2⟩,
   A.apply B.t⟩
end Iso3

structure Iso2 (α : Type) where
  c : α
  s : α
  t : V2 α

namespace Iso2
def applyVec (T : Iso2 α) (v : V2 α) : V2 α := ⟨T.c * v.x - T.s * v.y, T.s * v.x + T.c * v.y⟩
def apply (T : Iso2 α) (p : V2 α) : V2 α := V2.add (T.applyVec p) T.t
def inv (T : Iso2 α) : Iso2 α :=
  let r : Iso2 α := ⟨T.c, -T.s, ⟨0, 0⟩⟩
  ⟨T.c, -T.s, V2.neg (r.applyVec T.t)⟩
def mul (A B : Iso2 α) : Iso2 α := ⟨A.c * B.c - A.s * B.s, A.s * B.c + A.c * B.s, A.apply B.t⟩
end Iso2

/-! surface points -/
structure SP3 (α : Type) where
  point : V3 α
  normal : V3 α

namespace SP3
def atDistance (s : SP3 α) (d : α) : V3 α := V3.add s.point (V3.smul d s.normal)
def scalarProjection (s : SP3 α) (q : V3 α) : α := V3.dot s.normal (V3.sub q s.point)
def projection (s : SP3 α) (q : V3 α) : V3 α := s.atDistance (s.scalarProjection q)
def transformed (s : SP3 α) (T : Iso3 α) : SP3 α := ⟨T.apply s.point, T.applyVec s.normal⟩
def reversed (s : SP3 α) : SP3 α := ⟨s.point, V3.neg s.normal⟩
end SP3

structure SP2 (α : Type) where
  point : V2 α
  normal : V2 α

namespace SP2
def atDistance (s : SP2 α) (d : α) : V2 α := V2.add s.point (V2.smul d s.normal)
def scalarProjection (s : SP2 α) (q : V2 α) : α := V2.dot s.normal (V2.sub q s.point)
def projection (s : SP2 α) (q : V2 α) : V2 α := s.atDistance (s.scalarProjection q)
def transformed (s : SP2 α) (T : Iso2 α) : SP2 α := ⟨T.apply s.point, T.applyVec s.normal⟩
end SP2

/-! planes -/
structure Plane3 (α : Type) where
  normal : V3 α
  d : α

namespace Plane3
def signedDistance (P : Plane3 α) (q : V3 α) : α := V3.dot P.normal q - P.d
def project (P : Plane3 α) (q : V3 α) : V3 α := V3.sub q (V3.smul (P.signedDistance q) P.normal)
def invertedNormal (P : Plane3 α) : Plane3 α := ⟨V3.neg P.normal, -P.d⟩
/-- `From<(&UnitVec3, &Point3)>` -/
def ofNormalPoint (n p : V3 α) : Plane3 α := ⟨n, V3.dot n p⟩
/-- `transform_by`: move the representative point `n·d` and rotate the normal -/
def transformBy (P : Plane3 α) (T : Iso3 α) : Plane3 α :=
  let repr : SP3 α := ⟨V3.smul P.d P.normal, P.normal⟩
  let r := repr.transformed T
  ofNormalPoint r.normal r.point
/-- `From<(&Point3, &Point3, &Point3)>` up to normalisation of the normal -/
def rawNormal3 (p1 p2 p3 : V3 α) : V3 α := V3.cross (V3.sub p2 p1) (V3.sub p3 p1)
end Plane3

end
