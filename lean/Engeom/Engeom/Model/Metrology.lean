import Engeom.Model.Prelude
import Engeom.Model.Angles
import Engeom.Generated.Consts
/-
  Model of src/metrology/{line_profiles,dimension,surface_deviation,tolerance_map}.rs,
  src/geom3/mesh/measurement.rs, src/geom3/point_cloud.rs (container level) and
  DiscreteDomain::index_of  (property C16).
-/

section
variable {α : Type} [Add α] [Sub α] [Mul α] [Div α] [Neg α] [LT α] [LE α]
  [DecidableLT α] [DecidableLE α] [OfNat α 0] [OfNat α 1] [OfNat α 2] [Scalar α]


def devTolCurve : α := Scalar.ofRat Gen.DEV_NORMAL_TOL_CURVE_num Gen.DEV_NORMAL_TOL_CURVE_den
def devTolMesh : α := Scalar.ofRat Gen.DEV_NORMAL_TOL_MESH_num Gen.DEV_NORMAL_TOL_MESH_den

/-- direction chosen by `point_curve2_deviation`: station point `p0`, station normal `n`, measured `q` -/
def curveDevNormal (p0 n q : V2 α) : V2 α :=
  let v := V2.sub q p0
  if V2.norm v < devTolCurve then n
  else if V2.dot v n < 0 then V2.normalize (V2.neg v)
  else V2.normalize v

/-- `point_curve2_deviation`: (normal, deviation) -/
def pointCurveDeviation (p0 n q : V2 α) : V2 α × α :=
  let d := curveDevNormal p0 n q
  (d, V2.dot (V2.sub q p0) d)

inductive DistMode | toPoint | toPlane
deriving Repr, BEq, DecidableEq

/-- direction chosen by `Mesh::measure_point_deviation`: closest surface point `(c, n)`, measured `q` -/
def meshDevDir (c n q : V3 α) (m : DistMode) : V3 α :=
  match m with
  | .toPlane => n
  | .toPoint =>
    let v := V3.sub q c
    if V3.norm v < devTolMesh then n
    else if 0 < V3.dot n v then V3.normalize v
    else V3.neg (V3.normalize v)

/-- `Distance3::new(a, b, Some d)` followed by `.value()` -/
def distanceValue3 (a b d : V3 α) : α := V3.dot d (V3.sub b a)
def distanceValue2 (a b d : V2 α) : α := V2.dot d (V2.sub b a)

def measurePointDeviation (c n q : V3 α) (m : DistMode) : V3 α × α :=
  let d := meshDevDir c n q m
  (d, distanceValue3 c q d)

end

/-! ### SurfaceDeviationSet (only the deviations matter for max / min / zone) -/

section
variable {α : Type} [LT α] [DecidableLT α]

/-- index of the LAST maximal element (`Iterator::max_by`) in `vs`, offset `i`, current best `(bi, bv)` -/
def argmaxLastAux : List α → Nat → Nat → α → Nat
  | [], _, bi, _ => bi
  | v :: vs, i, bi, bv => if v < bv then argmaxLastAux vs (i + 1) bi bv else argmaxLastAux vs (i + 1) i v

def argmaxLast : List α → Option Nat
  | [] => none
  | v :: vs => some (argmaxLastAux vs 1 0 v)

/-- index of the FIRST minimal element (`Iterator::min_by`) -/
def argminFirstAux : List α → Nat → Nat → α → Nat
  | [], _, bi, _ => bi
  | v :: vs, i, bi, bv => if v < bv then argminFirstAux vs (i + 1) i v else argminFirstAux vs (i + 1) bi bv

def argminFirst : List α → Option Nat
  | [] => none
  | v :: vs => some (argminFirstAux vs 1 0 v)

structure DevSet (α : Type) where
  values : List α
  maxIdx : Option Nat
  minIdx : Option Nat
deriving Repr

def DevSet.empty : DevSet α := ⟨[], none, none⟩

/-- `SurfaceDeviationSet::new` -/
def DevSet.new (vs : List α) : DevSet α := ⟨vs, argmaxLast vs, argminFirst vs⟩

/-- value at an index that the invariant guarantees to be in range -/
def getAt (l : List α) (i : Nat) (dflt : α) : α := (l[i]?).getD dflt

/-- `SurfaceDeviationSet::push` -/
def DevSet.push (s : DevSet α) (d : α) : DevSet α :=
  let mx := match s.maxIdx with
    | none => some s.values.length
    | some i => if getAt s.values i d < d then some s.values.length else some i
  let mn := match s.minIdx with
    | none => some s.values.length
    | some i => if d < getAt s.values i d then some s.values.length else some i
  ⟨s.values ++ [d], mx, mn⟩

inductive DevOp (α : Type) | new (vs : List α) | push (d : α)

def DevSet.step (s : DevSet α) : DevOp α → DevSet α
  | .new vs => DevSet.new vs
  | .push d => s.push d

def DevSet.max? (s : DevSet α) : Option α := s.maxIdx.bind (fun i => s.values[i]?)
def DevSet.min? (s : DevSet α) : Option α := s.minIdx.bind (fun i => s.values[i]?)
end

section
variable {α : Type} [Add α] [Sub α] [Mul α] [Neg α] [LT α] [LE α]
  [DecidableLT α] [DecidableLE α] [OfNat α 0] [OfNat α 2]

/-- `symmetrical_zone_size` -/
def DevSet.zone (s : DevSet α) : α :=
  match s.max?, s.min? with
  | some a, some b => smax (sabs a) (sabs b) * 2
  | _, _ => 0
end

/-! ### DiscreteDomain::index_of and the tolerance map -/

section
variable {α : Type} [LT α] [LE α] [DecidableLT α] [DecidableLE α]

/-- number of leading elements `≤ x` -/
def countLe (vs : List α) (x : α) : Nat := (vs.takeWhile (fun v => decide (v ≤ x))).length

/-- `DiscreteDomain::index_of` on a sorted domain: the greatest index whose value is `≤ x`,
    provided `x` lies within the bounds (binary search + bounds check, by contract). -/
def indexOf (vs : List α) (x : α) : Option Nat :=
  match vs.getLast? with
  | none => none
  | some last =>
    let k := countLe vs x
    if k = 0 then none            -- below the first value
    else if last < x then none    -- beyond the last value
    else some (k - 1)

/-- `DiscreteDomainTolMap::get` as in the source: zone index -/
def tolMapGet (vs : List α) (x : α) : Option Nat :=
  if vs.isEmpty then none
  else match indexOf vs x with
    | some i => some i
    | none =>
      match vs.head? with
      | some first => if x < first then none else some (vs.length - 1)
      | none => none

/-- the pre-fix behaviour (below the start: LAST zone) kept as the regression witness -/
def tolMapGet_prefix (vs : List α) (x : α) : Option Nat :=
  if vs.isEmpty then none
  else match indexOf vs x with
    | some i => some i
    | none => some (vs.length - 1)
end

/-! ### PointCloud at container level: three parallel lists -/

structure Cloud (P N C : Type) where
  points : List P
  normals : Option (List N)
  colors : Option (List C)
deriving Repr

namespace Cloud
variable {P N C : Type}

def tryNew (ps : List P) (ns : Option (List N)) (cs : Option (List C)) : Option (Cloud P N C) :=
  if (match ns with | some l => l.length != ps.length | none => false) then none
  else if (match cs with | some l => l.length != ps.length | none => false) then none
  else some ⟨ps, ns, cs⟩

def empty (hasN hasC : Bool) : Cloud P N C :=
  ⟨[], if hasN then some [] else none, if hasC then some [] else none⟩

/-- `append`: `none` = rejected (state unchanged) -/
def append (c : Cloud P N C) (p : P) (n : Option N) (col : Option C) : Option (Cloud P N C) :=
  if c.normals.isSome != n.isSome then none
  else if c.colors.isSome != col.isSome then none
  else some ⟨c.points ++ [p],
    match c.normals, n with | some l, some x => some (l ++ [x]) | o, _ => o,
    match c.colors, col with | some l, some x => some (l ++ [x]) | o, _ => o⟩

def merge (c o : Cloud P N C) : Option (Cloud P N C) :=
  if c.normals.isSome != o.normals.isSome then none
  else if c.colors.isSome != o.colors.isSome then none
  else some ⟨c.points ++ o.points,
    match c.normals, o.normals with | some l, some m => some (l ++ m) | x, _ => x,
    match c.colors, o.colors with | some l, some m => some (l ++ m) | x, _ => x⟩

def sel {β : Type} (l : List β) (idx : List Nat) : Option (List β) := idx.mapM (fun i => l[i]?)

/-- `create_from_indices` (`none` = an index out of range: the Rust code panics) -/
def createFromIndices (c : Cloud P N C) (idx : List Nat) : Option (Cloud P N C) :=
  match sel c.points idx with
  | none => none
  | some ps =>
    let ns := c.normals.map (fun l => (sel l idx).getD [])
    let cs := c.colors.map (fun l => (sel l idx).getD [])
    tryNew ps ns cs

def Inv (c : Cloud P N C) : Prop :=
  (∀ l, c.normals = some l → l.length = c.points.length) ∧
  (∀ l, c.colors = some l → l.length = c.points.length)

inductive Op (P N C : Type)
  | append (p : P) (n : Option N) (col : Option C)
  | merge (o : Cloud P N C)
  | select (idx : List Nat)

/-- one step of a history: rejected operations leave the cloud unchanged -/
def step (c : Cloud P N C) : Op P N C → Cloud P N C × Bool
  | .append p n col => match c.append p n col with | some c' => (c', true) | none => (c, false)
  | .merge o => match c.merge o with | some c' => (c', true) | none => (c, false)
  | .select idx => match c.createFromIndices idx with | some c' => (c', true) | none => (c, false)

end Cloud
