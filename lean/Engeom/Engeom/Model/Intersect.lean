import Engeom.Model.Prelude
import Engeom.Generated.Consts
/-
  Model of src/geom2/line2.rs (`intersection_param`) and src/geom2/polyline2.rs (property C06).
  `naiveIntersections` (intersect the line with every edge, sort, de-duplicate) is the
  SPECIFICATION of `polyline_intersections`; `castRaySlab` is a scalar model of one lane of the
  engeom-written SIMD slab test that prunes the bounding-volume tree.
-/

section
variable {α : Type} [Add α] [Sub α] [Mul α] [Div α] [Neg α] [LT α] [LE α]
  [DecidableLT α] [DecidableLE α] [OfNat α 0] [OfNat α 1] [OfNat α 2] [Scalar α]

def detTol : α := Scalar.ofRat Gen.INTERSECT_DET_TOL_num Gen.INTERSECT_DET_TOL_den
def dedupTolT : α := Scalar.ofRat Gen.POLYLINE_DEDUP_TOL_num Gen.POLYLINE_DEDUP_TOL_den
def slabSlack : α := Scalar.ofRat Gen.SLAB_SLACK_num Gen.SLAB_SLACK_den

/-- `intersection_param` -/
def intersectionParam (a0 ad b0 bd : V2 α) : Option (α × α) :=
  let det := bd.x * ad.y - bd.y * ad.x
  if sabs det < detTol then none
  else
    let dx := b0.x - a0.x
    let dy := b0.y - a0.y
    some ((dy * bd.x - dx * bd.y) / det, (dy * ad.x - dx * ad.y) / det)

/-- `ray_intersect_with_edge`: parameter along the ray if the hit lies on the edge -/
def rayEdge (o d v0 v1 : V2 α) : Option α :=
  match intersectionParam o d v0 (V2.sub v1 v0) with
  | some (t0, t1) => if 0 ≤ t1 && t1 ≤ 1 then some t0 else none
  | none => none

/-- all `(t, edge)` hits, in edge order -/
def edgeHits (o d : V2 α) : List (V2 α) → Nat → List (α × Nat)
  | a :: b :: r, i =>
    match rayEdge o d a b with
    | some t => (t, i) :: edgeHits o d (b :: r) (i + 1)
    | none => edgeHits o d (b :: r) (i + 1)
  | _, _ => []

def insertByT (x : α × Nat) : List (α × Nat) → List (α × Nat)
  | [] => [x]
  | a :: r => if a.1 < x.1 then a :: insertByT x r else x :: a :: r

/-- stable sort by parameter (`sort_by` is stable: equal parameters keep the order in which the
    traversal produced them, which decides the edge index that survives the merge of duplicates) -/
def sortByT (l : List (α × Nat)) : List (α × Nat) := l.foldr insertByT []

/-- `dedup_by(|a, b| (a.0 - b.0).abs() < tol)` -/
def dedupByT (tol : α) : List (α × Nat) → List (α × Nat)
  | [] => []
  | a :: r => a :: go a r
where go (last : α × Nat) : List (α × Nat) → List (α × Nat)
  | [] => []
  | b :: r => if sabs (b.1 - last.1) < tol then go last r else b :: go b r

/-- specification of `polyline_intersections` -/
def naiveIntersections (verts : List (V2 α)) (o d : V2 α) : List (α × Nat) :=
  dedupByT dedupTolT (sortByT (edgeHits o d verts 0))

/-- `spanning_ray`: exactly two crossings → (start point, end point) -/
def spanningRay (verts : List (V2 α)) (o d : V2 α) : Option (V2 α × V2 α) :=
  match naiveIntersections verts o d with
  | [a, b] => some (V2.add o (V2.smul a.1 d), V2.add o (V2.smul b.1 d))
  | _ => none

/-- `max_intersection` -/
def maxIntersection (verts : List (V2 α)) (o d : V2 α) : Option α :=
  ((naiveIntersections verts o d).map (·.1)).getLast?

/-- `farthest_point_direction_distance` (fold of max starting from `lowest`) -/
def farthestAlong (lowest : α) (verts : List (V2 α)) (o d : V2 α) : α :=
  let n := V2.normalize' d
  verts.foldl (fun acc v => smax acc (V2.dot n (V2.sub v o))) lowest
where V2.normalize' (v : V2 α) : V2 α := let k := V2.norm v; ⟨v.x / k, v.y / k⟩

/-! ### the slab test of `cast_ray` (one lane), `big` = `f64::MAX` -/

structure SlabState (α : Type) where
  hit : Bool
  tmin : α
  tmax : α

def slabAxis (big : α) (s : SlabState α) (lo hi o d : α) : SlabState α :=
  if d < 0 || 0 < d then
    let denom := 1 / d
    let near := (lo - o) * denom
    let far := (hi - o) * denom
    let (near, far) := if far < near then (far, near) else (near, far)
    let tmin := smax s.tmin near
    let tmax := smin s.tmax far
    -- rounded slab parameters: a small relative slack keeps boxes that the line only touches
    let slack := (smax (sabs tmin) (sabs tmax) + 1) * slabSlack
    ⟨s.hit && decide (tmin ≤ tmax + slack), tmin, tmax⟩
  else
    -- zero direction component: the origin must lie inside the slab; the bounds are unchanged
    let _ := big
    ⟨s.hit && (decide (lo ≤ o) && decide (o ≤ hi)), s.tmin, s.tmax⟩

/-- `cast_ray` on the box `[mins, maxs]`: does the LINE (negative parameters included) meet it? -/
def castRaySlab (big : α) (mins maxs o d : V2 α) : Bool :=
  let s0 : SlabState α := ⟨true, -big, big⟩
  let s1 := slabAxis big s0 mins.x maxs.x o.x d.x
  let s2 := slabAxis big s1 mins.y maxs.y o.y d.y
  s2.hit

end

/-! ### the bounding-volume traversal of `polyline_intersections`

  parry's QBVH is modelled as a tree whose inner nodes carry one axis-aligned box per child (the
  `SimdAabb` handed to `RayVisitor::visit`, up to four lanes in parry, any number here) and whose
  leaves carry an edge index.  `visit` keeps the children whose box passes the test
  (`SimdVisitStatus::MaybeContinue(mask)`) and collects the leaf data of those lanes, in the order
  of parry's stack-based depth-first traversal (leaf lanes in lane order, inner lanes last first):
  the order decides which of two merged duplicates keeps its edge index. -/

mutual
inductive BvhTree (α : Type) where
  | leaf (edge : Nat) : BvhTree α
  | node (children : BvhForest α) : BvhTree α
inductive BvhForest (α : Type) where
  | nil : BvhForest α
  | cons (mins maxs : V2 α) (child : BvhTree α) (rest : BvhForest α) : BvhForest α
end

mutual
def BvhTree.leaves {α : Type} : BvhTree α → List Nat
  | .leaf i => [i]
  | .node cs => cs.leaves
def BvhForest.leaves {α : Type} : BvhForest α → List Nat
  | .nil => []
  | .cons _ _ t r => t.leaves ++ r.leaves
end

mutual
/-- depth-first traversal with pruning: the edges collected by `RayVisitor` -/
def BvhTree.visit {α : Type} (test : V2 α → V2 α → Bool) : BvhTree α → List Nat
  | .leaf i => [i]
  | .node cs => cs.visit test
def BvhForest.visit {α : Type} (test : V2 α → V2 α → Bool) : BvhForest α → List Nat
  | .nil => []
  | .cons mn mx (.leaf i) r => (if test mn mx then [i] else []) ++ r.visit test
  -- inner lanes are pushed on a stack in lane order and popped last first
  | .cons mn mx (.node cs) r => r.visit test ++ (if test mn mx then cs.visit test else [])
end

section
variable {α : Type} [Add α] [Sub α] [Mul α] [Div α] [Neg α] [LT α] [LE α]
  [DecidableLT α] [DecidableLE α] [OfNat α 0] [OfNat α 1] [OfNat α 2] [Scalar α]

/-- the hit of the line with edge `i` of the polyline, if any -/
def edgeHit (verts : List (V2 α)) (o d : V2 α) (i : Nat) : Option (α × Nat) :=
  match rayEdge o d (verts.getD i ⟨0, 0⟩) (verts.getD (i + 1) ⟨0, 0⟩) with
  | some t => some (t, i)
  | none => none

/-- `polyline_intersections` before sorting: per-edge test of the candidates the traversal collected -/
def traversalHits (big : α) (verts : List (V2 α)) (o d : V2 α) (tree : BvhTree α) : List (α × Nat) :=
  (tree.visit (fun mn mx => castRaySlab big mn mx o d)).filterMap (edgeHit verts o d)

def inBoxB (mn mx p : V2 α) : Bool :=
  decide (mn.x ≤ p.x) && decide (p.x ≤ mx.x) && decide (mn.y ≤ p.y) && decide (p.y ≤ mx.y)

mutual
/-- the invariant assumed of parry's QBVH, as a computable test (evaluated on the real tree on every
    run): the box of every child contains both ends of every edge stored below it -/
def BvhTree.boxedB (verts : List (V2 α)) : BvhTree α → Bool
  | .leaf _ => true
  | .node cs => cs.boxedB verts
def BvhForest.boxedB (verts : List (V2 α)) : BvhForest α → Bool
  | .nil => true
  | .cons mn mx t r =>
    t.leaves.all (fun i => inBoxB mn mx (verts.getD i ⟨0, 0⟩) && inBoxB mn mx (verts.getD (i + 1) ⟨0, 0⟩))
      && t.boxedB verts && r.boxedB verts
end

/-- `polyline_intersections` -/
def polylineIntersections (big : α) (verts : List (V2 α)) (o d : V2 α) (tree : BvhTree α) : List (α × Nat) :=
  dedupByT dedupTolT (sortByT (traversalHits big verts o d tree))
end
