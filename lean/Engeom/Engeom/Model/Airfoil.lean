import Engeom.Model.Closest
/-
  Model of the logic core of the airfoil analysis (property C10):
    src/airfoil/helpers.rs   OrientedCircles {create, push, last, take_circles},
                             reverse_inscribed_circles, inscribed_from_spanning_ray (bisection)
    src/airfoil/camber.rs    advance_search_along_ray (step-shrinking schedule)
  and of the generator of the test family (envelope of circles along a camber curve).
  The geometry searches themselves (spanning rays, closest points, curvature, circle fits) are
  external to this model; what they must deliver is checked on the implementation's results by the
  correspondence run's oracle.
-/

/-- an inscribed circle as far as the container logic sees it: an identity, the sense of its
    spanning ray and on which side `contact_pos` lies -/
structure OCircle where
  id : Nat
  up : Bool
  posUp : Bool
deriving Repr, BEq, DecidableEq

/-- `InscribedCircle::reverse_in_place`: the ray is reversed and the contacts are swapped -/
def OCircle.reverse (c : OCircle) : OCircle := { c with up := !c.up, posUp := !c.posUp }

/-- `OrientedCircles` -/
structure OrientedCircles where
  circles : List OCircle
  reversed : Bool

namespace OrientedCircles
def create (reversed : Bool) : OrientedCircles := ⟨[], reversed⟩
/-- the working end: the first circle when reversed, the last otherwise -/
def last (o : OrientedCircles) : Option OCircle :=
  if o.reversed then o.circles.head? else o.circles.getLast?
/-- the circle `push` stores: flipped when its ray opposes that of the working end -/
def stored (o : OrientedCircles) (c : OCircle) : OCircle :=
  match o.last with
  | some l => if l.up != c.up then c.reverse else c
  | none => c
/-- `push`: the new circle is flipped when its ray opposes that of the working end, then added at
    the working end -/
def push (o : OrientedCircles) (c : OCircle) : OrientedCircles :=
  if o.reversed then { o with circles := o.stored c :: o.circles }
  else { o with circles := o.circles ++ [o.stored c] }
def takeCircles (o : OrientedCircles) : List OCircle := o.circles
end OrientedCircles

/-- an inscribed circle as far as `find_tmax_circle` sees it: an identity and its radius -/
structure ICircle (α : Type) where
  id : Nat
  radius : α

/-- `reverse_inscribed_circles` -/
def reverseInscribed (l : List OCircle) : List OCircle := l.reverse.map OCircle.reverse

/-- the fractions of the last radius tried by `advance_search_along_ray`: start at 1/4, multiply by
    3/4 after every failure, stop once the fraction is no longer above 1/20 -/
def advanceFractions : Nat → Nat → Nat → List (Nat × Nat)
  | 0, _, _ => []
  | fuel + 1, num, den => if 20 * num ≤ den then [] else (num, den) :: advanceFractions fuel (3 * num) (4 * den)

section
variable {α : Type} [Add α] [Sub α] [Mul α] [Div α] [Neg α] [LT α] [LE α]
  [DecidableLT α] [DecidableLE α] [OfNat α 0] [OfNat α 1] [OfNat α 2] [Scalar α]

/-- search state of `inscribed_from_spanning_ray`: the two limits of the bracket (as fractions of
    the ray), the distance to the section seen at each and the closest point seen there -/
structure BisectSt (α : Type) where
  posF : α
  negF : α
  posD : α
  negD : α
  posP : V2 α
  negP : V2 α

def rayAt (origin dir : V2 α) (f : α) : V2 α := V2.add origin (V2.smul f dir)

/-- one pass of the `while` body: test the midpoint, move the limit on the side of its closest
    point -/
def bisectStep (closest : V2 α → V2 α) (origin dir : V2 α) (s : BisectSt α) : BisectSt α :=
  let half : α := Scalar.ofRat 1 2
  let f := (s.posF + s.negF) * half
  let w := rayAt origin dir f
  let c := closest w
  let toC := V2.sub c w
  let d := V2.norm (V2.sub w c)
  if 0 < V2.dot toC dir then { s with posF := f, posD := d, posP := c }
  else { s with negF := f, negD := d, negP := c }

def bisectLoop (closest : V2 α → V2 α) (origin dir : V2 α) (tol : α) : Nat → BisectSt α → BisectSt α
  | 0, s => s
  | fuel + 1, s =>
    if tol < (s.posF - s.negF) * V2.norm dir then bisectLoop closest origin dir tol fuel (bisectStep closest origin dir s)
    else s

def bisectInit (origin dir : V2 α) : BisectSt α :=
  ⟨1, 0, 0, 0, rayAt origin dir 1, rayAt origin dir 0⟩

/-- `inscribed_from_spanning_ray`: centre at the middle of the final bracket, radius the mean of
    the two distances; returns (centre, radius, contact_pos, contact_neg) -/
def inscribedFromRay (closest : V2 α → V2 α) (origin dir : V2 α) (tol : α) (fuel : Nat) :
    V2 α × α × V2 α × V2 α :=
  let s := bisectLoop closest origin dir tol fuel (bisectInit origin dir)
  let half : α := Scalar.ofRat 1 2
  (rayAt origin dir ((s.posF + s.negF) * half), (s.posD + s.negD) * half, s.posP, s.negP)

/-- closest point of a polyline (exhaustive scan of C02); the query itself when there is no edge -/
def closestPoint2 (verts : List (V2 α)) (p : V2 α) : V2 α :=
  match closestOnPolyline verts p with
  | some r => r.2.2.1
  | none => p

/-- envelope of the circles of radius `r` (derivative `dr` with respect to arclength) centred on a
    curve with unit tangent `t` and unit normal `n` at `c`: the two points of contact -/
def envelopePoint (c t n : V2 α) (r dr : α) (upper : Bool) : V2 α :=
  let w := Scalar.sqrt (1 - dr * dr)
  let w := if upper then w else -w
  V2.add c (V2.smul r (V2.add (V2.smul (-dr) t) (V2.smul w n)))

end
