import Engeom.Model.Curve
/-
  Model of the closest-point queries (property C02): the SPECIFICATION is the exhaustive scan over
  all edges / faces; parry's bounding-volume search is external and is compared with it.
  src/geom2/curve2.rs, src/geom3/curve3.rs (`at_closest_to_point`, `dist_to_point`),
  src/geom3/mesh/queries.rs (`surf_closest_to`, `project_with_max_dist`, `project_with_tol`).
-/

section
variable {α : Type} [Add α] [Sub α] [Mul α] [Div α] [Neg α] [LT α] [LE α]
  [DecidableLT α] [DecidableLE α] [OfNat α 0] [OfNat α 1] [OfNat α 2]
variable {P : Type} [VecLike P α]

def vnormSq (v : P) : α := VecLike.dot v v
def lerpP (a b : P) (t : α) : P := VecLike.add a (VecLike.smul t (VecLike.sub b a))

/-- parameter of the closest point of the segment `a b` to `p` (clamped projection) -/
def segParam (p a b : P) : α :=
  let ab := VecLike.sub b a
  let len2 := vnormSq ab
  if 0 < len2 then smax (smin (VecLike.dot (VecLike.sub p a) ab / len2) 1) 0 else 0

/-- closest point on a segment: (parameter, point, squared distance) -/
def closestOnSegment (p a b : P) : α × P × α :=
  let t := segParam p a b
  let q := lerpP a b t
  (t, q, vnormSq (VecLike.sub p q))

/-- exhaustive scan over the edges: (edge index, parameter, point, squared distance), first minimum -/
def closestOnPolylineAux (p : P) : List P → Nat → Option (Nat × α × P × α) → Option (Nat × α × P × α)
  | a :: b :: r, i, best =>
    let c := closestOnSegment p a b
    let best' := match best with
      | none => some (i, c.1, c.2.1, c.2.2)
      | some bst => if c.2.2 < bst.2.2.2 then some (i, c.1, c.2.1, c.2.2) else some bst
    closestOnPolylineAux p (b :: r) (i + 1) best'
  | _, _, best => best

def closestOnPolyline (verts : List P) (p : P) : Option (Nat × α × P × α) :=
  closestOnPolylineAux p verts 0 none

end

section
variable {α : Type} [Add α] [Sub α] [Mul α] [Div α] [Neg α] [LT α] [LE α]
  [DecidableLT α] [DecidableLE α] [OfNat α 0] [OfNat α 1] [OfNat α 2]

/-- closest point of the triangle `a b c` to `p`: the projection onto the plane when it falls inside,
    otherwise the best of the three edges; returns (point, squared distance) -/
def closestOnTriangle (p a b c : V3 α) : V3 α × α :=
  let ab := V3.sub b a
  let ac := V3.sub c a
  let n := V3.cross ab ac
  let nn := V3.dot n n
  let e1 := closestOnSegment p a b
  let e2 := closestOnSegment p b c
  let e3 := closestOnSegment p c a
  let bestEdge :=
    let m12 := if e2.2.2 < e1.2.2 then e2 else e1
    if e3.2.2 < m12.2.2 then e3 else m12
  if 0 < nn then
    let ap := V3.sub p a
    -- barycentric coordinates of the projection (Cramer on the plane basis)
    let d00 := V3.dot ab ab
    let d01 := V3.dot ab ac
    let d11 := V3.dot ac ac
    let d20 := V3.dot ap ab
    let d21 := V3.dot ap ac
    let den := d00 * d11 - d01 * d01
    let v := (d11 * d20 - d01 * d21) / den
    let w := (d00 * d21 - d01 * d20) / den
    if 0 ≤ v && 0 ≤ w && v + w ≤ 1 then
      let q := V3.add a (V3.add (V3.smul v ab) (V3.smul w ac))
      (q, V3.dot (V3.sub p q) (V3.sub p q))
    else (bestEdge.2.1, bestEdge.2.2)
  else (bestEdge.2.1, bestEdge.2.2)

/-- exhaustive scan over the faces: smallest squared distance -/
def closestOnMeshD2 (verts : List (V3 α)) (faces : List (Nat × Nat × Nat)) (p : V3 α) (dflt : V3 α) : Option α :=
  faces.foldl (fun best f =>
    let d := (closestOnTriangle p (verts.getD f.1 dflt) (verts.getD f.2.1 dflt) (verts.getD f.2.2 dflt)).2
    match best with
    | none => some d
    | some b => if d < b then some d else some b) none

/-- optimality certificate for a point `q` of the triangle `a b c`: no vertex lies in the open
    half-space beyond `q` as seen from `p`.  (Sound: see Props/C02.) -/
def triCertificate (p q a b c : V3 α) (slack : α) : Bool :=
  let pq := V3.sub p q
  decide (V3.dot pq (V3.sub a q) ≤ slack) && decide (V3.dot pq (V3.sub b q) ≤ slack) && decide (V3.dot pq (V3.sub c q) ≤ slack)

/-- the angle filter of `Mesh::project_with_tol`: the line from the closest surface point to the test
    point makes an angle below `maxAngle` with the face normal, whichever way the normal points -/
def angleFilter [Scalar α] (angle maxAngle : α) : Bool :=
  decide (angle < maxAngle) || decide (Scalar.pi - maxAngle < angle)

end
