import Engeom.Model.Prelude
import Engeom.Model.Circle
import Engeom.Generated.Tables
/-
  Model of src/func1/polynomial.rs (`least_squares`), `Series1::best_fit_line` and the closed-form
  parts of the circle fit (property C09).  The matrix inverse, the Levenberg–Marquardt driver and
  the RANSAC random draws are external: the model carries the normal equations and the residual /
  Jacobian definitions.
-/

section
variable {α : Type} [Add α] [Sub α] [Mul α] [Div α] [Neg α] [LT α] [LE α]
  [DecidableLT α] [DecidableLE α] [OfNat α 0] [OfNat α 1] [OfNat α 2]

def spow (x : α) : Nat → α
  | 0 => 1
  | n + 1 => spow x n * x

/-- the power sums as accumulated by `least_squares`: index `k` is updated by the first loop when
    `k < K` and by the second loop when `K + offset ≤ k` (offset REGENERATED from the source) -/
def powerSumsAcc (K offset : Nat) (xs ws : List α) (k : Nat) : α :=
  if k < K || K + offset ≤ k then
    (List.zipWith (fun x w => w * spow x k) xs ws).foldl (· + ·) 0
  else 0

def powerSums (K : Nat) (xs ws : List α) (k : Nat) : α := powerSumsAcc K Gen.polySkipOffset xs ws k

/-- right-hand side `Σ w xᵏ y` -/
def rhsSum (xs ys ws : List α) (k : Nat) : α :=
  (List.zipWith (fun (p : α × α) w => w * spow p.1 k * p.2) (xs.zip ys) ws).foldl (· + ·) 0

/-- residual of the normal equations for given coefficients: row `r` of `M c − b` -/
def normalResidual (K : Nat) (xs ys ws : List α) (c : List α) (r : Nat) : α :=
  ((List.range K).map (fun j => powerSums K xs ws (r + j) * c.getD j 0)).foldl (· + ·) 0 - rhsSum xs ys ws r

/-- `Polynomial::f` -/
def polyEval (c : List α) (x : α) : α :=
  (c.zipIdx.map (fun (p : α × Nat) => p.1 * spow x p.2)).foldl (· + ·) 0

/-- the two columns of a `Series1` (abscissae, ordinates) as the Rust struct stores them -/
structure SeriesXY (α : Type) where
  x : List α
  y : List α

/-- the coefficient array of a `Polynomial<K>` -/
structure PolyC (α : Type) where
  c : List α

/-- `Series1::best_fit_line`: (m, b) -/
def bestFitLine (ofNat : Nat → α) (xs ys : List α) : α × α :=
  let n := ofNat xs.length
  let sx := xs.foldl (· + ·) 0
  let sy := ys.foldl (· + ·) 0
  let sxx := (xs.map (fun x => x * x)).foldl (· + ·) 0
  let sxy := (List.zipWith (· * ·) xs ys).foldl (· + ·) 0
  let m := (n * sxy - sx * sy) / (n * sxx - sx * sx)
  (m, (sy - m * sx) / n)

end
