import Engeom.Model.Prelude
import Engeom.Generated.Consts
/-
  Model of src/common/angles.rs, src/geom2/angles2.rs, src/common/interval.rs  (property C18).
-/

section
variable {α : Type} [Add α] [Sub α] [Mul α] [Div α] [Neg α] [LT α] [LE α]
  [DecidableLT α] [DecidableLE α] [OfNat α 0] [OfNat α 1] [OfNat α 2] [Scalar α]

def twoPi : α := 2 * Scalar.pi

/-- `ANGLE_TOL` of angles.rs, regenerated from the source. -/
def angleTol : α := Scalar.ofRat Gen.ANGLE_TOL_num Gen.ANGLE_TOL_den

inductive AngleDir | cw | ccw
deriving Repr, BEq, DecidableEq

/-- `angle_signed_pi` -/
def angleSignedPi (r : α) : α :=
  let a := Scalar.fmod r (twoPi : α)
  if Scalar.pi < a then a - twoPi
  else if a < -Scalar.pi then a + twoPi
  else a

/-- `angle_to_2pi` -/
def angleTo2pi (r : α) : α :=
  let a := Scalar.fmod r (twoPi : α)
  if a < 0 then a + twoPi else a

/-- `angle_in_direction` -/
def angleInDirection (r0 r1 : α) (d : AngleDir) : α :=
  let t0 := angleSignedPi r0
  let t1 := angleSignedPi r1
  match d with
  | .cw =>
    let t1' := if t0 < t1 then t1 - twoPi else t1
    t0 - t1'
  | .ccw =>
    let t1' := if t1 < t0 then t1 + twoPi else t1
    t1' - t0

/-- `signed_compliment_2pi` -/
def signedCompliment2pi (r : α) : α :=
  if 0 ≤ r then (-(2 : α) * Scalar.pi) + r else twoPi + r

structure AngleInterval (α : Type) where
  start : α
  angle : α
deriving Repr

/-- `AngleInterval::new` -/
def AngleInterval.new (start angle : α) : AngleInterval α :=
  if angle < 0 then
    { start := angleTo2pi (start + angle), angle := smin (sabs angle) twoPi }
  else
    { start := angleTo2pi start, angle := smin angle twoPi }

/-- `AngleInterval::contains` -/
def AngleInterval.contains (I : AngleInterval α) (angle : α) : Bool :=
  let a := angleTo2pi angle
  if I.start - angleTol ≤ a then
    decide (a ≤ I.start + I.angle + angleTol)
  else
    decide (a + twoPi ≤ I.start + I.angle + angleTol)

/-- `AngleInterval::intersects` -/
def AngleInterval.intersects (I J : AngleInterval α) : Bool :=
  I.contains J.start || J.contains I.start

def AngleInterval.atFraction (I : AngleInterval α) (f : α) : α := I.start + I.angle * f

/-- geom2 `signed_angle` -/
def signedAngle (v1 v2 : V2 α) : α :=
  Scalar.atan2 (v1.x * v2.y - v1.y * v2.x) (v1.x * v2.x + v1.y * v2.y)

/-- geom2 `directed_angle` -/
def directedAngle (v1 v2 : V2 α) (d : AngleDir) : α :=
  let a := signedAngle v1 v2 * (match d with | .ccw => (1 : α) | .cw => -(1 : α))
  if a < 0 then a + twoPi else a

/-! ### scalar intervals (interval.rs) -/

structure Interval (α : Type) where
  min : α
  max : α
deriving Repr

/-- `Interval::new` / `try_new` on NaN-free bounds -/
def Interval.new (a b : α) : Interval α := ⟨smin a b, smax a b⟩
def Interval.length (I : Interval α) : α := I.max - I.min
def Interval.contains (I : Interval α) (x : α) : Bool := decide (I.min ≤ x) && decide (x ≤ I.max)
def Interval.containsInterval (I J : Interval α) : Bool := I.contains J.min && I.contains J.max
def Interval.overlaps (I J : Interval α) : Bool := I.contains J.min || J.contains I.min
def Interval.intersection (I J : Interval α) : Option (Interval α) :=
  if I.overlaps J then some (Interval.new (smax I.min J.min) (smin I.max J.max)) else none
/-- `x.min(self.max).max(self.min)` -/
def Interval.clamp (I : Interval α) (x : α) : α := smax (smin x I.max) I.min

end
