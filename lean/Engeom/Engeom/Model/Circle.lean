import Engeom.Model.Prelude
import Engeom.Model.Angles
import Engeom.Generated.Consts
/-
  Model of src/geom2/circle2.rs and src/geom2/aabb2.rs (property C11, and the closed-form parts of
  C09: three-point circle, circle residual and Jacobian row).
-/

section
variable {α : Type} [Add α] [Sub α] [Mul α] [Div α] [Neg α] [LT α] [LE α]
  [DecidableLT α] [DecidableLE α] [OfNat α 0] [OfNat α 1] [OfNat α 2] [Scalar α]

structure Circle (α : Type) where
  c : V2 α
  r : α

def ccTol : α := Scalar.ofRat Gen.CC_TOL_num Gen.CC_TOL_den
def collinearTol : α := Scalar.ofRat Gen.COLLINEAR_TOL_num Gen.COLLINEAR_TOL_den
def lineCircleTol : α := Scalar.ofRat Gen.LINE_CIRCLE_TOL_num Gen.LINE_CIRCLE_TOL_den

def dist2 (a b : V2 α) : α := V2.norm (V2.sub a b)

/-- `Circle2::intersections_with` (post-fix: nested circles and internal tangency handled) -/
def Circle.intersectionsWith (s o : Circle α) : List (V2 α) :=
  let d := dist2 s.c o.c
  if d < ccTol then [] else
  let rsum := s.r + o.r
  if rsum < d then [] else
  let rdiff := sabs (s.r - o.r)
  if d < rdiff then [] else
  let dv := V2.sub o.c s.c
  let v : V2 α := ⟨dv.x / d, dv.y / d⟩
  let a := (s.r * s.r - o.r * o.r + d * d) / (2 * d)
  let p2 := V2.add s.c (V2.smul a v)
  if sabs (d - rsum) < ccTol || sabs (d - rdiff) < ccTol then [p2] else
  let h := Scalar.sqrt (smax (s.r * s.r - a * a) 0)
  let n : V2 α := ⟨-v.y, v.x⟩
  [V2.add p2 (V2.smul h n), V2.sub p2 (V2.smul h n)]

/-- pre-fix: no nested guard, no clamp — the regression witness for D9 -/
def Circle.intersectionsWith_prefix_h (s o : Circle α) : α :=
  let d := dist2 s.c o.c
  let a := (s.r * s.r - o.r * o.r + d * d) / (2 * d)
  s.r * s.r - a * a

def Circle.distanceTo (s : Circle α) (p : V2 α) : α := dist2 s.c p - s.r

def Circle.pointAtAngle (s : Circle α) (t : α) : V2 α :=
  ⟨s.c.x + (s.r * Scalar.cos t - 0 * Scalar.sin t), s.c.y + (s.r * Scalar.sin t + 0 * Scalar.cos t)⟩

def Circle.angleOfPoint (s : Circle α) (p : V2 α) : α := Scalar.atan2 (p.y - s.c.y) (p.x - s.c.x)

/-- `tangent_points_to` (post-fix: central angle `acos (r / d)`) -/
def Circle.tangentPointsTo (s : Circle α) (p : V2 α) : Option (V2 α × V2 α) :=
  let d := dist2 s.c p
  if d ≤ s.r then none else
  let ang := Scalar.acos (s.r / d)
  let th := Scalar.atan2 (p.y - s.c.y) (p.x - s.c.x)
  some (⟨s.c.x + s.r * Scalar.cos (th - ang), s.c.y + s.r * Scalar.sin (th - ang)⟩,
        ⟨s.c.x + s.r * Scalar.cos (th + ang), s.c.y + s.r * Scalar.sin (th + ang)⟩)

/-- `Line2::projected_parameter` -/
def projectedParameter (o d p : V2 α) : α := V2.dot d (V2.sub p o) / V2.dot d d

/-- `intersection_line_circle`: parameters along the line `o + t d` -/
def lineCircle (o d : V2 α) (c : Circle α) : List α :=
  let tc := projectedParameter o d c.c
  let foot := V2.add o (V2.smul tc d)
  let dd := dist2 c.c foot
  if sabs (dd - c.r) < lineCircleTol then [tc]
  else if c.r < dd then []
  else
    let h := Scalar.sqrt (c.r * c.r - dd * dd)
    let th := h / V2.norm d
    [tc - th, tc + th]

/-- `Circle2::from_3_points` -/
def Circle.from3Points (p0 p1 p2 : V2 α) : Option (Circle α) :=
  let temp := p1.x * p1.x + p1.y * p1.y
  let bc := (p0.x * p0.x + p0.y * p0.y - temp) / 2
  let cd := (temp - p2.x * p2.x - p2.y * p2.y) / 2
  let det := (p0.x - p1.x) * (p1.y - p2.y) - (p1.x - p2.x) * (p0.y - p1.y)
  -- collinearity relative to the triangle: |det| = |p0−p1|·|p1−p2|·|sin angle|
  let legs := V2.norm (V2.sub p0 p1) * V2.norm (V2.sub p1 p2)
  if sabs det ≤ collinearTol * legs then none else
  let cx := (bc * (p1.y - p2.y) - cd * (p0.y - p1.y)) / det
  let cy := ((p0.x - p1.x) * cd - (p1.x - p2.x) * bc) / det
  some ⟨⟨cx, cy⟩, Scalar.sqrt ((cx - p0.x) * (cx - p0.x) + (cy - p0.y) * (cy - p0.y))⟩

structure Arc (α : Type) where
  circle : Circle α
  angle0 : α
  angle : α

/-- `Arc2::three_points` -/
def Arc.threePoints (p0 p1 p2 : V2 α) : Option (Arc α) :=
  match Circle.from3Points p0 p1 p2 with
  | none => none
  | some c =>
    let a0 := c.angleOfPoint p0
    let v0 := V2.sub p0 c.c
    let v2 := V2.sub p2 c.c
    let det := (p1.x - p0.x) * (p1.y + p0.y) + (p2.x - p1.x) * (p2.y + p1.y) + (p0.x - p2.x) * (p0.y + p2.y)
    let ang := if det < 0 then directedAngle v0 v2 .ccw else -directedAngle v0 v2 .cw
    some ⟨c, a0, ang⟩

def Arc.length (a : Arc α) : α := a.circle.r * sabs a.angle
def Arc.pointAtAngle (a : Arc α) (t : α) : V2 α := a.circle.pointAtAngle (a.angle0 + t)
def Arc.pointAtFraction (a : Arc α) (f : α) : V2 α := a.pointAtAngle (a.angle * f)
def Arc.pointAtLength (a : Arc α) (l : α) : V2 α := a.pointAtFraction (l / a.length)

/-- `circle_aabb2`: (mins, maxs) -/
def circleAabb (c : Circle α) : V2 α × V2 α := (⟨c.c.x - c.r, c.c.y - c.r⟩, ⟨c.c.x + c.r, c.c.y + c.r⟩)

/-- angles whose points `arc_aabb2` takes the bounding box of -/
def arcAabbAngles (a0 ang : α) : List α :=
  let check := AngleInterval.new a0 ang
  let quarter : α := Scalar.pi / 2
  [a0, a0 + ang] ++ ([0, quarter, 2 * quarter, (2 + 1) * quarter] : List α).filter (fun t => check.contains t)

def boxOfPoints (ps : List (V2 α)) : Option (V2 α × V2 α) :=
  match ps with
  | [] => none
  | p :: r => some (r.foldl (fun (b : V2 α × V2 α) q =>
      (⟨smin b.1.x q.x, smin b.1.y q.y⟩, ⟨smax b.2.x q.x, smax b.2.y q.y⟩)) (p, p))

def arcAabb (c : Circle α) (a0 ang : α) : Option (V2 α × V2 α) :=
  boxOfPoints ((arcAabbAngles a0 ang).map c.pointAtAngle)

end
