import Engeom.Model.Curve
import Engeom.Model.Closest
/-
  Model of the spatial search / sampling / hull helpers (property C15).  The k-d tree (kiddo) and
  the convex hull (parry) are external: the SPECIFICATION is brute force, compared on every run.
  engeom's own logic — index remapping of the partial tree, the Poisson-disk sweep, the cumulative
  area pick, the barycentric sampler, the farthest-pair scan — is modelled as written.
  src/common/kd_tree.rs, src/common/poisson_disk.rs, src/geom3/mesh/sampling.rs, src/geom2/hull.rs.
-/

section
variable {α : Type} [Add α] [Sub α] [Mul α] [Div α] [Neg α] [LT α] [LE α]
  [DecidableLT α] [DecidableLE α] [OfNat α 0] [OfNat α 1] [OfNat α 2]
variable {P : Type} [VecLike P α]

def d2 (a b : P) : α := vnormSq (VecLike.sub a b)

/-- brute-force nearest: (index, squared distance), first minimum -/
def nearestOneAux (q : P) : List P → Nat → Option (Nat × α) → Option (Nat × α)
  | [], _, best => best
  | p :: r, i, best =>
    let d := d2 p q
    let best' := match best with
      | none => some (i, d)
      | some b => if d < b.2 then some (i, d) else some b
    nearestOneAux q r (i + 1) best'

def nearestOne (pts : List P) (q : P) : Option (Nat × α) := nearestOneAux q pts 0 none

/-- all squared distances from `q`, with indices -/
def allD2 (pts : List P) (q : P) : List (Nat × α) := pts.zipIdx.map (fun (p : P × Nat) => (p.2, d2 p.1 q))

def insertByD (x : Nat × α) : List (Nat × α) → List (Nat × α)
  | [] => [x]
  | a :: r => if x.2 < a.2 then x :: a :: r else a :: insertByD x r

def sortByD (l : List (Nat × α)) : List (Nat × α) := l.foldr insertByD []

/-- brute-force k nearest (ascending) -/
def nearestK (pts : List P) (q : P) (k : Nat) : List (Nat × α) := (sortByD (allD2 pts q)).take k

/-- brute-force radius query; kiddo's `within` is STRICT (`<`) on squared distances -/
def withinR (pts : List P) (q : P) (r : α) : List (Nat × α) :=
  (sortByD (allD2 pts q)).filter (fun e => decide (e.2 < r * r))

end

/-- the Poisson-disk sweep over positions of the working list: keep the head, drop everything it
    covers, continue (the mask array of `sample_poisson_disk`) -/
def sweepAux {β : Type} (w : β → β → Bool) : Nat → List β → List β
  | 0, _ => []
  | _ + 1, [] => []
  | k + 1, a :: r => a :: sweepAux w k (r.filter (fun b => !w a b))

/-- fuel = length of the list (each step removes at least the head) -/
def sweep {β : Type} (w : β → β → Bool) (l : List β) : List β := sweepAux w l.length l

section
variable {α : Type} [Add α] [Sub α] [Mul α] [Div α] [Neg α] [LT α] [LE α]
  [DecidableLT α] [DecidableLE α] [OfNat α 0] [OfNat α 1] [OfNat α 2]
variable {P : Type} [VecLike P α] [Inhabited P]

/-- `sample_poisson_disk`: positions `m` of `working` are swept; the result lists `working[m]` -/
def samplePoissonDisk (allPts : List P) (working : List Nat) (r : α) : List Nat :=
  let pos := List.range working.length
  let pt := fun m => allPts.getD (working.getD m 0) default
  (sweep (fun a b => decide (d2 (pt a) (pt b) < r * r)) pos).map (fun m => working.getD m 0)

/-- `PartialKdTree`: a result index of the sub-tree is mapped back through `index_map` -/
def partialNearestOne (allPts : List P) (indices : List Nat) (q : P) : Option (Nat × α) :=
  match nearestOne (indices.map (fun i => allPts.getD i default)) q with
  | some (i, d) => some (indices.getD i 0, d)
  | none => none

/-- the scan of `farthest_pair_indices` as the Rust code writes it — for every `i`, every `j` in
    `i+1 .. n`, keep the first strict maximum of the measure `D i j` together with its index pair,
    starting from `(0, (0, 0))` — for an arbitrary measure `D` (the code uses the distance) -/
def farthestScan (D : Nat → Nat → α) (n : Nat) : α × (Nat × Nat) :=
  (List.range n).foldl (fun (st : α × (Nat × Nat)) i =>
    (List.range' (i + 1) (n - (i + 1))).foldl (fun (st : α × (Nat × Nat)) j =>
      if st.1 < D i j then (D i j, (i, j)) else st) st) (0, (0, 0))

/-- `farthest_pair_indices`: first strict maximum over `i < j` -/
def farthestPair (pts : List P) : (Nat × Nat) × α :=
  let n := pts.length
  (List.range n).foldl (fun best i =>
    (List.range n).foldl (fun best j =>
      if i < j then
        let d := d2 (pts.getD i default) (pts.getD j default)
        if best.2 < d then ((i, j), d) else best
      else best) best) ((0, 0), 0)

end

section
variable {α : Type} [Add α] [Sub α] [Mul α] [LT α] [DecidableLT α] [OfNat α 1] [Scalar α]

/-- barycentric weights of `sample_uniform` from the two uniform draws -/
def baryWeights (r1 r2 : α) : α × α × α :=
  let s := Scalar.sqrt r1
  (1 - s, s * (1 - r2), s * r2)

/-- face picked for the draw `r`: first index whose cumulative area exceeds `r` -/
def facePick (cum : List α) (r : α) : Nat := (cum.takeWhile (fun a => decide (a < r))).length

end
