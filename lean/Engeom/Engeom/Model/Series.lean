import Engeom.Model.Prelude
/-
  Model of src/common/discrete_domain.rs, src/common/vec_f64.rs and src/func1/series1.rs (C17).
  A series is a list of (abscissa, ordinate) pairs; a domain is a list of abscissae.
  Binary searches are modelled by their contract on sorted input (linear scans).
-/

section
variable {α : Type} [Add α] [Sub α] [Mul α] [Div α] [Neg α] [LT α] [LE α]
  [DecidableLT α] [DecidableLE α] [OfNat α 0] [OfNat α 1] [OfNat α 2]

/-- `are_in_ascending_order` -/
def ascending : List α → Bool
  | [] => true
  | [_] => true
  | a :: b :: r => decide (a ≤ b) && ascending (b :: r)

/-- `DiscreteDomain::try_from` on finite values -/
def domTryFrom (vs : List α) : Option (List α) := if ascending vs then some vs else none

/-- `DiscreteDomain::push` -/
def domPush (vs : List α) (v : α) : Option (List α) :=
  match vs.getLast? with
  | none => some [v]
  | some l => if v < l then none else some (vs ++ [v])

/-- values `start + i * step`, `i = 0 … n-1`; `ofNat` supplies the cast `i as f64` -/
def linValues (ofNat : Nat → α) (start step : α) (n : Nat) : List α :=
  (List.range n).map (fun i => start + ofNat i * step)

/-- `DiscreteDomain::linear` (after the fix: bounds ordered first) -/
def domLinear (ofNat : Nat → α) (a b : α) (n : Nat) : List α :=
  let s := smin a b
  let e := smax a b
  linValues ofNat s ((e - s) / ofNat (n - 1)) n

/-- `DiscreteDomain::linear` before the fix (`let start = start.min(end); let end = start.max(end);`
    — the second line sees the shadowed `start`) -/
def domLinear_prefix (ofNat : Nat → α) (a b : α) (n : Nat) : List α :=
  let s := smin a b
  let e := smax s b
  linValues ofNat s ((e - s) / ofNat (n - 1)) n

abbrev Ser (α : Type) := List (α × α)

def Ser.xs (s : Ser α) : List α := s.map Prod.fst
def Ser.ys (s : Ser α) : List α := s.map Prod.snd

/-- `Series1::try_new` -/
def serTryNew (xs ys : List α) : Option (Ser α) :=
  if xs.length ≠ ys.length then none
  else match domTryFrom xs with
    | none => none
    | some _ => some (xs.zip ys)

/-- `scaled_by` -/
def serScaledBy (s : Ser α) (sx sy : α) : Ser α :=
  let t := s.map (fun p => (p.1 * sx, p.2 * sy))
  if sx < 0 then t.reverse else t

/-- `shift_by` -/
def serShiftBy (s : Ser α) (dx dy : α) : Ser α := s.map (fun p => (p.1 + dx, p.2 + dy))

/-- `remove_nan` with ordinates as options (`none` = NaN) -/
def serRemoveNan (s : List (α × Option α)) : Ser α :=
  s.filterMap (fun p => p.2.map (fun y => (p.1, y)))

/-- interpolation on a sorted series, for `x ≥` the first abscissa -/
def interpAux : Ser α → α → Option α
  | [], _ => none
  | [(a, ya)], x => if a < x then none else some ya
  | (a, ya) :: (b, yb) :: r, x =>
    if a < x then
      (if x < b then some (ya + (yb - ya) / (b - a) * (x - a)) else interpAux ((b, yb) :: r) x)
    else some ya

/-- `Series1::interpolate`; `none` stands for the NaN returned outside the domain -/
def interp (s : Ser α) (x : α) : Option α :=
  match s with
  | [] => none
  | (a, _) :: _ => if x < a then none else interpAux s x

def isKnot (s : Ser α) (x : α) : Bool := s.any (fun p => !decide (p.1 < x) && !decide (x < p.1))

/-- `Series1::between` for `x_min ≤ x0 ≤ x1 ≤ x_max` (otherwise `none`: not modelled) -/
def serBetween (s : Ser α) (x0 x1 : α) : Option (Ser α) :=
  match interp s x0, interp s x1 with
  | some y0, some y1 =>
    let mid := s.filter (fun p => decide (x0 ≤ p.1) && decide (p.1 ≤ x1))
    let head := if isKnot s x0 then [] else [(x0, y0)]
    let body := head ++ mid
    let tail := match body.getLast? with
      | some p => if p.1 < x1 then [(x1, y1)] else []
      | none => []
    some (body ++ tail)
  | _, _ => none

/-- `area_under` (trapezoids) -/
def serArea : Ser α → α
  | [] => 0
  | [_] => 0
  | (a, ya) :: (b, yb) :: r => (b - a) * (ya + yb) / 2 + serArea ((b, yb) :: r)

/-- raw crossings of `y_crossings` before sort/dedup (post-fix: a segment lying on the level
    contributes both of its ends) -/
def serCrossingsRaw (s : Ser α) (lv : α) : List α :=
  match s with
  | [] => []
  | [_] => []
  | (a, ya) :: (b, yb) :: r =>
    let rest := serCrossingsRaw ((b, yb) :: r) lv
    if (decide (ya ≤ lv) && decide (lv ≤ yb)) || (decide (lv ≤ ya) && decide (yb ≤ lv)) then
      if !decide (a < b) then rest                      -- vertical step: slope not finite, skipped
      else if !decide (ya < yb) && !decide (yb < ya) then a :: b :: rest   -- flat, on the level
      else (a + (lv - ya) / ((yb - ya) / (b - a))) :: rest
    else rest

/-- `resampled_n` abscissae -/
def resampleXs (ofNat : Nat → α) (lo hi : α) (n : Nat) : List α :=
  (List.range n).map (fun i => smin (lo + ofNat i * ((hi - lo) / (ofNat n - 1))) hi)

end

section
variable {α : Type} [Sub α] [Neg α] [LT α] [LE α] [DecidableLT α] [DecidableLE α] [OfNat α 0]

def insertSorted (x : α) : List α → List α
  | [] => [x]
  | a :: r => if x < a then x :: a :: r else a :: insertSorted x r

def sortList (l : List α) : List α := l.foldr insertSorted []

/-- `Vec::dedup_by(|a, b| (a - b).abs() < tol)`: drop an element closer than `tol` to the last kept -/
def dedupTol (tol : α) : List α → List α
  | [] => []
  | a :: r => a :: go a r
where go (last : α) : List α → List α
  | [] => []
  | b :: r => if sabs (b - last) < tol then go last r else b :: go b r

end
