import Engeom.Generated.Tables
/-
  Model of src/geom3/mesh/edges.rs, src/geom3/mesh/patches.rs, src/raster3.rs,
  src/common/indices.rs and the primitive generators of src/geom3/mesh.rs  (property C12).

  Hash maps / hash sets are modelled as lists whose ORDER is a free parameter: every theorem is
  stated for all lists, hence for all hash-iteration orders.  Import-free.
-/

abbrev Face := Nat × Nat × Nat
abbrev Edge := Nat × Nat

def edgeKey (e : Edge) : Edge := (min e.1 e.2, max e.1 e.2)

/-- `naive_edges`: the three directed edges of each face, in the order of the source -/
def faceDirEdges (f : Face) : List Edge := [(f.2.1, f.2.2), (f.2.2, f.1), (f.1, f.2.1)]
def naiveEdges (faces : List Face) : List Edge := faces.flatMap faceDirEdges

def edgeLt (a b : Edge) : Bool := a.1 < b.1 || (a.1 == b.1 && a.2 < b.2)

/-- insert a key into a sorted, counted association list -/
def bump (k : Edge) : List (Edge × Nat) → List (Edge × Nat)
  | [] => [(k, 1)]
  | (e, c) :: r =>
    if e == k then (e, c + 1) :: r
    else if edgeLt k e then (k, 1) :: (e, c) :: r
    else (e, c) :: bump k r

/-- `unique_edges`: undirected keys, sorted, with their multiplicity -/
def uniqueEdges (all : List Edge) : List (Edge × Nat) := all.foldl (fun acc e => bump (edgeKey e) acc) []

def manifoldOk (u : List (Edge × Nat)) : Bool := u.all (fun p => p.2 ≤ 2)

def indexOfKey (u : List (Edge × Nat)) (k : Edge) : Nat := (u.takeWhile (fun p => !(p.1 == k))).length

/-- `face_edges`: for every face the indices of its three edges in the unique table -/
def faceEdges (faces : List Face) (u : List (Edge × Nat)) : List (Nat × Nat × Nat) :=
  faces.map fun f =>
    match faceDirEdges f with
    | [a, b, c] => (indexOfKey u (edgeKey a), indexOfKey u (edgeKey b), indexOfKey u (edgeKey c))
    | _ => (0, 0, 0)

def countOfKey (u : List (Edge × Nat)) (k : Edge) : Nat :=
  match u.find? (fun p => p.1 == k) with | some p => p.2 | none => 0

/-- directed boundary edges (undirected multiplicity 1), in face order -/
def boundaryEdges (faces : List Face) : List Edge :=
  let u := uniqueEdges (naiveEdges faces)
  (naiveEdges faces).filter (fun e => countOfKey u (edgeKey e) == 1)

/-! ### boundary loops (post-fix walk: every directed boundary edge is consumed exactly once) -/

/-- remove the first edge leaving `v`; returns its head vertex and the remaining edges -/
def takeOut (v : Nat) : List Edge → Option (Nat × List Edge)
  | [] => none
  | e :: r =>
    if e.1 == v then some (e.2, r)
    else match takeOut v r with
      | some (w, r') => some (w, e :: r')
      | none => none

inductive WalkRes
  | ok (cyc : List Nat) (rest : List Edge)
  | stuck        -- a vertex without an unused outgoing boundary edge (inconsistent winding): `Err`
  | outOfFuel
deriving Repr

/-- walk from `cur` until `start` is reached again -/
def walkLoop : Nat → List Edge → Nat → Nat → List Nat → WalkRes
  | 0, _, _, _, _ => .outOfFuel
  | fuel + 1, edges, start, cur, acc =>
    match takeOut cur edges with
    | none => .stuck
    | some (nxt, edges') =>
      if nxt == start then .ok acc edges'
      else walkLoop fuel edges' start nxt (acc ++ [nxt])

inductive LoopsRes
  | ok (walks : List (List Nat))
  | stuck
  | outOfFuel
deriving Repr

/-- all closed walks (in the direction of the boundary edges); the order of `edges` is the
    (arbitrary) choice order of the hash containers -/
def boundaryWalks : Nat → List Edge → LoopsRes
  | 0, [] => .ok []
  | 0, _ :: _ => .outOfFuel
  | _ + 1, [] => .ok []
  | fuel + 1, e :: r =>
    match walkLoop (r.length + 2) (e :: r) e.1 e.1 [e.1] with
    | .stuck => .stuck
    | .outOfFuel => .outOfFuel
    | .ok cyc rest =>
      match boundaryWalks fuel rest with
      | .ok ls => .ok (cyc :: ls)
      | r => r

/-- `boundary_loops`: each walk is reversed before it is stored; `none` = `Err` -/
def boundaryLoops (edges : List Edge) : Option (List (List Nat)) :=
  match boundaryWalks (edges.length + 1) edges with
  | .ok ls => some (ls.map List.reverse)
  | _ => none

/-- directed edges of a closed vertex cycle -/
def cycleEdges : List Nat → List Edge
  | [] => []
  | a :: r => go a a r
where go (first cur : Nat) : List Nat → List Edge
  | [] => [(cur, first)]
  | b :: r => (cur, b) :: go first b r

/-- the pre-fix walk of edges.rs: a successor MAP (later insertions overwrite earlier ones) and a
    queue of unvisited keys; kept as the regression witness for D12 -/
def succOf (m : List Edge) (v : Nat) : Option Nat :=
  match (m.reverse.find? (fun e => e.1 == v)) with | some e => some e.2 | none => none

def prefixLoops : Nat → List Edge → List Nat → List Nat → List (List Nat) → Option (List (List Nat))
  | 0, _, _, _, _ => none                                    -- out of fuel
  | fuel + 1, m, queue, working, acc =>
    if queue.isEmpty then some acc
    else match working.getLast? with
      | some last =>
        match succOf m last with
        | none => none                                       -- `boundary_map[last]` panics
        | some nxt =>
          let queue' := queue.filter (· != nxt)
          if working.head? == some nxt then prefixLoops fuel m queue' [] (acc ++ [working.reverse])
          else prefixLoops fuel m queue' (working ++ [nxt]) acc
      | none =>
        match queue.head? with
        | some s => prefixLoops fuel m queue [s] acc
        | none => some acc

/-! ### generic flood fill (patches, voxel clusters) -/

section Fill
variable {β : Type}

/-- grow one component: `stack` = discovered, not yet expanded; `rem` = not yet discovered -/
def fillLoop (nb : β → β → Bool) : Nat → List β → List β → List β → List β × List β
  | 0, _, rem, comp => (comp, rem)
  | _ + 1, [], rem, comp => (comp, rem)
  | k + 1, c :: st, rem, comp =>
    let hits := rem.filter (nb c)
    fillLoop nb k (hits ++ st) (rem.filter (fun x => !nb c x)) (comp ++ hits)

/-- all components; the order of `rem` is the (arbitrary) pick order -/
def fillAll (nb : β → β → Bool) : Nat → List β → List (List β)
  | 0, _ => []
  | _ + 1, [] => []
  | k + 1, s :: rem =>
    let r := fillLoop nb (rem.length + 2) [s] rem [s]
    r.1 :: fillAll nb k r.2

end Fill

def faceUndirEdges (f : Face) : List Edge := (faceDirEdges f).map edgeKey

/-- two faces (given by index) share an undirected edge -/
def facesAdjacent (faces : List Face) (i j : Nat) : Bool :=
  match faces[i]?, faces[j]? with
  | some f, some g => (faceUndirEdges f).any (fun e => (faceUndirEdges g).contains e)
  | _, _ => false

/-- `compute_patch_indices` (post-fix: undirected edge table), pick order = `order` -/
def patches (faces : List Face) (order : List Nat) : List (List Nat) :=
  fillAll (facesAdjacent faces) (order.length + 1) order

abbrev Voxel := Int × Int × Int

def voxelAdjacent (a b : Voxel) : Bool :=
  (a != b) && (a.1 - b.1).natAbs ≤ 1 && (a.2.1 - b.2.1).natAbs ≤ 1 && (a.2.2 - b.2.2).natAbs ≤ 1

/-- `clusters_from_sparse`, pick order = order of the list -/
def clusters (vox : List Voxel) : List (List Voxel) := fillAll voxelAdjacent (vox.length + 1) vox

/-! ### chained_indices (deterministic: no hashing involved) -/

def swapRemove {β : Type} (l : List β) (k : Nat) : List β :=
  match l.getLast? with
  | none => l
  | some last => if k + 1 == l.length then l.dropLast else (l.set k last).dropLast

/-- the unique `(k, i)` with `pairs[k] = i` and `indices[i].j = v`, if there is exactly one -/
def chainCandidate (pairs : List Nat) (idx : List Edge) (v : Nat) (forward : Bool) : Option (Nat × Nat) :=
  let c := (pairs.zipIdx).filter (fun (p : Nat × Nat) =>
    match idx[p.1]? with
    | some e => (if forward then e.1 else e.2) == v
    | none => false)
  match c with
  | [(i, k)] => some (k, i)
  | _ => none

def chainLoop : Nat → List Edge → List Nat → List Nat → Bool → List (List Nat) → List (List Nat)
  | 0, _, _, working, _, chains => if working.isEmpty then chains else chains ++ [working]
  | fuel + 1, idx, pairs, working, forward, chains =>
    if pairs.isEmpty then (if working.isEmpty then chains else chains ++ [working])
    else if working.isEmpty then
      match pairs.getLast?, pairs.dropLast with
      | some i, rest =>
        match idx[i]? with
        | some e => chainLoop fuel idx rest [e.1, e.2] true chains
        | none => chains
      | none, _ => chains
    else if forward then
      match working.getLast? with
      | some last =>
        match chainCandidate pairs idx last true with
        | some (k, i) =>
          match idx[i]? with
          | some e => chainLoop fuel idx (swapRemove pairs k) (working ++ [e.2]) true chains
          | none => chains
        | none => chainLoop fuel idx pairs working false chains
      | none => chains
    else
      match working.head? with
      | some first =>
        match chainCandidate pairs idx first false with
        | some (k, i) =>
          match idx[i]? with
          | some e => chainLoop fuel idx (swapRemove pairs k) (e.1 :: working) false chains
          | none => chains
        | none => chainLoop fuel idx pairs [] true (chains ++ [working])
      | none => chains

/-- `chained_indices`; every iteration either consumes a pair or flips/clears, so `3n+3` suffices -/
def chainedIndices (idx : List Edge) : List (List Nat) :=
  chainLoop (3 * idx.length + 3) idx (List.range idx.length) [] true []

/-! ### primitive generators -/

/-- faces of `create_cylinder` for `steps`: the per-step formulas are REGENERATED from the source -/
def cylinderFaces (steps : Nat) : List Face :=
  (List.range steps).flatMap fun i => Gen.cylinderQuad i ((i + 1) % steps)

/-- faces of `create_cylinder` before the fix (first triangle of every quad wound inward) -/
def cylinderFaces_prefix (steps : Nat) : List Face :=
  (List.range steps).flatMap fun i =>
    let k := (i + 1) % steps
    [(i * 2, i * 2 + 1, k * 2 + 1), (i * 2, k * 2, k * 2 + 1)]

/-- a closed, consistently oriented surface: every directed edge occurs exactly once and so does
    its reverse -/
def closedOriented (faces : List Face) : Bool :=
  let d := naiveEdges faces
  d.all (fun e => d.count e == 1 && d.count (e.2, e.1) == 1)

/-- consistently oriented (possibly with boundary): no directed edge twice -/
def consistentlyOriented (faces : List Face) : Bool :=
  let d := naiveEdges faces
  d.all (fun e => d.count e == 1)
