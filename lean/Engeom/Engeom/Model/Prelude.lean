import Engeom.Scalar
/-
  Shared helpers of the polymorphic model.  Import-free (apart from Scalar).
-/

section
variable {α : Type} [Add α] [Sub α] [Mul α] [Div α] [Neg α] [LT α] [LE α]
  [DecidableLT α] [DecidableLE α] [OfNat α 0] [OfNat α 1] [OfNat α 2]

/-- Rust `f64::min` on NaN-free arguments. -/
def smin (a b : α) : α := if a ≤ b then a else b
/-- Rust `f64::max` on NaN-free arguments. -/
def smax (a b : α) : α := if a ≤ b then b else a
/-- Rust `f64::abs`. -/
def sabs (a : α) : α := if a < 0 then -a else a

structure V2 (α : Type) where
  x : α
  y : α
deriving Repr, BEq

structure V3 (α : Type) where
  x : α
  y : α
  z : α
deriving Repr, BEq

namespace V2
def add (a b : V2 α) : V2 α := ⟨a.x + b.x, a.y + b.y⟩
def sub (a b : V2 α) : V2 α := ⟨a.x - b.x, a.y - b.y⟩
def smul (k : α) (a : V2 α) : V2 α := ⟨k * a.x, k * a.y⟩
def neg (a : V2 α) : V2 α := ⟨-a.x, -a.y⟩
def dot (a b : V2 α) : α := a.x * b.x + a.y * b.y
def cross (a b : V2 α) : α := a.x * b.y - a.y * b.x
def normSq (a : V2 α) : α := dot a a
def norm [Scalar α] (a : V2 α) : α := Scalar.sqrt (normSq a)
/-- nalgebra `normalize()`: every component divided by the norm -/
def normalize [Scalar α] (v : V2 α) : V2 α := let n := V2.norm v; ⟨v.x / n, v.y / n⟩
end V2

namespace V3
def add (a b : V3 α) : V3 α := ⟨a.x + b.x, a.y + b.y, a.z + b.z⟩
def sub (a b : V3 α) : V3 α := ⟨a.x - b.x, a.y - b.y, a.z - b.z⟩
def smul (k : α) (a : V3 α) : V3 α := ⟨k * a.x, k * a.y, k * a.z⟩
def neg (a : V3 α) : V3 α := ⟨-a.x, -a.y, -a.z⟩
def dot (a b : V3 α) : α := a.x * b.x + a.y * b.y + a.z * b.z
def cross (a b : V3 α) : V3 α :=
  ⟨a.y * b.z - a.z * b.y, a.z * b.x - a.x * b.z, a.x * b.y - a.y * b.x⟩
def normSq (a : V3 α) : α := dot a a
def norm [Scalar α] (a : V3 α) : α := Scalar.sqrt (normSq a)
def normalize [Scalar α] (v : V3 α) : V3 α := let n := V3.norm v; ⟨v.x / n, v.y / n, v.z / n⟩
end V3

/-- nalgebra `Iso2::rotation(θ)` (a unit complex number) acting on a vector -/
structure Rot2 (α : Type) where
  c : α
  s : α
def Rot2.ofAngle [Scalar α] (t : α) : Rot2 α := ⟨Scalar.cos t, Scalar.sin t⟩
def Rot2.apply (r : Rot2 α) (v : V2 α) : V2 α := ⟨v.x * r.c - v.y * r.s, v.x * r.s + v.y * r.c⟩

/-- `HashSet::insert` on the list model of a set (order of first insertion, no duplicates added) -/
def setInsert (s : List Nat) (x : Nat) : List Nat := if s.contains x then s else s ++ [x]
/-- `HashSet::remove` on the list model of a set -/
def setRemove (s : List Nat) (x : Nat) : List Nat := s.filter (fun j => !(j == x))

/-- result of `slice::binary_search_by`: `Ok(i)` (found at `i`) or `Err(i)` (insertion point `i`) -/
inductive SearchRes where
  | found (i : Nat)
  | insert (i : Nat)
deriving Repr, DecidableEq

/-- `xs.binary_search_by(|a| a.partial_cmp(&x).unwrap())` on an ascending list, by its contract: with
    `k` the number of elements below `x`, found at `k` when `xs[k]` is not above `x`, else insertion
    point `k`.  (Of several equal elements the standard library may return any; the model returns the
    first — the lists searched here are strictly ascending wherever that matters.) -/
def binarySearch {β : Type} [LT β] [DecidableLT β] (xs : List β) (x : β) : SearchRes :=
  let k := (xs.takeWhile (fun v => decide (v < x))).length
  match xs[k]? with
  | some v => if x < v then .insert k else .found k
  | none => .insert k

/-- Rust `iter().enumerate()`: (position, element) pairs -/
def enumerateL {β : Type} (xs : List β) : List (Nat × β) := xs.zipIdx.map (fun p => (p.2, p.1))

/-- Rust `slice.windows(2)`: the consecutive pairs, each as a two-element list -/
def windows2 {β : Type} : List β → List (List β)
  | a :: b :: r => [a, b] :: windows2 (b :: r)
  | _ => []

/-- Rust `while cond { body }` with an explicit bound on the number of iterations (the translator
    tools/rs2lean.py emits loops in this form; the `T` theorems relate them to the model's recursion) -/
def whileFuel {σ : Type} : Nat → (σ → Bool) → (σ → σ) → σ → σ
  | 0, _, _, s => s
  | k + 1, c, b, s => if c s then whileFuel k c b (b s) else s

end
