import Engeom.Model.Frame
import Engeom.Generated.Consts
import Engeom.Generated.Tables
/-
  Model of the alignment parameterisation (property C08, used by C07):
  src/geom2/align2.rs, src/geom2/align2/{rc_params2,jacobian}.rs, src/geom3/align3.rs,
  src/geom3/align3/{rotations,jacobian,multi_param}.rs.
-/

section
variable {α : Type} [Add α] [Sub α] [Mul α] [Div α] [Neg α] [LT α] [LE α]
  [DecidableLT α] [DecidableLE α] [OfNat α 0] [OfNat α 1] [OfNat α 2] [Scalar α]

/-! ### 2-D -/

/-- `iso2_from_param`: translation ∘ rotation -/
def iso2FromParam (tx ty th : α) : Iso2 α := ⟨Scalar.cos th, Scalar.sin th, ⟨tx, ty⟩⟩

/-- `param_from_iso2` -/
def paramFromIso2 (T : Iso2 α) : α × α × α := (T.t.x, T.t.y, Scalar.atan2 T.s T.c)

def iso2Translation (x y : α) : Iso2 α := ⟨1, 0, ⟨x, y⟩⟩

/-- `as_iso_about_center`: `back * t * fwd` -/
def asIsoAboutCenter (rc : V2 α) (T : Iso2 α) : Iso2 α :=
  (iso2Translation (-rc.x) (-rc.y)).mul (T.mul (iso2Translation rc.x rc.y))

/-- `as_iso_about_origin`: `fwd * t * back` -/
def asIsoAboutOrigin (rc : V2 α) (T : Iso2 α) : Iso2 α :=
  (iso2Translation rc.x rc.y).mul (T.mul (iso2Translation (-rc.x) (-rc.y)))

structure RcParams2 (α : Type) where
  rc : V2 α
  x : α × α × α
  transform : Iso2 α
  inverse : Iso2 α
  currentRc : V2 α

/-- `RcParams2::compute` after `set(x)` -/
def RcParams2.set (rc : V2 α) (x : α × α × α) : RcParams2 α :=
  let t := iso2FromParam x.1 x.2.1 x.2.2
  let tr := asIsoAboutOrigin rc t
  ⟨rc, x, tr, tr.inv, tr.apply rc⟩

/-- `RcParams2::from_initial` -/
def RcParams2.fromInitial (initial : Iso2 α) (rc : V2 α) : RcParams2 α :=
  RcParams2.set rc (paramFromIso2 (asIsoAboutCenter rc initial))

/-- 2-D `point_surface_jacobian`: row for test point `p` (already moved) and surface normal `n` -/
def pointSurfaceJacobian2 (p n currentRc : V2 α) : α × α × α :=
  let fr := V2.sub p currentRc
  (n.x, n.y, V2.dot n ⟨-fr.y, fr.x⟩)

/-! ### 3-D: matrices as three rows -/

structure Mat3 (α : Type) where
  r0 : V3 α
  r1 : V3 α
  r2 : V3 α

namespace Mat3
def col0 (m : Mat3 α) : V3 α := ⟨m.r0.x, m.r1.x, m.r2.x⟩
def col1 (m : Mat3 α) : V3 α := ⟨m.r0.y, m.r1.y, m.r2.y⟩
def col2 (m : Mat3 α) : V3 α := ⟨m.r0.z, m.r1.z, m.r2.z⟩
def transpose (m : Mat3 α) : Mat3 α := ⟨m.col0, m.col1, m.col2⟩
def mulVec (m : Mat3 α) (v : V3 α) : V3 α := ⟨V3.dot m.r0 v, V3.dot m.r1 v, V3.dot m.r2 v⟩
def mul (a b : Mat3 α) : Mat3 α :=
  ⟨⟨V3.dot a.r0 b.col0, V3.dot a.r0 b.col1, V3.dot a.r0 b.col2⟩,
   ⟨V3.dot a.r1 b.col0, V3.dot a.r1 b.col1, V3.dot a.r1 b.col2⟩,
   ⟨V3.dot a.r2 b.col0, V3.dot a.r2 b.col1, V3.dot a.r2 b.col2⟩⟩
def ofInts (ofInt : Int → α) (l : List Int) : Mat3 α :=
  let g := fun i => ofInt (l.getD i 0)
  ⟨⟨g 0, g 1, g 2⟩, ⟨g 3, g 4, g 5⟩, ⟨g 6, g 7, g 8⟩⟩
end Mat3

def rotX (a : α) : Mat3 α := ⟨⟨1, 0, 0⟩, ⟨0, Scalar.cos a, -Scalar.sin a⟩, ⟨0, Scalar.sin a, Scalar.cos a⟩⟩
def rotY (a : α) : Mat3 α := ⟨⟨Scalar.cos a, 0, Scalar.sin a⟩, ⟨0, 1, 0⟩, ⟨-Scalar.sin a, 0, Scalar.cos a⟩⟩
def rotZ (a : α) : Mat3 α := ⟨⟨Scalar.cos a, -Scalar.sin a, 0⟩, ⟨Scalar.sin a, Scalar.cos a, 0⟩, ⟨0, 0, 1⟩⟩

/-- rotation matrix of `RotationMatrices::from_euler`: `Rx · Ry · Rz` -/
def eulerMat (rx ry rz : α) : Mat3 α := ((rotX rx).mul (rotY ry)).mul (rotZ rz)

def wprEps : α := Scalar.ofRat Gen.WPR_EPSILON_num Gen.WPR_EPSILON_den

/-- `to_wpr` (post-fix: gimbal test on `cos y = hypot(m00, m01)`) -/
def toWpr (m : Mat3 α) : α × α × α :=
  let siny := m.r0.z
  let cosy := Scalar.sqrt (m.r0.x * m.r0.x + m.r0.y * m.r0.y)
  let half : α := Scalar.pi / 2
  if cosy < wprEps && 0 < siny then (Scalar.atan2 m.r1.x m.r1.y, half, 0)
  else if cosy < wprEps then (-(Scalar.atan2 m.r1.x m.r1.y), -half, 0)
  else (Scalar.atan2 (-m.r1.z) m.r2.z, Scalar.atan2 siny cosy, Scalar.atan2 (-m.r0.y) m.r0.x)

/-- the pre-fix gimbal test `sin y > 1 − ε` (kept for the regression witness) -/
def toWprLocked_prefix (siny : α) : Bool := decide ((1 : α) - wprEps < siny)

/-- the Euler derivative matrices `d.x, d.y, d.z` of `RotationMatrices::from_euler`, with the skew
    matrices REGENERATED from the source -/
def eulerD (ofInt : Int → α) (rx ry rz : α) : Mat3 α × Mat3 α × Mat3 α :=
  let m := eulerMat rx ry rz
  let ck := rotZ rz
  let px := Mat3.ofInts ofInt Gen.skewX
  let py := Mat3.ofInts ofInt Gen.skewY
  let pz := Mat3.ofInts ofInt Gen.skewZ
  (px.mul m, ((m.mul ck.transpose).mul py).mul ck, m.mul pz)

/-- `rd = d · q⁻¹` -/
def eulerRD (ofInt : Int → α) (rx ry rz : α) : Mat3 α × Mat3 α × Mat3 α :=
  let d := eulerD ofInt rx ry rz
  let qi := (eulerMat rx ry rz).transpose
  (d.1.mul qi, d.2.1.mul qi, d.2.2.mul qi)

structure RcParams3 (α : Type) where
  rc : V3 α
  rcD : V3 α
  x : List α           -- tx ty tz rx ry rz
  rot : Mat3 α
  transform : Iso3 α
  currentRc : V3 α

def isoOf (r : Mat3 α) (t : V3 α) : Iso3 α := ⟨r.r0, r.r1, r.r2, t⟩

/-- `RcParams3::compute` after `set`: `shift1 · (T, R) · shift0` -/
def RcParams3.set (rc rcD : V3 α) (tx ty tz rx ry rz : α) : RcParams3 α :=
  let r := eulerMat rx ry rz
  let idm : Mat3 α := ⟨⟨1, 0, 0⟩, ⟨0, 1, 0⟩, ⟨0, 0, 1⟩⟩
  let shift0 := isoOf idm (V3.neg rc)
  let shift1 := isoOf idm rcD
  let p := isoOf r ⟨tx, ty, tz⟩
  let tr := shift1.mul (p.mul shift0)
  ⟨rc, rcD, [tx, ty, tz, rx, ry, rz], r, tr, tr.apply rc⟩

/-- `RcParams3::from_initial` -/
def RcParams3.fromInitial (initial : Iso3 α) (rc : V3 α) : RcParams3 α :=
  let w := toWpr ⟨initial.r0, initial.r1, initial.r2⟩
  RcParams3.set rc (initial.apply rc) 0 0 0 w.1 w.2.1 w.2.2

def ppTol : α := Scalar.ofRat Gen.POINT_POINT_TOL_num Gen.POINT_POINT_TOL_den

/-- `point_plane_core`: Jacobian row from the (signed) normal `n` and the lever arm `fromRc` -/
def jacobianRow3 (ofInt : Int → α) (n fromRc : V3 α) (rx ry rz : α) : List α :=
  let rd := eulerRD ofInt rx ry rz
  [n.x, n.y, n.z, V3.dot n (rd.1.mulVec fromRc), V3.dot n (rd.2.1.mulVec fromRc), V3.dot n (rd.2.2.mulVec fromRc)]

end
