import Engeom.Model.Topology
/-
  Model of src/geom3/mesh/filtering.rs (property C14): the TriangleFilter state is the number of
  faces and the selected indices (a HashSet → a list whose ORDER is a free parameter).
  The geometric predicates are parameters (they are external: parry projection, C02):
    * a facing step is given by a per-face predicate `P`;
    * a near-mesh step by the per-vertex, face-independent part `base v`
      (none = fails; some none = passes, no reference normal needed; some (some r) = passes with
      reference normal r) and the face-dependent angle test `angleOk f r`.
  Import-free.
-/

inductive SelOp | add | remove | keep
deriving Repr, BEq, DecidableEq

structure Filter where
  n : Nat
  indices : List Nat
deriving Repr

/-- `mutate` -/
def Filter.mutate (s : Filter) (op : SelOp) (P : Nat → Bool) : Filter :=
  match op with
  | .add => { s with indices := s.indices ++ (List.range s.n).filter (fun i => !s.indices.contains i && P i) }
  | .remove => { s with indices := s.indices.filter (fun i => !P i) }
  | .keep => { s with indices := s.indices.filter P }

/-- `to_check` -/
def Filter.toCheck (s : Filter) (op : SelOp) : List Nat :=
  match op with
  | .add => (List.range s.n).filter (fun i => !s.indices.contains i)
  | .remove | .keep => s.indices

/-- `mutate_pass_list` -/
def Filter.mutatePassList (s : Filter) (op : SelOp) (pass : List Nat) : Filter :=
  match op with
  | .add => { s with indices := s.indices ++ pass.filter (fun i => !s.indices.contains i) }
  | .remove => { s with indices := s.indices.filter (fun i => !pass.contains i) }
  | .keep => { s with indices := s.indices.filter (fun i => pass.contains i) }

section Near
variable {R : Type}

/-- the memo of `MeshNearCheck`: vertex ↦ face-independent result (post-fix) -/
abbrev Memo (R : Type) := List (Nat × Option (Option R))

def Memo.get? (m : Memo R) (v : Nat) : Option (Option (Option R)) :=
  match m.find? (fun p => p.1 == v) with | some p => some p.2 | none => none

/-- combine the face-independent part with the face-dependent angle test -/
def combine (hasAngleTol : Bool) (angleOk : R → Bool) : Option (Option R) → Bool
  | none => false
  | some none => !hasAngleTol
  | some (some r) => if hasAngleTol then angleOk r else true

/-- `near_check` (post-fix): returns the verdict and the updated memo -/
def nearCheck (base : Nat → Option (Option R)) (hasAngleTol : Bool) (angleOk : R → Bool)
    (m : Memo R) (v : Nat) : Bool × Memo R :=
  match m.get? v with
  | some r => (combine hasAngleTol angleOk r, m)
  | none => let r := base v; (combine hasAngleTol angleOk r, (v, r) :: m)

/-- the un-memoised predicate for one vertex of one face -/
def pureNear (base : Nat → Option (Option R)) (hasAngleTol : Bool) (angleOk : R → Bool) (v : Nat) : Bool :=
  combine hasAngleTol angleOk (base v)

/-- per-face test with short-circuit evaluation (the Rust `&&` / `||`), threading the memo -/
def nearFace (base : Nat → Option (Option R)) (hasAngleTol : Bool) (angleOk : Nat → R → Bool)
    (allPoints : Bool) (m : Memo R) (f : Nat) (tri : Face) : Bool × Memo R :=
  let c := nearCheck base hasAngleTol (angleOk f)
  let (b0, m0) := c m tri.1
  if allPoints then
    if !b0 then (false, m0) else
    let (b1, m1) := c m0 tri.2.1
    if !b1 then (false, m1) else
    c m1 tri.2.2
  else
    if b0 then (true, m0) else
    let (b1, m1) := c m0 tri.2.1
    if b1 then (true, m1) else
    c m1 tri.2.2

def pureNearFace (base : Nat → Option (Option R)) (hasAngleTol : Bool) (angleOk : Nat → R → Bool)
    (allPoints : Bool) (f : Nat) (tri : Face) : Bool :=
  let p := fun v => pureNear base hasAngleTol (angleOk f) v
  if allPoints then p tri.1 && p tri.2.1 && p tri.2.2 else p tri.1 || p tri.2.1 || p tri.2.2

/-- evaluate the faces of `toCheck` in the given order, threading the memo; returns the pass list -/
def nearPasses (faces : List Face) (base : Nat → Option (Option R)) (hasAngleTol : Bool)
    (angleOk : Nat → R → Bool) (allPoints : Bool) : Memo R → List Nat → List Nat × Memo R
  | m, [] => ([], m)
  | m, f :: r =>
    let tri := (faces[f]?).getD (0, 0, 0)
    let (b, m') := nearFace base hasAngleTol angleOk allPoints m f tri
    let (ps, m'') := nearPasses faces base hasAngleTol angleOk allPoints m' r
    (if b then f :: ps else ps, m'')

/-- `near_mesh` -/
def Filter.nearMesh (s : Filter) (faces : List Face) (base : Nat → Option (Option R)) (hasAngleTol : Bool)
    (angleOk : Nat → R → Bool) (allPoints : Bool) (op : SelOp) (order : List Nat) : Filter :=
  s.mutatePassList op (nearPasses faces base hasAngleTol angleOk allPoints [] order).1

/-- the pre-fix memo stored the FINAL verdict (which depends on the face normal) per vertex -/
def nearCheck_prefix (base : Nat → Option (Option R)) (hasAngleTol : Bool) (angleOk : R → Bool)
    (m : List (Nat × Bool)) (v : Nat) : Bool × List (Nat × Bool) :=
  match m.find? (fun p => p.1 == v) with
  | some p => (p.2, m)
  | none => let r := combine hasAngleTol angleOk (base v); (r, (v, r) :: m)

end Near

/-! ### create_from_indices -/

def insertNat (x : Nat) : List Nat → List Nat
  | [] => [x]
  | a :: r => if x < a then x :: a :: r else if x == a then a :: r else a :: insertNat x r

/-- `unique_vertices`: sorted, de-duplicated vertex ids of the selected faces -/
def uniqueVertices (faces : List Face) (idx : List Nat) : List Nat :=
  idx.foldl (fun acc i => match faces[i]? with
    | some t => insertNat t.2.2 (insertNat t.2.1 (insertNat t.1 acc))
    | none => acc) []

def posOf (l : List Nat) (v : Nat) : Nat := (l.takeWhile (· != v)).length

/-- `create_from_indices`: (kept old vertex ids in new order, new triangles) -/
def createFromIndices (faces : List Face) (idx : List Nat) : List Nat × List Face :=
  let keep := uniqueVertices faces idx
  (keep, idx.filterMap (fun i => (faces[i]?).map (fun t => (posOf keep t.1, posOf keep t.2.1, posOf keep t.2.2))))
