import Engeom.Props.C06
import Engeom.Props.C06T
/-
  C06 — stated about the REGENERATED `intersection_param` (src/geom2/line2.rs, over ℝ): it refuses exactly the
  near-parallel pairs, and the two parameters it returns describe one point on both lines.
-/
namespace C06U

theorem intersection_param_none_iff (a0 ad b0 bd : V2 ℝ) :
    GenRs.intersection_param a0 ad b0 bd = none ↔ |bd.x * ad.y - bd.y * ad.x| < detTol := by
  rw [C06T.intersection_param_eq]; exact C06.intersectionParam_none_iff a0 ad b0 bd

theorem intersection_param_sound (a0 ad b0 bd : V2 ℝ) (t0 t1 : ℝ)
    (h : GenRs.intersection_param a0 ad b0 bd = some (t0, t1)) :
    V2.add a0 (V2.smul t0 ad) = V2.add b0 (V2.smul t1 bd) := by
  rw [C06T.intersection_param_eq] at h; exact C06.intersectionParam_sound a0 ad b0 bd t0 t1 h

/-- **How parallel is "parallel".**  With the cut-off constant read from the current source, a pair of lines whose raw
    determinant `|bd × ad|` is at least 1e-11 is never refused: only pairs that are parallel to within the last few
    digits of double precision (for direction and edge lengths of ordinary size) are.  The completeness clauses of the
    correspondence judge crossings from a decade above this floor; a source that refuses more than this fails here. -/
theorem intersection_param_refuses_only_below_1e_11 (a0 ad b0 bd : V2 ℝ)
    (h : (1 : ℝ) / 10 ^ 11 ≤ |bd.x * ad.y - bd.y * ad.x|) : GenRs.intersection_param a0 ad b0 bd ≠ none := by
  intro hn
  have := (intersection_param_none_iff a0 ad b0 bd).mp hn
  have hc : (detTol : ℝ) ≤ 1 / 10 ^ 11 := by
    unfold detTol; rw [ofRatR]; norm_num [Gen.INTERSECT_DET_TOL_num, Gen.INTERSECT_DET_TOL_den]
  linarith

/-! ### "farthest projected vertex": the regenerated scan of `max_point_in_direction` -/

/-- one step of the scan, as regenerated -/
noncomputable def scanStep (v : V2 ℝ) : ℝ × Option Nat → Nat × V2 ℝ → ℝ × Option Nat :=
  fun (max_dist, max_i) (i, p) => (let dist := (V2.dot p v); (let (max_dist, max_i) := (if max_dist < dist then (let max_dist := dist; (let max_i := (some i); (max_dist, max_i))) else (max_dist, max_i)); (max_dist, max_i)))

theorem max_point_scan_unfold (pts : List (V2 ℝ)) (v : V2 ℝ) (fmin : ℝ) :
    GenRs.max_point_scan pts v fmin = (List.foldl (scanStep v) (fmin, none) (enumerateL pts)).2 := rfl

/-- the state after scanning `xs` (numbered from `k`) starting in `(m, b)`: the maximum has not decreased, bounds every
    scanned projection, and is either untouched or the projection of the vertex whose index is held -/
theorem scan_invariant (v : V2 ℝ) (xs : List (V2 ℝ)) :
    ∀ (k : Nat) (m : ℝ) (b : Option Nat),
      let r := List.foldl (scanStep v) (m, b) ((xs.zipIdx k).map (fun p => (p.2, p.1)))
      m ≤ r.1 ∧ (∀ p ∈ xs, V2.dot p v ≤ r.1) ∧
      ((r.1 = m ∧ r.2 = b) ∨ ∃ i p, r.2 = some i ∧ k ≤ i ∧ xs[i - k]? = some p ∧ V2.dot p v = r.1) := by
  induction xs with
  | nil => intro k m b; simp
  | cons x t ih =>
    intro k m b
    simp only [List.zipIdx_cons, List.map_cons, List.foldl_cons]
    by_cases h : m < V2.dot x v
    · have hs : scanStep v (m, b) (k, x) = (V2.dot x v, some k) := by simp [scanStep, h]
      rw [hs]
      obtain ⟨h1, h2, h3⟩ := ih (k + 1) (V2.dot x v) (some k)
      refine ⟨le_trans h.le h1, ?_, ?_⟩
      · intro p hp
        rcases List.mem_cons.mp hp with rfl | hp
        · exact h1
        · exact h2 p hp
      · right
        rcases h3 with ⟨e1, e2⟩ | ⟨i, p, e1, e2, e3, e4⟩
        · exact ⟨k, x, e2, le_refl k, by simp, e1.symm⟩
        · refine ⟨i, p, e1, by omega, ?_, e4⟩
          have : i - k = (i - (k + 1)) + 1 := by omega
          rw [this, List.getElem?_cons_succ]; exact e3
    · have hs : scanStep v (m, b) (k, x) = (m, b) := by simp [scanStep, h]
      rw [hs]
      obtain ⟨h1, h2, h3⟩ := ih (k + 1) m b
      refine ⟨h1, ?_, ?_⟩
      · intro p hp
        rcases List.mem_cons.mp hp with rfl | hp
        · exact le_trans (not_lt.mp h) h1
        · exact h2 p hp
      · rcases h3 with h3 | ⟨i, p, e1, e2, e3, e4⟩
        · exact Or.inl h3
        · right
          refine ⟨i, p, e1, by omega, ?_, e4⟩
          have : i - k = (i - (k + 1)) + 1 := by omega
          rw [this, List.getElem?_cons_succ]; exact e3

/-- **The farthest projected vertex is the exhaustive maximum.**  For a non-empty vertex list whose projections all
    exceed the starting value (`f64::MIN` in the code: every finite projection does), the regenerated scan returns the
    index of a vertex whose projection on the direction is at least that of every vertex. -/
theorem max_point_scan_is_argmax (pts : List (V2 ℝ)) (v : V2 ℝ) (fmin : ℝ) (hne : pts ≠ [])
    (hmin : ∀ p ∈ pts, fmin < V2.dot p v) :
    ∃ i p, GenRs.max_point_scan pts v fmin = some i ∧ pts[i]? = some p ∧ ∀ q ∈ pts, V2.dot q v ≤ V2.dot p v := by
  rw [max_point_scan_unfold]
  have hinv := scan_invariant v pts 0 fmin none
  unfold enumerateL
  simp only at hinv
  obtain ⟨h1, h2, h3⟩ := hinv
  rcases h3 with ⟨e1, _⟩ | ⟨i, p, e1, _, e3, e4⟩
  · exfalso
    obtain ⟨x, hx⟩ := List.exists_mem_of_ne_nil pts hne
    have := h2 x hx
    have := hmin x hx
    rw [e1] at *
    linarith
  · refine ⟨i, p, e1, by simpa using e3, ?_⟩
    intro q hq
    rw [e4]; exact h2 q hq

/-- an empty vertex list has no farthest vertex -/
theorem max_point_scan_empty (v : V2 ℝ) (fmin : ℝ) : GenRs.max_point_scan [] v fmin = none := rfl

example : ∃ i p, GenRs.max_point_scan [⟨0, 0⟩, ⟨3, 1⟩, ⟨1, 5⟩] (⟨1, 0⟩ : V2 ℝ) (-100) = some i ∧
    ([⟨0, 0⟩, ⟨3, 1⟩, ⟨1, 5⟩] : List (V2 ℝ))[i]? = some p ∧ ∀ q ∈ ([⟨0, 0⟩, ⟨3, 1⟩, ⟨1, 5⟩] : List (V2 ℝ)), V2.dot q ⟨1, 0⟩ ≤ V2.dot p ⟨1, 0⟩ :=
  max_point_scan_is_argmax _ _ _ (by simp) (by intro p hp; simp at hp; rcases hp with rfl | rfl | rfl <;> simp [V2.dot] <;> norm_num)

/-! ### the curve's own entry points hand the WHOLE curve on, with nothing in front (whole-body patterns) -/

/-- `Curve2::max_point_in_direction` scans every stored vertex (the last one of a closed curve included) and
    `Curve2::ray_intersections` is the polyline search on the curve's own line, with no test before it -/
theorem curve_entry_points_delegate_everything (pts line : List (V2 ℝ)) :
    GenRs.curve_max_point_vertices pts = pts ∧ GenRs.curve_ray_intersections_line line = line := ⟨rfl, rfl⟩

/-- hence the farthest vertex of the CURVE is an argmax over all of its vertices -/
theorem curve_farthest_vertex_is_argmax (pts : List (V2 ℝ)) (v : V2 ℝ) (fmin : ℝ) (hne : pts ≠ [])
    (hmin : ∀ p ∈ pts, fmin < V2.dot p v) :
    ∃ i p, GenRs.max_point_scan (GenRs.curve_max_point_vertices pts) v fmin = some i ∧ pts[i]? = some p ∧
      ∀ q ∈ pts, V2.dot q v ≤ V2.dot p v :=
  max_point_scan_is_argmax pts v fmin hne hmin

end C06U
