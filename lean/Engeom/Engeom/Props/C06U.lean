import Engeom.Props.C06
import Engeom.Props.C06T
/-
  C06 — stated about the REGENERATED `intersection_param` (src/geom2/line2.rs, over ℝ): it refuses exactly the
  near-parallel pairs, and the two parameters it returns describe one point on both lines.
-/
namespace C06U

theorem intersection_param_none_iff (a0 ad b0 bd : V2 ℝ) :
    GenRs.intersection_param a0 ad b0 bd = none ↔ |bd.x * ad.y - bd.y * ad.x| < detTol := by
  rw [C06T.intersection_param_eq]; exact C06.intersectionParam_none_iff a0 ad b0 bd

theorem intersection_param_sound (a0 ad b0 bd : V2 ℝ) (t0 t1 : ℝ)
    (h : GenRs.intersection_param a0 ad b0 bd = some (t0, t1)) :
    V2.add a0 (V2.smul t0 ad) = V2.add b0 (V2.smul t1 bd) := by
  rw [C06T.intersection_param_eq] at h; exact C06.intersectionParam_sound a0 ad b0 bd t0 t1 h
end C06U
