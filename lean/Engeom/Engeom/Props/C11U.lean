import Engeom.Props.C11
import Engeom.Props.C11T
/-
  C11 — the property theorems stated about the REGENERATED functions of src/geom2/circle2.rs (over ℝ): each is
  the theorem of Props/C11 about the model function, carried over by the equality of Props/C11T.
-/
namespace C11U
open Real

/-- no intersection when the circles are concentric, separate or nested; never more than two -/
theorem cc_none_concentric (s o : Circle ℝ) (h : dist2 s.c o.c < ccTol) : GenRs.Circle2_intersections_with s o = [] := by
  rw [C11T.intersections_with_eq_real]; exact C11.cc_none_concentric s o h
theorem cc_none_separate (s o : Circle ℝ) (h : s.r + o.r < dist2 s.c o.c) : GenRs.Circle2_intersections_with s o = [] := by
  rw [C11T.intersections_with_eq_real]; exact C11.cc_none_separate s o h
theorem cc_none_nested (s o : Circle ℝ) (h : dist2 s.c o.c < |s.r - o.r|) : GenRs.Circle2_intersections_with s o = [] := by
  rw [C11T.intersections_with_eq_real]; exact C11.cc_none_nested s o h
theorem cc_at_most_two (s o : Circle ℝ) : (GenRs.Circle2_intersections_with s o).length ≤ 2 := by
  rw [C11T.intersections_with_eq_real]; exact C11.cc_at_most_two s o

/-- crossing circles: exactly two points, each on both circles -/
theorem cc_points_on_both (s o : Circle ℝ) (hr0 : 0 ≤ s.r) (hr1 : 0 ≤ o.r)
    (hd : ¬ dist2 s.c o.c < ccTol) (h1 : ¬ s.r + o.r < dist2 s.c o.c) (h2 : ¬ dist2 s.c o.c < |s.r - o.r|)
    (ht : ¬ (|dist2 s.c o.c - (s.r + o.r)| < ccTol ∨ abs (dist2 s.c o.c - abs (s.r - o.r)) < ccTol)) :
    (GenRs.Circle2_intersections_with s o).length = 2 ∧
    ∀ p ∈ GenRs.Circle2_intersections_with s o,
      V2.normSq (V2.sub p s.c) = s.r * s.r ∧ V2.normSq (V2.sub p o.c) = o.r * o.r := by
  rw [C11T.intersections_with_eq_real]; exact C11.cc_points_on_both s o hr0 hr1 hd h1 h2 ht

/-- both tangent points from an external point lie on the circle -/
theorem tangent_on_circle (c : Circle ℝ) (p t0 t1 : V2 ℝ) (h : GenRs.Circle2_tangent_points_to c p = some (t0, t1)) :
    V2.normSq (V2.sub t0 c.c) = c.r * c.r ∧ V2.normSq (V2.sub t1 c.c) = c.r * c.r := by
  rw [C11T.tangent_points_to_eq] at h; exact C11.tangent_on_circle c p t0 t1 h

/-- there is a tangent from a point exactly when the point is OUTSIDE the circle: a point on the perimeter (distance to
    the centre equal to the radius) or inside it gets none -/
theorem tangent_none_iff_not_outside (c : Circle ℝ) (p : V2 ℝ) :
    GenRs.Circle2_tangent_points_to c p = none ↔ dist2 c.c p ≤ c.r := by
  unfold GenRs.Circle2_tangent_points_to
  simp only []
  constructor
  · intro h
    by_contra hn
    rw [if_neg hn] at h
    exact absurd h (by simp)
  · intro h
    rw [if_pos h]

/-- the circle through three points is equidistant from them, with that distance as radius; collinear triples
    (relative to the leg lengths) are rejected -/
theorem from_3_points_equidistant (p0 p1 p2 : V2 ℝ) (c : Circle ℝ) (h : GenRs.Circle2_from_3_points p0 p1 p2 = some c) :
    V2.normSq (V2.sub c.c p0) = V2.normSq (V2.sub c.c p1) ∧ V2.normSq (V2.sub c.c p1) = V2.normSq (V2.sub c.c p2) ∧
    c.r * c.r = V2.normSq (V2.sub c.c p0) := by
  rw [C11T.from_3_points_eq] at h; exact C11.from3Points_equidistant p0 p1 p2 c h
theorem from_3_points_collinear_rejected (p0 p1 p2 : V2 ℝ)
    (h : |(p0.x - p1.x) * (p1.y - p2.y) - (p1.x - p2.x) * (p0.y - p1.y)| ≤
      collinearTol * (V2.norm (V2.sub p0 p1) * V2.norm (V2.sub p1 p2))) :
    GenRs.Circle2_from_3_points p0 p1 p2 = none := by
  rw [C11T.from_3_points_eq]; exact C11.from3Points_collinear_rejected p0 p1 p2 h

/-- point-at-length and point-at-fraction of an arc agree -/
theorem arc_length_fraction_agree (a : Arc ℝ) (f : ℝ) (hl : GenRs.Arc2_length a ≠ 0) :
    GenRs.Arc2_point_at_length a (f * GenRs.Arc2_length a) = GenRs.Arc2_point_at_fraction a f := by
  rw [C11T.arc_length_eq] at hl ⊢
  rw [C11T.arc_point_at_length_eq, C11T.arc_point_at_fraction_eq]
  exact C11.arc_length_fraction_agree a f hl
end C11U
