import Engeom.Generated.RsC03
/-
  C03 — translation tie for src/common/surface_point.rs (generic in the dimension; translated at
  dimension 3, regenerated on every run).
-/
namespace C03T
set_option linter.unusedSectionVars false
variable {α : Type} [Add α] [Sub α] [Mul α] [Div α] [Neg α] [LT α] [LE α]
  [DecidableLT α] [DecidableLE α] [OfNat α 0] [OfNat α 1] [OfNat α 2] [Scalar α]

theorem SurfacePoint_at_distance_eq (s : SP3 α) (d : α) : GenRs.SurfacePoint_at_distance s d = s.atDistance d := rfl
theorem SurfacePoint_scalar_projection_eq (s : SP3 α) (q : V3 α) :
    GenRs.SurfacePoint_scalar_projection s q = s.scalarProjection q := rfl
theorem SurfacePoint_projection_eq (s : SP3 α) (q : V3 α) : GenRs.SurfacePoint_projection s q = s.projection q := rfl
theorem SurfacePoint_reversed_eq (s : SP3 α) : GenRs.SurfacePoint_reversed s = s.reversed := rfl
theorem SurfacePoint_planar_distance_eq (s : SP3 α) (q : V3 α) :
    GenRs.SurfacePoint_planar_distance s q = V3.norm (V3.sub (s.projection q) q) := rfl
theorem SurfacePoint_shift_eq (s : SP3 α) (d : α) : GenRs.SurfacePoint_shift s d = ⟨s.atDistance d, s.normal⟩ := rfl
end C03T
