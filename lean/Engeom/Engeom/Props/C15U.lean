import Engeom.Generated.RsC15
import Engeom.Lemmas.RealScalar
/-
  C15 — theorems about the REGENERATED fragments of `KdTree::within` (src/common/kd_tree.rs), over ℝ.
  The external k-d tree compares SQUARED distances; the code hands it the square of the radius — exactly, with nothing
  added — and reports the root of what comes back.  (The tree itself is external and is covered by the correspondence
  with brute force, not by a theorem.)
-/
namespace C15U

/-- the squared radius handed to the tree is the square of the radius, nothing more -/
theorem squared_radius_eq (r : ℝ) : GenRs.kd_within_sq r = r * r := rfl

/-- a point is within the squared radius handed to the tree exactly when it is within the radius
    (`sq` the squared distance of the point, `√sq` the distance reported for it, `r ≥ 0` the radius) -/
theorem within_squared_radius_is_within_radius (sq r : ℝ) (hr : 0 ≤ r) :
    sq ≤ GenRs.kd_within_sq r ↔ GenRs.kd_within_dist sq ≤ r := by
  show sq ≤ r * r ↔ Real.sqrt sq ≤ r
  rw [Real.sqrt_le_iff]
  constructor
  · intro h; exact ⟨hr, by nlinarith⟩
  · intro h; nlinarith [h.2]

/-- and the distance reported for a point is its distance: the root of its squared distance -/
theorem within_reports_the_distance (d : ℝ) (hd : 0 ≤ d) : GenRs.kd_within_dist (d * d) = d := by
  show Real.sqrt (d * d) = d
  exact Real.sqrt_mul_self hd

/-! ### `KdTree::new` (whole-body pattern): the entries handed to the external tree.  The tree's item ids are
positions in this list; every caller reads them as indices into its own slice of points. -/

theorem kd_entries_fold (pts : List (V2 ℝ)) : ∀ acc : List (V2 ℝ),
    List.foldl (fun entries p => (let entries := entries ++ [p]; entries)) acc pts = acc ++ pts := by
  induction pts with
  | nil => intro acc; simp
  | cons p r ih => intro acc; simp only [List.foldl_cons]; rw [ih]; simp

/-- the entries ARE the points, in order, none skipped and none repeated: position `i` of the tree is point `i` of the
    caller — duplicates included (two identical points in a row are two entries) -/
theorem kd_entries_are_the_points (pts : List (V2 ℝ)) : GenRs.kd_entries pts = pts := by
  unfold GenRs.kd_entries
  simp only []
  rw [kd_entries_fold]; simp

/-! ### `Mesh::sample_uniform`: the cumulative-area table (regenerated loop).  The POSITION of an entry in the table is
used as the id of the face the sample lands on, so the table has to have exactly one entry per face, in face order. -/

/-- one step of the loop, as regenerated -/
def areaStep : ℝ × List ℝ → ℝ → ℝ × List ℝ :=
  fun (total_area, cumulative_areas) tri => (let total_area := (total_area + tri); (let cumulative_areas := cumulative_areas ++ [total_area]; (total_area, cumulative_areas)))

theorem area_table_unfold (areas : List ℝ) : GenRs.area_table areas = (List.foldl areaStep (0, []) areas).2 := rfl

theorem area_fold_length (xs : List ℝ) : ∀ (t : ℝ) (acc : List ℝ),
    (List.foldl areaStep (t, acc) xs).2.length = acc.length + xs.length := by
  induction xs with
  | nil => intro t acc; simp
  | cons x r ih =>
    intro t acc
    simp only [List.foldl_cons]
    have : areaStep (t, acc) x = (t + x, acc ++ [t + x]) := rfl
    rw [this, ih]; simp; omega

theorem area_fold_sorted (xs : List ℝ) (hx : ∀ x ∈ xs, 0 ≤ x) : ∀ (t : ℝ) (acc : List ℝ),
    acc.Pairwise (· ≤ ·) → (∀ a ∈ acc, a ≤ t) →
    (List.foldl areaStep (t, acc) xs).2.Pairwise (· ≤ ·) ∧
    (∀ a ∈ (List.foldl areaStep (t, acc) xs).2, a ≤ (List.foldl areaStep (t, acc) xs).1) ∧
    t ≤ (List.foldl areaStep (t, acc) xs).1 := by
  induction xs with
  | nil => intro t acc h1 h2; exact ⟨h1, h2, le_refl t⟩
  | cons x r ih =>
    intro t acc h1 h2
    simp only [List.foldl_cons]
    have e : areaStep (t, acc) x = (t + x, acc ++ [t + x]) := rfl
    rw [e]
    have hx0 : 0 ≤ x := hx x (by simp)
    have hr : ∀ y ∈ r, 0 ≤ y := fun y hy => hx y (by simp [hy])
    have p1 : (acc ++ [t + x]).Pairwise (· ≤ ·) := by
      rw [List.pairwise_append]
      refine ⟨h1, by simp, ?_⟩
      intro a ha b hb
      simp at hb; rw [hb]; linarith [h2 a ha]
    have p2 : ∀ a ∈ acc ++ [t + x], a ≤ t + x := by
      intro a ha
      rcases List.mem_append.mp ha with ha | ha
      · linarith [h2 a ha]
      · simp at ha; rw [ha]
    obtain ⟨q1, q2, q3⟩ := ih hr (t + x) (acc ++ [t + x]) p1 p2
    exact ⟨q1, q2, by linarith⟩

/-- **one entry per face, in face order** — whatever the areas are (a face of zero area gets an entry too, equal to the
    one before it): the position in the table is the face id -/
theorem area_table_one_entry_per_face (areas : List ℝ) : (GenRs.area_table areas).length = areas.length := by
  rw [area_table_unfold, area_fold_length]; simp

/-- for non-negative areas the table is non-decreasing (what the binary search over it assumes) -/
theorem area_table_non_decreasing (areas : List ℝ) (h : ∀ x ∈ areas, 0 ≤ x) :
    (GenRs.area_table areas).Pairwise (· ≤ ·) := by
  rw [area_table_unfold]
  exact (area_fold_sorted areas h 0 [] (by simp) (by simp)).1

example : GenRs.area_table [2, 0, (3 : ℝ)] = [2, 2, 5] := by
  rw [area_table_unfold]; norm_num [List.foldl, areaStep]

end C15U
