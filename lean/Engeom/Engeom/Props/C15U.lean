import Engeom.Generated.RsC15
import Engeom.Lemmas.RealScalar
/-
  C15 — theorems about the REGENERATED fragments of `KdTree::within` (src/common/kd_tree.rs), over ℝ.
  The external k-d tree compares SQUARED distances; the code hands it the square of the radius — exactly, with nothing
  added — and reports the root of what comes back.  (The tree itself is external and is covered by the correspondence
  with brute force, not by a theorem.)
-/
namespace C15U

/-- the squared radius handed to the tree is the square of the radius, nothing more -/
theorem squared_radius_eq (r : ℝ) : GenRs.kd_within_sq r = r * r := rfl

/-- a point is within the squared radius handed to the tree exactly when it is within the radius
    (`sq` the squared distance of the point, `√sq` the distance reported for it, `r ≥ 0` the radius) -/
theorem within_squared_radius_is_within_radius (sq r : ℝ) (hr : 0 ≤ r) :
    sq ≤ GenRs.kd_within_sq r ↔ GenRs.kd_within_dist sq ≤ r := by
  show sq ≤ r * r ↔ Real.sqrt sq ≤ r
  rw [Real.sqrt_le_iff]
  constructor
  · intro h; exact ⟨hr, by nlinarith⟩
  · intro h; nlinarith [h.2]

/-- and the distance reported for a point is its distance: the root of its squared distance -/
theorem within_reports_the_distance (d : ℝ) (hd : 0 ≤ d) : GenRs.kd_within_dist (d * d) = d := by
  show Real.sqrt (d * d) = d
  exact Real.sqrt_mul_self hd

end C15U
