import Engeom.Generated.RsC01
/-
  C01 — translation tie.  Regenerated from the /repo working tree by tools/rs2lean.py on every run:
  the body of `CurveStation2::length_along` / `CurveStation3::length_along`, the index/fraction rule of
  `Curve2::at_vertex` (last vertex = (index-1, 1.0)) and the between-vertices branch of
  `Curve2::at_length` / `Curve3::at_length` (the `Err(next_index)` arm of the binary search).
  They are proved equal to the model functions the theorems of Props/C01 are about, for every scalar
  type (so also at Float, where the correspondence run executes the model).
-/
namespace C01T
set_option linter.unusedSectionVars false
variable {α : Type} [Add α] [Sub α] [Mul α] [Div α] [Neg α] [LT α] [LE α]
  [DecidableLT α] [DecidableLE α] [OfNat α 0] [OfNat α 1] [OfNat α 2] [Scalar α] [Inhabited α] [Inhabited (V2 α)] [Inhabited (V3 α)]

theorem length_along2_eq (c : Curve α (V2 α)) (s : Station α (V2 α)) :
    GenRs.length_along2 c.lengths s = c.lengthAlong s := rfl

theorem length_along3_eq (c : Curve α (V3 α)) (s : Station α (V3 α)) :
    GenRs.length_along3 c.lengths s = c.lengthAlong s := rfl

/-- the (index, fraction) rule of `at_vertex`; the Rust tests `index == len - 1`, the model
    `index + 1 == len`: the same on every curve (a curve has at least one vertex) -/
theorem at_vertex_rule_eq (c : Curve α (V2 α)) (i : Nat) (h : 0 < c.count) :
    ((c.atVertex i).index, (c.atVertex i).fraction) = GenRs.at_vertex_if2 c.verts i := by
  unfold Curve.atVertex GenRs.at_vertex_if2
  unfold Curve.count at *
  by_cases hi : i + 1 = c.verts.length
  · have h2 : i = c.verts.length - 1 := by omega
    rw [if_pos (by simpa using hi), if_pos h2]
  · have h2 : ¬ i = c.verts.length - 1 := by omega
    rw [if_neg (by simpa using hi), if_neg h2]

/-- `at_length` of the model IS: the regenerated range guard (no station outside [0, L]), the exact
    vertex hit, else the regenerated edge branch -/
theorem at_length2_eq (c : Curve α (V2 α)) (l : α) :
    c.atLength l =
      if GenRs.at_length_guard2 c l then none else
      let k := countLt c.lengths l
      if k < c.lengths.length && !decide (l < c.len k) then some (c.atVertex k)
      else GenRs.at_length_edge2 c l k := rfl

theorem at_length3_eq (c : Curve α (V3 α)) (l : α) :
    c.atLength l =
      if GenRs.at_length_guard3 c l then none else
      let k := countLt c.lengths l
      if k < c.lengths.length && !decide (l < c.len k) then some (c.atVertex k)
      else GenRs.at_length_edge3 c l k := rfl

/-! ### the WHOLE of `at_length` / `at_fraction` (binary search by its contract, `binarySearch`) -/

/-- the search result decides between the exact vertex hit and the edge branch exactly as the model does -/
theorem search_cases (ls : List α) (l : α) :
    binarySearch ls l =
      (if countLt ls l < ls.length && !decide (l < ls.getD (countLt ls l) default)
        then SearchRes.found (countLt ls l) else SearchRes.insert (countLt ls l)) := by
  unfold binarySearch countLt
  generalize (ls.takeWhile (fun v => decide (v < l))).length = k
  by_cases hk : k < ls.length
  · have hget : ls[k]? = some ls[k] := List.getElem?_eq_getElem hk
    have hd : ls.getD k default = ls[k] := by simp [List.getD_eq_getElem?_getD, hget]
    simp only [hget, hd, hk, decide_true, Bool.true_and]
    by_cases hlt : l < ls[k]
    · simp [hlt]
    · simp [hlt]
  · have hget : ls[k]? = none := List.getElem?_eq_none (by omega)
    simp [hget, hk]

theorem at_length3_whole (c : Curve α (V3 α)) (l : α) : GenRs.at_length3 c l = c.atLength l := by
  unfold GenRs.at_length3 Curve.atLength
  rw [search_cases]
  by_cases hg : (decide (l < 0) || decide (c.length < l)) = true
  · simp only [hg, if_true]
  · simp only [hg, if_false, Bool.false_eq_true]
    unfold Curve.len
    by_cases hx : (decide (countLt c.lengths l < c.lengths.length) && !decide (l < c.lengths.getD (countLt c.lengths l) default)) = true
    · simp only [hx, if_true]
    · simp only [hx, if_false, Bool.false_eq_true]
      rfl

theorem at_fraction3_whole (c : Curve α (V3 α)) (f : α) : GenRs.at_fraction3 c f = c.atFraction f := by
  unfold GenRs.at_fraction3 Curve.atFraction
  exact at_length3_whole c _

/-! ### edge and vertex directions, the whole of `at_vertex` -/

theorem dir_of_edge2_eq (c : Curve α (V2 α)) (i : Nat) : GenRs.dir_of_edge2 c i = c.dirOfEdge i := rfl

/-- `Curve2::dir_of_vertex` (a 2-D curve blends the two adjacent edge directions; a closed one does so
    across its seam): the Rust tests `index == len - 1`, the model `index + 1 == len` — the same on a
    curve with at least one vertex -/
theorem dir_of_vertex2_eq (c : Curve α (V2 α)) (i : Nat) (hb : c.blend = true) (hn : 0 < c.count) :
    GenRs.dir_of_vertex2 c i = c.dirOfVertex i := by
  unfold GenRs.dir_of_vertex2 Curve.dirOfVertex
  unfold Curve.count at *
  simp only [dir_of_edge2_eq, hb, if_true]
  have hlast : decide (i = c.verts.length - 1) = (i + 1 == c.verts.length) := by
    by_cases h : i = c.verts.length - 1
    · have h1 : i + 1 = c.verts.length := by omega
      rw [decide_eq_true h]
      exact (beq_iff_eq.mpr h1).symm
    · have h1 : ¬ i + 1 = c.verts.length := by omega
      rw [decide_eq_false h]
      exact (beq_eq_false_iff_ne.mpr h1).symm
  have hfirst : decide (i = 0) = (i == 0) := by
    by_cases h : i = 0 <;> simp [h]
  simp only [hlast, hfirst]
  rfl

theorem at_vertex2_eq (c : Curve α (V2 α)) (i : Nat) (hb : c.blend = true) (hn : 0 < c.count) :
    GenRs.at_vertex2 c i = c.atVertex i := by
  unfold GenRs.at_vertex2 Curve.atVertex
  rw [dir_of_vertex2_eq c i hb hn]
  unfold Curve.count at *
  by_cases h : i + 1 = c.verts.length
  · have h2 : i = c.verts.length - 1 := by omega
    simp only [if_pos h2]
    rw [if_pos (by simpa using h)]
  · have h2 : ¬ i = c.verts.length - 1 := by omega
    simp only [if_neg h2]
    rw [if_neg (by simpa using h)]

/-- `Curve3::dir_of_vertex` (a 3-D curve uses the next edge; the last vertex the previous one) -/
theorem dir_of_vertex3_eq (c : Curve α (V3 α)) (i : Nat) (hb : c.blend = false) (hn : 0 < c.count) :
    GenRs.dir_of_vertex3 c i = c.dirOfVertex i := by
  unfold GenRs.dir_of_vertex3 Curve.dirOfVertex
  unfold Curve.count at *
  simp only [hb, Bool.false_eq_true, if_false]
  by_cases h : i + 1 = c.verts.length
  · have h2 : i = c.verts.length - 1 := by omega
    rw [if_pos h2, if_pos (by simpa using h)]
  · have h2 : ¬ i = c.verts.length - 1 := by omega
    rw [if_neg h2, if_neg (by simpa using h)]

/-- the whole of `Curve2::at_length` (its exact-vertex arm goes through the regenerated `at_vertex`) -/
theorem at_length2_whole (c : Curve α (V2 α)) (l : α) (hb : c.blend = true) (hn : 0 < c.count) :
    GenRs.at_length2 c l = c.atLength l := by
  unfold GenRs.at_length2 Curve.atLength
  rw [search_cases]
  by_cases hg : (decide (l < 0) || decide (c.length < l)) = true
  · simp only [hg, if_true]
  · simp only [hg, if_false, Bool.false_eq_true]
    unfold Curve.len
    by_cases hx : (decide (countLt c.lengths l < c.lengths.length) && !decide (l < c.lengths.getD (countLt c.lengths l) default)) = true
    · simp only [hx, if_true]
      rw [at_vertex2_eq c _ hb hn]
    · simp only [hx, if_false, Bool.false_eq_true]
      rfl

theorem at_fraction2_whole (c : Curve α (V2 α)) (f : α) (hb : c.blend = true) (hn : 0 < c.count) :
    GenRs.at_fraction2 c f = c.atFraction f := by
  unfold GenRs.at_fraction2 Curve.atFraction
  exact at_length2_whole c _ hb hn

/-- construction: the tolerance de-duplication of `Curve2::from_points` / `Curve3::from_points`
    (`dedup_by(|a, b| dist(a, b) <= tol)`: an element is dropped when it is within `tol` — in the Euclidean
    distance — of the last retained one) is the model's `dedupTolPts`, the first step of `Curve.fromPoints` -/
theorem from_points_dedup2_eq (pts : List (V2 α)) (tol : α) : GenRs.from_points_dedup2 pts tol = dedupTolPts tol pts := rfl
theorem from_points_dedup3_eq (pts : List (V3 α)) (tol : α) : GenRs.from_points_dedup3 pts tol = dedupTolPts tol pts := rfl

/-! ### construction: the loop of `from_points` that builds the cumulative lengths is `cumLengths` -/

/-- the 3-D loop (`lengths.push(lengths[i] + d)`), from a state in which `pre` has been processed -/
theorem lengths_loop3 (r pre : List (V3 α)) (prev : V3 α) (Lpre : List α) (acc : α) (hlen : Lpre.length = pre.length) :
    List.foldl (fun lengths i =>
        lengths ++ [lengths.getD i default + vdist ((pre ++ prev :: r).getD (i + 1) default) ((pre ++ prev :: r).getD i default)])
      (Lpre ++ [acc]) (List.range' pre.length r.length)
    = Lpre ++ cumLengths.go acc prev r := by
  induction r generalizing pre prev Lpre acc with
  | nil => simp [cumLengths.go]
  | cons b r ih =>
    rw [show (b :: r).length = r.length + 1 from rfl, List.range'_succ, List.foldl_cons]
    have h1 : (Lpre ++ [acc]).getD pre.length default = acc := by
      simp [List.getD_eq_getElem?_getD, ← hlen]
    have h2 : (pre ++ prev :: b :: r).getD pre.length default = prev := by
      simp [List.getD_eq_getElem?_getD]
    have h3 : (pre ++ prev :: b :: r).getD (pre.length + 1) default = b := by
      simp [List.getD_eq_getElem?_getD, List.getElem?_append_right]
    rw [h1, h2, h3]
    have := ih (pre ++ [prev]) b (Lpre ++ [acc]) (acc + vdist b prev) (by simp [hlen])
    simp only [List.append_assoc, List.cons_append, List.nil_append, List.length_append, List.length_cons, List.length_nil, Nat.zero_add] at this ⊢
    rw [this]
    simp [cumLengths.go]

theorem from_points_lengths3_eq (v : List (V3 α)) (hne : v ≠ []) :
    GenRs.from_points_lengths3 v = cumLengths v := by
  cases v with
  | nil => exact absurd rfl hne
  | cons a r =>
    unfold GenRs.from_points_lengths3 cumLengths
    have := lengths_loop3 r [] a [] (0 : α) rfl
    simp only [List.nil_append, List.length_nil] at this
    rw [List.range_eq_range']
    simpa using this

/-- the 2-D loop (`lengths.push(d + lengths.last().unwrap_or(&0.0))`): the same list when addition
    commutes (it does over ℝ, and bit for bit at Float) -/
theorem lengths_loop2 (hc : ∀ a b : α, a + b = b + a) (r pre : List (V2 α)) (prev : V2 α) (Lpre : List α) (acc : α) :
    List.foldl (fun lengths i =>
        lengths ++ [vdist ((pre ++ prev :: r).getD (i + 1) default) ((pre ++ prev :: r).getD i default) + lengths.getLast?.getD 0])
      (Lpre ++ [acc]) (List.range' pre.length r.length)
    = Lpre ++ cumLengths.go acc prev r := by
  induction r generalizing pre prev Lpre acc with
  | nil => simp [cumLengths.go]
  | cons b r ih =>
    rw [show (b :: r).length = r.length + 1 from rfl, List.range'_succ, List.foldl_cons]
    have h1 : (Lpre ++ [acc]).getLast?.getD 0 = acc := by simp
    have h2 : (pre ++ prev :: b :: r).getD pre.length default = prev := by
      simp [List.getD_eq_getElem?_getD]
    have h3 : (pre ++ prev :: b :: r).getD (pre.length + 1) default = b := by
      simp [List.getD_eq_getElem?_getD, List.getElem?_append_right]
    rw [h1, h2, h3, hc (vdist b prev) acc]
    have := ih (pre ++ [prev]) b (Lpre ++ [acc]) (acc + vdist b prev)
    simp only [List.append_assoc, List.cons_append, List.nil_append, List.length_append, List.length_cons, List.length_nil, Nat.zero_add] at this ⊢
    rw [this]
    simp [cumLengths.go]

theorem from_points_lengths2_eq (hc : ∀ a b : α, a + b = b + a) (v : List (V2 α)) (hne : v ≠ []) :
    GenRs.from_points_lengths2 v = cumLengths v := by
  cases v with
  | nil => exact absurd rfl hne
  | cons a r =>
    unfold GenRs.from_points_lengths2 cumLengths
    have := lengths_loop2 hc r [] a [] (0 : α)
    simp only [List.nil_append, List.length_nil] at this
    rw [List.range_eq_range']
    simpa using this
end C01T
