import Engeom.Generated.RsC01
/-
  C01 — translation tie.  Regenerated from the /repo working tree by tools/rs2lean.py on every run:
  the body of `CurveStation2::length_along` / `CurveStation3::length_along`, the index/fraction rule of
  `Curve2::at_vertex` (last vertex = (index-1, 1.0)) and the between-vertices branch of
  `Curve2::at_length` / `Curve3::at_length` (the `Err(next_index)` arm of the binary search).
  They are proved equal to the model functions the theorems of Props/C01 are about, for every scalar
  type (so also at Float, where the correspondence run executes the model).
-/
namespace C01T
set_option linter.unusedSectionVars false
variable {α : Type} [Add α] [Sub α] [Mul α] [Div α] [Neg α] [LT α] [LE α]
  [DecidableLT α] [DecidableLE α] [OfNat α 0] [OfNat α 1] [OfNat α 2] [Scalar α] [Inhabited α] [Inhabited (V2 α)] [Inhabited (V3 α)]

theorem length_along2_eq (c : Curve α (V2 α)) (s : Station α (V2 α)) :
    GenRs.length_along2 c.lengths s = c.lengthAlong s := rfl

theorem length_along3_eq (c : Curve α (V3 α)) (s : Station α (V3 α)) :
    GenRs.length_along3 c.lengths s = c.lengthAlong s := rfl

/-- the (index, fraction) rule of `at_vertex`; the Rust tests `index == len - 1`, the model
    `index + 1 == len`: the same on every curve (a curve has at least one vertex) -/
theorem at_vertex_rule_eq (c : Curve α (V2 α)) (i : Nat) (h : 0 < c.count) :
    ((c.atVertex i).index, (c.atVertex i).fraction) = GenRs.at_vertex_if2 c.verts i := by
  unfold Curve.atVertex GenRs.at_vertex_if2
  unfold Curve.count at *
  by_cases hi : i + 1 = c.verts.length
  · have h2 : i = c.verts.length - 1 := by omega
    rw [if_pos (by simpa using hi), if_pos h2]
  · have h2 : ¬ i = c.verts.length - 1 := by omega
    rw [if_neg (by simpa using hi), if_neg h2]

/-- `at_length` of the model IS: the regenerated range guard (no station outside [0, L]), the exact
    vertex hit, else the regenerated edge branch -/
theorem at_length2_eq (c : Curve α (V2 α)) (l : α) :
    c.atLength l =
      if GenRs.at_length_guard2 c l then none else
      let k := countLt c.lengths l
      if k < c.lengths.length && !decide (l < c.len k) then some (c.atVertex k)
      else GenRs.at_length_edge2 c l k := rfl

theorem at_length3_eq (c : Curve α (V3 α)) (l : α) :
    c.atLength l =
      if GenRs.at_length_guard3 c l then none else
      let k := countLt c.lengths l
      if k < c.lengths.length && !decide (l < c.len k) then some (c.atVertex k)
      else GenRs.at_length_edge3 c l k := rfl
end C01T
