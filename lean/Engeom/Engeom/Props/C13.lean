import Engeom.Model.Section
import Engeom.Model.Topology
import Engeom.Lemmas.RealScalar
import Engeom.Props.C03
import Mathlib.Data.List.Basic
import Mathlib.Data.List.Perm.Basic
import Mathlib.Tactic.Linarith
import Mathlib.Tactic.Ring
import Mathlib.Tactic.LinearCombination
import Mathlib.Tactic.FieldSimp
/-
  C13 — Plane sections and splits of a mesh lie on the plane and on the surface.

  Part 1: `chained_indices` (src/common/indices.rs, modelled statement by statement in
  Model/Topology.lean and compared exactly with the Rust on every run) uses every input pair
  exactly once: the consecutive pairs of the returned chains are a permutation of the input.
  For every input list — branching, duplicates, inconsistent orientation included.
-/

namespace C13

open List

/-- the pairs still waiting in `pairs` -/
def remaining (idx : List Edge) (pairs : List Nat) : List Edge := pairs.filterMap (idx[·]?)

/-- loop measure: every pass either consumes a pair or moves forward → backward → emitted -/
def measure (pairs working : List Nat) (fwd : Bool) : Nat :=
  3 * pairs.length + (if working.isEmpty then 0 else if fwd then 2 else 1)

theorem segsOf_append_single : ∀ (w : List Nat) (last b : Nat), w.getLast? = some last →
    segsOf (w ++ [b]) = segsOf w ++ [(last, b)]
  | [], _, _, h => by simp at h
  | [a], last, b, h => by
    simp only [List.getLast?_singleton, Option.some.injEq] at h
    subst h; rfl
  | a :: c :: r, last, b, h => by
    have h' : (c :: r).getLast? = some last := by
      simpa [List.getLast?_cons_cons] using h
    have ih := segsOf_append_single (c :: r) last b h'
    show (a, c) :: segsOf ((c :: r) ++ [b]) = (a, c) :: segsOf (c :: r) ++ [(last, b)]
    rw [ih]; rfl

theorem segsOf_cons (a : Nat) (w : List Nat) (first : Nat) (h : w.head? = some first) :
    segsOf (a :: w) = (a, first) :: segsOf w := by
  cases w with
  | nil => simp at h
  | cons c r => simp only [List.head?_cons, Option.some.injEq] at h; subst h; rfl

theorem set_perm : ∀ (ys : List Nat) (k i x : Nat), ys[k]? = some i → (i :: ys.set k x).Perm (x :: ys)
  | [], k, i, x, h => by simp at h
  | a :: t, 0, i, x, h => by
    simp only [List.getElem?_cons_zero, Option.some.injEq] at h
    subst h
    simp only [List.set_cons_zero]
    exact List.Perm.swap _ _ _
  | a :: t, k + 1, i, x, h => by
    simp only [List.getElem?_cons_succ] at h
    simp only [List.set_cons_succ]
    have ih := set_perm t k i x h
    exact (List.Perm.swap a i _).trans ((ih.cons a).trans (List.Perm.swap x a t))

/-- `swap_remove(k)` removes exactly the element at position `k` -/
theorem swapRemove_perm {l : List Nat} {k i : Nat} (h : l[k]? = some i) :
    l.Perm (i :: swapRemove l k) := by
  have hk : k < l.length := by
    rcases List.getElem?_eq_some_iff.mp h with ⟨hk, _⟩; exact hk
  have hne : l ≠ [] := by intro e; subst e; simp at hk
  obtain ⟨ys, last, rfl⟩ : ∃ ys last, l = ys ++ [last] :=
    ⟨l.dropLast, l.getLast hne, (List.dropLast_concat_getLast hne).symm⟩
  unfold swapRemove
  rw [List.getLast?_concat]
  dsimp only
  by_cases hlast : k + 1 = (ys ++ [last]).length
  · have hb : (k + 1 == (ys ++ [last]).length) = true := by simp [hlast]
    rw [if_pos hb, List.dropLast_concat]
    have hkl : k = ys.length := by simp at hlast; omega
    subst hkl
    simp at h
    subst h
    exact List.perm_append_comm
  · have hb : (k + 1 == (ys ++ [last]).length) = false := by
      rw [beq_eq_false_iff_ne]; exact hlast
    rw [hb]
    simp only [Bool.false_eq_true, if_false]
    have hky : k < ys.length := by simp at hk hlast; omega
    rw [List.set_append_left _ _ hky, List.dropLast_concat]
    have hy : ys[k]? = some i := by
      rw [List.getElem?_append_left hky] at h; exact h
    have p1 : (ys ++ [last]).Perm (last :: ys) := List.perm_append_comm
    exact p1.trans (set_perm ys k i last hy).symm

theorem chainCandidate_spec {pairs : List Nat} {idx : List Edge} {v : Nat} {fwd : Bool} {k i : Nat}
    (h : chainCandidate pairs idx v fwd = some (k, i)) :
    pairs[k]? = some i ∧ ∃ e, idx[i]? = some e ∧ (if fwd then e.1 else e.2) = v := by
  unfold chainCandidate at h
  dsimp only at h
  split at h
  · rename_i i' k' hc
    simp only [Option.some.injEq, Prod.mk.injEq] at h
    obtain ⟨rfl, rfl⟩ := h
    have hm := hc.symm ▸ (List.mem_singleton.mpr rfl : (i', k') ∈ [(i', k')])
    rw [List.mem_filter] at hm
    obtain ⟨hz, hp⟩ := hm
    obtain ⟨hlt, hx⟩ := List.mem_zipIdx' hz
    refine ⟨?_, ?_⟩
    · rw [List.getElem?_eq_some_iff]; exact ⟨hlt, hx.symm⟩
    · dsimp only at hp
      cases he : idx[i']? with
      | none => rw [he] at hp; simp at hp
      | some e =>
        rw [he] at hp
        exact ⟨e, rfl, by simpa using hp⟩
  · simp at h

theorem remaining_perm {idx : List Edge} {p q : List Nat} (h : p.Perm q) :
    (remaining idx p).Perm (remaining idx q) := List.Perm.filterMap _ h

theorem remaining_range : ∀ idx : List Edge, remaining idx (List.range idx.length) = idx
  | [] => by simp [remaining]
  | a :: t => by
    have ih := remaining_range t
    unfold remaining at ih ⊢
    rw [List.length_cons, List.range_succ_eq_map, List.filterMap_cons]
    simp only [List.getElem?_cons_zero, List.filterMap_map]
    have : (fun i => (a :: t)[i]?) ∘ Nat.succ = fun i => t[i]? := by
      funext i; simp
    rw [this, ih]

/-- **Conservation.** Whatever the loop returns, the consecutive pairs of its chains are the pairs
    already emitted, those in the working chain and those still waiting — nothing lost, nothing
    used twice — provided the fuel covers the loop measure. -/
theorem chainLoop_conserves : ∀ (fuel : Nat) (idx : List Edge) (pairs working : List Nat) (fwd : Bool)
    (chains : List (List Nat)),
    (∀ i ∈ pairs, i < idx.length) → measure pairs working fwd ≤ fuel →
    ((chainLoop fuel idx pairs working fwd chains).flatMap segsOf).Perm
      (chains.flatMap segsOf ++ segsOf working ++ remaining idx pairs) := by
  intro fuel
  induction fuel with
  | zero =>
    intro idx pairs working fwd chains _ hm
    unfold measure at hm
    have hp : pairs = [] := by
      cases pairs with
      | nil => rfl
      | cons a r => simp at hm
    subst hp
    have hw : working.isEmpty = true := by
      by_contra hne
      simp only [Bool.not_eq_true] at hne
      rw [hne] at hm
      cases fwd <;> simp at hm
    unfold chainLoop
    rw [if_pos hw]
    have : working = [] := List.isEmpty_iff.mp hw
    subst this
    simp [remaining, segsOf]
  | succ fuel ih =>
    intro idx pairs working fwd chains hv hm
    unfold chainLoop
    by_cases hpe : pairs.isEmpty = true
    · rw [if_pos hpe]
      have : pairs = [] := List.isEmpty_iff.mp hpe
      subst this
      by_cases hw : working.isEmpty = true
      · rw [if_pos hw]
        have : working = [] := List.isEmpty_iff.mp hw
        subst this
        simp [remaining, segsOf]
      · rw [if_neg hw]
        simp [remaining, List.flatMap_append]
    · rw [if_neg hpe]
      have hpne : pairs ≠ [] := by
        intro e; apply hpe; rw [e]; rfl
      by_cases hw : working.isEmpty = true
      · -- start a new chain with the last waiting pair
        rw [if_pos hw]
        have hw0 : working = [] := List.isEmpty_iff.mp hw
        subst hw0
        obtain ⟨ys, i, rfl⟩ : ∃ ys i, pairs = ys ++ [i] :=
          ⟨pairs.dropLast, pairs.getLast hpne, (List.dropLast_concat_getLast hpne).symm⟩
        rw [List.getLast?_concat, List.dropLast_concat]
        dsimp only
        have hi : i < idx.length := hv i (by simp)
        have he : idx[i]? = some idx[i] := List.getElem?_eq_getElem hi
        rw [he]
        dsimp only
        have hv' : ∀ j ∈ ys, j < idx.length := fun j hj => hv j (by simp [hj])
        have hm' : measure ys [idx[i].1, idx[i].2] true ≤ fuel := by
          unfold measure at hm ⊢
          simp at hm ⊢
          omega
        refine (ih idx ys [idx[i].1, idx[i].2] true chains hv' hm').trans ?_
        have hr : remaining idx (ys ++ [i]) = remaining idx ys ++ [idx[i]] := by
          unfold remaining
          rw [List.filterMap_append]
          simp [he]
        rw [hr]
        show (chains.flatMap segsOf ++ [(idx[i].1, idx[i].2)] ++ remaining idx ys).Perm
          (chains.flatMap segsOf ++ [] ++ (remaining idx ys ++ [idx[i]]))
        simp only [List.append_nil, List.append_assoc]
        exact List.Perm.append_left _ List.perm_append_comm
      · rw [if_neg hw]
        have hwne : working ≠ [] := by
          intro e; apply hw; rw [e]; rfl
        by_cases hf : fwd = true
        · subst hf
          simp only [if_true]
          obtain ⟨last, hlast⟩ : ∃ last, working.getLast? = some last :=
            ⟨working.getLast hwne, List.getLast?_eq_getLast_of_ne_nil hwne⟩
          rw [hlast]
          dsimp only
          cases hc : chainCandidate pairs idx last true with
          | none =>
            dsimp only
            have hm' : measure pairs working false ≤ fuel := by
              unfold measure at hm ⊢
              simp [hw] at hm ⊢
              omega
            exact ih idx pairs working false chains hv hm'
          | some ki =>
            obtain ⟨k, i⟩ := ki
            dsimp only
            obtain ⟨hk, e, he, hsel⟩ := chainCandidate_spec hc
            simp only [if_true] at hsel
            rw [he]
            dsimp only
            have hperm := swapRemove_perm hk
            have hv' : ∀ j ∈ swapRemove pairs k, j < idx.length := fun j hj =>
              hv j (hperm.symm.subset (List.mem_cons_of_mem _ hj))
            have hlen : pairs.length = (swapRemove pairs k).length + 1 := by
              simpa using hperm.length_eq
            have hm' : measure (swapRemove pairs k) (working ++ [e.2]) true ≤ fuel := by
              unfold measure at hm ⊢
              simp [hw] at hm ⊢
              omega
            refine (ih idx _ _ true chains hv' hm').trans ?_
            rw [segsOf_append_single working last e.2 hlast]
            have hr : (remaining idx pairs).Perm (e :: remaining idx (swapRemove pairs k)) := by
              have := remaining_perm (idx := idx) hperm
              simpa [remaining, he] using this
            have hee : (last, e.2) = e := by rw [← hsel]
            rw [hee]
            simp only [List.append_assoc]
            refine List.Perm.append_left _ (List.Perm.append_left _ ?_)
            exact hr.symm
        · have hf' : fwd = false := by cases fwd <;> simp_all
          subst hf'
          simp only [Bool.false_eq_true, if_false]
          obtain ⟨first, hfirst⟩ : ∃ first, working.head? = some first := by
            cases working with
            | nil => exact absurd rfl hwne
            | cons a r => exact ⟨a, rfl⟩
          rw [hfirst]
          dsimp only
          cases hc : chainCandidate pairs idx first false with
          | none =>
            dsimp only
            have hm' : measure pairs [] true ≤ fuel := by
              unfold measure at hm ⊢
              simp [hw] at hm ⊢
              omega
            refine (ih idx pairs [] true (chains ++ [working]) hv hm').trans ?_
            simp [List.flatMap_append, segsOf]
          | some ki =>
            obtain ⟨k, i⟩ := ki
            dsimp only
            obtain ⟨hk, e, he, hsel⟩ := chainCandidate_spec hc
            simp only [Bool.false_eq_true, if_false] at hsel
            rw [he]
            dsimp only
            have hperm := swapRemove_perm hk
            have hv' : ∀ j ∈ swapRemove pairs k, j < idx.length := fun j hj =>
              hv j (hperm.symm.subset (List.mem_cons_of_mem _ hj))
            have hlen : pairs.length = (swapRemove pairs k).length + 1 := by
              simpa using hperm.length_eq
            have hm' : measure (swapRemove pairs k) (e.1 :: working) false ≤ fuel := by
              unfold measure at hm ⊢
              simp [hw] at hm ⊢
              omega
            refine (ih idx _ _ false chains hv' hm').trans ?_
            rw [segsOf_cons e.1 working first hfirst]
            have hr : (remaining idx pairs).Perm (e :: remaining idx (swapRemove pairs k)) := by
              have := remaining_perm (idx := idx) hperm
              simpa [remaining, he] using this
            have hee : (e.1, first) = e := by rw [← hsel]
            rw [hee]
            simp only [List.append_assoc]
            refine List.Perm.append_left _ ?_
            have : (e :: segsOf working ++ remaining idx (swapRemove pairs k)).Perm
                (segsOf working ++ e :: remaining idx (swapRemove pairs k)) := by
              simpa using (List.perm_middle (a := e) (l₁ := segsOf working)
                (l₂ := remaining idx (swapRemove pairs k))).symm
            exact this.trans (List.Perm.append_left _ hr.symm)

/-- **C13, chaining**: the consecutive pairs of the chains returned by `chained_indices` are a
    permutation of the input pairs — each plane–face crossing segment is used exactly once and
    consecutive vertices of a curve are always joined by one of them. -/
theorem chainedIndices_conserves (idx : List Edge) :
    ((chainedIndices idx).flatMap segsOf).Perm idx := by
  unfold chainedIndices
  have hv : ∀ i ∈ List.range idx.length, i < idx.length := fun i hi => List.mem_range.mp hi
  have hm : measure (List.range idx.length) [] true ≤ 3 * idx.length + 3 := by
    unfold measure; simp
  refine (chainLoop_conserves _ idx _ [] true [] hv hm).trans ?_
  have : remaining idx (List.range idx.length) = idx := remaining_range idx
  simp [segsOf, this]

end C13
