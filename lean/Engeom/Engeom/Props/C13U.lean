import Engeom.Props.C13S
import Engeom.Props.C13T
/-
  C13 — "every section point lies on the plane" stated about the REGENERATED pieces of
  `Mesh::plane_crossing_segments` (src/geom3/mesh/queries.rs, over ℝ): with the regenerated table of snapped
  signed distances, the regenerated point of a crossed edge lies exactly on the plane and strictly inside the edge.
-/
namespace C13U

/-- the point the regenerated code puts on a crossed edge `i–j` lies on the plane -/
theorem section_edge_point_on_plane (P : Plane3 ℝ) (eps : ℝ) (verts : List (V3 ℝ)) (i j : Nat)
    (hi : (GenRs.section_dist verts P eps).getD i 0 ≠ 0) (hj : (GenRs.section_dist verts P eps).getD j 0 ≠ 0)
    (hs : (GenRs.section_dist verts P eps).getD i 0 ≠ (GenRs.section_dist verts P eps).getD j 0) :
    P.signedDistance (GenRs.section_edge_point (verts.getD i ⟨0, 0, 0⟩) (verts.getD j ⟨0, 0, 0⟩)
      ((GenRs.section_dist verts P eps).getD i 0) ((GenRs.section_dist verts P eps).getD j 0)) = 0 := by
  rw [C13T.section_dist_eq] at hi hj hs ⊢
  rw [← C13T.section_edge_point_eq]
  exact C13.keyPoint_edge_on_plane P eps verts i j hi hj hs

/-- … at a parameter strictly between 0 and 1 when the ends are on opposite sides -/
theorem section_edge_point_inside (di dj : ℝ) (h : (di < 0 ∧ 0 < dj) ∨ (0 < di ∧ dj < 0)) :
    0 < di / (di - dj) ∧ di / (di - dj) < 1 := C13.keyPoint_edge_inside di dj h

/-- a vertex whose regenerated distance was snapped to zero is within the snap distance of the plane -/
theorem section_snapped_vertex_near_plane (P : Plane3 ℝ) (eps : ℝ) (he : 0 ≤ eps) (verts : List (V3 ℝ)) (i : Nat)
    (hi : i < verts.length) (hz : (GenRs.section_dist verts P eps).getD i 0 = 0) :
    |P.signedDistance (verts.getD i ⟨0, 0, 0⟩)| ≤ eps := by
  rw [C13T.section_dist_eq] at hz
  exact C13.keyPoint_vertex_near_plane P eps he verts i hi hz
/-! ### `Mesh::split`, the arm that returns two halves (whole-arm pattern; the halves appear as tags) -/

/-- the half the external split put first (the negative side) comes back first and the other second, each wrapped as it
    is: nothing — no welding, no de-duplication of faces — is done to a half between the split and the return -/
theorem split_returns_the_halves_as_they_are (neg pos : Nat) : GenRs.split_pair_order neg pos = (neg, pos) := rfl

/-! ### the direction given to a crossing segment (regenerated: face normal, `along`, swap test) -/

/-- **The direction does not depend on the SIZE of the face.**  Scaling a face about its first vertex by any `k > 0`
    (a part a thousand times smaller: every face normal a million times shorter) scales `along` by `k²` and leaves the
    swap decision of every segment unchanged — there is no length below which a face has "no direction". -/
theorem section_direction_scale_invariant (n p0 p1 p2 seg : V3 ℝ) (k : ℝ) (hk : 0 < k) :
    let q1 := V3.add p0 (V3.smul k (V3.sub p1 p0))
    let q2 := V3.add p0 (V3.smul k (V3.sub p2 p0))
    GenRs.section_swap_test seg (GenRs.section_along n (GenRs.section_face_normal p0 q1 q2)) =
      GenRs.section_swap_test seg (GenRs.section_along n (GenRs.section_face_normal p0 p1 p2)) := by
  intro q1 q2
  have hdot : V3.dot seg (GenRs.section_along n (GenRs.section_face_normal p0 q1 q2)) =
      (k * k) * V3.dot seg (GenRs.section_along n (GenRs.section_face_normal p0 p1 p2)) := by
    simp only [GenRs.section_along, GenRs.section_face_normal, q1, q2, V3.dot, V3.cross, V3.sub, V3.add, V3.smul]
    ring
  unfold GenRs.section_swap_test
  rw [hdot]
  have hkk : 0 < k * k := mul_pos hk hk
  rw [Bool.eq_iff_iff]
  simp only [decide_eq_true_eq]
  constructor
  · intro h; by_contra hn; push Not at hn; nlinarith [mul_nonneg hkk.le hn]
  · intro h; nlinarith

/-- and `along` is perpendicular to the plane normal: the segment direction it selects lies in the plane -/
theorem section_along_in_plane (n f : V3 ℝ) : V3.dot n (GenRs.section_along n f) = 0 := by
  simp only [GenRs.section_along, V3.dot, V3.cross]; ring

/-! ### which faces contribute to the section (the regenerated early-out of the face loop) -/

/-- With `zeros + above + below = 3` (the three vertices of the face on / above / below the plane), a face is skipped
    exactly when it neither STRADDLES the plane (a vertex strictly above and one strictly below) nor has exactly one
    EDGE in it: a face that straddles the plane, or lies against it along an edge, is never dropped here. -/
theorem face_skipped_iff (zeros above below : Nat) (h : zeros + above + below = 3) :
    GenRs.face_skipped zeros above below = true ↔ ¬ ((1 ≤ above ∧ 1 ≤ below) ∨ zeros = 2) := by
  unfold GenRs.face_skipped
  simp only [Bool.or_eq_true, Bool.and_eq_true, decide_eq_true_eq]
  omega

/-- in particular every face with a vertex strictly above and a vertex strictly below the plane goes on to emit its
    crossing segment -/
theorem straddling_face_not_skipped (zeros above below : Nat) (h : zeros + above + below = 3)
    (ha : 1 ≤ above) (hb : 1 ≤ below) : GenRs.face_skipped zeros above below = false := by
  have := (face_skipped_iff zeros above below h).not.mpr (by simp [ha, hb])
  simpa using this

example : GenRs.face_skipped 2 0 1 = false ∧ GenRs.face_skipped 1 1 1 = false ∧ GenRs.face_skipped 3 0 0 = true := by decide

end C13U
