import Engeom.Props.C13S
import Engeom.Props.C13T
/-
  C13 — "every section point lies on the plane" stated about the REGENERATED pieces of
  `Mesh::plane_crossing_segments` (src/geom3/mesh/queries.rs, over ℝ): with the regenerated table of snapped
  signed distances, the regenerated point of a crossed edge lies exactly on the plane and strictly inside the edge.
-/
namespace C13U

/-- the point the regenerated code puts on a crossed edge `i–j` lies on the plane -/
theorem section_edge_point_on_plane (P : Plane3 ℝ) (eps : ℝ) (verts : List (V3 ℝ)) (i j : Nat)
    (hi : (GenRs.section_dist verts P eps).getD i 0 ≠ 0) (hj : (GenRs.section_dist verts P eps).getD j 0 ≠ 0)
    (hs : (GenRs.section_dist verts P eps).getD i 0 ≠ (GenRs.section_dist verts P eps).getD j 0) :
    P.signedDistance (GenRs.section_edge_point (verts.getD i ⟨0, 0, 0⟩) (verts.getD j ⟨0, 0, 0⟩)
      ((GenRs.section_dist verts P eps).getD i 0) ((GenRs.section_dist verts P eps).getD j 0)) = 0 := by
  rw [C13T.section_dist_eq] at hi hj hs ⊢
  rw [← C13T.section_edge_point_eq]
  exact C13.keyPoint_edge_on_plane P eps verts i j hi hj hs

/-- … at a parameter strictly between 0 and 1 when the ends are on opposite sides -/
theorem section_edge_point_inside (di dj : ℝ) (h : (di < 0 ∧ 0 < dj) ∨ (0 < di ∧ dj < 0)) :
    0 < di / (di - dj) ∧ di / (di - dj) < 1 := C13.keyPoint_edge_inside di dj h

/-- a vertex whose regenerated distance was snapped to zero is within the snap distance of the plane -/
theorem section_snapped_vertex_near_plane (P : Plane3 ℝ) (eps : ℝ) (he : 0 ≤ eps) (verts : List (V3 ℝ)) (i : Nat)
    (hi : i < verts.length) (hz : (GenRs.section_dist verts P eps).getD i 0 = 0) :
    |P.signedDistance (verts.getD i ⟨0, 0, 0⟩)| ≤ eps := by
  rw [C13T.section_dist_eq] at hz
  exact C13.keyPoint_vertex_near_plane P eps he verts i hi hz
end C13U
