import Engeom.Model.Intersect
import Engeom.Lemmas.Basics
import Engeom.Lemmas.RealScalar
import Mathlib.Tactic.FieldSimp
import Mathlib.Tactic.Ring
import Mathlib.Tactic.LinearCombination
import Mathlib.Tactic.Positivity
/-
  C06 — Line–polyline intersection search is complete and sound.
  At ℝ (the thresholds are regenerated decimal constants, read through `Scalar.ofRat`).
-/

namespace C06

/-! obligations on the regenerated constants -/
theorem detTol_pos : (0 : ℝ) < detTol := by
  unfold detTol; rw [ofRatR]; norm_num [Gen.INTERSECT_DET_TOL_num, Gen.INTERSECT_DET_TOL_den]

theorem dedupTol_pos : (0 : ℝ) < dedupTolT := by
  unfold dedupTolT; rw [ofRatR]; norm_num [Gen.POLYLINE_DEDUP_TOL_num, Gen.POLYLINE_DEDUP_TOL_den]

/-- the slack of the slab test is non-negative (it may only ever keep MORE boxes) and tiny -/
theorem slabSlack_bounds : (0 : ℝ) ≤ slabSlack ∧ (slabSlack : ℝ) ≤ 1 / 10 ^ 6 := by
  unfold slabSlack; rw [ofRatR]; norm_num [Gen.SLAB_SLACK_num, Gen.SLAB_SLACK_den]

/-! ### intersection_param -/

theorem intersectionParam_none_iff (a0 ad b0 bd : V2 ℝ) :
    intersectionParam a0 ad b0 bd = none ↔ |bd.x * ad.y - bd.y * ad.x| < detTol := by
  unfold intersectionParam
  dsimp only
  rw [sabs_eq]
  split_ifs with h <;> simp [h]

/-- Sound: the two parameters describe the same point on both lines. -/
theorem intersectionParam_sound (a0 ad b0 bd : V2 ℝ) (t0 t1 : ℝ)
    (h : intersectionParam a0 ad b0 bd = some (t0, t1)) :
    V2.add a0 (V2.smul t0 ad) = V2.add b0 (V2.smul t1 bd) := by
  unfold intersectionParam at h
  dsimp only at h
  rw [sabs_eq] at h
  split_ifs at h with hd
  have hdet : bd.x * ad.y - bd.y * ad.x ≠ 0 := by
    intro h0; rw [h0, abs_zero] at hd; exact hd detTol_pos
  simp only [Option.some.injEq, Prod.mk.injEq] at h
  obtain ⟨rfl, rfl⟩ := h
  simp only [V2.add, V2.smul, V2.mk.injEq]
  constructor <;> field_simp <;> ring

/-- Unique: any common point of the two (non-parallel) lines has exactly these parameters. -/
theorem intersectionParam_unique (a0 ad b0 bd : V2 ℝ) (t0 t1 s u : ℝ)
    (h : intersectionParam a0 ad b0 bd = some (t0, t1))
    (hp : V2.add a0 (V2.smul s ad) = V2.add b0 (V2.smul u bd)) : s = t0 ∧ u = t1 := by
  unfold intersectionParam at h
  dsimp only at h
  rw [sabs_eq] at h
  split_ifs at h with hd
  have hdet : bd.x * ad.y - bd.y * ad.x ≠ 0 := by
    intro h0; rw [h0, abs_zero] at hd; exact hd detTol_pos
  simp only [Option.some.injEq, Prod.mk.injEq] at h
  obtain ⟨rfl, rfl⟩ := h
  simp only [V2.add, V2.smul, V2.mk.injEq] at hp
  obtain ⟨hx, hy⟩ := hp
  constructor
  · rw [eq_div_iff hdet]; linear_combination bd.x * hy - bd.y * hx
  · rw [eq_div_iff hdet]; linear_combination ad.x * hy - ad.y * hx

/-- A hit reported for an edge lies on that edge (parameter along the edge within [0, 1]) and on
    the query line. -/
theorem rayEdge_on_edge (o d v0 v1 : V2 ℝ) (t : ℝ) (h : rayEdge o d v0 v1 = some t) :
    ∃ t1, 0 ≤ t1 ∧ t1 ≤ 1 ∧ V2.add o (V2.smul t d) = V2.add v0 (V2.smul t1 (V2.sub v1 v0)) := by
  unfold rayEdge at h
  cases hp : intersectionParam o d v0 (V2.sub v1 v0) with
  | none => simp [hp] at h
  | some p =>
    obtain ⟨t0, t1⟩ := p
    simp only [hp] at h
    split_ifs at h with hc
    simp only [Option.some.injEq] at h
    subst h
    simp only [Bool.and_eq_true, decide_eq_true_eq] at hc
    exact ⟨t1, hc.1, hc.2, intersectionParam_sound _ _ _ _ _ _ hp⟩

/-- …and an edge is skipped only if the lines are near-parallel or the common point is off the edge. -/
theorem rayEdge_none (o d v0 v1 : V2 ℝ) (h : rayEdge o d v0 v1 = none) :
    intersectionParam o d v0 (V2.sub v1 v0) = none ∨
    ∃ t0 t1, intersectionParam o d v0 (V2.sub v1 v0) = some (t0, t1) ∧ (t1 < 0 ∨ 1 < t1) := by
  unfold rayEdge at h
  cases hp : intersectionParam o d v0 (V2.sub v1 v0) with
  | none => exact Or.inl rfl
  | some p =>
    obtain ⟨t0, t1⟩ := p
    right
    refine ⟨t0, t1, rfl, ?_⟩
    simp only [hp] at h
    split_ifs at h with hc
    simp only [Bool.and_eq_true, decide_eq_true_eq, not_and_or, not_le] at hc
    exact hc

/-! ### the pruning test never discards a box the line meets -/

/-- invariant carried through the axes: still a hit, and the witness parameter is bracketed -/
def SlabInv (s : SlabState ℝ) (t : ℝ) : Prop := s.hit = true ∧ s.tmin ≤ t ∧ t ≤ s.tmax

theorem slabAxis_inv (big : ℝ) (s : SlabState ℝ) (lo hi o d t : ℝ) (hs : SlabInv s t)
    (h1 : lo ≤ o + t * d) (h2 : o + t * d ≤ hi) : SlabInv (slabAxis big s lo hi o d) t := by
  obtain ⟨hh, hmin, hmax⟩ := hs
  have hsl := slabSlack_bounds.1
  unfold slabAxis
  by_cases hd : d < 0 ∨ 0 < d
  · have hcond : (decide (d < 0) || decide (0 < d)) = true := by
      rcases hd with h | h <;> simp [h]
    rw [if_pos hcond]
    dsimp only
    have hne : d ≠ 0 := by rcases hd with h | h <;> [exact h.ne; exact h.ne']
    -- the witness parameter lies between the two plane parameters
    have key : min ((lo - o) * (1 / d)) ((hi - o) * (1 / d)) ≤ t ∧ t ≤ max ((lo - o) * (1 / d)) ((hi - o) * (1 / d)) := by
      rcases hd with hneg | hpos
      · have e1 : t ≤ (lo - o) * (1 / d) := by
          rw [mul_one_div, le_div_iff_of_neg hneg]; linarith
        have e2 : (hi - o) * (1 / d) ≤ t := by
          rw [mul_one_div, div_le_iff_of_neg hneg]; linarith
        exact ⟨(min_le_right _ _).trans e2, e1.trans (le_max_left _ _)⟩
      · have e1 : (lo - o) * (1 / d) ≤ t := by
          rw [mul_one_div, div_le_iff₀ hpos]; linarith
        have e2 : t ≤ (hi - o) * (1 / d) := by
          rw [mul_one_div, le_div_iff₀ hpos]; linarith
        exact ⟨(min_le_left _ _).trans e1, e2.trans (le_max_right _ _)⟩
    -- after the swap: near' = min, far' = max
    have hswap : ∀ (n f : ℝ), (if f < n then (f, n) else (n, f)) = (min n f, max n f) := by
      intro n f
      split_ifs with hfn
      · rw [min_eq_right hfn.le, max_eq_left hfn.le]
      · rw [min_eq_left (not_lt.mp hfn), max_eq_right (not_lt.mp hfn)]
    rw [hswap]
    simp only [smax_eq, smin_eq, sabs_eq]
    refine ⟨?_, max_le hmin key.1, le_min hmax key.2⟩
    · have hle : max s.tmin (min ((lo - o) * (1 / d)) ((hi - o) * (1 / d))) ≤
          min s.tmax (max ((lo - o) * (1 / d)) ((hi - o) * (1 / d))) :=
        (max_le hmin key.1).trans (le_min hmax key.2)
      have hslack : 0 ≤ (max |max s.tmin (min ((lo - o) * (1 / d)) ((hi - o) * (1 / d)))|
          |min s.tmax (max ((lo - o) * (1 / d)) ((hi - o) * (1 / d)))| + 1) * slabSlack := by
        apply mul_nonneg _ hsl
        have := abs_nonneg (max s.tmin (min ((lo - o) * (1 / d)) ((hi - o) * (1 / d))))
        have := le_max_left |max s.tmin (min ((lo - o) * (1 / d)) ((hi - o) * (1 / d)))|
          |min s.tmax (max ((lo - o) * (1 / d)) ((hi - o) * (1 / d)))|
        linarith
      simp only [hh, Bool.true_and, decide_eq_true_eq]
      linarith
  · have hcond : ¬ (decide (d < 0) || decide (0 < d)) = true := by
      push_neg at hd; simp [not_lt.mpr hd.1, not_lt.mpr hd.2]
    rw [if_neg hcond]
    have hd0 : d = 0 := by push_neg at hd; exact le_antisymm hd.2 hd.1
    subst hd0
    simp only [mul_zero, add_zero] at h1 h2
    exact ⟨by simp [hh, h1, h2], hmin, hmax⟩

/-- Completeness of the pruning test: if SOME point `o + t·d` of the line (any sign of `t`, any
    zero direction component) lies in the box, the box is not pruned.  With parry's invariant that
    every tree node's box contains the boxes of its children, no edge whose crossing point exists is
    ever lost by the traversal. -/
theorem slab_complete (big : ℝ) (mins maxs o d : V2 ℝ) (t : ℝ) (ht : |t| ≤ big)
    (hx : mins.x ≤ o.x + t * d.x ∧ o.x + t * d.x ≤ maxs.x)
    (hy : mins.y ≤ o.y + t * d.y ∧ o.y + t * d.y ≤ maxs.y) :
    castRaySlab big mins maxs o d = true := by
  have h0 : SlabInv (⟨true, -big, big⟩ : SlabState ℝ) t :=
    ⟨rfl, by linarith [neg_abs_le t], by linarith [le_abs_self t]⟩
  have h1 := slabAxis_inv big _ mins.x maxs.x o.x d.x t h0 hx.1 hx.2
  have h2 := slabAxis_inv big _ mins.y maxs.y o.y d.y t h1 hy.1 hy.2
  exact h2.1

/-- the crossing point of an edge lies in the axis-aligned box of that edge (leaf boxes) -/
theorem edge_point_in_box (v0 v1 : V2 ℝ) (t1 : ℝ) (h0 : 0 ≤ t1) (h1 : t1 ≤ 1) :
    min v0.x v1.x ≤ v0.x + t1 * (v1.x - v0.x) ∧ v0.x + t1 * (v1.x - v0.x) ≤ max v0.x v1.x := by
  rcases le_total v0.x v1.x with h | h
  · rw [min_eq_left h, max_eq_right h]; constructor <;> nlinarith
  · rw [min_eq_right h, max_eq_left h]; constructor <;> nlinarith

/-! ### the result list -/

theorem insertByT_perm (x : ℝ × Nat) (l : List (ℝ × Nat)) : (insertByT x l).Perm (x :: l) := by
  induction l with
  | nil => simp [insertByT]
  | cons a r ih =>
    unfold insertByT
    split_ifs
    · exact (List.Perm.cons a ih).trans (List.Perm.swap _ _ _)
    · exact List.Perm.refl _

/-- sorting loses and invents nothing -/
theorem sortByT_perm (l : List (ℝ × Nat)) : (sortByT l).Perm l := by
  induction l with
  | nil => exact List.Perm.refl _
  | cons a r ih =>
    simp only [sortByT, List.foldr_cons] at ih ⊢
    exact (insertByT_perm a _).trans (List.Perm.cons a ih)

theorem insertByT_sorted (x : ℝ × Nat) (l : List (ℝ × Nat)) (h : l.Pairwise (fun a b => a.1 ≤ b.1)) :
    (insertByT x l).Pairwise (fun a b => a.1 ≤ b.1) := by
  induction l with
  | nil => simp [insertByT]
  | cons a r ih =>
    have h' := List.pairwise_cons.mp h
    unfold insertByT
    split_ifs with hx
    · refine List.pairwise_cons.mpr ⟨?_, ih h'.2⟩
      intro b hb
      rcases (insertByT_perm x r).mem_iff.mp hb |> List.mem_cons.mp with rfl | hb
      · exact hx.le
      · exact h'.1 b hb
    · refine List.pairwise_cons.mpr ⟨?_, h⟩
      intro b hb
      rcases List.mem_cons.mp hb with rfl | hb
      · exact not_lt.mp hx
      · exact (not_lt.mp hx).trans (h'.1 b hb)

/-- the list is ascending in the parameter -/
theorem sortByT_sorted (l : List (ℝ × Nat)) : (sortByT l).Pairwise (fun a b => a.1 ≤ b.1) := by
  induction l with
  | nil => simp [sortByT]
  | cons a r ih =>
    simp only [sortByT, List.foldr_cons] at ih ⊢
    exact insertByT_sorted a _ ih

/-- A spanning ray is produced exactly when there are two crossings. -/
theorem spanning_iff_two (verts : List (V2 ℝ)) (o d : V2 ℝ) :
    (spanningRay verts o d).isSome = true ↔ (naiveIntersections verts o d).length = 2 := by
  unfold spanningRay
  cases h : naiveIntersections verts o d with
  | nil => simp
  | cons a r =>
    cases r with
    | nil => simp
    | cons b r =>
      cases r with
      | nil => simp
      | cons c r => simp

/-- …its two ends are the points of the query line at the two crossing parameters, so it keeps
    the direction of the line: `end − start = (t₂ − t₁)·d`. -/
theorem spanning_direction (verts : List (V2 ℝ)) (o d p q : V2 ℝ) (h : spanningRay verts o d = some (p, q)) :
    ∃ t1 t2, V2.sub q p = V2.smul (t2 - t1) d ∧ p = V2.add o (V2.smul t1 d) := by
  unfold spanningRay at h
  cases hn : naiveIntersections verts o d with
  | nil => simp [hn] at h
  | cons a r =>
    cases r with
    | nil => simp [hn] at h
    | cons b r =>
      cases r with
      | cons c r => simp [hn] at h
      | nil =>
        simp only [hn, Option.some.injEq, Prod.mk.injEq] at h
        obtain ⟨rfl, rfl⟩ := h
        refine ⟨a.1, b.1, ?_, rfl⟩
        simp only [V2.sub, V2.add, V2.smul, V2.mk.injEq]
        constructor <;> ring

/-! non-vacuity: a crossing pair -/
example : intersectionParam (⟨0, 0⟩ : V2 ℝ) ⟨1, 0⟩ ⟨2, -1⟩ ⟨0, 2⟩ = some (2, 1 / 2) := by
  unfold intersectionParam
  have hd : ¬ sabs ((0 : ℝ) * 0 - 2 * 1) < detTol := by
    rw [sabs_eq]; unfold detTol; rw [ofRatR]
    norm_num [Gen.INTERSECT_DET_TOL_num, Gen.INTERSECT_DET_TOL_den]
  simp only [hd, if_false]
  norm_num

end C06
