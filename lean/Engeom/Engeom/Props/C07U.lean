import Engeom.Props.C07
import Engeom.Props.C07T
/-
  C07 — "transform and residuals always describe the same state" stated with the REGENERATED residual entry of
  `PointsToMesh::residuals` / `PointsToCurve::residuals`: whatever sequence of `set_params` / `residuals` /
  `jacobian` calls the solver makes, the i-th residual read from the problem afterwards is the regenerated
  mode-specific distance between the i-th input point moved by the CURRENT parameters and its closest reference
  point.  `C07.final_residuals_honest` with the `resid` of the model problems replaced by the regenerated
  function (the equalities of Props/C07T are definitional).
-/
namespace C07U
open AlignProblem
variable {α : Type} [Add α] [Sub α] [Mul α] [Div α] [Neg α] [LT α] [LE α]
  [DecidableLT α] [DecidableLE α] [OfNat α 0] [OfNat α 1] [OfNat α 2] [Scalar α]

/-- 3-D, plane mode -/
theorem residuals3_plane_honest (verts : List (V3 α)) (faces : List (Nat × Nat × Nat)) (pts : List (V3 α)) (rcD : V3 α)
    (x0 : List α) (ops : List (AlignOp (List α))) :
    let pb := problem3 true verts faces pts rcD
    let s := pb.run (pb.refresh x0) ops
    pb.residuals s = pb.points.map fun p => GenRs.residual3 (pb.move s.x p) (pb.closest (pb.move s.x p)).1 .toPlane :=
  C07.final_residuals_honest (problem3 true verts faces pts rcD) x0 ops

/-- 3-D, point mode -/
theorem residuals3_point_honest (verts : List (V3 α)) (faces : List (Nat × Nat × Nat)) (pts : List (V3 α)) (rcD : V3 α)
    (x0 : List α) (ops : List (AlignOp (List α))) :
    let pb := problem3 false verts faces pts rcD
    let s := pb.run (pb.refresh x0) ops
    pb.residuals s = pb.points.map fun p => GenRs.residual3 (pb.move s.x p) (pb.closest (pb.move s.x p)).1 .toPoint :=
  C07.final_residuals_honest (problem3 false verts faces pts rcD) x0 ops

/-- 2-D -/
theorem residuals2_honest (verts pts : List (V2 α)) (x0 : α × α × α) (ops : List (AlignOp (α × α × α))) :
    let pb := problem2 verts pts
    let s := pb.run (pb.refresh x0) ops
    pb.residuals s = pb.points.map fun p => GenRs.residual2 (pb.move s.x p) (pb.closest (pb.move s.x p)).1 :=
  C07.final_residuals_honest (problem2 verts pts) x0 ops
/-! ### which rows the solver is handed in each distance mode (regenerated dispatch of `jacobian()`; the two row
functions appear as tags) -/

/-- the rows match the residuals: distance to the closest POINT → the point-distance rows (of the closest point),
    distance to the closest PLANE → the plane-distance rows (of the closest surface point) — never the other way round,
    never the same rows for both -/
theorem jacobian_rows_match_the_residual_mode (tp tq : Nat) :
    GenRs.jacobian_dispatch3 DistMode.toPoint tp tq = tp ∧ GenRs.jacobian_dispatch3 DistMode.toPlane tp tq = tq :=
  ⟨rfl, rfl⟩

end C07U
