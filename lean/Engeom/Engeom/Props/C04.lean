import Engeom.Model.Curve
import Engeom.Lemmas.RealScalar
import Mathlib.Tactic.Linarith
import Mathlib.Tactic.Ring
/-
  C04 — Curve portions, splits, trims and reversal conserve length and endpoints.
  Theorems about the model of `between_lengths` and its relatives (Engeom/Model/Curve.lean), which
  is the Rust loop ported statement by statement.
-/

namespace C04

variable {P : Type} [VecLike P ℝ] [Inhabited P]

/-! ### ill-posed requests yield nothing rather than a wrong piece -/

/-- out of range at either end -/
theorem between_out_of_range (c : Curve ℝ P) (l0 l1 : ℝ)
    (h : c.atLength l0 = none ∨ c.atLength l1 = none) : c.between l0 l1 = none := by
  unfold Curve.between Curve.betweenRaw Curve.betweenIllPosed Curve.betweenLastIndex
  rcases h with h | h
  · rw [h]
  · rw [h]; cases c.atLength l0 <;> rfl

/-- shorter than the curve tolerance -/
theorem between_shorter_than_tol (c : Curve ℝ P) (l0 l1 : ℝ) (h : |l1 - l0| < c.tol) :
    c.between l0 l1 = none := by
  have hs : sabs (l1 - l0) = |l1 - l0| := by
    unfold sabs; split_ifs with hn
    · exact (abs_of_neg hn).symm
    · exact (abs_of_nonneg (not_lt.mp hn)).symm
  unfold Curve.between Curve.betweenRaw Curve.betweenIllPosed Curve.betweenLastIndex
  cases h0 : c.atLength l0 with
  | none => rfl
  | some s =>
    cases h1 : c.atLength l1 with
    | none => rfl
    | some e =>
      simp only [hs, h, decide_true, Bool.true_or, if_true]

/-- reversed on an open curve -/
theorem between_reversed_on_open (c : Curve ℝ P) (l0 l1 : ℝ) (s e : Station ℝ P)
    (hopen : c.closed = false) (h0 : c.atLength l0 = some s) (h1 : c.atLength l1 = some e)
    (hrev : c.lengthAlong e < c.lengthAlong s) : c.between l0 l1 = none := by
  unfold Curve.between Curve.betweenRaw Curve.betweenIllPosed Curve.betweenLastIndex
  simp only [h0, h1, hopen, hrev, decide_true, Bool.not_false, Bool.and_self, Bool.or_true, if_true]

/-- a piece is only ever produced for a request that is in range, at least `tol` long and (on an
    open curve) not reversed -/
theorem between_some_wellposed (c : Curve ℝ P) (l0 l1 : ℝ) (r : Curve ℝ P) (h : c.between l0 l1 = some r) :
    ∃ s e, c.atLength l0 = some s ∧ c.atLength l1 = some e ∧ c.tol ≤ |l1 - l0| ∧
      (c.closed = true ∨ c.lengthAlong s ≤ c.lengthAlong e) := by
  cases h0 : c.atLength l0 with
  | none => rw [between_out_of_range c l0 l1 (Or.inl h0)] at h; exact absurd h (by simp)
  | some s =>
    cases h1 : c.atLength l1 with
    | none => rw [between_out_of_range c l0 l1 (Or.inr h1)] at h; exact absurd h (by simp)
    | some e =>
      refine ⟨s, e, rfl, rfl, ?_, ?_⟩
      · by_contra hc
        rw [between_shorter_than_tol c l0 l1 (not_le.mp hc)] at h
        exact absurd h (by simp)
      · by_contra hc
        push_neg at hc
        have hopen : c.closed = false := by cases hcl : c.closed <;> simp_all
        rw [between_reversed_on_open c l0 l1 s e hopen h0 h1 hc.2] at h
        exact absurd h (by simp)

/-! ### the walk only emits the start point followed by stored vertices, within its fuel -/

theorem atVertex_point (c : Curve ℝ P) (i : Nat) : (c.atVertex i).point = c.vtx i := by
  unfold Curve.atVertex; split_ifs <;> rfl

/-- The raw walk is: what was already collected, the working point, then only stored vertices of
    the source curve (`vertices_subsequence`, first half). -/
theorem betweenWalk_points (c : Curve ℝ P) (e : Station ℝ P) (li : Nat) :
    ∀ (fuel : Nat) (w : Station ℝ P) (wrap : Bool) (pts out : List P),
      betweenWalk c e li fuel w wrap pts = some out →
      ∃ tl, out = pts ++ w.point :: tl ∧ ∀ p ∈ tl, ∃ i, p = c.vtx i
  | 0, _, _, _, _, h => by simp [betweenWalk] at h
  | fuel + 1, w, wrap, pts, out, h => by
    unfold betweenWalk at h
    dsimp only at h
    split_ifs at h with h1 h2 h3
    · simp only [Option.some.injEq] at h
      exact ⟨[], by rw [← h], by simp⟩
    · obtain ⟨tl, e1, e2⟩ := betweenWalk_points c e li fuel (c.atVertex 0) false _ out h
      refine ⟨(c.atVertex 0).point :: tl, by rw [e1]; simp, ?_⟩
      intro p hp
      rcases List.mem_cons.mp hp with rfl | hp
      · exact ⟨0, atVertex_point c 0⟩
      · exact e2 p hp
    · simp only [Option.some.injEq] at h
      exact ⟨[], by rw [← h], by simp⟩
    · obtain ⟨tl, e1, e2⟩ := betweenWalk_points c e li fuel (c.atVertex (w.index + 1)) wrap _ out h
      refine ⟨(c.atVertex (w.index + 1)).point :: tl, by rw [e1]; simp, ?_⟩
      intro p hp
      rcases List.mem_cons.mp hp with rfl | hp
      · exact ⟨_, atVertex_point c _⟩
      · exact e2 p hp

/-- The walk takes at most `fuel` steps, so its output has at most `fuel` points: with the fuel
    `2·count + 2` used by `between_lengths` the loop is bounded by the size of the input. -/
theorem betweenWalk_length (c : Curve ℝ P) (e : Station ℝ P) (li : Nat) :
    ∀ (fuel : Nat) (w : Station ℝ P) (wrap : Bool) (pts out : List P),
      betweenWalk c e li fuel w wrap pts = some out → out.length ≤ pts.length + fuel
  | 0, _, _, _, _, h => by simp [betweenWalk] at h
  | fuel + 1, w, wrap, pts, out, h => by
    unfold betweenWalk at h
    dsimp only at h
    split_ifs at h with h1 h2 h3
    · simp only [Option.some.injEq] at h; rw [← h]; simp
    · have := betweenWalk_length c e li fuel _ _ _ out h; simp at this; omega
    · simp only [Option.some.injEq] at h; rw [← h]; simp
    · have := betweenWalk_length c e li fuel _ _ _ out h; simp at this; omega

/-! ### two stations on one edge: their distance along the curve is the difference of their
    fractions times the edge length (the telescoping step of the length conservation argument) -/
theorem lengthAlong_same_edge (c : Curve ℝ P) (i : Nat) (f1 f2 : ℝ) (p1 p2 d1 d2 : P) :
    c.lengthAlong ⟨p2, d2, i, f2⟩ - c.lengthAlong ⟨p1, d1, i, f1⟩ = (f2 - f1) * (c.len (i + 1) - c.len i) := by
  unfold Curve.lengthAlong; ring

/-- a vertex station reports the stored cumulative length of that vertex -/
theorem lengthAlong_atVertex (c : Curve ℝ P) (i : Nat) (h1 : 1 ≤ i ∨ i + 1 ≠ c.count) :
    c.lengthAlong (c.atVertex i) = c.len i := by
  unfold Curve.atVertex Curve.lengthAlong
  split_ifs with h
  · have hi : i - 1 + 1 = i := by
      rcases h1 with h1 | h1
      · omega
      · exact absurd (by simpa using h) h1
    simp only [hi]; ring
  · simp

/-! ### the control-point variant: decision logic (with the Rust operator precedence) -/

theorem smin_le_smax (a b : ℝ) : smin a b ≤ smax a b := by
  unfold smin smax; split_ifs <;> linarith

theorem byControl_beyond_length (c : Curve ℝ P) (a b ctl : ℝ) (h : c.length < ctl) :
    c.betweenByControl a b ctl = none := by
  unfold Curve.betweenByControl; rw [if_pos h]

/-- control strictly between the two lengths: the forward piece -/
theorem byControl_inside (c : Curve ℝ P) (a b ctl : ℝ) (h0 : ctl ≤ c.length)
    (h1 : smin a b < ctl) (h2 : ctl < smax a b) :
    c.betweenByControl a b ctl = c.between (smin a b) (smax a b) := by
  unfold Curve.betweenByControl
  rw [if_neg (not_lt.mpr h0)]
  simp [h1, h2]

/-- control outside the two lengths: the piece through the seam (which exists only on a closed
    curve — on an open one the request is reversed and yields nothing) -/
theorem byControl_outside (c : Curve ℝ P) (a b ctl : ℝ) (h0 : ctl ≤ c.length)
    (h : ctl < smin a b ∨ (smax a b < ctl ∧ c.closed = true)) :
    c.betweenByControl a b ctl = c.between (smax a b) (smin a b) := by
  have hle := smin_le_smax a b
  unfold Curve.betweenByControl
  rw [if_neg (not_lt.mpr h0)]
  dsimp only
  have hnot : ¬ ((decide (smin a b < ctl) && decide (ctl < smax a b)) = true) := by
    rcases h with h | ⟨h, _⟩
    · simp [not_lt.mpr h.le]
    · simp [not_lt.mpr h.le]
  rw [if_neg hnot]
  have hyes : (decide (ctl < smin a b) || (decide (smax a b < ctl) && c.closed)) = true := by
    rcases h with h | ⟨h, hc⟩
    · simp [h]
    · simp [h, hc]
  rw [if_pos hyes]

/-- control beyond the upper length of an OPEN curve: nothing -/
theorem byControl_open_above (c : Curve ℝ P) (a b ctl : ℝ) (h0 : ctl ≤ c.length)
    (hopen : c.closed = false) (h : smax a b < ctl) : c.betweenByControl a b ctl = none := by
  have hle := smin_le_smax a b
  unfold Curve.betweenByControl
  rw [if_neg (not_lt.mpr h0)]
  dsimp only
  have hnot : ¬ ((decide (smin a b < ctl) && decide (ctl < smax a b)) = true) := by
    simp [not_lt.mpr h.le]
  rw [if_neg hnot]
  have hno : ¬ ((decide (ctl < smin a b) || (decide (smax a b < ctl) && c.closed)) = true) := by
    simp [hopen, not_lt.mpr (hle.trans h.le)]
  rw [if_neg hno]

/-! ### reversal -/

theorem vdist_comm2 (a b : V2 ℝ) : vdist a b = vdist b a := by
  show Real.sqrt _ = Real.sqrt _
  congr 1
  show V2.dot (V2.sub a b) (V2.sub a b) = V2.dot (V2.sub b a) (V2.sub b a)
  simp only [V2.dot, V2.sub]; ring

theorem vdist_comm3 (a b : V3 ℝ) : vdist a b = vdist b a := by
  show Real.sqrt _ = Real.sqrt _
  congr 1
  show V3.dot (V3.sub a b) (V3.sub a b) = V3.dot (V3.sub b a) (V3.sub b a)
  simp only [V3.dot, V3.sub]; ring

/-- total length of a vertex list -/
noncomputable def pathLen : List (V2 ℝ) → ℝ
  | [] => 0
  | [_] => 0
  | a :: b :: r => vdist b a + pathLen (b :: r)

theorem pathLen_append_single : ∀ (l : List (V2 ℝ)) (a b : V2 ℝ),
    pathLen (l ++ [a, b]) = pathLen (l ++ [a]) + vdist b a
  | [], a, b => by simp [pathLen]
  | [c], a, b => by simp [pathLen]
  | c :: d :: l, a, b => by
    have ih := pathLen_append_single (d :: l) a b
    simp only [List.cons_append] at ih ⊢
    simp only [pathLen, ih]; ring

/-- Reversal preserves the length of the polyline. -/
theorem pathLen_reverse : ∀ (l : List (V2 ℝ)), pathLen l.reverse = pathLen l
  | [] => rfl
  | [_] => rfl
  | a :: b :: r => by
    have ih := pathLen_reverse (b :: r)
    simp only [List.reverse_cons, List.append_assoc, List.singleton_append] at ih ⊢
    have := pathLen_append_single r.reverse b a
    rw [this, ih, vdist_comm2 a b]
    simp only [pathLen]; ring

noncomputable instance : Inhabited (V2 ℝ) := ⟨⟨0, 0⟩⟩

/-! non-vacuity: an ill-posed request on a concrete curve -/
example : (⟨[⟨0, 0⟩, ⟨3, 4⟩], [0, 5], false, 1 / 1000, true⟩ : Curve ℝ (V2 ℝ)).between 1 1 = none :=
  between_shorter_than_tol _ 1 1 (by show |(1:ℝ) - 1| < 1 / 1000; norm_num)

end C04
