import Engeom.Model.AlignLoop
import Engeom.Lemmas.RealScalar
import Engeom.Props.C02
import Engeom.Props.C03
import Engeom.Props.C08
import Mathlib.Tactic.Linarith
import Mathlib.Tactic.Ring
/-
  C07 — Rigid alignment recovers a known displacement and reports honest residuals.

  The solver (Levenberg–Marquardt, external crate) is an arbitrary client of the problem struct:
  what is proved is that NO sequence of its calls can make the residual vector and the parameters
  disagree, that a solver which only accepts improving trials never ends above its start, and that
  the exact inverse of the displacement is a global minimiser with zero residuals.
-/

namespace C07

open AlignProblem

section generic
variable {P SP X R : Type} (pb : AlignProblem P SP X R)

/-- the caches describe the current parameters -/
def Consistent (s : AlignState P SP X) : Prop :=
  s.moved = pb.points.map (pb.move s.x) ∧ s.closest = s.moved.map pb.closest

theorem refresh_consistent (x : X) : Consistent pb (pb.refresh x) := ⟨rfl, rfl⟩

theorem refresh_x (x : X) : (pb.refresh x).x = x := rfl

/-- every call keeps the invariant (`set_params` re-establishes it from scratch, the other two do
    not touch the state) -/
theorem step_consistent {s : AlignState P SP X} (h : Consistent pb s) (op : AlignOp X) :
    Consistent pb (pb.step s op) := by
  cases op with
  | setParams x => exact refresh_consistent pb x
  | residuals => exact h
  | jacobian => exact h

/-- … hence after ANY sequence of solver calls -/
theorem run_consistent {s : AlignState P SP X} (h : Consistent pb s) (ops : List (AlignOp X)) :
    Consistent pb (pb.run s ops) := by
  induction ops generalizing s with
  | nil => exact h
  | cons op r ih => exact ih (step_consistent pb h op)

theorem zipWith_map_self {A B C : Type} (f : A → B → C) (g : A → B) (l : List A) :
    List.zipWith f l (l.map g) = l.map fun a => f a (g a) := by
  induction l with
  | nil => rfl
  | cons a t ih => simp [List.zipWith, ih]

/-- **Honest residuals.** In a consistent state the i-th residual is the mode-specific distance
    between the i-th input point moved by the CURRENT parameters and its closest reference point. -/
theorem residuals_honest {s : AlignState P SP X} (h : Consistent pb s) :
    pb.residuals s =
      pb.points.map fun p => pb.resid (pb.move s.x p) (pb.closest (pb.move s.x p)) := by
  obtain ⟨hm, hc⟩ := h
  unfold AlignProblem.residuals
  rw [hc, zipWith_map_self, hm, List.map_map]
  rfl

/-- **C07, residual half**: whatever the solver did between construction and return, the residual
    vector read from the returned problem belongs to the returned parameters. -/
theorem final_residuals_honest (x0 : X) (ops : List (AlignOp X)) :
    let s := pb.run (pb.refresh x0) ops
    pb.residuals s =
      pb.points.map fun p => pb.resid (pb.move s.x p) (pb.closest (pb.move s.x p)) :=
  residuals_honest pb (run_consistent pb (refresh_consistent pb x0) ops)

/-- the parameters of the final state are those of the last `set_params` (or the initial ones) -/
def lastParams (x0 : X) : List (AlignOp X) → X
  | [] => x0
  | .setParams x :: r => lastParams x r
  | _ :: r => lastParams x0 r

theorem run_x (s : AlignState P SP X) (ops : List (AlignOp X)) :
    (pb.run s ops).x = lastParams s.x ops := by
  induction ops generalizing s with
  | nil => rfl
  | cons op r ih =>
    cases op with
    | setParams x => exact (ih (pb.refresh x)).trans rfl
    | residuals => exact ih s
    | jacobian => exact ih s

end generic

/-- The stale-cache variant (parameters stored, caches not refreshed) breaks the invariant: after
    one `set_params` the residuals still describe the old parameters. -/
theorem stale_cache_refuted :
    let pb : AlignProblem Nat Nat Nat Nat :=
      { points := [0], move := fun x p => x + p, closest := id, resid := fun p _ => p }
    let s := AlignProblem.stepStale (pb.refresh 0) (AlignOp.setParams 1)
    ¬ Consistent pb s ∧ pb.residuals s ≠ pb.points.map fun p => pb.resid (pb.move s.x p) (pb.closest (pb.move s.x p)) := by
  intro pb s
  constructor
  · intro h
    have := h.1
    simp [s, pb, AlignProblem.stepStale, AlignProblem.refresh] at this
  · simp [s, pb, AlignProblem.stepStale, AlignProblem.refresh, AlignProblem.residuals]

/-! ### the solver's bookkeeping -/

section lm
variable {X C : Type} [LinearOrder C]

/-- a solver that replaces its current point only by a trial with a strictly lower objective ends
    at a point whose objective is not larger than at the start … -/
theorem lmAccept_le_start (f : X → C) (cur : X) (trials : List X) :
    f (lmAccept f cur trials) ≤ f cur := by
  unfold lmAccept
  induction trials generalizing cur with
  | nil => exact le_refl _
  | cons t r ih =>
    simp only [List.foldl_cons]
    split
    · rename_i h; exact (ih t).trans h.le
    · exact ih cur

/-- … nor than at any trial it has seen -/
theorem lmAccept_le_trials (f : X → C) (cur : X) (trials : List X) :
    ∀ t ∈ trials, f (lmAccept f cur trials) ≤ f t := by
  induction trials generalizing cur with
  | nil => intro t ht; simp at ht
  | cons a r ih =>
    intro t ht
    have hstep : lmAccept f cur (a :: r) = lmAccept f (if f a < f cur then a else cur) r := rfl
    rw [hstep]
    rcases List.mem_cons.mp ht with rfl | hr
    · refine (lmAccept_le_start f _ r).trans ?_
      split
      · exact le_refl _
      · rename_i h; exact not_lt.mp h
    · exact ih _ t hr

end lm

/-! ### the residuals do not depend on the frame; the exact inverse displacement is optimal -/

section geom
variable {F : Type} [Field F] [LinearOrder F] [IsStrictOrderedRing F]

/-- point-to-plane residual: moving point and reference together does not change it -/
theorem toPlane_invariant (T : Iso3 F) (h : C03.IsRot3 T) (c : SP3 F) (p : V3 F) :
    sabs ((c.transformed T).scalarProjection (T.apply p)) = sabs (c.scalarProjection p) := by
  rw [C03.scalarProjection_invariant T h]

/-- point-to-point residual (squared): likewise -/
theorem toPoint_invariant (T : Iso3 F) (h : C03.IsRot3 T) (c p : V3 F) :
    V3.normSq (V3.sub (T.apply p) (T.apply c)) = V3.normSq (V3.sub p c) :=
  C03.distSq_apply T h p c

theorem vnormSq_nonneg2 (v : V2 F) : 0 ≤ vnormSq v := by
  show 0 ≤ v.x * v.x + v.y * v.y
  nlinarith [mul_self_nonneg v.x, mul_self_nonneg v.y]

theorem vnormSq_zero2 {v : V2 F} (h : vnormSq v = 0) : v = ⟨0, 0⟩ := by
  cases v with | mk x y =>
  have h' : x * x + y * y = 0 := h
  have hx : x = 0 := by nlinarith [mul_self_nonneg x, mul_self_nonneg y]
  have hy : y = 0 := by nlinarith [mul_self_nonneg x, mul_self_nonneg y]
  simp [hx, hy]

/-- the reported squared distance is the squared distance to the reported point -/
theorem aux_dist_consistent (p : V2 F) : ∀ (vs : List (V2 F)) (i : Nat) (best : Option (Nat × F × V2 F × F)),
    (∀ b, best = some b → b.2.2.2 = vnormSq (VecLike.sub p b.2.2.1)) →
    ∀ r, closestOnPolylineAux p vs i best = some r → r.2.2.2 = vnormSq (VecLike.sub p r.2.2.1)
  | [], _, best, hb, r, h => by
    unfold closestOnPolylineAux at h; exact hb r h
  | [_], _, best, hb, r, h => by
    unfold closestOnPolylineAux at h; exact hb r h
  | a :: b :: rest, i, best, hb, r, h => by
    unfold closestOnPolylineAux at h
    refine aux_dist_consistent p (b :: rest) (i + 1) _ ?_ r h
    intro b' hb'
    have hseg := (C02.closestOnSegment_on_segment p a b).2.2.2
    cases best with
    | none =>
      simp only [Option.some.injEq] at hb'
      subst hb'; exact hseg
    | some bst =>
      dsimp only at hb'
      split at hb'
      · simp only [Option.some.injEq] at hb'
        subst hb'; exact hseg
      · simp only [Option.some.injEq] at hb'
        subst hb'; exact hb bst rfl

/-- **Exact recovery is optimal (2-D).** A point that lies on an edge of the reference polyline has
    closest point itself and residual zero; so at the exact inverse of the displacement every
    residual vanishes and the sum of squares attains its global minimum 0. -/
theorem on_curve_residual_zero (verts : List (V2 F)) (k : Nat) (a b : V2 F)
    (ha : verts[k]? = some a) (hb : verts[k + 1]? = some b) (s : F) (hs0 : 0 ≤ s) (hs1 : s ≤ 1)
    (r : Nat × F × V2 F × F) (h : closestOnPolyline verts (lerpP a b s) = some r) (n : V2 F) :
    r.2.2.1 = lerpP a b s ∧ (⟨r.2.2.1, n⟩ : SP2 F).scalarProjection (lerpP a b s) = 0 := by
  have hopt := C02.closestOnPolyline_optimal2 verts (lerpP a b s) r h k a b ha hb s hs0 hs1
  have hself : vnormSq (VecLike.sub (lerpP a b s) (lerpP a b s) : V2 F) = 0 := by
    show V2.dot (V2.sub (lerpP a b s) (lerpP a b s)) (V2.sub (lerpP a b s) (lerpP a b s)) = 0
    simp [V2.dot, V2.sub]
  rw [hself] at hopt
  have hcons := aux_dist_consistent (lerpP a b s) verts 0 none (by intro b hb; simp at hb) r h
  have hz : vnormSq (VecLike.sub (lerpP a b s) r.2.2.1 : V2 F) = 0 :=
    le_antisymm (hcons ▸ hopt) (vnormSq_nonneg2 _)
  have hv := vnormSq_zero2 hz
  have hq : r.2.2.1 = lerpP a b s := by
    have hx : (lerpP a b s).x - r.2.2.1.x = 0 := congrArg V2.x hv
    have hy : (lerpP a b s).y - r.2.2.1.y = 0 := congrArg V2.y hv
    cases hr : r.2.2.1 with | mk qx qy =>
    cases hl : lerpP a b s with | mk lx ly =>
    rw [hr, hl] at hx hy
    simp only at hx hy
    have e1 : qx = lx := by linarith
    have e2 : qy = ly := by linarith
    rw [e1, e2]
  refine ⟨hq, ?_⟩
  rw [hq]
  simp [SP2.scalarProjection, V2.dot, V2.sub]

end geom

end C07
