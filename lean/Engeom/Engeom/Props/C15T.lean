import Engeom.Generated.RsC15
import Mathlib.Order.Basic
import Mathlib.Order.Defs.LinearOrder
/-
  C15 — translation tie, with the theorem stated about the REGENERATED code.
  `farthest_pair_indices` (src/geom2/hull.rs: two nested `for` loops keeping the first strict maximum of
  the distance and its index pair) is regenerated from the /repo working tree on every run and is the
  scan `farthestScan` of the model instantiated with the distance between hull vertices (`rfl`).
  `farthestScan_maximal`: for every measure `D` with `D ≥ 0` and `D 0 0 = 0` (a distance), over any
  linear order, the pair returned by the scan attains the maximum of `D` over all `i < j < n`; hence
  `farthest_pair_is_diameter`: the pair the regenerated function returns is a farthest pair.
  A change of the loops (bounds, the comparison, an early exit) changes the regenerated definition and
  the equality no longer checks.
-/
namespace C15T
set_option linter.unusedSectionVars false

section Tie
variable {α : Type} [Add α] [Sub α] [Mul α] [Div α] [Neg α] [LT α] [LE α]
  [DecidableLT α] [DecidableLE α] [OfNat α 0] [OfNat α 1] [OfNat α 2] [Scalar α] [Inhabited α] [Inhabited (V2 α)]

theorem farthest_pair_indices_eq (hull : List (V2 α)) :
    GenRs.farthest_pair_indices hull
      = (farthestScan (fun i j => dist2 (hull.getD i default) (hull.getD j default)) hull.length).2 := rfl
end Tie

section Max
variable {α : Type} [LinearOrder α] [OfNat α 0]

/-- what the running state of the scan records: the measure of the recorded pair (or nothing yet) -/
def Rec (D : Nat → Nat → α) (st : α × (Nat × Nat)) : Prop :=
  st.1 = D st.2.1 st.2.2 ∨ (st.1 = 0 ∧ st.2 = (0, 0))

theorem inner_scan (D : Nat → Nat → α) (i : Nat) (js : List Nat) (st : α × (Nat × Nat)) (hst : Rec D st) :
    let r := js.foldl (fun (st : α × (Nat × Nat)) j => if st.1 < D i j then (D i j, (i, j)) else st) st
    st.1 ≤ r.1 ∧ Rec D r ∧ ∀ j ∈ js, D i j ≤ r.1 := by
  induction js generalizing st with
  | nil => exact ⟨le_refl _, hst, fun j hj => absurd hj (List.not_mem_nil)⟩
  | cons a rest ih =>
    simp only [List.foldl_cons]
    by_cases h : st.1 < D i a
    · rw [if_pos h]
      have hrec : Rec D (D i a, (i, a)) := Or.inl rfl
      obtain ⟨h1, h2, h3⟩ := ih (D i a, (i, a)) hrec
      refine ⟨le_trans (le_of_lt h) h1, h2, ?_⟩
      intro j hj
      rcases List.mem_cons.mp hj with hj | hj
      · subst hj; exact h1
      · exact h3 j hj
    · rw [if_neg h]
      obtain ⟨h1, h2, h3⟩ := ih st hst
      refine ⟨h1, h2, ?_⟩
      intro j hj
      rcases List.mem_cons.mp hj with hj | hj
      · subst hj; exact le_trans (not_lt.mp h) h1
      · exact h3 j hj

theorem outer_scan (D : Nat → Nat → α) (n : Nat) (is : List Nat) (st : α × (Nat × Nat)) (hst : Rec D st) :
    let r := is.foldl (fun (st : α × (Nat × Nat)) i =>
      (List.range' (i + 1) (n - (i + 1))).foldl (fun (st : α × (Nat × Nat)) j =>
        if st.1 < D i j then (D i j, (i, j)) else st) st) st
    st.1 ≤ r.1 ∧ Rec D r ∧ ∀ i ∈ is, ∀ j, i < j → j < n → D i j ≤ r.1 := by
  induction is generalizing st with
  | nil => exact ⟨le_refl _, hst, fun i hi => absurd hi (List.not_mem_nil)⟩
  | cons a rest ih =>
    simp only [List.foldl_cons]
    obtain ⟨i1, i2, i3⟩ := inner_scan D a (List.range' (a + 1) (n - (a + 1))) st hst
    obtain ⟨o1, o2, o3⟩ := ih _ i2
    refine ⟨le_trans i1 o1, o2, ?_⟩
    intro i hi j hij hjn
    rcases List.mem_cons.mp hi with hi | hi
    · subst hi
      have hj : j ∈ List.range' (i + 1) (n - (i + 1)) := by
        rw [List.mem_range'_1]; omega
      exact le_trans (i3 j hj) o1
    · exact o3 i hi j hij hjn

/-- the scan returns a pair attaining the maximum of the measure over all `i < j < n` -/
theorem farthestScan_maximal (D : Nat → Nat → α) (n : Nat) (h00 : D 0 0 = 0) :
    ∀ i j, i < j → j < n → D i j ≤ D (farthestScan D n).2.1 (farthestScan D n).2.2 := by
  intro i j hij hjn
  have hst : Rec D ((0 : α), ((0 : Nat), (0 : Nat))) := Or.inr ⟨rfl, rfl⟩
  obtain ⟨_, hrec, hall⟩ := outer_scan D n (List.range n) (0, (0, 0)) hst
  have hle : D i j ≤ (farthestScan D n).1 := hall i (List.mem_range.mpr (Nat.lt_trans hij hjn)) j hij hjn
  rcases hrec with hr | ⟨hr, hp⟩
  · exact hr ▸ hle
  · have : (farthestScan D n).2 = (0, 0) := hp
    rw [this]
    show D i j ≤ D 0 0
    rw [h00]
    exact (show (farthestScan D n).1 = 0 from hr) ▸ hle
end Max

/-- the regenerated `farthest_pair_indices` returns a farthest pair of hull vertices (over ℝ or any
    linearly ordered scalar type on which `dist2 p p = 0`) -/
theorem farthest_pair_is_diameter {α : Type} [Add α] [Sub α] [Mul α] [Div α] [Neg α] [LinearOrder α]
    [OfNat α 0] [OfNat α 1] [OfNat α 2] [Scalar α] [Inhabited α] [Inhabited (V2 α)]
    (hull : List (V2 α)) (hself : dist2 (hull.getD 0 default) (hull.getD 0 default) = 0)
    (i j : Nat) (hij : i < j) (hj : j < hull.length) :
    dist2 (hull.getD i default) (hull.getD j default)
      ≤ dist2 (hull.getD (GenRs.farthest_pair_indices hull).1 default)
              (hull.getD (GenRs.farthest_pair_indices hull).2 default) := by
  rw [farthest_pair_indices_eq]
  exact farthestScan_maximal (fun i j => dist2 (hull.getD i default) (hull.getD j default)) hull.length hself i j hij hj
end C15T
