import Engeom.Props.C01
import Engeom.Props.C01T
/-
  C01 — theorems about the REGENERATED code (over ℝ), by composing the translation ties of Props/C01T with
  the theorems of Props/C01:
  * the loop of `Curve3::from_points` / `Curve2::from_points` that builds the cumulative lengths yields one
    entry per vertex, starting at 0, non-decreasing, ending at the sum of the edge lengths;
  * the regenerated `Curve2::at_length` / `Curve3::at_length` yield no station exactly for the lengths
    outside `[0, L]` — no clamping, no extrapolation — and for a length inside, on a well-formed curve, a
    station whose length-along is that length.
-/
namespace C01U
variable [Inhabited (V2 ℝ)] [Inhabited (V3 ℝ)]

theorem lengths3_spec (v : List (V3 ℝ)) (hne : v ≠ []) :
    (GenRs.from_points_lengths3 v).length = v.length ∧ (GenRs.from_points_lengths3 v).head? = some 0 ∧
    (GenRs.from_points_lengths3 v).Pairwise (· ≤ ·) ∧
    (GenRs.from_points_lengths3 v).getLast? = some (C01.edgeSum v) := by
  rw [C01T.from_points_lengths3_eq v hne]
  obtain ⟨h1, h2, h3⟩ := C01.cumLengths_spec v hne
  exact ⟨h1, h2, h3, C01.cumLengths_last v hne⟩

theorem lengths2_spec (v : List (V2 ℝ)) (hne : v ≠ []) :
    (GenRs.from_points_lengths2 v).length = v.length ∧ (GenRs.from_points_lengths2 v).head? = some 0 ∧
    (GenRs.from_points_lengths2 v).Pairwise (· ≤ ·) ∧
    (GenRs.from_points_lengths2 v).getLast? = some (C01.edgeSum v) := by
  rw [C01T.from_points_lengths2_eq (fun a b => add_comm a b) v hne]
  obtain ⟨h1, h2, h3⟩ := C01.cumLengths_spec v hne
  exact ⟨h1, h2, h3, C01.cumLengths_last v hne⟩

/-- no station outside `[0, L]`, a station inside (2-D) -/
theorem at_length2_none_iff (c : Curve ℝ (V2 ℝ)) (l : ℝ) (hb : c.blend = true) (hn : 0 < c.count) :
    GenRs.at_length2 c l = none ↔ (l < 0 ∨ c.length < l) := by
  rw [C01T.at_length2_whole c l hb hn]
  exact C01.atLength_none_iff c l

/-- no station outside `[0, L]`, a station inside (3-D) -/
theorem at_length3_none_iff (c : Curve ℝ (V3 ℝ)) (l : ℝ) :
    GenRs.at_length3 c l = none ↔ (l < 0 ∨ c.length < l) := by
  rw [C01T.at_length3_whole c l]
  exact C01.atLength_none_iff c l

/-- on a well-formed curve the regenerated `at_length` returns, for every `l ∈ [0, L]`, a station whose
    regenerated `length_along` is `l`, with an edge index inside the curve and a fraction in `[0, 1]` (2-D) -/
theorem at_length2_length_along (c : Curve ℝ (V2 ℝ)) (hw : C01.WF c) (hb : c.blend = true) (l : ℝ)
    (h0 : 0 ≤ l) (hL : l ≤ c.length) :
    ∃ s, GenRs.at_length2 c l = some s ∧ GenRs.length_along2 c.lengths s = l ∧ s.index + 1 < c.verts.length ∧
      0 ≤ s.fraction ∧ s.fraction ≤ 1 := by
  have hn : 0 < c.count := by have := hw.count; unfold Curve.count; omega
  rw [C01T.at_length2_whole c l hb hn]
  obtain ⟨s, h1, h2, h3⟩ := C01.atLength_lengthAlong c hw l h0 hL
  exact ⟨s, h1, by rw [C01T.length_along2_eq]; exact h2, h3⟩

/-- … and in 3-D -/
theorem at_length3_length_along (c : Curve ℝ (V3 ℝ)) (hw : C01.WF c) (l : ℝ) (h0 : 0 ≤ l) (hL : l ≤ c.length) :
    ∃ s, GenRs.at_length3 c l = some s ∧ GenRs.length_along3 c.lengths s = l ∧ s.index + 1 < c.verts.length ∧
      0 ≤ s.fraction ∧ s.fraction ≤ 1 := by
  rw [C01T.at_length3_whole c l]
  obtain ⟨s, h1, h2, h3⟩ := C01.atLength_lengthAlong c hw l h0 hL
  exact ⟨s, h1, by rw [C01T.length_along3_eq]; exact h2, h3⟩
/-! ### the closedness test of `Curve2::from_points` (regenerated) -/

/-- a curve of at least two vertices is closed exactly when its two end vertices are within the tolerance of each
    other, the tolerance INCLUDED: the de-duplication merges consecutive points at a distance `≤ tol`, and the
    closedness test falls on the same side of "equal" -/
theorem is_closed_iff_ends_within_tol (pts : List (V2 ℝ)) (tol : ℝ) (h : 2 ≤ pts.length) :
    GenRs.from_points_is_closed2 pts tol = true ↔ vdist (pts.getD 0 default) (pts.getLast?.getD default) ≤ tol := by
  unfold GenRs.from_points_is_closed2
  simp [h]

/-- in particular an end gap exactly equal to the tolerance closes the curve (with `tol = 0`: ends that coincide) -/
theorem closed_when_the_end_gap_equals_tol (pts : List (V2 ℝ)) (tol : ℝ) (h : 2 ≤ pts.length)
    (hg : vdist (pts.getD 0 default) (pts.getLast?.getD default) = tol) :
    GenRs.from_points_is_closed2 pts tol = true :=
  (is_closed_iff_ends_within_tol pts tol h).mpr (le_of_eq hg)

/-- and a gap strictly larger than the tolerance does not -/
theorem open_when_the_end_gap_exceeds_tol (pts : List (V2 ℝ)) (tol : ℝ) (h : 2 ≤ pts.length)
    (hg : tol < vdist (pts.getD 0 default) (pts.getLast?.getD default)) :
    GenRs.from_points_is_closed2 pts tol = false := by
  have := (is_closed_iff_ends_within_tol pts tol h).not.mpr (not_le.mpr hg)
  simpa using this

end C01U
