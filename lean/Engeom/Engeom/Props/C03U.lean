import Engeom.Props.C03
import Engeom.Props.C03T
/-
  C03 — frame independence stated about the REGENERATED functions of src/common/surface_point.rs (over any
  ordered field, for every rotation matrix RᵀR = I): theorems of Props/C03 about the model functions, carried
  over by the equalities of Props/C03T.
-/
namespace C03U
variable {F : Type} [Field F] [LinearOrder F] [IsStrictOrderedRing F] [Scalar F]

/-- the scalar projection onto a surface point does not depend on the coordinate frame -/
theorem scalar_projection_invariant (T : Iso3 F) (h : C03.IsRot3 T) (s : SP3 F) (q : V3 F) :
    GenRs.SurfacePoint_scalar_projection (s.transformed T) (T.apply q) = GenRs.SurfacePoint_scalar_projection s q := by
  rw [C03T.SurfacePoint_scalar_projection_eq, C03T.SurfacePoint_scalar_projection_eq]
  exact C03.scalarProjection_invariant T h s q

/-- the projected point moves with the frame -/
theorem projection_commutes (T : Iso3 F) (h : C03.IsRot3 T) (s : SP3 F) (q : V3 F) :
    GenRs.SurfacePoint_projection (s.transformed T) (T.apply q) = T.apply (GenRs.SurfacePoint_projection s q) := by
  rw [C03T.SurfacePoint_projection_eq, C03T.SurfacePoint_projection_eq]
  exact C03.projection_commutes T h s q
/-! ### `PointCloud::transform`: the pass over the normals (regenerated; the action of the motion on a direction is a
parameter `rot`).  The translator's pattern requires the pass to be unconditional inside `if let Some(normals)`. -/

/-- every normal is replaced by its image, none skipped, none added, order kept — for EVERY motion, however small its
    rotation -/
theorem cloud_normals_all_rotated (normals : List (V3 ℝ)) (rot : V3 ℝ → V3 ℝ) :
    GenRs.cloud_transform_normals normals rot = normals.map rot ∧
    (GenRs.cloud_transform_normals normals rot).length = normals.length ∧
    ∀ i (h : i < normals.length), (GenRs.cloud_transform_normals normals rot)[i]? = some (rot normals[i]) := by
  have e : GenRs.cloud_transform_normals normals rot = normals.map rot := rfl
  refine ⟨e, by rw [e]; simp, ?_⟩
  intro i h
  rw [e]; simp [h]

/-- transforming twice is transforming by the composition (so many small steps equal the one composed step) -/
theorem cloud_normals_compose (normals : List (V3 ℝ)) (r1 r2 : V3 ℝ → V3 ℝ) :
    GenRs.cloud_transform_normals (GenRs.cloud_transform_normals normals r1) r2
      = GenRs.cloud_transform_normals normals (r2 ∘ r1) := by
  show (normals.map r1).map r2 = normals.map (r2 ∘ r1)
  simp

end C03U
