import Engeom.Props.C03
import Engeom.Props.C03T
/-
  C03 — frame independence stated about the REGENERATED functions of src/common/surface_point.rs (over any
  ordered field, for every rotation matrix RᵀR = I): theorems of Props/C03 about the model functions, carried
  over by the equalities of Props/C03T.
-/
namespace C03U
variable {F : Type} [Field F] [LinearOrder F] [IsStrictOrderedRing F] [Scalar F]

/-- the scalar projection onto a surface point does not depend on the coordinate frame -/
theorem scalar_projection_invariant (T : Iso3 F) (h : C03.IsRot3 T) (s : SP3 F) (q : V3 F) :
    GenRs.SurfacePoint_scalar_projection (s.transformed T) (T.apply q) = GenRs.SurfacePoint_scalar_projection s q := by
  rw [C03T.SurfacePoint_scalar_projection_eq, C03T.SurfacePoint_scalar_projection_eq]
  exact C03.scalarProjection_invariant T h s q

/-- the projected point moves with the frame -/
theorem projection_commutes (T : Iso3 F) (h : C03.IsRot3 T) (s : SP3 F) (q : V3 F) :
    GenRs.SurfacePoint_projection (s.transformed T) (T.apply q) = T.apply (GenRs.SurfacePoint_projection s q) := by
  rw [C03T.SurfacePoint_projection_eq, C03T.SurfacePoint_projection_eq]
  exact C03.projection_commutes T h s q
end C03U
