import Engeom.Model.Closest
import Engeom.Lemmas.Basics
import Mathlib.Tactic.Ring
import Mathlib.Tactic.Linarith
import Mathlib.Tactic.FieldSimp
import Mathlib.Tactic.Positivity
/-
  C02 — Closest-point and distance queries return the global optimum.
  What is proved is the SPECIFICATION the bounding-volume search is compared with on every run: the
  exhaustive scan really returns the minimum over every point of every element (squared distances,
  every ordered field).  Partial: parry's pruning itself is external (compared, not proved).
-/

namespace C02

variable {F : Type} [Field F] [LinearOrder F] [IsStrictOrderedRing F]

/-! ### one segment -/

/-- the clamped vertex of a convex parabola minimises it on [0, 1] -/
theorem quad_clamp_min (A B C s : F) (hA : 0 < A) (hs0 : 0 ≤ s) (hs1 : s ≤ 1) :
    let t := max (min (B / A) 1) 0
    C - 2 * t * B + t * t * A ≤ C - 2 * s * B + s * s * A := by
  intro t
  have hB : B = A * (B / A) := by field_simp
  set s0 := B / A with hs0def
  rcases le_total s0 0 with h0 | h0
  · have ht : t = 0 := by
      simp only [t]; rw [min_eq_left (h0.trans zero_le_one), max_eq_right h0]
    rw [ht, hB]; nlinarith [mul_nonneg hA.le hs0, mul_nonneg hs0 (neg_nonneg.mpr h0)]
  · rcases le_total s0 1 with h1 | h1
    · have ht : t = s0 := by
        simp only [t]; rw [min_eq_left h1, max_eq_left h0]
      rw [ht, hB]; nlinarith [mul_nonneg hA.le (mul_self_nonneg (s - s0))]
    · have ht : t = 1 := by
        simp only [t]; rw [min_eq_right h1, max_eq_left zero_le_one]
      rw [ht, hB]
      have : 0 ≤ (1 - s) * (2 * s0 - 1 - s) := mul_nonneg (by linarith) (by linarith)
      nlinarith [mul_nonneg hA.le this]

theorem expand2 (p a b : V2 F) (s : F) :
    vnormSq (VecLike.sub p (lerpP a b s)) =
      vnormSq (VecLike.sub p a) - 2 * s * VecLike.dot (VecLike.sub p a) (VecLike.sub b a) + s * s * vnormSq (VecLike.sub b a) := by
  simp only [vnormSq, lerpP, VecLike.sub, VecLike.add, VecLike.smul, VecLike.dot, V2.sub, V2.add, V2.smul, V2.dot]; ring

theorem expand3 (p a b : V3 F) (s : F) :
    vnormSq (VecLike.sub p (lerpP a b s)) =
      vnormSq (VecLike.sub p a) - 2 * s * VecLike.dot (VecLike.sub p a) (VecLike.sub b a) + s * s * vnormSq (VecLike.sub b a) := by
  simp only [vnormSq, lerpP, VecLike.sub, VecLike.add, VecLike.smul, VecLike.dot, V3.sub, V3.add, V3.smul, V3.dot]; ring

theorem zero_len2 (a b : V2 F) (h : ¬ 0 < vnormSq (VecLike.sub b a)) (p : V2 F) :
    vnormSq (VecLike.sub b a) = 0 ∧ VecLike.dot (VecLike.sub p a) (VecLike.sub b a) = 0 := by
  simp only [vnormSq, VecLike.sub, VecLike.dot, V2.sub, V2.dot] at h ⊢
  have h1 := mul_self_nonneg (b.x - a.x)
  have h2 := mul_self_nonneg (b.y - a.y)
  have hx : (b.x - a.x) * (b.x - a.x) = 0 := by linarith [not_lt.mp h]
  have hy : (b.y - a.y) * (b.y - a.y) = 0 := by linarith [not_lt.mp h]
  have ex := mul_self_eq_zero.mp hx
  have ey := mul_self_eq_zero.mp hy
  rw [ex, ey]; constructor <;> ring

theorem zero_len3 (a b : V3 F) (h : ¬ 0 < vnormSq (VecLike.sub b a)) (p : V3 F) :
    vnormSq (VecLike.sub b a) = 0 ∧ VecLike.dot (VecLike.sub p a) (VecLike.sub b a) = 0 := by
  simp only [vnormSq, VecLike.sub, VecLike.dot, V3.sub, V3.dot] at h ⊢
  have h1 := mul_self_nonneg (b.x - a.x)
  have h2 := mul_self_nonneg (b.y - a.y)
  have h3 := mul_self_nonneg (b.z - a.z)
  have hx : (b.x - a.x) * (b.x - a.x) = 0 := by linarith [not_lt.mp h]
  have hy : (b.y - a.y) * (b.y - a.y) = 0 := by linarith [not_lt.mp h]
  have hz : (b.z - a.z) * (b.z - a.z) = 0 := by linarith [not_lt.mp h]
  have ex := mul_self_eq_zero.mp hx
  have ey := mul_self_eq_zero.mp hy
  have ez := mul_self_eq_zero.mp hz
  rw [ex, ey, ez]; constructor <;> ring

/-- The point returned for a segment is at least as close as EVERY point of the segment (2-D). -/
theorem closestOnSegment_optimal2 (p a b : V2 F) (s : F) (hs0 : 0 ≤ s) (hs1 : s ≤ 1) :
    (closestOnSegment p a b).2.2 ≤ vnormSq (VecLike.sub p (lerpP a b s)) := by
  unfold closestOnSegment
  dsimp only
  rw [expand2, expand2]
  unfold segParam
  dsimp only
  split_ifs with h
  · rw [smax_eq, smin_eq]
    exact quad_clamp_min _ _ _ s h hs0 hs1
  · obtain ⟨e1, e2⟩ := zero_len2 a b h p
    rw [e1, e2]; simp

/-- … and in 3-D. -/
theorem closestOnSegment_optimal3 (p a b : V3 F) (s : F) (hs0 : 0 ≤ s) (hs1 : s ≤ 1) :
    (closestOnSegment p a b).2.2 ≤ vnormSq (VecLike.sub p (lerpP a b s)) := by
  unfold closestOnSegment
  dsimp only
  rw [expand3, expand3]
  unfold segParam
  dsimp only
  split_ifs with h
  · rw [smax_eq, smin_eq]
    exact quad_clamp_min _ _ _ s h hs0 hs1
  · obtain ⟨e1, e2⟩ := zero_len3 a b h p
    rw [e1, e2]; simp

/-- The returned parameter lies in [0, 1] and reproduces the returned point: the closest point is
    on the segment, and (edge, fraction) reproduce it by linear interpolation. -/
theorem closestOnSegment_on_segment {P : Type} [VecLike P F] (p a b : P) :
    0 ≤ (closestOnSegment p a b).1 ∧ (closestOnSegment p a b).1 ≤ 1 ∧
    (closestOnSegment p a b).2.1 = lerpP a b (closestOnSegment p a b).1 ∧
    (closestOnSegment p a b).2.2 = vnormSq (VecLike.sub p (closestOnSegment p a b).2.1) := by
  refine ⟨?_, ?_, rfl, rfl⟩
  · unfold closestOnSegment segParam; dsimp only
    split_ifs
    · rw [smax_eq]; exact le_max_right _ _
    · exact le_refl _
  · unfold closestOnSegment segParam; dsimp only
    split_ifs
    · rw [smax_eq, smin_eq]; exact max_le (min_le_right _ _) zero_le_one
    · exact zero_le_one

/-! ### the exhaustive scan over a polyline -/

section Poly
variable {P : Type} [VecLike P F]

theorem aux_le_best (p : P) : ∀ (vs : List P) (i : Nat) (bst r : Nat × F × P × F),
    closestOnPolylineAux p vs i (some bst) = some r → r.2.2.2 ≤ bst.2.2.2
  | [], _, bst, r, h => by simp [closestOnPolylineAux] at h; rw [← h]
  | [_], _, bst, r, h => by simp [closestOnPolylineAux] at h; rw [← h]
  | a :: b :: rest, i, bst, r, h => by
    unfold closestOnPolylineAux at h
    dsimp only at h
    split_ifs at h with hlt
    · exact (aux_le_best p (b :: rest) (i + 1) _ r h).trans hlt.le
    · exact aux_le_best p (b :: rest) (i + 1) bst r h

theorem aux_isSome (p : P) : ∀ (vs : List P) (i : Nat) (bst : Nat × F × P × F),
    ∃ r, closestOnPolylineAux p vs i (some bst) = some r
  | [], _, bst => ⟨bst, by simp [closestOnPolylineAux]⟩
  | [_], _, bst => ⟨bst, by simp [closestOnPolylineAux]⟩
  | a :: b :: rest, i, bst => by
    unfold closestOnPolylineAux
    dsimp only
    split_ifs
    · exact aux_isSome p (b :: rest) (i + 1) _
    · exact aux_isSome p (b :: rest) (i + 1) bst

/-- Every edge that the scan passes is at least as far as the final answer. -/
theorem aux_le_edges (p : P) : ∀ (vs : List P) (i : Nat) (best : Option (Nat × F × P × F)) (r : Nat × F × P × F),
    closestOnPolylineAux p vs i best = some r →
    ∀ k (a b : P), vs[k]? = some a → vs[k + 1]? = some b → r.2.2.2 ≤ (closestOnSegment p a b).2.2
  | [], _, _, _, _ => by intro k a b h; simp at h
  | [_], _, _, _, _ => by intro k a b _ h; simp at h
  | a0 :: b0 :: rest, i, best, r, h => by
    intro k a b ha hb
    unfold closestOnPolylineAux at h
    dsimp only at h
    cases k with
    | zero =>
      simp only [List.getElem?_cons_zero, Option.some.injEq] at ha
      simp only [List.getElem?_cons_succ, List.getElem?_cons_zero, Option.some.injEq, zero_add] at hb
      subst ha; subst hb
      cases best with
      | none => exact aux_le_best p _ _ _ r h
      | some bst =>
        dsimp only at h
        split_ifs at h with hlt
        · exact aux_le_best p _ _ _ r h
        · exact (aux_le_best p _ _ _ r h).trans (not_lt.mp hlt)
    | succ k =>
      exact aux_le_edges p (b0 :: rest) (i + 1) _ r h k a b (by simpa using ha) (by simpa using hb)

end Poly

/-- No point of any edge of the polyline is nearer to the query than the reported closest point
    (2-D). -/
theorem closestOnPolyline_optimal2 (verts : List (V2 F)) (p : V2 F) (r : Nat × F × V2 F × F)
    (h : closestOnPolyline verts p = some r) (k : Nat) (a b : V2 F) (ha : verts[k]? = some a)
    (hb : verts[k + 1]? = some b) (s : F) (hs0 : 0 ≤ s) (hs1 : s ≤ 1) :
    r.2.2.2 ≤ vnormSq (VecLike.sub p (lerpP a b s)) :=
  (aux_le_edges p verts 0 none r h k a b ha hb).trans (closestOnSegment_optimal2 p a b s hs0 hs1)

/-- … and in 3-D. -/
theorem closestOnPolyline_optimal3 (verts : List (V3 F)) (p : V3 F) (r : Nat × F × V3 F × F)
    (h : closestOnPolyline verts p = some r) (k : Nat) (a b : V3 F) (ha : verts[k]? = some a)
    (hb : verts[k + 1]? = some b) (s : F) (hs0 : 0 ≤ s) (hs1 : s ≤ 1) :
    r.2.2.2 ≤ vnormSq (VecLike.sub p (lerpP a b s)) :=
  (aux_le_edges p verts 0 none r h k a b ha hb).trans (closestOnSegment_optimal3 p a b s hs0 hs1)

/-! ### triangles: a proved-sound optimality certificate -/

/-- If `q` is a convex combination of the triangle's vertices and no vertex lies beyond `q` as seen
    from `p` (`(p − q)·(vₖ − q) ≤ 0`), then no point of the triangle is nearer to `p` than `q`. -/
theorem triangle_certificate_sound (p q a b c : V3 F)
    (h : triCertificate p q a b c 0 = true) (la lb lc : F) (h0 : 0 ≤ la) (h1 : 0 ≤ lb) (h2 : 0 ≤ lc)
    (hsum : la + lb + lc = 1) :
    let r : V3 F := V3.add (V3.add (V3.smul la a) (V3.smul lb b)) (V3.smul lc c)
    V3.dot (V3.sub p q) (V3.sub p q) ≤ V3.dot (V3.sub p r) (V3.sub p r) := by
  intro r
  unfold triCertificate at h
  simp only [Bool.and_eq_true, decide_eq_true_eq] at h
  obtain ⟨⟨ca, cb⟩, cc⟩ := h
  -- (p − q)·(r − q) ≤ 0 because r − q is a non-negative combination of the vₖ − q
  have hcomb : V3.dot (V3.sub p q) (V3.sub r q) =
      la * V3.dot (V3.sub p q) (V3.sub a q) + lb * V3.dot (V3.sub p q) (V3.sub b q) + lc * V3.dot (V3.sub p q) (V3.sub c q) := by
    have hla : la = 1 - lb - lc := by linarith
    simp only [r, V3.dot, V3.sub, V3.add, V3.smul]
    rw [hla]; ring
  have hneg : V3.dot (V3.sub p q) (V3.sub r q) ≤ 0 := by
    rw [hcomb]
    nlinarith [mul_nonneg h0 (neg_nonneg.mpr ca), mul_nonneg h1 (neg_nonneg.mpr cb), mul_nonneg h2 (neg_nonneg.mpr cc)]
  have hexp : V3.dot (V3.sub p r) (V3.sub p r) =
      V3.dot (V3.sub p q) (V3.sub p q) - 2 * V3.dot (V3.sub p q) (V3.sub r q) + V3.dot (V3.sub r q) (V3.sub r q) := by
    simp only [V3.dot, V3.sub]; ring
  rw [hexp]
  have : 0 ≤ V3.dot (V3.sub r q) (V3.sub r q) := by
    simp only [V3.dot]; nlinarith [mul_self_nonneg (V3.sub r q).x, mul_self_nonneg (V3.sub r q).y, mul_self_nonneg (V3.sub r q).z]
  linarith

/-- With a distance cap, a result is returned exactly when the distance is within the cap. -/
theorem capped_iff (d2 cap : F) (hcap : 0 ≤ cap) (hd : 0 ≤ d2) :
    (if d2 ≤ cap * cap then some d2 else none).isSome = true ↔ d2 ≤ cap * cap := by
  split_ifs with h <;> simp [h]

/-! non-vacuity -/
example : (closestOnSegment (⟨1, 1⟩ : V2 ℚ) ⟨0, 0⟩ ⟨2, 0⟩).2.2 = 1 := by
  norm_num [closestOnSegment, segParam, lerpP, vnormSq, VecLike.sub, VecLike.add, VecLike.smul, VecLike.dot, V2.sub, V2.add,
    V2.smul, V2.dot, smax, smin]

end C02
