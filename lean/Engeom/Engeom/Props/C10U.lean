import Engeom.Generated.RsC10
import Engeom.Lemmas.RealScalar
/-
  C10 — a theorem about the REGENERATED continue-test of the bisection in `inscribed_from_spanning_ray`
  (src/airfoil/helpers.rs), over ℝ.  The search for an inscribed circle brackets the centre between two fractions of
  the spanning ray and goes on while the bracket, measured in LENGTH (fraction × ray length), is longer than the
  tolerance it was given.  When it stops, the bracket is no longer than the tolerance whatever the length of the ray
  (the local thickness of the section) — so the centre taken at its middle is within half a tolerance of both ends at
  every scale of the input.
-/
namespace C10U

/-- when the loop stops, the bracket is at most `tol` long, in length units, for every ray length -/
theorem bracket_within_tol_when_the_search_stops (fpos fneg len tol : ℝ)
    (h : GenRs.bisect_continue fpos fneg len tol = false) : (fpos - fneg) * len ≤ tol := by
  unfold GenRs.bisect_continue at h
  simpa using h

/-- hence the middle of the bracket is within half the tolerance (in length) of either end -/
theorem centre_within_half_tol_of_the_bracket_ends (fpos fneg len tol : ℝ) (hlen : 0 ≤ len) (hord : fneg ≤ fpos)
    (h : GenRs.bisect_continue fpos fneg len tol = false) :
    |((fpos + fneg) * (1 / 2) - fneg) * len| ≤ tol / 2 ∧ |((fpos + fneg) * (1 / 2) - fpos) * len| ≤ tol / 2 := by
  have hb := bracket_within_tol_when_the_search_stops fpos fneg len tol h
  have e1 : ((fpos + fneg) * (1 / 2) - fneg) * len = (fpos - fneg) * len / 2 := by ring
  have e2 : ((fpos + fneg) * (1 / 2) - fpos) * len = -((fpos - fneg) * len / 2) := by ring
  have hnn : 0 ≤ (fpos - fneg) * len := mul_nonneg (sub_nonneg.mpr hord) hlen
  rw [e1, e2, abs_neg, abs_of_nonneg (by linarith)]
  constructor <;> linarith

/-- and it does go on while the bracket is longer than the tolerance (no early exit at large scale) -/
theorem search_continues_while_the_bracket_is_longer (fpos fneg len tol : ℝ) (h : tol < (fpos - fneg) * len) :
    GenRs.bisect_continue fpos fneg len tol = true := by
  unfold GenRs.bisect_continue
  simpa using h

example : GenRs.bisect_continue 1 0 (20 : ℝ) (1 / 1000) = true := by
  apply search_continues_while_the_bracket_is_longer; norm_num

/-! ### the stations `FitRadiusEdge` adds while walking into an edge are searched with the ANALYSIS tolerance -/

/-- the tolerance handed to the search is a hundredth of the analysis tolerance — whatever the edge method's own
    circle-fit tolerance is — and so at most the analysis tolerance: the added stations are stations like any other -/
theorem added_stations_use_the_analysis_tolerance (af_tol check_tol check_tol' : ℝ) (h : 0 ≤ af_tol) :
    GenRs.fit_edge_station_tol af_tol check_tol = af_tol / 100 ∧
    GenRs.fit_edge_station_tol af_tol check_tol = GenRs.fit_edge_station_tol af_tol check_tol' ∧
    GenRs.fit_edge_station_tol af_tol check_tol ≤ af_tol := by
  unfold GenRs.fit_edge_station_tol
  rw [ofRatR]
  refine ⟨by norm_num; ring, rfl, ?_⟩
  norm_num; linarith

end C10U
