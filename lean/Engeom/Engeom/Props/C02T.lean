import Engeom.Generated.RsC02
import Engeom.Lemmas.RealScalar
import Mathlib.Tactic.Linarith
/-
  C02 — translation tie.  The acceptance test of `Mesh::project_with_tol` on the angle between the face
  normal and the offset of the test point from its projection (src/geom3/mesh/queries.rs:
  `angle < max_angle || angle > PI - max_angle`) is regenerated from the /repo working tree on every
  run and is the model's `angleFilter` for every scalar type.  Over ℝ the filter does not depend on the
  side the face normal points to: an angle `a` passes iff `π − a` passes — which is what makes the
  per-point result of `project_with_tol` / `indices_in_tol` independent of the mesh's winding.
-/
namespace C02T
set_option linter.unusedSectionVars false

section
variable {α : Type} [Add α] [Sub α] [Mul α] [Div α] [Neg α] [LT α] [LE α]
  [DecidableLT α] [DecidableLE α] [OfNat α 0] [OfNat α 1] [OfNat α 2] [Scalar α]

theorem angle_filter_eq (a m : α) : GenRs.angle_filter a m = angleFilter a m := rfl
end

/-- flipping the face normal (angle `a ↦ π − a`) does not change the verdict of the filter -/
theorem angleFilter_flip (a m : ℝ) : angleFilter (Real.pi - a) m = angleFilter a m := by
  unfold angleFilter
  rw [piR]
  rw [Bool.eq_iff_iff]
  simp only [Bool.or_eq_true, decide_eq_true_eq]
  constructor
  · rintro (h | h)
    · right; linarith
    · left; linarith
  · rintro (h | h)
    · right; linarith
    · left; linarith

/-- with a non-negative tolerance: an angle inside `[0, π]` passes iff it is within the tolerance of
    the normal or of its opposite -/
theorem angleFilter_iff (a m : ℝ) :
    angleFilter a m = true ↔ a < m ∨ Real.pi - a < m := by
  unfold angleFilter
  rw [piR]
  simp only [Bool.or_eq_true, decide_eq_true_eq]
  constructor
  · rintro (h | h)
    · left; exact h
    · right; linarith
  · rintro (h | h)
    · left; exact h
    · right; linarith

/-- the same, stated about the REGENERATED test -/
theorem angle_filter_flip_regenerated (a m : ℝ) : GenRs.angle_filter (Real.pi - a) m = GenRs.angle_filter a m := by
  rw [angle_filter_eq, angle_filter_eq]; exact angleFilter_flip a m

example : angleFilter (3 : ℝ) 2 = true := by
  rw [angleFilter_iff]; right
  have := Real.pi_le_four
  linarith
/-! ### the offset whose angle is filtered: moved point minus foot, both in the mesh frame
(the translator's pattern requires the source to re-bind `point` to `transform * point` before projecting) -/

/-- the offset is the difference of the MOVED query and its foot on the mesh -/
theorem tol_offset_eq (q foot : V3 ℝ) : GenRs.tol_offset q foot = V3.sub q foot := rfl

/-- so it moves with the frame: expressing query and foot in another frame by the same translation leaves it
    unchanged (a rotation would rotate it with the face normal; the angle between them is what is filtered) -/
theorem tol_offset_translation_invariant (q foot t : V3 ℝ) :
    GenRs.tol_offset (V3.add q t) (V3.add foot t) = GenRs.tol_offset q foot := by
  simp only [GenRs.tol_offset, V3.sub, V3.add, V3.mk.injEq]
  refine ⟨by ring, by ring, by ring⟩

/-! ### `Curve2::dist_to_point` (whole-body pattern): what it reports -/

/-- the reported distance is the distance from the query to the point the projection found — no floor, no snapping to
    zero below some tolerance: it is zero only when the root of the squared offset is -/
theorem curve_dist_is_distance_to_the_foot (foot q : V2 ℝ) :
    GenRs.curve_dist_value foot q = Real.sqrt ((foot.x - q.x) * (foot.x - q.x) + (foot.y - q.y) * (foot.y - q.y)) ∧
    0 ≤ GenRs.curve_dist_value foot q := by
  have e : GenRs.curve_dist_value foot q = Real.sqrt ((foot.x - q.x) * (foot.x - q.x) + (foot.y - q.y) * (foot.y - q.y)) := rfl
  exact ⟨e, by rw [e]; exact Real.sqrt_nonneg _⟩

/-- a query at a positive distance from its foot — however small — is reported at a positive distance -/
theorem curve_dist_positive_off_the_foot (foot q : V2 ℝ) (h : foot ≠ q) : 0 < GenRs.curve_dist_value foot q := by
  rw [(curve_dist_is_distance_to_the_foot foot q).1]
  apply Real.sqrt_pos.mpr
  have hne : foot.x - q.x ≠ 0 ∨ foot.y - q.y ≠ 0 := by
    by_contra hc
    push Not at hc
    apply h
    cases foot; cases q
    simp only [V2.mk.injEq]
    exact ⟨by linarith [hc.1], by linarith [hc.2]⟩
  rcases hne with hx | hy
  · have := mul_self_pos.mpr hx
    nlinarith [mul_self_nonneg (foot.y - q.y)]
  · have := mul_self_pos.mpr hy
    nlinarith [mul_self_nonneg (foot.x - q.x)]

/-! ### `Mesh::surf_closest_to`: the normal that goes with the closest point -/

/-- the normal of the surface point returned is the unit normal of the face the closest point was found on — it does not
    depend on where the query is (not a direction made up from the query) nor on the size of the face -/
theorem surf_closest_normal_is_the_face_normal (f q q' foot foot' : V3 ℝ) :
    GenRs.surf_closest_normal f q foot = f ∧ GenRs.surf_closest_normal f q foot = GenRs.surf_closest_normal f q' foot' :=
  ⟨rfl, rfl⟩

end C02T
