import Engeom.Generated.RsC06
/-
  C06 — translation tie: `GenRs.intersection_param` is regenerated from src/geom2/line2.rs by
  tools/rs2lean.py on every run and is, for every scalar type, the model function of Props/C06.
-/
namespace C06T
set_option linter.unusedSectionVars false
variable {α : Type} [Add α] [Sub α] [Mul α] [Div α] [Neg α] [LT α] [LE α]
  [DecidableLT α] [DecidableLE α] [OfNat α 0] [OfNat α 1] [OfNat α 2] [Scalar α]

theorem intersection_param_eq (a0 ad b0 bd : V2 α) :
    GenRs.intersection_param a0 ad b0 bd = intersectionParam a0 ad b0 bd := rfl
end C06T
