import Engeom.Props.C17
import Engeom.Props.C17T
import Engeom.Lemmas.RealScalar
/-
  C17 — theorems about the REGENERATED code (over ℝ), by composing the translation ties of Props/C17T with
  the theorems of Props/C17:
  * `are_in_ascending_order` (the test behind `DiscreteDomain::try_from` / `Series1::try_new`) accepts
    exactly the ascending vectors — no tolerance, no exception;
  * `linear_space` and `DiscreteDomain::linear`, with the bounds in EITHER order, produce `n` ascending
    values running from the smaller to the larger bound — never a collapsed or descending domain.
  A change of the Rust source changes the regenerated definitions and these proofs are re-checked.
-/
namespace C17U

theorem ascending_order_accepts_exactly_the_ascending (vs : List ℝ) :
    GenRs.are_in_ascending_order vs = true ↔ C17.Sorted vs := by
  rw [C17T.ascending_eq]
  exact C17.ascending_iff vs

theorem ofNatS_real : (C17T.ofNatS : Nat → ℝ) = fun (i : Nat) => ((i : Nat) : ℝ) := by
  funext i
  unfold C17T.ofNatS
  rw [ofRatR]
  simp

theorem linear_space_spec (a b : ℝ) (n : Nat) (hn : 2 ≤ n) :
    C17.Sorted (GenRs.linear_space a b n) ∧ (GenRs.linear_space a b n).length = n ∧
    (GenRs.linear_space a b n).head? = some (min a b) ∧ (GenRs.linear_space a b n).getLast? = some (max a b) := by
  rw [C17T.linear_space_eq, ofNatS_real]
  exact C17.domLinear_spec a b n hn

theorem domain_linear_spec (a b : ℝ) (n : Nat) (hn : 2 ≤ n) :
    C17.Sorted (GenRs.DiscreteDomain_linear a b n) ∧ (GenRs.DiscreteDomain_linear a b n).length = n ∧
    (GenRs.DiscreteDomain_linear a b n).head? = some (min a b) ∧
    (GenRs.DiscreteDomain_linear a b n).getLast? = some (max a b) := by
  rw [C17T.domain_linear_eq, ofNatS_real]
  exact C17.domLinear_spec a b n hn
end C17U
