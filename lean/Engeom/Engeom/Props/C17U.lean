import Engeom.Props.C17
import Engeom.Props.C17T
import Engeom.Lemmas.RealScalar
/-
  C17 — theorems about the REGENERATED code (over ℝ), by composing the translation ties of Props/C17T with
  the theorems of Props/C17:
  * `are_in_ascending_order` (the test behind `DiscreteDomain::try_from` / `Series1::try_new`) accepts
    exactly the ascending vectors — no tolerance, no exception;
  * `linear_space` and `DiscreteDomain::linear`, with the bounds in EITHER order, produce `n` ascending
    values running from the smaller to the larger bound — never a collapsed or descending domain.
  A change of the Rust source changes the regenerated definitions and these proofs are re-checked.
-/
namespace C17U

theorem ascending_order_accepts_exactly_the_ascending (vs : List ℝ) :
    GenRs.are_in_ascending_order vs = true ↔ C17.Sorted vs := by
  rw [C17T.ascending_eq]
  exact C17.ascending_iff vs

theorem ofNatS_real : (C17T.ofNatS : Nat → ℝ) = fun (i : Nat) => ((i : Nat) : ℝ) := by
  funext i
  unfold C17T.ofNatS
  rw [ofRatR]
  simp

theorem linear_space_spec (a b : ℝ) (n : Nat) (hn : 2 ≤ n) :
    C17.Sorted (GenRs.linear_space a b n) ∧ (GenRs.linear_space a b n).length = n ∧
    (GenRs.linear_space a b n).head? = some (min a b) ∧ (GenRs.linear_space a b n).getLast? = some (max a b) := by
  rw [C17T.linear_space_eq, ofNatS_real]
  exact C17.domLinear_spec a b n hn

theorem domain_linear_spec (a b : ℝ) (n : Nat) (hn : 2 ≤ n) :
    C17.Sorted (GenRs.DiscreteDomain_linear a b n) ∧ (GenRs.DiscreteDomain_linear a b n).length = n ∧
    (GenRs.DiscreteDomain_linear a b n).head? = some (min a b) ∧
    (GenRs.DiscreteDomain_linear a b n).getLast? = some (max a b) := by
  rw [C17T.domain_linear_eq, ofNatS_real]
  exact C17.domLinear_spec a b n hn
/-! ### `Series1::resampled_x`: the regenerated point count before rounding up -/

/-- the count the code rounds UP is `1 + span / spacing` (model-level reading of the regenerated expression) -/
theorem resampled_x_count_eq (lo hi sp : ℝ) : GenRs.resampled_x_count lo hi sp = 1 + (hi - lo) / sp := rfl

/-- **Never collapsed.**  For a series of positive span and a positive spacing — however coarse — the rounded-up count
    is at least 2: both end points survive (a count rounded to the NEAREST integer would be 1 for every spacing
    above twice the span). -/
theorem resampled_x_at_least_two_points (lo hi sp : ℝ) (hspan : lo < hi) (hsp : 0 < sp) :
    (2 : ℤ) ≤ ⌈GenRs.resampled_x_count lo hi sp⌉ := by
  rw [resampled_x_count_eq]
  have h : 0 < (hi - lo) / sp := div_pos (sub_pos.mpr hspan) hsp
  have h1 : (1 : ℝ) < 1 + (hi - lo) / sp := by linarith
  have : ((1 : ℤ) : ℝ) < 1 + (hi - lo) / sp := by simpa using h1
  have := Int.lt_ceil.mpr this
  omega

/-- **Never coarser than asked.**  With `n = ⌈1 + span/spacing⌉` points the step `span / (n − 1)` of `resampled_n`
    is at most the requested spacing. -/
theorem resampled_x_step_within_spacing (lo hi sp : ℝ) (hspan : lo < hi) (hsp : 0 < sp) :
    (hi - lo) / (((⌈GenRs.resampled_x_count lo hi sp⌉ : ℤ) : ℝ) - 1) ≤ sp := by
  have h2 := resampled_x_at_least_two_points lo hi sp hspan hsp
  rw [resampled_x_count_eq] at *
  set n : ℤ := ⌈1 + (hi - lo) / sp⌉ with hn
  have hle : 1 + (hi - lo) / sp ≤ (n : ℝ) := Int.le_ceil _
  have hn1 : (0 : ℝ) < (n : ℝ) - 1 := by
    have : (2 : ℝ) ≤ (n : ℝ) := by exact_mod_cast h2
    linarith
  rw [div_le_iff₀ hn1]
  have : (hi - lo) / sp ≤ (n : ℝ) - 1 := by linarith
  calc hi - lo = (hi - lo) / sp * sp := by field_simp
    _ ≤ ((n : ℝ) - 1) * sp := by exact mul_le_mul_of_nonneg_right this hsp.le
    _ = sp * ((n : ℝ) - 1) := by ring

example : (2 : ℤ) ≤ ⌈GenRs.resampled_x_count 0 1 (10 : ℝ)⌉ := resampled_x_at_least_two_points 0 1 10 (by norm_num) (by norm_num)

/-! ### `Series1::y_crossings`: the regenerated per-segment test, slope and crossing abscissa -/

/-- a segment is examined exactly when the level lies between its two ordinates, ends included — a knot exactly on
    the level is examined from both of its segments, whichever side the neighbours are on -/
theorem crossing_test_iff (v0 v1 y : ℝ) :
    GenRs.crossing_test v0 v1 y = true ↔ min v0 v1 ≤ y ∧ y ≤ max v0 v1 := by
  unfold GenRs.crossing_test
  simp only [Bool.or_eq_true, Bool.and_eq_true, decide_eq_true_eq]
  constructor
  · rintro (⟨h1, h2⟩ | ⟨h1, h2⟩)
    · exact ⟨le_trans (min_le_left _ _) h1, le_trans h2 (le_max_right _ _)⟩
    · exact ⟨le_trans (min_le_right _ _) h2, le_trans h1 (le_max_left _ _)⟩
  · rintro ⟨h1, h2⟩
    rcases le_total v0 v1 with h | h
    · left; rw [min_eq_left h] at h1; rw [max_eq_right h] at h2; exact ⟨h1, h2⟩
    · right; rw [min_eq_right h] at h1; rw [max_eq_left h] at h2; exact ⟨h2, h1⟩

/-- on a segment that is not level, the abscissa the code reports is where the linear interpolant of the segment
    takes the level, and it lies on the segment -/
theorem crossing_x_is_where_the_interpolant_equals_the_level (x0 x1 v0 v1 y : ℝ) (hx : x0 < x1) (hv : v0 ≠ v1)
    (ht : GenRs.crossing_test v0 v1 y = true) :
    let x := GenRs.crossing_x x0 v0 (GenRs.crossing_slope x0 x1 v0 v1) y
    v0 + (x - x0) * ((v1 - v0) / (x1 - x0)) = y ∧ x0 ≤ x ∧ x ≤ x1 := by
  intro x
  have hd : x1 - x0 ≠ 0 := sub_ne_zero.mpr (ne_of_gt hx)
  have hdv : v1 - v0 ≠ 0 := sub_ne_zero.mpr (Ne.symm hv)
  have hxe : x = x0 + (y - v0) * (x1 - x0) / (v1 - v0) := by
    show x0 + (y - v0) / ((v1 - v0) / (x1 - x0)) = _
    field_simp
  obtain ⟨h1, h2⟩ := (crossing_test_iff v0 v1 y).mp ht
  have hpos : 0 < x1 - x0 := sub_pos.mpr hx
  refine ⟨by rw [hxe]; field_simp; ring, ?_, ?_⟩
  · rw [hxe]
    have : 0 ≤ (y - v0) * (x1 - x0) / (v1 - v0) := by
      rcases lt_or_gt_of_ne hv with h | h
      · rw [min_eq_left h.le] at h1
        exact div_nonneg (mul_nonneg (sub_nonneg.mpr h1) hpos.le) (sub_pos.mpr h).le
      · rw [max_eq_left h.le] at h2
        have : (y - v0) * (x1 - x0) / (v1 - v0) = (v0 - y) * (x1 - x0) / (v0 - v1) := by
          have hne : v0 - v1 ≠ 0 := sub_ne_zero.mpr hv
          field_simp; ring
        rw [this]
        exact div_nonneg (mul_nonneg (sub_nonneg.mpr h2) hpos.le) (sub_pos.mpr h).le
    linarith
  · rw [hxe]
    have : (y - v0) * (x1 - x0) / (v1 - v0) ≤ x1 - x0 := by
      rcases lt_or_gt_of_ne hv with h | h
      · rw [max_eq_right h.le] at h2
        rw [div_le_iff₀ (sub_pos.mpr h)]
        nlinarith
      · rw [min_eq_right h.le] at h1
        have hneg : v1 - v0 < 0 := sub_neg.mpr h
        rw [div_le_iff_of_neg hneg]
        nlinarith
    linarith

example : GenRs.crossing_test 1 0 (0 : ℝ) = true ∧ GenRs.crossing_test 0 1 (0 : ℝ) = true := by
  constructor <;> rw [crossing_test_iff] <;> norm_num

/-! ### `Series1::between` (slices, splits): the closing point (regenerated test) -/

/-- the copied knots end at or below the requested upper bound (`last ≤ x1`); the bound itself is appended exactly
    when they end strictly below it — by ANY amount, there is no tolerance — so the slice always ends exactly at `x1` -/
theorem slice_ends_exactly_at_the_upper_bound (last x1 : ℝ) (h : last ≤ x1) :
    (if GenRs.between_closing_test last x1 = true then x1 else last) = x1 := by
  unfold GenRs.between_closing_test
  by_cases hl : last < x1
  · simp [hl]
  · simp [hl]; exact le_antisymm h (not_lt.mp hl)

theorem closing_point_added_iff_strictly_below (last x1 : ℝ) :
    GenRs.between_closing_test last x1 = true ↔ last < x1 := by
  unfold GenRs.between_closing_test; simp

end C17U
