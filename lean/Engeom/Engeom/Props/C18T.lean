import Engeom.Generated.RsC18
/-
  C18 — translation tie.  `GenRs.*` is regenerated from the Rust source by tools/rs2lean.py on every
  run; each theorem states that the translated function IS the model function the property theorems
  of `Props/C18.lean` are about — for every scalar type and every instance of the operations
  (no algebraic law is used: the equalities hold by unfolding), hence also at `Float`, the type at
  which the correspondence run executes the model.
-/
set_option linter.unusedSectionVars false
namespace C18T
variable {α : Type} [Add α] [Sub α] [Mul α] [Div α] [Neg α] [LT α] [LE α]
  [DecidableLT α] [DecidableLE α] [OfNat α 0] [OfNat α 1] [OfNat α 2] [Scalar α]

theorem angle_signed_pi_eq (r : α) : GenRs.angle_signed_pi r = angleSignedPi r := rfl
theorem angle_to_2pi_eq (r : α) : GenRs.angle_to_2pi r = angleTo2pi r := rfl
theorem angle_in_direction_eq (a b : α) (d : AngleDir) :
    GenRs.angle_in_direction a b d = angleInDirection a b d := by cases d <;> rfl
theorem signed_compliment_2pi_eq (r : α) : GenRs.signed_compliment_2pi r = signedCompliment2pi r := rfl
theorem AngleInterval_new_eq (s a : α) : GenRs.AngleInterval_new s a = AngleInterval.new s a := rfl
theorem AngleInterval_contains_eq (I : AngleInterval α) (a : α) :
    GenRs.AngleInterval_contains I a = I.contains a := rfl
theorem AngleInterval_intersects_eq (I J : AngleInterval α) :
    GenRs.AngleInterval_intersects I J = I.intersects J := rfl
theorem AngleInterval_at_fraction_eq (I : AngleInterval α) (f : α) :
    GenRs.AngleInterval_at_fraction I f = I.atFraction f := rfl
theorem Interval_new_eq (a b : α) : GenRs.Interval_new a b = Interval.new a b := rfl
theorem Interval_length_eq (I : Interval α) : GenRs.Interval_length I = I.length := rfl
theorem Interval_contains_eq (I : Interval α) (x : α) : GenRs.Interval_contains I x = I.contains x := rfl
theorem Interval_contains_interval_eq (I J : Interval α) :
    GenRs.Interval_contains_interval I J = I.containsInterval J := rfl
theorem Interval_overlaps_eq (I J : Interval α) : GenRs.Interval_overlaps I J = I.overlaps J := rfl
theorem Interval_intersection_eq (I J : Interval α) :
    GenRs.Interval_intersection I J = I.intersection J := rfl
theorem Interval_clamp_eq (I : Interval α) (x : α) : GenRs.Interval_clamp I x = I.clamp x := rfl
theorem signed_angle_eq (u v : V2 α) : GenRs.signed_angle u v = signedAngle u v := rfl
theorem directed_angle_eq (u v : V2 α) (d : AngleDir) :
    GenRs.directed_angle u v d = directedAngle u v d := by cases d <;> rfl
end C18T
