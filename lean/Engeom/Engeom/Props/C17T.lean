import Engeom.Generated.RsC17
import Engeom.Generated.RsC17_series
/-
  C17 — translation tie.  Regenerated from the /repo working tree on every run:
  `are_in_ascending_order` (src/common/vec_f64.rs — the test `DiscreteDomain::try_from` and
  `Series1::try_new` rely on; an iterator chain `windows(2).all(|w| w[0] <= w[1])`), and the two
  linear-spacing constructors `linear_space` / `DiscreteDomain::linear`
  (src/common/discrete_domain.rs — a `for` loop pushing `start + i * step` after ordering the bounds).
  Proved equal to the model functions `ascending` and `domLinear`, for every scalar type.
-/
namespace C17T
set_option linter.unusedSectionVars false
variable {α : Type} [Add α] [Sub α] [Mul α] [Div α] [Neg α] [LT α] [LE α]
  [DecidableLT α] [DecidableLE α] [OfNat α 0] [OfNat α 1] [OfNat α 2] [Scalar α] [Inhabited α]

theorem ascending_eq (vs : List α) : GenRs.are_in_ascending_order vs = ascending vs := by
  unfold GenRs.are_in_ascending_order
  induction vs with
  | nil => rfl
  | cons a r ih =>
    cases r with
    | nil => rfl
    | cons b r2 =>
      unfold ascending windows2
      rw [List.all_cons, ih]
      rfl

/-- a `for` loop that only pushes is a map -/
theorem foldl_push_eq_map {β γ : Type} (g : β → γ) (l : List β) (init : List γ) :
    l.foldl (fun acc i => acc ++ [g i]) init = init ++ l.map g := by
  induction l generalizing init with
  | nil => simp
  | cons a r ih => simp [List.foldl_cons, ih, List.append_assoc]

/-- the cast `i as f64` of the translation -/
def ofNatS (i : Nat) : α := Scalar.ofRat i 1

theorem linear_space_eq (a b : α) (n : Nat) : GenRs.linear_space a b n = domLinear ofNatS a b n := by
  unfold GenRs.linear_space domLinear linValues
  have := foldl_push_eq_map (fun i => (smin a b + ofNatS i * ((smax a b - smin a b) / ofNatS (n - 1)) : α)) (List.range n) []
  simp only [List.nil_append, ofNatS] at this ⊢
  exact this

theorem domain_linear_eq (a b : α) (n : Nat) : GenRs.DiscreteDomain_linear a b n = domLinear ofNatS a b n := by
  unfold GenRs.DiscreteDomain_linear domLinear linValues
  have := foldl_push_eq_map (fun i => (smin a b + ofNatS i * ((smax a b - smin a b) / ofNatS (n - 1)) : α)) (List.range n) []
  simp only [List.nil_append, ofNatS] at this ⊢
  exact this

/-! ### `Series1::shift_by` / `Series1::scaled_by` (the two columns of the Rust struct, zipped, are the
    model's list of pairs) -/

theorem zip_map_pair {β γ : Type} (f : β → β) (g : γ → γ) (xs : List β) (ys : List γ) :
    (xs.map f).zip (ys.map g) = (xs.zip ys).map (fun p => (f p.1, g p.2)) := by
  induction xs generalizing ys with
  | nil => simp
  | cons a r ih => cases ys with
    | nil => simp
    | cons b t => simp [List.zip_cons_cons, ih]

theorem shift_by_eq (s : SeriesXY α) (dx dy : α) :
    (GenRs.shift_by s dx dy).x.zip (GenRs.shift_by s dx dy).y = serShiftBy (s.x.zip s.y) dx dy := by
  unfold GenRs.shift_by serShiftBy
  exact zip_map_pair (fun v => v + dx) (fun v => v + dy) s.x s.y

/-- scaling by a negative factor reverses both columns (equal lengths: a `Series1` has as many ordinates
    as abscissae) -/
theorem scaled_by_eq (s : SeriesXY α) (sx sy : α) (hlen : s.x.length = s.y.length) :
    (GenRs.scaled_by s sx sy).x.zip (GenRs.scaled_by s sx sy).y = serScaledBy (s.x.zip s.y) sx sy := by
  unfold GenRs.scaled_by serScaledBy
  by_cases h : sx < 0
  · simp only [h, if_true]
    show (s.x.map (fun v => v * sx)).reverse.zip (s.y.map (fun v => v * sy)).reverse = _
    have hl : (s.x.map (fun v => v * sx)).length = (s.y.map (fun v => v * sy)).length := by simp [hlen]
    rw [List.zip_eq_zipWith, ← List.reverse_zipWith hl, ← List.zip_eq_zipWith, zip_map_pair]
  · simp only [h, if_false]
    exact zip_map_pair (fun v => v * sx) (fun v => v * sy) s.x s.y
end C17T
