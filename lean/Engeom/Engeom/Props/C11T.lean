import Engeom.Generated.RsC11
import Engeom.Lemmas.RealScalar
import Mathlib.Tactic.Ring
/-
  C11 — translation tie for src/geom2/circle2.rs (regenerated on every run by tools/rs2lean.py).
  All but one equality hold for every scalar type by unfolding.  `intersections_with` is written in
  the Rust with `normalize()` of the centre difference and a rotation by `FRAC_PI_2`; the model the
  theorems of Props/C11 are about divides by the centre distance and uses the exact quarter turn
  `(-y, x)`.  The two are equal over ℝ (`cos (π/2) = 0`, `sin (π/2) = 1`, `‖a − b‖ = ‖b − a‖`), which is
  what `intersections_with_eq_real` proves.
-/
set_option linter.unusedSectionVars false
namespace C11T
section
variable {α : Type} [Add α] [Sub α] [Mul α] [Div α] [Neg α] [LT α] [LE α]
  [DecidableLT α] [DecidableLE α] [OfNat α 0] [OfNat α 1] [OfNat α 2] [Scalar α]

theorem from_3_points_eq (p0 p1 p2 : V2 α) :
    GenRs.Circle2_from_3_points p0 p1 p2 = Circle.from3Points p0 p1 p2 := rfl
theorem point_at_angle_eq (c : Circle α) (t : α) : GenRs.Circle2_point_at_angle c t = c.pointAtAngle t := rfl
theorem angle_of_point_eq (c : Circle α) (p : V2 α) : GenRs.Circle2_angle_of_point c p = c.angleOfPoint p := rfl
theorem distance_to_eq (c : Circle α) (p : V2 α) : GenRs.Circle2_distance_to c p = c.distanceTo p := rfl
theorem tangent_points_to_eq (c : Circle α) (p : V2 α) :
    GenRs.Circle2_tangent_points_to c p = c.tangentPointsTo p := rfl
theorem arc_length_eq (a : Arc α) : GenRs.Arc2_length a = a.length := rfl
theorem arc_point_at_angle_eq (a : Arc α) (t : α) : GenRs.Arc2_point_at_angle a t = a.pointAtAngle t := rfl
theorem arc_point_at_fraction_eq (a : Arc α) (f : α) : GenRs.Arc2_point_at_fraction a f = a.pointAtFraction f := rfl
theorem arc_point_at_length_eq (a : Arc α) (l : α) : GenRs.Arc2_point_at_length a l = a.pointAtLength l := rfl
end

theorem norm_sub_comm (a b : V2 ℝ) : V2.norm (V2.sub b a) = dist2 a b := by
  unfold dist2 V2.norm V2.normSq V2.dot V2.sub
  congr 1; ring

theorem quarter_turn (v : V2 ℝ) :
    Rot2.apply (Rot2.ofAngle ((Scalar.pi : ℝ) / 2)) v = ⟨-v.y, v.x⟩ := by
  unfold Rot2.apply Rot2.ofAngle
  show (⟨v.x * Real.cos (Real.pi / 2) - v.y * Real.sin (Real.pi / 2),
         v.x * Real.sin (Real.pi / 2) + v.y * Real.cos (Real.pi / 2)⟩ : V2 ℝ) = _
  rw [Real.cos_pi_div_two, Real.sin_pi_div_two]
  congr 1 <;> ring

theorem intersections_with_eq_real (s o : Circle ℝ) :
    GenRs.Circle2_intersections_with s o = s.intersectionsWith o := by
  unfold GenRs.Circle2_intersections_with Circle.intersectionsWith
  simp only [quarter_turn, V2.normalize, norm_sub_comm, List.nil_append, List.cons_append]
  rfl
end C11T
