import Engeom.Model.Topology
import Mathlib.Tactic.Linarith
import Mathlib.Tactic.Positivity
import Mathlib.Tactic.Ring
import Mathlib.Algebra.Order.Field.Basic
import Mathlib.Data.List.Perm.Basic
/-
  C12 — Mesh connectivity results are exact partitions and always terminate.
  Every statement is for ALL lists, i.e. for every hash-iteration / pick order.
-/

namespace C12

/-! ### boundary walk: every directed boundary edge is used exactly once; fuel is sufficient -/

theorem takeOut_perm : ∀ (v : Nat) (es : List Edge) (w : Nat) (es' : List Edge),
    takeOut v es = some (w, es') → es.Perm ((v, w) :: es')
  | _, [], _, _, h => by simp [takeOut] at h
  | v, e :: r, w, es', h => by
    unfold takeOut at h
    split_ifs at h with hv
    · simp only [Option.some.injEq, Prod.mk.injEq] at h
      obtain ⟨rfl, rfl⟩ := h
      have : e = (v, e.2) := by
        have : e.1 = v := by simpa using hv
        rw [← this]
      rw [this]
    · cases hr : takeOut v r with
      | none => simp [hr] at h
      | some p =>
        obtain ⟨w', r'⟩ := p
        simp only [hr, Option.some.injEq, Prod.mk.injEq] at h
        obtain ⟨rfl, rfl⟩ := h
        have ih := takeOut_perm v r w' r' hr
        exact (List.Perm.cons e ih).trans (List.Perm.swap _ _ _)

theorem takeOut_length (v : Nat) (es : List Edge) (w : Nat) (es' : List Edge)
    (h : takeOut v es = some (w, es')) : es.length = es'.length + 1 := by
  have := (takeOut_perm v es w es' h).length_eq
  simpa using this

/-- edges of a path `cur → t₁ → … → tₖ → start` -/
def pathEdges (cur : Nat) : List Nat → Nat → List Edge
  | [], start => [(cur, start)]
  | t :: r, start => (cur, t) :: pathEdges t r start

theorem walkLoop_spec : ∀ (fuel : Nat) (es : List Edge) (start cur : Nat) (acc cyc : List Nat) (rest : List Edge),
    walkLoop fuel es start cur acc = .ok cyc rest →
    ∃ tl, cyc = acc ++ tl ∧ es.Perm (pathEdges cur tl start ++ rest)
  | 0, _, _, _, _, _, _, h => by simp [walkLoop] at h
  | fuel + 1, es, start, cur, acc, cyc, rest, h => by
    unfold walkLoop at h
    cases ht : takeOut cur es with
    | none => simp [ht] at h
    | some p =>
      obtain ⟨nxt, es'⟩ := p
      simp only [ht] at h
      have hp := takeOut_perm cur es nxt es' ht
      split_ifs at h with hn
      · simp only [WalkRes.ok.injEq] at h
        obtain ⟨rfl, rfl⟩ := h
        have : nxt = start := by simpa using hn
        subst this
        exact ⟨[], by simp, by simpa [pathEdges] using hp⟩
      · obtain ⟨tl, h1, h2⟩ := walkLoop_spec fuel es' start nxt (acc ++ [nxt]) cyc rest h
        refine ⟨nxt :: tl, by simp [h1], ?_⟩
        simp only [pathEdges, List.cons_append]
        exact hp.trans (List.Perm.cons _ h2)

theorem cycleEdges_go_eq (first cur : Nat) (tl : List Nat) :
    cycleEdges.go first cur tl = pathEdges cur tl first := by
  induction tl generalizing cur with
  | nil => rfl
  | cons t r ih => simp [cycleEdges.go, pathEdges, ih]

/-- One walk started at `s` is a closed vertex cycle whose directed edges, together with what is
    left over, are exactly the edges it started from. -/
theorem walk_cycle_edges (fuel : Nat) (es : List Edge) (s : Nat) (cyc : List Nat) (rest : List Edge)
    (h : walkLoop fuel es s s [s] = .ok cyc rest) : es.Perm (cycleEdges cyc ++ rest) := by
  obtain ⟨tl, h1, h2⟩ := walkLoop_spec fuel es s s [s] cyc rest h
  rw [h1]
  simpa [cycleEdges, cycleEdges_go_eq] using h2

theorem walkLoop_rest_length : ∀ (fuel : Nat) (es : List Edge) (start cur : Nat) (acc cyc : List Nat) (rest : List Edge),
    walkLoop fuel es start cur acc = .ok cyc rest → rest.length < es.length
  | 0, _, _, _, _, _, _, h => by simp [walkLoop] at h
  | fuel + 1, es, start, cur, acc, cyc, rest, h => by
    unfold walkLoop at h
    cases ht : takeOut cur es with
    | none => simp [ht] at h
    | some p =>
      obtain ⟨nxt, es'⟩ := p
      simp only [ht] at h
      have hl := takeOut_length cur es nxt es' ht
      split_ifs at h with hn
      · simp only [WalkRes.ok.injEq] at h
        obtain ⟨_, rfl⟩ := h
        omega
      · have := walkLoop_rest_length fuel es' start nxt (acc ++ [nxt]) cyc rest h
        omega

/-- The boundary loops together contain every boundary edge exactly once (as a multiset of
    directed edges), whatever the order in which the hash containers hand out edges. -/
theorem boundaryWalks_every_edge_exactly_once : ∀ (fuel : Nat) (es : List Edge) (ls : List (List Nat)),
    boundaryWalks fuel es = .ok ls → es.Perm (ls.flatMap cycleEdges)
  | 0, [], ls, h => by simp [boundaryWalks] at h; subst h; simp
  | 0, _ :: _, _, h => by simp [boundaryWalks] at h
  | _ + 1, [], ls, h => by simp [boundaryWalks] at h; subst h; simp
  | fuel + 1, e :: r, ls, h => by
    unfold boundaryWalks at h
    cases hw : walkLoop (r.length + 2) (e :: r) e.1 e.1 [e.1] with
    | stuck => simp [hw] at h
    | outOfFuel => simp [hw] at h
    | ok cyc rest =>
      simp only [hw] at h
      cases hb : boundaryWalks fuel rest with
      | stuck => simp [hb] at h
      | outOfFuel => simp [hb] at h
      | ok ls' =>
        simp only [hb, LoopsRes.ok.injEq] at h
        subst h
        have h1 := walk_cycle_edges _ _ _ _ _ hw
        have h2 := boundaryWalks_every_edge_exactly_once fuel rest ls' hb
        simp only [List.flatMap_cons]
        exact h1.trans (List.Perm.append_left _ h2)

/-- Termination: a walk never runs out of the fuel `|edges| + 1` (each step consumes one edge). -/
theorem walkLoop_fuel_suffices : ∀ (fuel : Nat) (es : List Edge) (start cur : Nat) (acc : List Nat),
    es.length < fuel → walkLoop fuel es start cur acc ≠ .outOfFuel
  | 0, _, _, _, _, h => by omega
  | fuel + 1, es, start, cur, acc, h => by
    unfold walkLoop
    cases ht : takeOut cur es with
    | none => simp
    | some p =>
      obtain ⟨nxt, es'⟩ := p
      have hl := takeOut_length cur es nxt es' ht
      simp only
      split_ifs
      · simp
      · exact walkLoop_fuel_suffices fuel es' start nxt _ (by omega)

/-- … and neither does the whole decomposition with fuel `|edges| + 1`: it terminates on every
    input, with loops or with the explicit "inconsistently directed" error. -/
theorem boundaryWalks_terminates : ∀ (fuel : Nat) (es : List Edge),
    es.length < fuel → boundaryWalks fuel es ≠ .outOfFuel
  | 0, _, h => by omega
  | _ + 1, [], _ => by simp [boundaryWalks]
  | fuel + 1, e :: r, h => by
    unfold boundaryWalks
    cases hw : walkLoop (r.length + 2) (e :: r) e.1 e.1 [e.1] with
    | stuck => simp
    | outOfFuel => exact absurd hw (walkLoop_fuel_suffices _ _ _ _ _ (by simp))
    | ok cyc rest =>
      have hl := walkLoop_rest_length _ _ _ _ _ _ _ hw
      have ih := boundaryWalks_terminates fuel rest (by simp at h hl; omega)
      simp only
      cases hb : boundaryWalks fuel rest with
      | stuck => simp
      | outOfFuel => exact absurd hb ih
      | ok ls' => simp

/-! Regression witness for the defect fixed in /repo (D12): with a successor MAP, a vertex that is
    nobody's successor (its incoming edge was overwritten) stays in the queue forever, so the
    pre-fix loop can never finish — for any amount of fuel. -/
theorem prefixLoops_never_finishes (m : List Edge) (v : Nat) (hv : ∀ u, succOf m u ≠ some v) :
    ∀ (fuel : Nat) (queue working : List Nat) (acc : List (List Nat)),
      v ∈ queue → (prefixLoops fuel m queue working acc).isSome = false
  | 0, _, _, _, _ => rfl
  | fuel + 1, queue, working, acc, hq => by
    unfold prefixLoops
    have hne : queue.isEmpty = false := by cases queue <;> simp_all
    simp only [hne, Bool.false_eq_true, if_false]
    cases hw : working.getLast? with
    | some last =>
      simp only
      cases hs : succOf m last with
      | none => rfl
      | some nxt =>
        have hnv : nxt ≠ v := by intro h; subst h; exact hv last hs
        have hq' : v ∈ queue.filter (· != nxt) := by
          simp only [List.mem_filter, bne_iff_ne, ne_eq]
          exact ⟨hq, fun h => hnv h.symm⟩
        simp only
        split_ifs
        · exact prefixLoops_never_finishes m v hv fuel _ _ _ hq'
        · exact prefixLoops_never_finishes m v hv fuel _ _ _ hq'
    | none =>
      simp only
      cases hh : queue.head? with
      | some s => exact prefixLoops_never_finishes m v hv fuel _ _ _ hq
      | none => cases queue <;> simp_all

/-- the bow tie `[0,1,2],[0,3,4]`: boundary map in insertion order; vertex 1's incoming edge
    `0 → 1` is overwritten by `0 → 3` -/
def bowtieMap : List Edge := [(1, 2), (2, 0), (0, 1), (3, 4), (4, 0), (0, 3)]

theorem prefix_bowtie_diverges (fuel : Nat) :
    (prefixLoops fuel bowtieMap [0, 1, 2, 3, 4] [] []).isSome = false := by
  apply prefixLoops_never_finishes bowtieMap 1
  · intro u
    unfold succOf bowtieMap
    by_cases h0 : u = 0
    · subst h0; decide
    · by_cases h1 : u = 1
      · subst h1; decide
      · by_cases h2 : u = 2
        · subst h2; decide
        · by_cases h3 : u = 3
          · subst h3; decide
          · by_cases h4 : u = 4
            · subst h4; decide
            · have e0 : (0 == u) = false := beq_eq_false_iff_ne.mpr (Ne.symm h0)
              have e1 : (1 == u) = false := beq_eq_false_iff_ne.mpr (Ne.symm h1)
              have e2 : (2 == u) = false := beq_eq_false_iff_ne.mpr (Ne.symm h2)
              have e3 : (3 == u) = false := beq_eq_false_iff_ne.mpr (Ne.symm h3)
              have e4 : (4 == u) = false := beq_eq_false_iff_ne.mpr (Ne.symm h4)
              simp [List.find?, e0, e1, e2, e3, e4]
  · simp

/-- the fixed walk handles the same bow tie: two triangles, every boundary edge once -/
example : boundaryLoops bowtieMap = some [[0, 2, 1], [0, 4, 3]] := by decide

/-! ### flood fill: exact partition, linear fuel -/

section Fill
variable {β : Type}

theorem filter_split_perm (p : β → Bool) (l : List β) :
    (l.filter p ++ l.filter (fun x => !p x)).Perm l := by
  induction l with
  | nil => simp
  | cons a r ih =>
    by_cases h : p a
    · simp only [List.filter_cons, h, if_true, Bool.not_true, Bool.false_eq_true, if_false, List.cons_append]
      exact List.Perm.cons a ih
    · simp only [List.filter_cons, h, Bool.false_eq_true, if_false, Bool.not_false, if_true]
      exact (List.perm_middle).trans (List.Perm.cons a ih)

/-- growing a component only moves elements from `rem` to `comp` -/
theorem fillLoop_perm (nb : β → β → Bool) : ∀ (k : Nat) (st rem comp : List β),
    ((fillLoop nb k st rem comp).1 ++ (fillLoop nb k st rem comp).2).Perm (comp ++ rem)
  | 0, _, _, _ => by simp [fillLoop]
  | _ + 1, [], _, _ => by simp [fillLoop]
  | k + 1, c :: st, rem, comp => by
    simp only [fillLoop]
    refine (fillLoop_perm nb k _ _ _).trans ?_
    rw [List.append_assoc]
    exact List.Perm.append_left _ (filter_split_perm (nb c) rem)

theorem fillLoop_rem_length (nb : β → β → Bool) : ∀ (k : Nat) (st rem comp : List β),
    (fillLoop nb k st rem comp).2.length ≤ rem.length
  | 0, _, _, _ => by simp [fillLoop]
  | _ + 1, [], _, _ => by simp [fillLoop]
  | k + 1, c :: st, rem, comp => by
    simp only [fillLoop]
    exact (fillLoop_rem_length nb k _ _ _).trans (List.length_filter_le _ _)

/-- Every element ends up in exactly one component (the components, concatenated, are a
    permutation of the input) — for every pick order. -/
theorem fillAll_partition (nb : β → β → Bool) : ∀ (fuel : Nat) (rem : List β),
    rem.length < fuel → ((fillAll nb fuel rem).flatten).Perm rem
  | 0, _, h => by omega
  | _ + 1, [], _ => by simp [fillAll]
  | k + 1, s :: rem, h => by
    simp only [fillAll, List.flatten_cons]
    have hp := fillLoop_perm nb (rem.length + 2) [s] rem [s]
    have hl := fillLoop_rem_length nb (rem.length + 2) [s] rem [s]
    have ih := fillAll_partition nb k (fillLoop nb (rem.length + 2) [s] rem [s]).2 (by simp at h; omega)
    exact (List.Perm.append_left _ ih).trans (by simpa using hp)

/-- the stack is empty when the loop stops, provided the fuel is at least
    `|stack| + |rem| + 1` (each step pops one element and moves `|hits|` from `rem` to the stack) -/
def fillClosed (nb : β → β → Bool) (comp rem : List β) : Prop := ∀ x ∈ comp, ∀ y ∈ rem, nb x y = false

theorem fillLoop_closed (nb : β → β → Bool) : ∀ (k : Nat) (st rem comp : List β),
    st.length + rem.length < k →
    (∀ x ∈ comp, x ∈ st ∨ ∀ y ∈ rem, nb x y = false) →
    fillClosed nb (fillLoop nb k st rem comp).1 (fillLoop nb k st rem comp).2
  | 0, _, _, _, h, _ => by omega
  | _ + 1, [], rem, comp, _, hinv => by
    simp only [fillLoop]
    intro x hx y hy
    rcases hinv x hx with h | h
    · simp at h
    · exact h y hy
  | k + 1, c :: st, rem, comp, hk, hinv => by
    simp only [fillLoop]
    apply fillLoop_closed nb k
    · have := filter_split_perm (nb c) rem
      have hl := this.length_eq
      simp only [List.length_append, List.length_cons] at hl hk ⊢
      omega
    · intro x hx
      rcases List.mem_append.mp hx with hx | hx
      · rcases hinv x hx with h | h
        · rcases List.mem_cons.mp h with rfl | h
          · right; intro y hy
            have := (List.mem_filter.mp hy).2
            simpa using this
          · left; exact List.mem_append_right _ h
        · right; intro y hy; exact h y (List.mem_filter.mp hy).1
      · left; exact List.mem_append_left _ hx

/-- Maximal connectivity: when a component is finished nothing left over is adjacent to it. -/
theorem fillAll_first_component_closed (nb : β → β → Bool) (s : β) (rem : List β) :
    fillClosed nb (fillLoop nb (rem.length + 2) [s] rem [s]).1 (fillLoop nb (rem.length + 2) [s] rem [s]).2 :=
  fillLoop_closed nb _ _ _ _ (by simp only [List.length_singleton]; omega) (by intro x hx; left; simpa using hx)

/-- Soundness: everything put into a component is linked to an element that was already in it
    (so, by induction, to the seed) through the adjacency relation. -/
inductive Linked (nb : β → β → Bool) (seed : List β) : β → Prop
  | seed (x : β) : x ∈ seed → Linked nb seed x
  | step (x y : β) : Linked nb seed x → nb x y = true → Linked nb seed y

theorem fillLoop_linked (nb : β → β → Bool) (seed : List β) : ∀ (k : Nat) (st rem comp : List β),
    (∀ x ∈ comp, Linked nb seed x) → (∀ x ∈ st, Linked nb seed x) →
    ∀ x ∈ (fillLoop nb k st rem comp).1, Linked nb seed x
  | 0, _, _, _, hc, _ => by simpa [fillLoop] using hc
  | _ + 1, [], _, _, hc, _ => by simpa [fillLoop] using hc
  | k + 1, c :: st, rem, comp, hc, hs => by
    simp only [fillLoop]
    have hcl : Linked nb seed c := hs c (by simp)
    have hh : ∀ x ∈ rem.filter (nb c), Linked nb seed x := fun x hx =>
      Linked.step c x hcl (List.mem_filter.mp hx).2
    apply fillLoop_linked nb seed k
    · intro x hx; rcases List.mem_append.mp hx with h | h
      · exact hc x h
      · exact hh x h
    · intro x hx; rcases List.mem_append.mp hx with h | h
      · exact hh x h
      · exact hs x (List.mem_cons_of_mem _ h)

end Fill

/-- Patches: every face lies in exactly one patch, for every pick order of the faces. -/
theorem patches_partition (faces : List Face) (order : List Nat) :
    ((patches faces order).flatten).Perm order :=
  fillAll_partition _ _ _ (by simp)

/-- Voxel clusters: every voxel lies in exactly one cluster, for every order of the set. -/
theorem clusters_partition (vox : List Voxel) : ((clusters vox).flatten).Perm vox :=
  fillAll_partition _ _ _ (by simp)

/-! ### primitive generators -/

/-- The regenerated `box_geom` face table is a closed, consistently wound surface: every directed
    edge occurs exactly once and so does its reverse (the table IS the quantifier). -/
theorem box_closed_oriented : closedOriented Gen.boxFaces = true := by decide

/-- … with 8 vertices and 12 faces. -/
theorem box_table_shape : Gen.boxVerts.length = 8 ∧ Gen.boxFaces.length = 12 ∧
    Gen.boxFaces.all (fun f => f.1 < 8 && f.2.1 < 8 && f.2.2 < 8) = true := by decide

section BoxNormals
variable {F : Type} [Field F] [LinearOrder F] [IsStrictOrderedRing F]

def boxVertex (w h d : F) (i : Nat) : F × F × F :=
  match Gen.boxVerts[i]? with
  | some (a, b, c) => ((a : F) * w, (b : F) * h, (c : F) * d)
  | none => (0, 0, 0)

/-- (un-normalised face normal) · (face centroid − box centre), times 3 -/
def boxOutward (w h d : F) (f : Face) : F :=
  let p := boxVertex w h d f.1
  let q := boxVertex w h d f.2.1
  let r := boxVertex w h d f.2.2
  let ux := q.1 - p.1; let uy := q.2.1 - p.2.1; let uz := q.2.2 - p.2.2
  let vx := r.1 - p.1; let vy := r.2.1 - p.2.1; let vz := r.2.2 - p.2.2
  let nx := uy * vz - uz * vy; let ny := uz * vx - ux * vz; let nz := ux * vy - uy * vx
  nx * (p.1 + q.1 + r.1 - 3 * w / 2) + ny * (p.2.1 + q.2.1 + r.2.1 - 3 * h / 2) +
    nz * (p.2.2 + q.2.2 + r.2.2 - 3 * d / 2)

/-- Every face normal of the box points outward, for all positive dimensions. -/
theorem box_normals_outward (w h d : F) (hw : 0 < w) (hh : 0 < h) (hd : 0 < d) :
    ∀ f ∈ Gen.boxFaces, 0 < boxOutward w h d f := by
  have hwhd : 0 < w * h * d := by positivity
  intro f hf
  simp only [Gen.boxFaces, List.mem_cons, List.not_mem_nil, or_false] at hf
  rcases hf with rfl | rfl | rfl | rfl | rfl | rfl | rfl | rfl | rfl | rfl | rfl | rfl <;>
    (simp [boxOutward, boxVertex, Gen.boxVerts]; nlinarith [hwhd])

end BoxNormals

/-- `create_cylinder` (formulas regenerated from the source) is consistently wound: no directed
    edge occurs twice.  Checked by evaluation for 3 ≤ steps ≤ 16 — this is a TEST of the regenerated
    formulas over a range, not the unbounded claim. -/
theorem cylinder_consistent_3_to_16 :
    (List.range 14).all (fun k => consistentlyOriented (cylinderFaces (k + 3))) = true := by decide

/-- Regression witness for the defect fixed in /repo (D5): the pre-fix formulas used the directed
    edge between the two rims twice. -/
theorem cylinder_prefix_inconsistent : consistentlyOriented (cylinderFaces_prefix 3) = false := by decide

end C12
