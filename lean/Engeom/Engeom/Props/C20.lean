import Engeom.Model.Flatten
import Engeom.Lemmas.RealScalar
import Engeom.Props.C03
import Mathlib.Tactic.Linarith
import Mathlib.Tactic.Ring
import Mathlib.Tactic.FieldSimp
import Mathlib.Tactic.LinearCombination
/-
  C20 — Conformal flattening is an isometry on planar disks and never folds them.
  PARTIAL: proved are (1) that the whole pipeline is a function of connectivity, boundary loop and
  edge lengths, hence unchanged when the input is moved rigidly; (2) the acceptance test; (3) the
  linear precision of the cotangent weights on planar triangles, which is why a planar disk is
  reproduced.  The end-to-end isometry and the absence of folds are decided per case by the oracle.
-/

namespace C20

/-! ### the result depends only on connectivity and edge lengths -/

theorem lengthOf_map (T : Iso3 ℝ) (hT : C03.IsRot3 T) (verts : List (V3 ℝ)) :
    lengthOf (verts.map T.apply) = lengthOf verts := by
  funext i j
  unfold lengthOf
  rw [List.getElem?_map, List.getElem?_map]
  cases verts[i]? with
  | none => rfl
  | some a =>
    cases verts[j]? with
    | none => rfl
    | some b => exact C03.dist_apply T hT a b

/-- **Rigid motion of the input leaves the flattening unchanged** (exactly, over the reals): the
    pipeline never looks at a coordinate except through an edge length. -/
theorem flatten_rigid_invariant (T : Iso3 ℝ) (hT : C03.IsRot3 T) (verts : List (V3 ℝ))
    (faces : List (Nat × Nat × Nat)) (bound : List Nat) :
    flatten (verts.map T.apply) faces bound = flatten verts faces bound := by
  unfold flatten
  rw [lengthOf_map T hT, List.length_map]

/-- two meshes with the same connectivity and the same edge lengths flatten identically -/
theorem flatten_depends_on_lengths (v w : List (V3 ℝ)) (faces : List (Nat × Nat × Nat)) (bound : List Nat)
    (hl : v.length = w.length) (h : lengthOf v = lengthOf w) : flatten v faces bound = flatten w faces bound := by
  unfold flatten; rw [h, hl]

/-! ### acceptance -/

/-- accepted exactly when there is one boundary loop, one connected piece and V − E + F = 1 -/
theorem acceptsDisk_iff (nLoops nPatches nVert nEdges nFaces : Nat) :
    acceptsDisk nLoops nPatches nVert nEdges nFaces = true ↔
      nLoops = 1 ∧ nPatches = 1 ∧ nVert + nFaces = nEdges + 1 := by
  unfold acceptsDisk
  simp [Bool.and_eq_true, and_assoc]

/-- a closed surface (no loop), an annulus (two loops), a punctured torus (χ = −1) and a disk with
    an extra closed component (two pieces) are all rejected -/
example : acceptsDisk 0 1 8 18 12 = false ∧ acceptsDisk 2 1 16 40 24 = false ∧
    acceptsDisk 1 1 20 59 38 = false ∧ acceptsDisk 1 2 24 51 30 = false := by decide

/-! ### linear precision of the cotangent weights on a planar triangle -/

/-- the quarter turn `(x, y) ↦ (−y, x)` -/
def J (v : V2 ℝ) : V2 ℝ := ⟨-v.y, v.x⟩

/-- **Per-triangle identity.** In a non-degenerate planar triangle `p0 p1 p2`, the cotangents of
    the angles at `p2` and `p1` weight the two edges at `p0` so that
    `cot∠p2 · (p0 − p1) + cot∠p1 · (p0 − p2) = J (p2 − p1)`: the contribution of the face to the
    cotangent Laplacian of ANY linear function at `p0` is a boundary term of the face. -/
theorem cot_triangle_identity (p0 p1 p2 : V2 ℝ)
    (h : V2.cross (V2.sub p1 p0) (V2.sub p2 p0) ≠ 0) :
    V2.add (V2.smul (cotAt p2 p0 p1) (V2.sub p0 p1)) (V2.smul (cotAt p1 p2 p0) (V2.sub p0 p2)) =
      J (V2.sub p2 p1) := by
  have e2 : V2.cross (V2.sub p0 p2) (V2.sub p1 p2) = V2.cross (V2.sub p1 p0) (V2.sub p2 p0) := by
    simp only [V2.cross, V2.sub]; ring
  have e1 : V2.cross (V2.sub p2 p1) (V2.sub p0 p1) = V2.cross (V2.sub p1 p0) (V2.sub p2 p0) := by
    simp only [V2.cross, V2.sub]; ring
  unfold cotAt J
  rw [e2, e1]
  set D := V2.cross (V2.sub p1 p0) (V2.sub p2 p0) with hD
  have hDx : D = (p1.x - p0.x) * (p2.y - p0.y) - (p1.y - p0.y) * (p2.x - p0.x) := by
    simp only [hD, V2.cross, V2.sub]
  simp only [V2.sub, V2.dot, V2.add, V2.smul, V2.mk.injEq]
  constructor
  · field_simp
    rw [hDx]; ring
  · field_simp
    rw [hDx]; ring

/-- sum of the link edges of a closed fan -/
def linkSum : List (V2 ℝ) → V2 ℝ → V2 ℝ
  | [], _ => ⟨0, 0⟩
  | [q], first => J (V2.sub first q)
  | q :: r :: t, first => V2.add (J (V2.sub r q)) (linkSum (r :: t) first)

theorem J_add (a b : V2 ℝ) : V2.add (J a) (J b) = J (V2.add a b) := by
  simp only [J, V2.add, V2.mk.injEq]; constructor
  · ring
  · trivial

theorem linkSum_eq (l : List (V2 ℝ)) (first : V2 ℝ) :
    ∀ q, linkSum (q :: l) first = J (V2.sub first q) := by
  induction l with
  | nil => intro q; rfl
  | cons r t ih =>
    intro q
    show V2.add (J (V2.sub r q)) (linkSum (r :: t) first) = _
    rw [ih r, J_add]
    simp only [J, V2.add, V2.sub, V2.mk.injEq]; constructor <;> ring

/-- **Closed fan.** Around an interior vertex the link of the faces is a closed polygon
    `q₀ q₁ … q_{m−1} q₀`; the boundary terms `J (q_{k+1} − q_k)` of the faces sum to zero — so the
    cotangent Laplacian of every linear function vanishes at interior vertices of a planar mesh
    (the planar layout itself is harmonic, which is why it is reproduced). -/
theorem closed_fan_sum_zero (q : V2 ℝ) (l : List (V2 ℝ)) : linkSum (q :: l) q = ⟨0, 0⟩ := by
  rw [linkSum_eq]
  simp [J, V2.sub]

/-! ### the cotangent as computed by the code -/

/-- `1 / tan (arccos x) = x / √(1 − x²)` for −1 < x < 1: the code's cotangent from the law of
    cosines is the algebraic cotangent -/
theorem cotOf_arccos (x : ℝ) (h1 : -1 < x) (h2 : x < 1) :
    cotOf (Real.arccos x) = x / Real.sqrt (1 - x ^ 2) := by
  unfold cotOf
  show 1 / (Real.sin (Real.arccos x) / Real.cos (Real.arccos x)) = _
  rw [Real.sin_arccos, Real.cos_arccos (le_of_lt h1) (le_of_lt h2)]
  have hs : Real.sqrt (1 - x ^ 2) ≠ 0 := by
    apply ne_of_gt
    apply Real.sqrt_pos.mpr
    nlinarith
  by_cases hx : x = 0
  · subst hx; simp
  · field_simp

/-- the law of cosines gives the normalised dot product: `(b² + c² − a²) / (2bc)` with
    `a = |q − r|`, `b = |r − p|`, `c = |q − p|` is `(q − p)·(r − p) / (|q − p| |r − p|)` -/
theorem law_of_cosines_numerator (p q r : V2 ℝ) :
    V2.normSq (V2.sub r p) + V2.normSq (V2.sub q p) - V2.normSq (V2.sub q r) =
      2 * V2.dot (V2.sub q p) (V2.sub r p) := by
  simp only [V2.normSq, V2.dot, V2.sub]; ring

end C20
