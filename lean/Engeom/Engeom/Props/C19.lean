import Engeom.Model.Basis
import Engeom.Generated.Consts
import Engeom.Generated.Tables
import Engeom.Lemmas.RealScalar
import Engeom.Props.C03
import Mathlib.Tactic.Linarith
import Mathlib.Tactic.Ring
import Mathlib.Tactic.LinearCombination
import Mathlib.Tactic.FieldSimp
import Mathlib.Tactic.Positivity
/-
  C19 — Basis, frame and plane constructions are orthonormal and right-handed.

  Part 1 (this file): the six two-vector frame constructors, *interpreted from the recipe table
  regenerated from src/geom3/iso3.rs*, over ℝ.
-/

namespace C19

/-! ### obligations about the regenerated facts -/

/-- the recipes found in the source are the ones the theorems below are about -/
theorem recipes_as_expected :
    Gen.frameRecipes =
      [("xy", 0, 1, [(2, 0, 1), (1, 2, 0)]), ("xz", 0, 2, [(1, 2, 0), (2, 0, 1)]),
       ("yz", 1, 2, [(0, 1, 2), (2, 0, 1)]), ("yx", 1, 0, [(2, 0, 1), (0, 1, 2)]),
       ("zx", 2, 0, [(1, 2, 0), (0, 1, 2)]), ("zy", 2, 1, [(0, 1, 2), (1, 2, 0)])] := by
  rfl

/-- all eighteen `try_normalize` thresholds are the same number -/
theorem norm_tols_uniform :
    Gen.frameNormTols.length = 18 ∧
      ∀ t ∈ Gen.frameNormTols, t = (Gen.FRAME_NORM_TOL_num, Gen.FRAME_NORM_TOL_den) := by
  decide

/-- the threshold, as a real -/
noncomputable def eps : ℝ := Scalar.ofRat Gen.FRAME_NORM_TOL_num Gen.FRAME_NORM_TOL_den

theorem eps_range : 0 ≤ eps ∧ eps < 1 := by
  unfold eps; rw [ofRatR]
  norm_num [Gen.FRAME_NORM_TOL_num, Gen.FRAME_NORM_TOL_den]

/-! ### vector algebra (any commutative ring) -/
section ring
variable {R : Type} [CommRing R]

theorem dot_comm (a b : V3 R) : V3.dot a b = V3.dot b a := by simp only [V3.dot]; ring
theorem dot_cross_self_left (a b : V3 R) : V3.dot a (V3.cross a b) = 0 := by
  simp only [V3.dot, V3.cross]; ring
theorem dot_cross_self_right (a b : V3 R) : V3.dot b (V3.cross a b) = 0 := by
  simp only [V3.dot, V3.cross]; ring
theorem lagrange (a b : V3 R) :
    V3.dot (V3.cross a b) (V3.cross a b) = V3.dot a a * V3.dot b b - V3.dot a b * V3.dot a b := by
  simp only [V3.dot, V3.cross]; ring
theorem triple_shift (w u s : V3 R) : V3.dot (V3.cross w u) s = V3.dot w (V3.cross u s) := by
  simp only [V3.dot, V3.cross]; ring
theorem cross_anticomm (a b : V3 R) : V3.cross a b = V3.neg (V3.cross b a) := by
  simp only [V3.cross, V3.neg, V3.mk.injEq]; refine ⟨?_, ?_, ?_⟩ <;> ring
/-- `a × (b × a) = (a·a) b − (a·b) a` -/
theorem bac_cab (a b : V3 R) :
    V3.cross a (V3.cross b a) = V3.sub (V3.smul (V3.dot a a) b) (V3.smul (V3.dot a b) a) := by
  simp only [V3.cross, V3.sub, V3.smul, V3.dot, V3.mk.injEq]; refine ⟨?_, ?_, ?_⟩ <;> ring

end ring

/-- columns are orthonormal and `e0 × e1 = e2` (so the matrix is a proper rotation, det = +1) -/
structure RightHanded (e0 e1 e2 : V3 ℝ) : Prop where
  u0 : V3.dot e0 e0 = 1
  u1 : V3.dot e1 e1 = 1
  u2 : V3.dot e2 e2 = 1
  o01 : V3.dot e0 e1 = 0
  o02 : V3.dot e0 e2 = 0
  o12 : V3.dot e1 e2 = 0
  rh : V3.cross e0 e1 = e2

/-- a right-handed orthonormal triple stays one under cyclic permutation -/
theorem RightHanded.rotate {a b c : V3 ℝ} (h : RightHanded a b c) : RightHanded b c a := by
  obtain ⟨u0, u1, u2, o01, o02, o12, rh⟩ := h
  refine ⟨u1, u2, u0, o12, ?_, ?_, ?_⟩
  · rw [dot_comm]; exact o01
  · rw [dot_comm]; exact o02
  · subst rh
    rw [bac_cab]
    simp only [V3.dot] at u1 o01
    have o10 : b.x * a.x + b.y * a.y + b.z * a.z = 0 := by linarith
    simp only [V3.sub, V3.smul, V3.dot, u1, o10]
    cases a; simp

/-- determinant of the column matrix of a right-handed triple is +1 -/
theorem RightHanded.det {a b c : V3 ℝ} (h : RightHanded a b c) : V3.dot (V3.cross a b) c = 1 := by
  rw [h.rh]; exact h.u2

/-! ### `try_normalize` over ℝ -/

theorem norm_sq (v : V3 ℝ) : V3.norm v * V3.norm v = V3.dot v v := by
  show Real.sqrt (V3.dot v v) * Real.sqrt (V3.dot v v) = V3.dot v v
  apply Real.mul_self_sqrt
  simp only [V3.dot]
  nlinarith [mul_self_nonneg v.x, mul_self_nonneg v.y, mul_self_nonneg v.z]

theorem norm_nonneg (v : V3 ℝ) : 0 ≤ V3.norm v := Real.sqrt_nonneg _

theorem tryNormalize3_none_iff (e : ℝ) (v : V3 ℝ) : tryNormalize3 e v = none ↔ V3.norm v ≤ e := by
  unfold tryNormalize3; dsimp only
  split <;> simp_all

/-- a successful normalisation: the norm exceeds the threshold, the input is `‖v‖ • u`, and `u`
    is a unit vector -/
theorem tryNormalize3_some {e : ℝ} (he : 0 ≤ e) {v u : V3 ℝ} (h : tryNormalize3 e v = some u) :
    e < V3.norm v ∧ v = V3.smul (V3.norm v) u ∧ V3.dot u u = 1 ∧
      u = ⟨v.x / V3.norm v, v.y / V3.norm v, v.z / V3.norm v⟩ := by
  unfold tryNormalize3 at h; dsimp only at h
  split at h
  · simp at h
  · rename_i hn
    have hpos : 0 < V3.norm v := by linarith [not_le.mp hn]
    have hne : V3.norm v ≠ 0 := ne_of_gt hpos
    have hu : u = ⟨v.x / V3.norm v, v.y / V3.norm v, v.z / V3.norm v⟩ := by
      simpa using h.symm
    refine ⟨not_le.mp hn, ?_, ?_, hu⟩
    · subst hu
      cases v
      simp only [V3.smul, V3.mk.injEq]
      refine ⟨?_, ?_, ?_⟩ <;> field_simp
    · subst hu
      have hs := norm_sq v
      simp only [V3.dot] at hs ⊢
      field_simp
      nlinarith [hs]

/-- zero has no direction -/
theorem tryNormalize3_zero {e : ℝ} (he : 0 ≤ e) : tryNormalize3 e (⟨0, 0, 0⟩ : V3 ℝ) = none := by
  rw [tryNormalize3_none_iff]
  have : V3.norm (⟨0, 0, 0⟩ : V3 ℝ) = 0 := by
    show Real.sqrt (V3.dot (⟨0, 0, 0⟩ : V3 ℝ) ⟨0, 0, 0⟩) = 0
    simp [V3.dot]
  rw [this]; exact he

/-! ### the two Gram–Schmidt cores -/

/-- Core A: `u` unit, `u × s = n₂ w` with `w` unit and `n₂ > 0`, `c = w × u`.
    Then `(u, c, w)` is right-handed orthonormal and `c · s = n₂ > 0`. -/
theorem coreA_abs {u s w c : V3 ℝ} {n2 : ℝ} (hn : 0 < n2) (hu : V3.dot u u = 1)
    (hw : V3.cross u s = V3.smul n2 w) (hww : V3.dot w w = 1) (hc : c = V3.cross w u) :
    RightHanded u c w ∧ V3.dot c s = n2 := by
  have huw : V3.dot u w = 0 := by
    have h := dot_cross_self_left u s
    rw [hw] at h
    simp only [V3.dot, V3.smul] at h ⊢
    have : n2 * (u.x * w.x + u.y * w.y + u.z * w.z) = 0 := by linarith
    rcases mul_eq_zero.mp this with h0 | h0
    · exact absurd h0 (ne_of_gt hn)
    · exact h0
  have hwu : V3.dot w u = 0 := by rw [dot_comm]; exact huw
  have hcc : V3.dot c c = 1 := by
    rw [hc, lagrange, hww, hu, hwu]; ring
  have huc : V3.dot u c = 0 := by rw [hc]; exact dot_cross_self_right w u
  have hcw : V3.dot c w = 0 := by rw [hc, dot_comm]; exact dot_cross_self_left w u
  have hrh : V3.cross u c = w := by
    rw [hc, bac_cab, hu, huw]
    cases w; simp [V3.sub, V3.smul]
  have hcs : V3.dot c s = n2 := by
    rw [hc, triple_shift, hw]
    simp only [V3.dot, V3.smul] at hww ⊢
    linear_combination n2 * hww
  exact ⟨⟨hu, hcc, hww, huc, huw, hcw, hrh⟩, hcs⟩

/-- Core B: `u` unit, `s × u = n₂ w` with `w` unit and `n₂ > 0`, `c = u × w`.
    Then `(u, w, c)` is right-handed orthonormal and `c · s = n₂ > 0`. -/
theorem coreB_abs {u s w c : V3 ℝ} {n2 : ℝ} (hn : 0 < n2) (hu : V3.dot u u = 1)
    (hw : V3.cross s u = V3.smul n2 w) (hww : V3.dot w w = 1) (hc : c = V3.cross u w) :
    RightHanded u w c ∧ V3.dot c s = n2 := by
  have huw : V3.dot u w = 0 := by
    have h := dot_cross_self_right s u
    rw [hw] at h
    simp only [V3.dot, V3.smul] at h ⊢
    have : n2 * (u.x * w.x + u.y * w.y + u.z * w.z) = 0 := by linarith
    rcases mul_eq_zero.mp this with h0 | h0
    · exact absurd h0 (ne_of_gt hn)
    · exact h0
  have hcc : V3.dot c c = 1 := by
    rw [hc, lagrange, hww, hu, huw]; ring
  have huc : V3.dot u c = 0 := by rw [hc]; exact dot_cross_self_left u w
  have hwc : V3.dot w c = 0 := by rw [hc]; exact dot_cross_self_right u w
  have hcs : V3.dot c s = n2 := by
    have e : V3.dot (V3.cross u w) s = V3.dot w (V3.cross s u) := by
      simp only [V3.dot, V3.cross]; ring
    rw [hc, e, hw]
    simp only [V3.dot, V3.smul] at hww ⊢
    linear_combination n2 * hww
  exact ⟨⟨hu, hww, hcc, huw, huc, hwc, hc.symm⟩, hcs⟩

/-- normalising a unit vector returns it -/
theorem normalize_unit_cross {e : ℝ} (he : 0 ≤ e) {x c : V3 ℝ} (hx : V3.dot x x = 1)
    (h : tryNormalize3 e x = some c) : c = x := by
  obtain ⟨_, _, _, hc⟩ := tryNormalize3_some he h
  have hn : V3.norm x = 1 := by
    show Real.sqrt (V3.dot x x) = 1
    rw [hx]; exact Real.sqrt_one
  rw [hn] at hc
  rw [hc]; cases x; simp

theorem tryNormalize3_unit {e : ℝ} (he1 : e < 1) {x : V3 ℝ} (hx : V3.dot x x = 1) :
    tryNormalize3 e x = some x := by
  have hn : V3.norm x = 1 := by
    show Real.sqrt (V3.dot x x) = 1
    rw [hx]; exact Real.sqrt_one
  unfold tryNormalize3; dsimp only
  rw [hn, if_neg (not_le.mpr he1)]
  cases x; simp

/-- **Core A of the model** (constructors xy, yz, zx). -/
theorem frameA_spec {e : ℝ} (he : 0 ≤ e) {p s u c w : V3 ℝ} (h : frameA e p s = some (u, c, w)) :
    RightHanded u c w ∧ p = V3.smul (V3.norm p) u ∧ e < V3.norm p ∧ 0 < V3.dot c s := by
  unfold frameA at h
  cases h1 : tryNormalize3 e p with
  | none => simp [h1] at h
  | some u' =>
    cases h2 : tryNormalize3 e (V3.cross u' s) with
    | none => simp [h1, h2] at h
    | some w' =>
      cases h3 : tryNormalize3 e (V3.cross w' u') with
      | none => simp [h1, h2, h3] at h
      | some c' =>
        simp only [h1, h2, h3, Option.some.injEq, Prod.mk.injEq] at h
        obtain ⟨rfl, rfl, rfl⟩ := h
        obtain ⟨hp, hpu, huu, _⟩ := tryNormalize3_some he h1
        obtain ⟨hn2, hw, hww, _⟩ := tryNormalize3_some he h2
        have hn2pos : 0 < V3.norm (V3.cross u' s) := lt_of_le_of_lt he hn2
        have hwu : V3.dot w' u' = 0 := by
          have h := dot_cross_self_left u' s
          rw [hw] at h
          simp only [V3.dot, V3.smul] at h ⊢
          have : V3.norm (V3.cross u' s) * (w'.x * u'.x + w'.y * u'.y + w'.z * u'.z) = 0 := by
            linarith
          rcases mul_eq_zero.mp this with h0 | h0
          · exact absurd h0 (ne_of_gt hn2pos)
          · exact h0
        have hx : V3.dot (V3.cross w' u') (V3.cross w' u') = 1 := by
          rw [lagrange, hww, huu, hwu]; ring
        have hc := normalize_unit_cross he hx h3
        obtain ⟨hr, hcs⟩ := coreA_abs hn2pos huu hw hww hc
        exact ⟨hr, hpu, hp, by rw [hcs]; exact hn2pos⟩

/-- **Core B of the model** (constructors xz, yx, zy). -/
theorem frameB_spec {e : ℝ} (he : 0 ≤ e) {p s u w c : V3 ℝ} (h : frameB e p s = some (u, w, c)) :
    RightHanded u w c ∧ p = V3.smul (V3.norm p) u ∧ e < V3.norm p ∧ 0 < V3.dot c s := by
  unfold frameB at h
  cases h1 : tryNormalize3 e p with
  | none => simp [h1] at h
  | some u' =>
    cases h2 : tryNormalize3 e (V3.cross s u') with
    | none => simp [h1, h2] at h
    | some w' =>
      cases h3 : tryNormalize3 e (V3.cross u' w') with
      | none => simp [h1, h2, h3] at h
      | some c' =>
        simp only [h1, h2, h3, Option.some.injEq, Prod.mk.injEq] at h
        obtain ⟨rfl, rfl, rfl⟩ := h
        obtain ⟨hp, hpu, huu, _⟩ := tryNormalize3_some he h1
        obtain ⟨hn2, hw, hww, _⟩ := tryNormalize3_some he h2
        have hn2pos : 0 < V3.norm (V3.cross s u') := lt_of_le_of_lt he hn2
        have huw : V3.dot u' w' = 0 := by
          have h := dot_cross_self_right s u'
          rw [hw] at h
          simp only [V3.dot, V3.smul] at h ⊢
          have : V3.norm (V3.cross s u') * (u'.x * w'.x + u'.y * w'.y + u'.z * w'.z) = 0 := by
            linarith
          rcases mul_eq_zero.mp this with h0 | h0
          · exact absurd h0 (ne_of_gt hn2pos)
          · exact h0
        have hx : V3.dot (V3.cross u' w') (V3.cross u' w') = 1 := by
          rw [lagrange, hww, huu, huw]; ring
        have hc := normalize_unit_cross he hx h3
        obtain ⟨hr, hcs⟩ := coreB_abs hn2pos huu hw hww hc
        exact ⟨hr, hpu, hp, by rw [hcs]; exact hn2pos⟩

/-- Failure of core A is exactly: the first argument or the cross product is below threshold. -/
theorem frameA_none_iff {e : ℝ} (he : 0 ≤ e) (he1 : e < 1) (p s : V3 ℝ) :
    frameA e p s = none ↔
      V3.norm p ≤ e ∨ ∃ u, tryNormalize3 e p = some u ∧ V3.norm (V3.cross u s) ≤ e := by
  unfold frameA
  cases h1 : tryNormalize3 e p with
  | none => simp [(tryNormalize3_none_iff e p).mp h1]
  | some u' =>
    have hp : ¬ V3.norm p ≤ e := by
      intro hle; rw [← tryNormalize3_none_iff] at hle; simp [hle] at h1
    dsimp only
    cases h2 : tryNormalize3 e (V3.cross u' s) with
    | none => simp [(tryNormalize3_none_iff e _).mp h2]
    | some w' =>
      have hc : ¬ V3.norm (V3.cross u' s) ≤ e := by
        intro hle; rw [← tryNormalize3_none_iff] at hle; simp [hle] at h2
      obtain ⟨_, _, huu, _⟩ := tryNormalize3_some he h1
      obtain ⟨hn2, hw, hww, _⟩ := tryNormalize3_some he h2
      have hn2pos : 0 < V3.norm (V3.cross u' s) := lt_of_le_of_lt he hn2
      have hwu : V3.dot w' u' = 0 := by
        have h := dot_cross_self_left u' s
        rw [hw] at h
        simp only [V3.dot, V3.smul] at h ⊢
        have : V3.norm (V3.cross u' s) * (w'.x * u'.x + w'.y * u'.y + w'.z * u'.z) = 0 := by
          linarith
        rcases mul_eq_zero.mp this with h0 | h0
        · exact absurd h0 (ne_of_gt hn2pos)
        · exact h0
      have hx : V3.dot (V3.cross w' u') (V3.cross w' u') = 1 := by
        rw [lagrange, hww, huu, hwu]; ring
      dsimp only
      rw [tryNormalize3_unit he1 hx]
      simp [hp, hc]

theorem frameB_none_iff {e : ℝ} (he : 0 ≤ e) (he1 : e < 1) (p s : V3 ℝ) :
    frameB e p s = none ↔
      V3.norm p ≤ e ∨ ∃ u, tryNormalize3 e p = some u ∧ V3.norm (V3.cross s u) ≤ e := by
  unfold frameB
  cases h1 : tryNormalize3 e p with
  | none => simp [(tryNormalize3_none_iff e p).mp h1]
  | some u' =>
    have hp : ¬ V3.norm p ≤ e := by
      intro hle; rw [← tryNormalize3_none_iff] at hle; simp [hle] at h1
    dsimp only
    cases h2 : tryNormalize3 e (V3.cross s u') with
    | none => simp [(tryNormalize3_none_iff e _).mp h2]
    | some w' =>
      have hc : ¬ V3.norm (V3.cross s u') ≤ e := by
        intro hle; rw [← tryNormalize3_none_iff] at hle; simp [hle] at h2
      obtain ⟨_, _, huu, _⟩ := tryNormalize3_some he h1
      obtain ⟨hn2, hw, hww, _⟩ := tryNormalize3_some he h2
      have hn2pos : 0 < V3.norm (V3.cross s u') := lt_of_le_of_lt he hn2
      have hwu : V3.dot u' w' = 0 := by
        have h := dot_cross_self_right s u'
        rw [hw] at h
        simp only [V3.dot, V3.smul] at h ⊢
        have : V3.norm (V3.cross s u') * (u'.x * w'.x + u'.y * w'.y + u'.z * w'.z) = 0 := by
          linarith
        rcases mul_eq_zero.mp this with h0 | h0
        · exact absurd h0 (ne_of_gt hn2pos)
        · exact h0
      have hx : V3.dot (V3.cross u' w') (V3.cross u' w') = 1 := by
        rw [lagrange, huu, hww, hwu]; ring
      dsimp only
      rw [tryNormalize3_unit he1 hx]
      simp [hp, hc]

/-! ### the interpreted recipes are the six written-out constructors -/

theorem runFrame_xy (e : ℝ) (a b : V3 ℝ) :
    runFrame e 0 1 [(2, 0, 1), (1, 2, 0)] a b = frameXY e a b := by
  unfold runFrame frameXY frameA
  simp only [Frame3.get, Frame3.set, List.foldl]
  cases h1 : tryNormalize3 e a with
  | none => simp [h1]
  | some u =>
    cases h2 : tryNormalize3 e (V3.cross u b) with
    | none => simp [h1, h2]
    | some w =>
      cases h3 : tryNormalize3 e (V3.cross w u) with
      | none => simp [h1, h2, h3]
      | some c => simp [h1, h2, h3]

theorem runFrame_xz (e : ℝ) (a b : V3 ℝ) :
    runFrame e 0 2 [(1, 2, 0), (2, 0, 1)] a b = frameXZ e a b := by
  unfold runFrame frameXZ frameB
  simp only [Frame3.get, Frame3.set, List.foldl]
  cases h1 : tryNormalize3 e a with
  | none => simp [h1]
  | some u =>
    cases h2 : tryNormalize3 e (V3.cross b u) with
    | none => simp [h1, h2]
    | some w =>
      cases h3 : tryNormalize3 e (V3.cross u w) with
      | none => simp [h1, h2, h3]
      | some c => simp [h1, h2, h3]

theorem runFrame_yz (e : ℝ) (a b : V3 ℝ) :
    runFrame e 1 2 [(0, 1, 2), (2, 0, 1)] a b = frameYZ e a b := by
  unfold runFrame frameYZ frameA
  simp only [Frame3.get, Frame3.set, List.foldl]
  cases h1 : tryNormalize3 e a with
  | none => simp [h1]
  | some u =>
    cases h2 : tryNormalize3 e (V3.cross u b) with
    | none => simp [h1, h2]
    | some w =>
      cases h3 : tryNormalize3 e (V3.cross w u) with
      | none => simp [h1, h2, h3]
      | some c => simp [h1, h2, h3]

theorem runFrame_yx (e : ℝ) (a b : V3 ℝ) :
    runFrame e 1 0 [(2, 0, 1), (0, 1, 2)] a b = frameYX e a b := by
  unfold runFrame frameYX frameB
  simp only [Frame3.get, Frame3.set, List.foldl]
  cases h1 : tryNormalize3 e a with
  | none => simp [h1]
  | some u =>
    cases h2 : tryNormalize3 e (V3.cross b u) with
    | none => simp [h1, h2]
    | some w =>
      cases h3 : tryNormalize3 e (V3.cross u w) with
      | none => simp [h1, h2, h3]
      | some c => simp [h1, h2, h3]

theorem runFrame_zx (e : ℝ) (a b : V3 ℝ) :
    runFrame e 2 0 [(1, 2, 0), (0, 1, 2)] a b = frameZX e a b := by
  unfold runFrame frameZX frameA
  simp only [Frame3.get, Frame3.set, List.foldl]
  cases h1 : tryNormalize3 e a with
  | none => simp [h1]
  | some u =>
    cases h2 : tryNormalize3 e (V3.cross u b) with
    | none => simp [h1, h2]
    | some w =>
      cases h3 : tryNormalize3 e (V3.cross w u) with
      | none => simp [h1, h2, h3]
      | some c => simp [h1, h2, h3]

theorem runFrame_zy (e : ℝ) (a b : V3 ℝ) :
    runFrame e 2 1 [(0, 1, 2), (1, 2, 0)] a b = frameZY e a b := by
  unfold runFrame frameZY frameB
  simp only [Frame3.get, Frame3.set, List.foldl]
  cases h1 : tryNormalize3 e a with
  | none => simp [h1]
  | some u =>
    cases h2 : tryNormalize3 e (V3.cross b u) with
    | none => simp [h1, h2]
    | some w =>
      cases h3 : tryNormalize3 e (V3.cross u w) with
      | none => simp [h1, h2, h3]
      | some c => simp [h1, h2, h3]

/-- `Iso3::try_from_basis_<kind>` as regenerated from the source: look the recipe up, run it with
    the regenerated threshold -/
noncomputable def construct (kind : String) (a b : V3 ℝ) : Option (Frame3 ℝ) :=
  match Gen.frameRecipes.find? (·.1 = kind) with
  | none => none
  | some (_, pr, se, steps) => runFrame eps pr se steps a b

theorem construct_xy (a b : V3 ℝ) : construct "xy" a b = frameXY eps a b := by
  unfold construct; rw [recipes_as_expected]; exact runFrame_xy eps a b
theorem construct_xz (a b : V3 ℝ) : construct "xz" a b = frameXZ eps a b := by
  unfold construct; rw [recipes_as_expected]; exact runFrame_xz eps a b
theorem construct_yz (a b : V3 ℝ) : construct "yz" a b = frameYZ eps a b := by
  unfold construct; rw [recipes_as_expected]; exact runFrame_yz eps a b
theorem construct_yx (a b : V3 ℝ) : construct "yx" a b = frameYX eps a b := by
  unfold construct; rw [recipes_as_expected]; exact runFrame_yx eps a b
theorem construct_zx (a b : V3 ℝ) : construct "zx" a b = frameZX eps a b := by
  unfold construct; rw [recipes_as_expected]; exact runFrame_zx eps a b
theorem construct_zy (a b : V3 ℝ) : construct "zy" a b = frameZY eps a b := by
  unfold construct; rw [recipes_as_expected]; exact runFrame_zy eps a b

/-! ### C19, frame half: what every successful constructor returns -/

/-- the statement of the property for one constructor: a proper rotation whose `primary` column
    is the normalised first argument and whose `secondary` column is on the second argument's
    side -/
structure FrameSpec (F : Frame3 ℝ) (primary secondary a b : V3 ℝ) : Prop where
  rightHanded : RightHanded F.e0 F.e1 F.e2
  primary_is_normalised_first : a = V3.smul (V3.norm a) primary ∧ 0 < V3.norm a
  secondary_in_half_plane : 0 < V3.dot secondary b

theorem xy_spec {a b : V3 ℝ} {F : Frame3 ℝ} (h : construct "xy" a b = some F) :
    FrameSpec F F.e0 F.e1 a b := by
  rw [construct_xy] at h; unfold frameXY at h
  cases hA : frameA eps a b with
  | none => simp [hA] at h
  | some t =>
    obtain ⟨u, c, w⟩ := t
    simp only [hA, Option.map_some, Option.some.injEq] at h
    subst h
    obtain ⟨hr, hp, hn, hs⟩ := frameA_spec eps_range.1 hA
    exact ⟨hr, ⟨hp, lt_of_le_of_lt eps_range.1 hn⟩, hs⟩

theorem yz_spec {a b : V3 ℝ} {F : Frame3 ℝ} (h : construct "yz" a b = some F) :
    FrameSpec F F.e1 F.e2 a b := by
  rw [construct_yz] at h; unfold frameYZ at h
  cases hA : frameA eps a b with
  | none => simp [hA] at h
  | some t =>
    obtain ⟨u, c, w⟩ := t
    simp only [hA, Option.map_some, Option.some.injEq] at h
    subst h
    obtain ⟨hr, hp, hn, hs⟩ := frameA_spec eps_range.1 hA
    exact ⟨hr.rotate.rotate, ⟨hp, lt_of_le_of_lt eps_range.1 hn⟩, hs⟩

theorem zx_spec {a b : V3 ℝ} {F : Frame3 ℝ} (h : construct "zx" a b = some F) :
    FrameSpec F F.e2 F.e0 a b := by
  rw [construct_zx] at h; unfold frameZX at h
  cases hA : frameA eps a b with
  | none => simp [hA] at h
  | some t =>
    obtain ⟨u, c, w⟩ := t
    simp only [hA, Option.map_some, Option.some.injEq] at h
    subst h
    obtain ⟨hr, hp, hn, hs⟩ := frameA_spec eps_range.1 hA
    exact ⟨hr.rotate, ⟨hp, lt_of_le_of_lt eps_range.1 hn⟩, hs⟩

theorem xz_spec {a b : V3 ℝ} {F : Frame3 ℝ} (h : construct "xz" a b = some F) :
    FrameSpec F F.e0 F.e2 a b := by
  rw [construct_xz] at h; unfold frameXZ at h
  cases hB : frameB eps a b with
  | none => simp [hB] at h
  | some t =>
    obtain ⟨u, w, c⟩ := t
    simp only [hB, Option.map_some, Option.some.injEq] at h
    subst h
    obtain ⟨hr, hp, hn, hs⟩ := frameB_spec eps_range.1 hB
    exact ⟨hr, ⟨hp, lt_of_le_of_lt eps_range.1 hn⟩, hs⟩

theorem yx_spec {a b : V3 ℝ} {F : Frame3 ℝ} (h : construct "yx" a b = some F) :
    FrameSpec F F.e1 F.e0 a b := by
  rw [construct_yx] at h; unfold frameYX at h
  cases hB : frameB eps a b with
  | none => simp [hB] at h
  | some t =>
    obtain ⟨u, w, c⟩ := t
    simp only [hB, Option.map_some, Option.some.injEq] at h
    subst h
    obtain ⟨hr, hp, hn, hs⟩ := frameB_spec eps_range.1 hB
    exact ⟨hr.rotate.rotate, ⟨hp, lt_of_le_of_lt eps_range.1 hn⟩, hs⟩

theorem zy_spec {a b : V3 ℝ} {F : Frame3 ℝ} (h : construct "zy" a b = some F) :
    FrameSpec F F.e2 F.e1 a b := by
  rw [construct_zy] at h; unfold frameZY at h
  cases hB : frameB eps a b with
  | none => simp [hB] at h
  | some t =>
    obtain ⟨u, w, c⟩ := t
    simp only [hB, Option.map_some, Option.some.injEq] at h
    subst h
    obtain ⟨hr, hp, hn, hs⟩ := frameB_spec eps_range.1 hB
    exact ⟨hr.rotate, ⟨hp, lt_of_le_of_lt eps_range.1 hn⟩, hs⟩

/-! ### … and when it fails -/

theorem cross_smul_self (k : ℝ) (u : V3 ℝ) : V3.cross u (V3.smul k u) = ⟨0, 0, 0⟩ := by
  simp only [V3.cross, V3.smul, V3.mk.injEq]; refine ⟨?_, ?_, ?_⟩ <;> ring
theorem cross_smul_self_left (k : ℝ) (u : V3 ℝ) : V3.cross (V3.smul k u) u = ⟨0, 0, 0⟩ := by
  simp only [V3.cross, V3.smul, V3.mk.injEq]; refine ⟨?_, ?_, ?_⟩ <;> ring
theorem norm_zero : V3.norm (⟨0, 0, 0⟩ : V3 ℝ) = 0 := by
  show Real.sqrt (V3.dot (⟨0, 0, 0⟩ : V3 ℝ) ⟨0, 0, 0⟩) = 0
  simp [V3.dot]
theorem smul_smul_v3 (j k : ℝ) (u : V3 ℝ) : V3.smul j (V3.smul k u) = V3.smul (j * k) u := by
  simp only [V3.smul, V3.mk.injEq]; refine ⟨?_, ?_, ?_⟩ <;> ring

/-- zero first argument, or second argument parallel to the first (incl. zero): both cores fail -/
theorem cores_fail {p s : V3 ℝ} (h : p = ⟨0, 0, 0⟩ ∨ ∃ k : ℝ, s = V3.smul k p) :
    frameA eps p s = none ∧ frameB eps p s = none := by
  obtain ⟨he0, he1⟩ := eps_range
  rw [frameA_none_iff he0 he1, frameB_none_iff he0 he1]
  rcases h with rfl | ⟨k, rfl⟩
  · rw [norm_zero]; exact ⟨Or.inl he0, Or.inl he0⟩
  · by_cases hp : V3.norm p ≤ eps
    · exact ⟨Or.inl hp, Or.inl hp⟩
    · have hsome : ∃ u, tryNormalize3 eps p = some u := by
        cases h : tryNormalize3 eps p with
        | none => exact absurd ((tryNormalize3_none_iff _ _).mp h) hp
        | some u => exact ⟨u, rfl⟩
      obtain ⟨u, hu⟩ := hsome
      obtain ⟨_, hpu, _, _⟩ := tryNormalize3_some he0 hu
      have e1 : V3.cross u (V3.smul k p) = ⟨0, 0, 0⟩ := by
        rw [hpu, smul_smul_v3]; exact cross_smul_self _ u
      have e2 : V3.cross (V3.smul k p) u = ⟨0, 0, 0⟩ := by
        rw [hpu, smul_smul_v3]; exact cross_smul_self_left _ u
      refine ⟨Or.inr ⟨u, hu, ?_⟩, Or.inr ⟨u, hu, ?_⟩⟩
      · rw [e1, norm_zero]; exact he0
      · rw [e2, norm_zero]; exact he0

/-- **C19 (failure half)**: every one of the six constructors returns an error for a zero first
    argument and for a second argument that is a multiple of the first (parallel, anti-parallel or
    zero). -/
theorem construct_fails_on_degenerate {a b : V3 ℝ} (h : a = ⟨0, 0, 0⟩ ∨ ∃ k : ℝ, b = V3.smul k a) :
    construct "xy" a b = none ∧ construct "xz" a b = none ∧ construct "yz" a b = none ∧
    construct "yx" a b = none ∧ construct "zx" a b = none ∧ construct "zy" a b = none := by
  obtain ⟨hA, hB⟩ := cores_fail h
  rw [construct_xy, construct_xz, construct_yz, construct_yx, construct_zx, construct_zy]
  unfold frameXY frameXZ frameYZ frameYX frameZX frameZY
  simp [hA, hB]

/-- … and succeeds otherwise, as soon as the first argument and the cross product of its direction
    with the second exceed the threshold (core A; the statement for core B is symmetric). -/
theorem construct_xy_succeeds {a b u : V3 ℝ} (ha : tryNormalize3 eps a = some u)
    (hc : eps < V3.norm (V3.cross u b)) : ∃ F, construct "xy" a b = some F := by
  obtain ⟨he0, he1⟩ := eps_range
  rw [construct_xy]; unfold frameXY
  cases hA : frameA eps a b with
  | some t => exact ⟨_, rfl⟩
  | none =>
    rw [frameA_none_iff he0 he1] at hA
    rcases hA with h | ⟨u', hu', h⟩
    · rw [← tryNormalize3_none_iff] at h; simp [h] at ha
    · rw [ha] at hu'; cases hu'; exact absurd h (not_le.mpr hc)

/-! ### from columns to the isometry -/

theorem toIso_isRot {F : Frame3 ℝ} (h : RightHanded F.e0 F.e1 F.e2) (o : V3 ℝ) :
    C03.IsRot3 (F.toIso o) := by
  obtain ⟨u0, u1, u2, o01, o02, o12, _⟩ := h
  exact ⟨u0, u1, u2, o01, o02, o12⟩

/-- the frame maps the origin of the local system to the given point, and the local axes to the
    columns -/
theorem toIso_apply (F : Frame3 ℝ) (o : V3 ℝ) :
    (F.toIso o).apply ⟨0, 0, 0⟩ = o ∧ (F.toIso o).applyVec ⟨1, 0, 0⟩ = F.e0 ∧
    (F.toIso o).applyVec ⟨0, 1, 0⟩ = F.e1 ∧ (F.toIso o).applyVec ⟨0, 0, 1⟩ = F.e2 := by
  cases F with | mk e0 e1 e2 =>
  cases e0; cases e1; cases e2; cases o
  simp [Frame3.toIso, Iso3.apply, Iso3.applyVec, V3.dot, V3.add]

/-- non-vacuity: a skew, unnormalised pair on which the constructor succeeds -/
example : ∃ u c w, frameA (0 : ℝ) ⟨2, 0, 0⟩ ⟨3, 4, 0⟩ = some (u, c, w) := by
  have n1 : V3.norm (⟨2, 0, 0⟩ : V3 ℝ) = 2 := by
    show Real.sqrt (V3.dot (⟨2, 0, 0⟩ : V3 ℝ) ⟨2, 0, 0⟩) = 2
    rw [show V3.dot (⟨2, 0, 0⟩ : V3 ℝ) ⟨2, 0, 0⟩ = 2 ^ 2 by simp [V3.dot]; ring]
    exact Real.sqrt_sq (by norm_num)
  have h1 : tryNormalize3 (0 : ℝ) ⟨2, 0, 0⟩ = some ⟨1, 0, 0⟩ := by
    unfold tryNormalize3; dsimp only; rw [n1]; norm_num
  have n2 : V3.norm (V3.cross (⟨1, 0, 0⟩ : V3 ℝ) ⟨3, 4, 0⟩) = 4 := by
    show Real.sqrt (V3.dot _ _) = 4
    rw [show V3.dot (V3.cross (⟨1, 0, 0⟩ : V3 ℝ) ⟨3, 4, 0⟩) (V3.cross (⟨1, 0, 0⟩ : V3 ℝ) ⟨3, 4, 0⟩)
      = 4 ^ 2 by simp [V3.dot, V3.cross]; ring]
    exact Real.sqrt_sq (by norm_num)
  have h2 : tryNormalize3 (0 : ℝ) (V3.cross (⟨1, 0, 0⟩ : V3 ℝ) ⟨3, 4, 0⟩) = some ⟨0, 0, 1⟩ := by
    unfold tryNormalize3; dsimp only; rw [n2]; norm_num [V3.cross]
  have h3 : tryNormalize3 (0 : ℝ) (V3.cross (⟨0, 0, 1⟩ : V3 ℝ) ⟨1, 0, 0⟩) = some ⟨0, 1, 0⟩ := by
    have : V3.cross (⟨0, 0, 1⟩ : V3 ℝ) ⟨1, 0, 0⟩ = ⟨0, 1, 0⟩ := by simp [V3.cross]
    rw [this]; exact tryNormalize3_unit (by norm_num) (by simp [V3.dot])
  exact ⟨_, _, _, by unfold frameA; rw [h1]; dsimp only; rw [h2]; dsimp only; rw [h3]⟩

end C19
