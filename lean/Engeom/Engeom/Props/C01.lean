import Engeom.Model.Curve
import Engeom.Lemmas.RealScalar
import Mathlib.Tactic.Linarith
import Mathlib.Tactic.FieldSimp
import Mathlib.Tactic.Ring
/-
  C01 — Curve stations are consistent with arc length.
  Statements are about the generic polyline model (Engeom/Model/Curve.lean) at ℝ; `P` is any point
  type with the vector interface (both V2 ℝ and V3 ℝ are instances), unless a statement is about
  coordinates, in which case it is given for V2 and V3.
-/

namespace C01

variable {P : Type} [VecLike P ℝ] [Inhabited P]

theorem vdist_nonneg (a b : P) : 0 ≤ vdist a b := by
  unfold vdist vnorm; rw [sqrtR]; exact Real.sqrt_nonneg _

/-! ### cumulative vertex lengths -/

theorem cumLengths_go_spec (acc : ℝ) (prev : P) (r : List P) :
    (cumLengths.go acc prev r).length = r.length + 1 ∧
    (cumLengths.go acc prev r).head? = some acc ∧
    (∀ x ∈ cumLengths.go acc prev r, acc ≤ x) ∧
    (cumLengths.go acc prev r).Pairwise (· ≤ ·) := by
  induction r generalizing acc prev with
  | nil => simp [cumLengths.go]
  | cons b r ih =>
    obtain ⟨h1, h2, h3, h4⟩ := ih (acc + vdist b prev) b
    have hd := vdist_nonneg b prev
    simp only [cumLengths.go, List.length_cons, List.head?_cons, List.mem_cons, List.pairwise_cons]
    refine ⟨by omega, by trivial, ?_, ?_, h4⟩
    · rintro x (rfl | hx)
      · exact le_refl _
      · have := h3 x hx; linarith
    · intro x hx; have := h3 x hx; linarith

/-- Cumulative vertex lengths start at 0, have one entry per vertex and are non-decreasing. -/
theorem cumLengths_spec (verts : List P) (hne : verts ≠ []) :
    (cumLengths verts).length = verts.length ∧ (cumLengths verts).head? = some 0 ∧
    (cumLengths verts).Pairwise (· ≤ ·) := by
  cases verts with
  | nil => exact absurd rfl hne
  | cons a r =>
    obtain ⟨h1, h2, _, h4⟩ := cumLengths_go_spec (0 : ℝ) a r
    exact ⟨by simpa [cumLengths] using h1, by simpa [cumLengths] using h2, by simpa [cumLengths] using h4⟩

/-- sum of the edge lengths of a vertex list -/
noncomputable def edgeSum : List P → ℝ
  | [] => 0
  | [_] => 0
  | a :: b :: r => vdist b a + edgeSum (b :: r)

theorem cumLengths_go_last (acc : ℝ) (prev : P) (r : List P) :
    (cumLengths.go acc prev r).getLast? = some (acc + edgeSum (prev :: r)) := by
  induction r generalizing acc prev with
  | nil => simp [cumLengths.go, edgeSum]
  | cons b r ih =>
    simp only [cumLengths.go, edgeSum]
    rw [List.getLast?_cons, ih]
    simp only [Option.getD_some, Option.some.injEq]
    ring

/-- … and end at the sum of the edge lengths. -/
theorem cumLengths_last (verts : List P) (hne : verts ≠ []) :
    (cumLengths verts).getLast? = some (edgeSum verts) := by
  cases verts with
  | nil => exact absurd rfl hne
  | cons a r => simpa [cumLengths] using cumLengths_go_last (0 : ℝ) a r

/-! ### stations -/

/-- A length outside `[0, L]` yields no station (no clamping, no extrapolation) and a length inside
    always yields one. -/
theorem atLength_none_iff (c : Curve ℝ P) (l : ℝ) :
    c.atLength l = none ↔ (l < 0 ∨ c.length < l) := by
  unfold Curve.atLength
  constructor
  · intro h
    by_contra hc
    push_neg at hc
    have : ¬ (decide (l < 0) || decide (c.length < l)) = true := by
      simp [not_lt.mpr hc.1, not_lt.mpr hc.2]
    rw [if_neg this] at h
    dsimp only at h
    split_ifs at h
  · intro h
    have : (decide (l < 0) || decide (c.length < l)) = true := by
      rcases h with h | h <;> simp [h]
    rw [if_pos this]

/-- well-formed curve: as built by `from_points` (one length per vertex, starting at 0, strictly
    increasing because consecutive vertices are farther apart than the tolerance) -/
structure WF (c : Curve ℝ P) : Prop where
  count : 2 ≤ c.verts.length
  lens : c.lengths.length = c.verts.length
  head : c.lengths.head? = some 0
  strict : c.lengths.Pairwise (· < ·)

theorem len_get (c : Curve ℝ P) (i : Nat) (h : i < c.lengths.length) : c.lengths[i]? = some (c.len i) := by
  unfold Curve.len; simp [List.getD, h]

theorem len_strict (c : Curve ℝ P) (hs : c.lengths.Pairwise (· < ·)) (i j : Nat) (hij : i < j)
    (hj : j < c.lengths.length) : c.len i < c.len j := by
  have hi : i < c.lengths.length := by omega
  unfold Curve.len
  simp only [List.getD, List.getElem?_eq_getElem hi, List.getElem?_eq_getElem hj, Option.getD_some]
  exact List.pairwise_iff_getElem.mp hs i j hi hj hij

theorem countLt_spec (ls : List ℝ) (hs : ls.Pairwise (· < ·)) (l : ℝ) :
    countLt ls l ≤ ls.length ∧ (∀ j (hj : j < ls.length), j < countLt ls l → ls[j] < l) ∧
    (∀ j (hj : j < ls.length), countLt ls l ≤ j → l ≤ ls[j]) := by
  induction ls with
  | nil => simp [countLt]
  | cons a r ih =>
    have hs' := List.pairwise_cons.mp hs
    obtain ⟨i1, i2, i3⟩ := ih hs'.2
    unfold countLt at *
    by_cases ha : a < l
    · simp only [List.takeWhile_cons, ha, decide_true, if_true, List.length_cons]
      refine ⟨by omega, ?_, ?_⟩
      · intro j hj hjc
        cases j with
        | zero => simpa using ha
        | succ j => simpa using i2 j (by simpa using hj) (by omega)
      · intro j hj hjc
        cases j with
        | zero => omega
        | succ j => simpa using i3 j (by simpa using hj) (by omega)
    · have e0 : (List.takeWhile (fun v => decide (v < l)) (a :: r)).length = 0 := by simp [ha]
      rw [e0]
      refine ⟨by omega, by intro j _ h; omega, ?_⟩
      intro j hj _
      cases j with
      | zero => simpa using not_lt.mp ha
      | succ j =>
        have hm : r[j]'(by simpa using hj) ∈ r := List.getElem_mem _
        have := hs'.1 _ hm
        simp only [List.getElem_cons_succ]
        linarith [not_lt.mp ha]

theorem length_eq_last (c : Curve ℝ P) (hw : WF c) : c.length = c.len (c.verts.length - 1) := by
  have hl : c.lengths ≠ [] := by
    intro h; have := hw.lens; rw [h] at this; have := hw.count; simp at *; omega
  unfold Curve.length Curve.len
  have hi : c.verts.length - 1 < c.lengths.length := by have := hw.lens; have := hw.count; omega
  rw [List.getLast?_eq_getElem?, hw.lens]
  simp only [List.getD, List.getElem?_eq_getElem hi, Option.getD_some]

/-- The station returned for `l ∈ [0, L]` reports a length-along equal to `l`, with an edge index
    inside the curve and a fraction in `[0, 1]`. -/
theorem atLength_lengthAlong (c : Curve ℝ P) (hw : WF c) (l : ℝ) (h0 : 0 ≤ l) (hL : l ≤ c.length) :
    ∃ s, c.atLength l = some s ∧ c.lengthAlong s = l ∧ s.index + 1 < c.verts.length ∧
      0 ≤ s.fraction ∧ s.fraction ≤ 1 := by
  obtain ⟨k1, k2, k3⟩ := countLt_spec c.lengths hw.strict l
  have hn := hw.count
  have hlen := hw.lens
  have hlast := length_eq_last c hw
  have hget : ∀ j (hj : j < c.lengths.length), c.lengths[j] = c.len j := by
    intro j hj; unfold Curve.len; simp [List.getD, hj]
  have h00 : c.len 0 = 0 := by
    have := hw.head
    rw [List.head?_eq_getElem?, List.getElem?_eq_getElem (by omega)] at this
    rw [← hget 0 (by omega)]; exact Option.some.inj this
  -- the insertion point is at most the last index
  have hk_le : countLt c.lengths l ≤ c.verts.length - 1 := by
    by_contra hc
    have hc' : c.verts.length - 1 < countLt c.lengths l := by omega
    have := k2 (c.verts.length - 1) (by omega) hc'
    rw [hget _ (by omega), ← hlast] at this
    linarith
  unfold Curve.atLength
  have hcond : ¬ (decide (l < 0) || decide (c.length < l)) = true := by
    simp [not_lt.mpr h0, not_lt.mpr hL]
  rw [if_neg hcond]
  dsimp only
  set k := countLt c.lengths l with hk
  have hkl : k < c.lengths.length := by omega
  have hge : l ≤ c.len k := by rw [← hget k hkl]; exact k3 k hkl (le_refl _)
  by_cases hhit : l < c.len k
  · -- strictly inside an edge
    have hk0 : 0 < k := by
      by_contra h; have : k = 0 := by omega
      rw [this, h00] at hhit; linarith
    have hcond2 : ¬ (decide (k < c.lengths.length) && !decide (l < c.len k)) = true := by simp [hhit]
    rw [if_neg hcond2]
    have hlo : c.len (k - 1) < l := by rw [← hget (k - 1) (by omega)]; exact k2 (k - 1) (by omega) (by omega)
    have hk1 : k - 1 + 1 = k := by omega
    have hden : 0 < c.len (k - 1 + 1) - c.len (k - 1) := by rw [hk1]; linarith
    refine ⟨_, rfl, ?_, ?_, ?_, ?_⟩
    · unfold Curve.lengthAlong; dsimp only; field_simp; ring
    · dsimp only; omega
    · dsimp only; exact div_nonneg (by linarith) hden.le
    · dsimp only; rw [div_le_one hden, hk1]; linarith
  · -- exact hit on vertex k
    have heq : c.len k = l := le_antisymm (not_lt.mp hhit) hge
    have hcond2 : (decide (k < c.lengths.length) && !decide (l < c.len k)) = true := by simp [hkl, hhit]
    rw [if_pos hcond2]
    unfold Curve.atVertex Curve.count
    by_cases hlastk : (k + 1 == c.verts.length) = true
    · rw [if_pos hlastk]
      have hk' : k + 1 = c.verts.length := by simpa using hlastk
      refine ⟨_, rfl, ?_, ?_, by norm_num, by norm_num⟩
      · unfold Curve.lengthAlong; dsimp only
        have : k - 1 + 1 = k := by omega
        rw [this, ← heq]; ring
      · dsimp only; omega
    · rw [if_neg hlastk]
      have hk' : k + 1 ≠ c.verts.length := by simpa using hlastk
      refine ⟨_, rfl, ?_, ?_, by norm_num, by norm_num⟩
      · unfold Curve.lengthAlong; dsimp only; rw [← heq]; ring
      · dsimp only; omega

/-! ### directions are unit vectors (2-D and 3-D) -/

theorem normalize_unit2 (v : V2 ℝ) (hv : 0 < V2.dot v v) :
    V2.dot (vnormalize v) (vnormalize v) = 1 := by
  have hn : vnorm v = Real.sqrt (V2.dot v v) := rfl
  have hpos : 0 < vnorm v := by rw [hn]; exact Real.sqrt_pos.mpr hv
  have hsq : vnorm v * vnorm v = V2.dot v v := by rw [hn]; exact Real.mul_self_sqrt hv.le
  show V2.dot (V2.smul (1 / vnorm v) v) (V2.smul (1 / vnorm v) v) = 1
  simp only [V2.dot, V2.smul] at hsq ⊢
  field_simp
  linarith

theorem normalize_unit3 (v : V3 ℝ) (hv : 0 < V3.dot v v) :
    V3.dot (vnormalize v) (vnormalize v) = 1 := by
  have hn : vnorm v = Real.sqrt (V3.dot v v) := rfl
  have hpos : 0 < vnorm v := by rw [hn]; exact Real.sqrt_pos.mpr hv
  have hsq : vnorm v * vnorm v = V3.dot v v := by rw [hn]; exact Real.mul_self_sqrt hv.le
  show V3.dot (V3.smul (1 / vnorm v) v) (V3.smul (1 / vnorm v) v) = 1
  simp only [V3.dot, V3.smul] at hsq ⊢
  field_simp
  linarith

/-- The point `v + rem • normalize (w − v)` with `rem = f · ‖w − v‖` is the linear interpolation
    `v + f • (w − v)`: index and fraction reproduce the station's point (2-D). -/
theorem station_point_is_lerp2 (v w : V2 ℝ) (f : ℝ) (hvw : 0 < V2.dot (V2.sub w v) (V2.sub w v)) :
    V2.add v (V2.smul (f * vnorm (V2.sub w v)) (vnormalize (V2.sub w v))) = V2.add v (V2.smul f (V2.sub w v)) := by
  have hn : vnorm (V2.sub w v) = Real.sqrt (V2.dot (V2.sub w v) (V2.sub w v)) := rfl
  have hpos : 0 < vnorm (V2.sub w v) := by rw [hn]; exact Real.sqrt_pos.mpr hvw
  show V2.add v (V2.smul _ (V2.smul (1 / vnorm (V2.sub w v)) (V2.sub w v))) = _
  simp only [V2.add, V2.smul]
  congr 1 <;> field_simp

theorem station_point_is_lerp3 (v w : V3 ℝ) (f : ℝ) (hvw : 0 < V3.dot (V3.sub w v) (V3.sub w v)) :
    V3.add v (V3.smul (f * vnorm (V3.sub w v)) (vnormalize (V3.sub w v))) = V3.add v (V3.smul f (V3.sub w v)) := by
  have hn : vnorm (V3.sub w v) = Real.sqrt (V3.dot (V3.sub w v) (V3.sub w v)) := rfl
  have hpos : 0 < vnorm (V3.sub w v) := by rw [hn]; exact Real.sqrt_pos.mpr hvw
  show V3.add v (V3.smul _ (V3.smul (1 / vnorm (V3.sub w v)) (V3.sub w v))) = _
  simp only [V3.add, V3.smul]
  congr 1 <;> field_simp

/-- Asking by fraction is asking by length `f · L` (definitionally). -/
theorem atFraction_eq (c : Curve ℝ P) (f : ℝ) : c.atFraction f = c.atLength (f * c.length) := rfl

/-! non-vacuity: the open 3-4-5 curve is well formed -/
example : WF (⟨[⟨0, 0⟩, ⟨3, 4⟩, ⟨3, 10⟩], [0, 5, 11], false, 1 / 1000, true⟩ : Curve ℝ (V2 ℝ)) :=
  ⟨by simp, by simp, by simp, by norm_num⟩

end C01
