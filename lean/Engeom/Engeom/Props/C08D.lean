import Engeom.Props.C08
import Mathlib.LinearAlgebra.Matrix.Notation
import Mathlib.Analysis.Calculus.Deriv.Add
import Mathlib.Analysis.Calculus.Deriv.Mul
import Mathlib.Algebra.BigOperators.Fin
/-
  C08 (continued) — the Euler-angle derivative matrices `d.x, d.y, d.z` of
  `RotationMatrices::from_euler` equal the entrywise derivatives of the rotation matrix
  `Rx·Ry·Rz` (every entry, every angle), with the skew matrices REGENERATED from the source.
-/

namespace C08

open Real Matrix

abbrev M3 := Matrix (Fin 3) (Fin 3) ℝ

/-- the model's row-structured matrix as a Mathlib matrix -/
def toM (m : Mat3 ℝ) : M3 :=
  !![m.r0.x, m.r0.y, m.r0.z; m.r1.x, m.r1.y, m.r1.z; m.r2.x, m.r2.y, m.r2.z]

theorem toM_mul (a b : Mat3 ℝ) : toM (a.mul b) = toM a * toM b := by
  ext i j
  fin_cases i <;> fin_cases j <;>
    simp [toM, Mat3.mul, Mat3.col0, Mat3.col1, Mat3.col2, V3.dot, Matrix.mul_apply, Fin.sum_univ_three]

theorem toM_transpose (a : Mat3 ℝ) : toM a.transpose = (toM a)ᵀ := by
  ext i j
  fin_cases i <;> fin_cases j <;> simp [toM, Mat3.transpose, Mat3.col0, Mat3.col1, Mat3.col2]

noncomputable def mRx (a : ℝ) : M3 := toM (rotX a)
noncomputable def mRy (a : ℝ) : M3 := toM (rotY a)
noncomputable def mRz (a : ℝ) : M3 := toM (rotZ a)
/-- the skew matrices as regenerated from rotations.rs -/
def PX : M3 := toM (Mat3.ofInts (fun i : Int => (i : ℝ)) Gen.skewX)
def PY : M3 := toM (Mat3.ofInts (fun i : Int => (i : ℝ)) Gen.skewY)
def PZ : M3 := toM (Mat3.ofInts (fun i : Int => (i : ℝ)) Gen.skewZ)

theorem toM_eulerMat (rx ry rz : ℝ) : toM (eulerMat rx ry rz) = mRx rx * mRy ry * mRz rz := by
  unfold eulerMat mRx mRy mRz; rw [toM_mul, toM_mul]

/-! entrywise derivatives of the elementary rotations: `Rx' = PX·Rx`, `Ry' = PY·Ry`, `Rz' = PZ·Rz` -/

theorem mRx_hasDerivAt (a : ℝ) (i j : Fin 3) : HasDerivAt (fun t => mRx t i j) ((PX * mRx a) i j) a := by
  have hc := Real.hasDerivAt_cos a
  have hs := Real.hasDerivAt_sin a
  fin_cases i <;> fin_cases j <;>
    simp [mRx, PX, toM, rotX, Mat3.ofInts, Gen.skewX, Matrix.mul_apply, Fin.sum_univ_three] <;>
    first
    | exact hasDerivAt_const a _
    | exact hc
    | exact hs
    | exact hs.neg
    | (convert hc using 1)
    | (convert hs.neg using 1)

theorem mRy_hasDerivAt (a : ℝ) (i j : Fin 3) : HasDerivAt (fun t => mRy t i j) ((PY * mRy a) i j) a := by
  have hc := Real.hasDerivAt_cos a
  have hs := Real.hasDerivAt_sin a
  fin_cases i <;> fin_cases j <;>
    simp [mRy, PY, toM, rotY, Mat3.ofInts, Gen.skewY, Matrix.mul_apply, Fin.sum_univ_three] <;>
    first
    | exact hasDerivAt_const a _
    | exact hc
    | exact hs
    | exact hs.neg
    | (convert hc using 1)
    | (convert hs.neg using 1)

theorem mRz_hasDerivAt (a : ℝ) (i j : Fin 3) : HasDerivAt (fun t => mRz t i j) ((PZ * mRz a) i j) a := by
  have hc := Real.hasDerivAt_cos a
  have hs := Real.hasDerivAt_sin a
  fin_cases i <;> fin_cases j <;>
    simp [mRz, PZ, toM, rotZ, Mat3.ofInts, Gen.skewZ, Matrix.mul_apply, Fin.sum_univ_three] <;>
    first
    | exact hasDerivAt_const a _
    | exact hc
    | exact hs
    | exact hs.neg
    | (convert hc using 1)
    | (convert hs.neg using 1)

/-- entrywise derivative of `A(t)·N` and `N·A(t)` for a constant matrix `N` -/
theorem hasDerivAt_mul_const (A : ℝ → M3) (A' N : M3) (a : ℝ)
    (h : ∀ i k, HasDerivAt (fun t => A t i k) (A' i k) a) (i j : Fin 3) :
    HasDerivAt (fun t => (A t * N) i j) ((A' * N) i j) a := by
  simp only [Matrix.mul_apply]
  exact HasDerivAt.fun_sum (fun k _ => (h i k).mul_const (N k j))

theorem hasDerivAt_const_mul (A : ℝ → M3) (A' N : M3) (a : ℝ)
    (h : ∀ k j, HasDerivAt (fun t => A t k j) (A' k j) a) (i j : Fin 3) :
    HasDerivAt (fun t => (N * A t) i j) ((N * A') i j) a := by
  simp only [Matrix.mul_apply]
  exact HasDerivAt.fun_sum (fun k _ => (h k j).const_mul (N i k))

/-! the skew matrices commute with "their" rotation, and `Rz` is orthogonal -/
theorem PY_comm (a : ℝ) : PY * mRy a = mRy a * PY := by
  ext i j
  fin_cases i <;> fin_cases j <;>
    simp [mRy, PY, toM, rotY, Mat3.ofInts, Gen.skewY, Matrix.mul_apply, Fin.sum_univ_three]

theorem PZ_comm (a : ℝ) : PZ * mRz a = mRz a * PZ := by
  ext i j
  fin_cases i <;> fin_cases j <;>
    simp [mRz, PZ, toM, rotZ, Mat3.ofInts, Gen.skewZ, Matrix.mul_apply, Fin.sum_univ_three]

theorem mRz_mul_transpose (a : ℝ) : mRz a * (mRz a)ᵀ = 1 := by
  have h := Real.sin_sq_add_cos_sq a
  ext i j
  fin_cases i <;> fin_cases j <;>
    simp [mRz, toM, rotZ, Matrix.mul_apply, Fin.sum_univ_three, Matrix.one_apply] <;> nlinarith

/-- `d.x, d.y, d.z` written with Mathlib matrices -/
theorem eulerD_toM (rx ry rz : ℝ) :
    toM (eulerD (fun i : Int => (i : ℝ)) rx ry rz).1 = PX * (mRx rx * mRy ry * mRz rz) ∧
    toM (eulerD (fun i : Int => (i : ℝ)) rx ry rz).2.1 = mRx rx * (PY * mRy ry) * mRz rz ∧
    toM (eulerD (fun i : Int => (i : ℝ)) rx ry rz).2.2 = mRx rx * mRy ry * (PZ * mRz rz) := by
  refine ⟨?_, ?_, ?_⟩
  · simp only [eulerD, toM_mul, toM_eulerMat]; rfl
  · simp only [eulerD, toM_mul, toM_eulerMat, toM_transpose]
    show mRx rx * mRy ry * mRz rz * (mRz rz)ᵀ * PY * mRz rz = _
    rw [Matrix.mul_assoc (mRx rx * mRy ry) (mRz rz), mRz_mul_transpose, Matrix.mul_one, PY_comm]
    simp only [Matrix.mul_assoc]
  · simp only [eulerD, toM_mul, toM_eulerMat]
    show mRx rx * mRy ry * mRz rz * PZ = _
    rw [PZ_comm]; simp only [Matrix.mul_assoc]

/-- The Euler-angle derivative matrices equal the derivatives of the rotation matrix: every entry,
    each of the three angles. -/
theorem euler_d_hasDerivAt (rx ry rz : ℝ) (i j : Fin 3) :
    HasDerivAt (fun t => toM (eulerMat t ry rz) i j) (toM (eulerD (fun i : Int => (i : ℝ)) rx ry rz).1 i j) rx ∧
    HasDerivAt (fun t => toM (eulerMat rx t rz) i j) (toM (eulerD (fun i : Int => (i : ℝ)) rx ry rz).2.1 i j) ry ∧
    HasDerivAt (fun t => toM (eulerMat rx ry t) i j) (toM (eulerD (fun i : Int => (i : ℝ)) rx ry rz).2.2 i j) rz := by
  obtain ⟨ex, ey, ez⟩ := eulerD_toM rx ry rz
  refine ⟨?_, ?_, ?_⟩
  · rw [ex]
    simp only [toM_eulerMat]
    have h1 := hasDerivAt_mul_const (fun t => mRx t) (PX * mRx rx) (mRy ry) rx (mRx_hasDerivAt rx)
    have h2 := hasDerivAt_mul_const (fun t => mRx t * mRy ry) (PX * mRx rx * mRy ry) (mRz rz) rx h1 i j
    simpa only [Matrix.mul_assoc] using h2
  · rw [ey]
    simp only [toM_eulerMat]
    have h1 := hasDerivAt_const_mul (fun t => mRy t) (PY * mRy ry) (mRx rx) ry (mRy_hasDerivAt ry)
    exact hasDerivAt_mul_const (fun t => mRx rx * mRy t) (mRx rx * (PY * mRy ry)) (mRz rz) ry h1 i j
  · rw [ez]
    simp only [toM_eulerMat]
    exact hasDerivAt_const_mul (fun t => mRz t) (PZ * mRz rz) (mRx rx * mRy ry) rz (mRz_hasDerivAt rz) i j

/-- `rd.x = d.x · Rᵀ = P_X` for a rotation matrix: the rotational Jacobian entries are
    `n · (x̂ × from_rc)` etc. (shown for `x`; `R Rᵀ = 1`). -/
theorem eulerRD_x (rx ry rz : ℝ) (hR : toM (eulerMat rx ry rz) * (toM (eulerMat rx ry rz))ᵀ = 1) :
    toM (eulerRD (fun i : Int => (i : ℝ)) rx ry rz).1 = PX := by
  obtain ⟨ex, _, _⟩ := eulerD_toM rx ry rz
  simp only [eulerRD, toM_mul, toM_transpose, ex]
  rw [← toM_eulerMat, Matrix.mul_assoc, hR, Matrix.mul_one]

end C08
